(* Proofs/PfGenKnuth.v — source tie for div_nxm_normalized (src/algorithms/div/knuth.rs): the
   definition tools_rs2v.py generates from the current text (downward loop `for j in (0..=m).rev()`,
   `continue`, windows `&mut numerator[j..j + n]` passed to the translated kernels submul_nx1 /
   adc_n and written back, `numerator[k] = v`) equals Model/DivKnuth.v div_nxm_normalized, whose
   step function uses the same window operations on nat indices. *)
From Coq Require Import ZArith List Bool Lia.
From RV.Model Require Import Base Word Limbs DivRecip DivSmall.
From RV.Model Require DivKnuth Add.
From RV.Gen Require Import Prim Scalar.
From RV.Proofs Require Import BaseFacts PfLimbs PfGenScalar PfGenAdd PfGenLimbs.
Import ListNotations.
Local Open Scope Z_scope.

(* ---------- Z-indexed primitives of the translation = nat-indexed primitives of the model ---------- *)
Lemma idx_get (l : list Z) i : idx l (Z.of_nat i) = DivKnuth.get l i.
Proof. unfold idx, DivKnuth.get. rewrite Nat2Z.id. reflexivity. Qed.

Lemma subslice_slice (l : list Z) j k :
  subslice l (Z.of_nat j) (Z.of_nat (j + k)) = DivKnuth.slice l j k.
Proof.
  unfold subslice, DivKnuth.slice, lenZ.
  replace (Z.to_nat (Z.of_nat (j + k) - Z.of_nat j)) with k by lia. rewrite Nat2Z.id.
  destruct (Nat.leb_spec (j + k) (length l)).
  - replace ((0 <=? Z.of_nat j) && (Z.of_nat j <=? Z.of_nat (j + k)) && (Z.of_nat (j + k) <=? Z.of_nat (length l)))
      with true by lia. reflexivity.
  - replace ((0 <=? Z.of_nat j) && (Z.of_nat j <=? Z.of_nat (j + k)) && (Z.of_nat (j + k) <=? Z.of_nat (length l)))
      with false by lia. reflexivity.
Qed.

Lemma splice_eq (l : list Z) j w : Prim.splice l (Z.of_nat j) w = DivKnuth.splice l j w.
Proof. unfold Prim.splice, DivKnuth.splice. rewrite Nat2Z.id. reflexivity. Qed.

Lemma upd_set {A} (l : list Z) i x (K : list Z -> outcome A) :
  (do _ <- idx l (Z.of_nat i) ; K (upd l (Z.of_nat i) x)) = (do l' <- DivKnuth.set l i x ; K l').
Proof.
  unfold idx, upd, DivKnuth.set. rewrite Nat2Z.id.
  destruct (Nat.ltb_spec i (length l)) as [H|H].
  - destruct (nth_error l i) eqn:E; [reflexivity|]. apply nth_error_None in E. lia.
  - destruct (nth_error l i) eqn:E; [|reflexivity].
    assert (nth_error l i <> None) by congruence. apply nth_error_Some in H0. lia.
Qed.

Lemma upd_set_tail (l : list Z) i x :
  (do _ <- idx l (Z.of_nat i) ; Val (upd l (Z.of_nat i) x)) = DivKnuth.set l i x.
Proof.
  rewrite (upd_set l i x (fun l' => Val l')). destruct (DivKnuth.set l i x); reflexivity.
Qed.

Lemma set_cases (l : list Z) i x :
  (exists l' y, DivKnuth.set l i x = Val l' /\ idx l (Z.of_nat i) = Val y /\ upd l (Z.of_nat i) x = l') \/
  (DivKnuth.set l i x = Panic /\ idx l (Z.of_nat i) = Panic).
Proof.
  unfold idx, upd, DivKnuth.set. rewrite Nat2Z.id.
  destruct (Nat.ltb_spec i (length l)) as [H|H].
  - left. destruct (nth_error l i) eqn:E; [|apply nth_error_None in E; lia].
    eexists _, _. repeat split.
  - right. destruct (nth_error l i) eqn:E; [|split; reflexivity].
    assert (nth_error l i <> None) by congruence. apply nth_error_Some in H0. lia.
Qed.

(* ---------- words stay words ---------- *)
Lemma In_firstn_sub {A} (l : list A) n x : In x (firstn n l) -> In x l.
Proof.
  revert l. induction n; intros l H; [destruct H|]. destruct l; [destruct H|].
  destruct H as [->|H]; [left; reflexivity | right; apply IHn; exact H].
Qed.
Lemma In_skipn_sub {A} (l : list A) n x : In x (skipn n l) -> In x l.
Proof. revert l. induction n; intros l H; [exact H|]. destruct l; [exact H|]. right. apply IHn. exact H. Qed.
Lemma get_inW l i x : Forall inW l -> DivKnuth.get l i = Val x -> inW x.
Proof.
  unfold DivKnuth.get. intros Hl E. destruct (nth_error l i) eqn:En; [|discriminate].
  injection E as <-. rewrite Forall_forall in Hl. apply Hl. eapply nth_error_In. exact En.
Qed.
Lemma slice_inW l j k w : Forall inW l -> DivKnuth.slice l j k = Val w ->
  Forall inW w /\ length w = k.
Proof.
  unfold DivKnuth.slice. intros Hl E. destruct (Nat.leb_spec (j + k) (length l)); [|discriminate].
  injection E as <-. split.
  - rewrite Forall_forall in *. intros x Hx. apply Hl. apply In_firstn_sub in Hx. eapply In_skipn_sub. exact Hx.
  - rewrite firstn_length, skipn_length. lia.
Qed.
Lemma splice_inW l j w : Forall inW l -> Forall inW w -> Forall inW (DivKnuth.splice l j w).
Proof.
  intros Hl Hw. unfold DivKnuth.splice. apply Forall_app. split.
  - rewrite Forall_forall in *. intros x Hx. apply Hl. eapply In_firstn_sub. exact Hx.
  - apply Forall_app. split; [exact Hw|].
    rewrite Forall_forall in *. intros x Hx. apply Hl. eapply In_skipn_sub. exact Hx.
Qed.
Lemma set_inW l i x l' : Forall inW l -> inW x -> DivKnuth.set l i x = Val l' -> Forall inW l'.
Proof.
  unfold DivKnuth.set. intros Hl Hx E. destruct (Nat.ltb i (length l)); [|discriminate].
  injection E as <-. apply Forall_app. split.
  - rewrite Forall_forall in *. intros y Hy. apply Hl. eapply In_firstn_sub. exact Hy.
  - constructor; [exact Hx|]. rewrite Forall_forall in *. intros y Hy. apply Hl.
    apply (In_skipn_sub l (S i) y). exact Hy.
Qed.

Lemma lo128_inW x : inW (lo128 x).
Proof. unfold lo128, inW. apply Z.mod_pos_bound, B_pos. Qed.

(* ---------- the generated loop body, named ---------- *)
Definition nn_body (divisor : list Z) (n d v : Z) : Z -> list Z -> outcome (list Z) :=
  fun k_j t_52 => let j := 0 + k_j in let 'numerator := t_52 in
  do t_12 <- chk64 (j + n) ; do t_13 <- idx numerator t_12 ; do t_14 <- chk64 (j + n) ; do t_15 <- chk64 (t_14 - 1) ;
  do t_16 <- idx numerator t_15 ; let n21 := (g_dw_join t_13 t_16) in
  do t_17 <- chk64 (j + n) ; do t_18 <- chk64 (t_17 - 2) ; do t_19 <- idx numerator t_18 ; let n0 := t_19 in
  if negb ((n21 <=? d)) then DebugPanic else
  if (n21 =? d) then ( let q := (B - 1) in
    do t_20 <- chk64 (j + n) ; do t_21 <- subslice numerator j t_20 ; do t_22 <- g_submul_nx1 t_21 divisor q ;
    let '(t_24, t_23) := t_22 in let numerator := splice numerator j t_23 in let _carry := t_24 in
    let t_26 := q in do t_25 <- chk64 (j + n) ; do _ <- idx numerator t_25 ; let numerator := upd numerator t_25 t_26 in
    Val numerator) else
  do t_27 <- g_div_3x2_mg10 n21 n0 d v ; let '(q, r) := t_27 in
  do t_28 <- chk64 (j + n) ; do t_29 <- chk64 (t_28 - 2) ; do t_30 <- subslice numerator j t_29 ;
  do t_31 <- chk64 (n - 2) ; do t_32 <- subslice divisor 0 t_31 ; do t_33 <- g_submul_nx1 t_30 t_32 q ;
  let '(t_35, t_34) := t_33 in let numerator := splice numerator j t_34 in let borrow := t_35 in
  let '(r, borrow) := (ov_sub128 r borrow) in
  let t_38 := (g_dw_low r) in do t_36 <- chk64 (j + n) ; do t_37 <- chk64 (t_36 - 2) ; do _ <- idx numerator t_37 ;
  let numerator := upd numerator t_37 t_38 in
  let t_41 := (g_dw_high r) in do t_39 <- chk64 (j + n) ; do t_40 <- chk64 (t_39 - 1) ; do _ <- idx numerator t_40 ;
  let numerator := upd numerator t_40 t_41 in
  do t_48 <- (if borrow then ( let q := (wrap (q - 1)) in
      do t_42 <- chk64 (j + n) ; do t_43 <- subslice numerator j t_42 ; do t_44 <- subslice divisor 0 n ;
      do t_45 <- g_adc_n t_43 t_44 0 ; let '(t_47, t_46) := t_45 in let numerator := splice numerator j t_46 in
      let carry := t_47 in
      if negb (carry =? 1) then DebugPanic else
      Val (q, numerator)) else (Val (q, numerator))) ;
  let '(q, numerator) := t_48 in
  let t_50 := q in do t_49 <- chk64 (j + n) ; do _ <- idx numerator t_49 ; let numerator := upd numerator t_49 t_50 in
  Val numerator.

Lemma g_div_nxm_normalized_unfold numerator divisor :
  g_div_nxm_normalized numerator divisor =
  (if negb ((2 <=? ((lenZ divisor)))) then DebugPanic else
   if negb ((((lenZ divisor)) <? ((lenZ numerator)))) then DebugPanic else
   do t_1 <- chk64 (((lenZ numerator)) - ((lenZ divisor))) ; do t_2 <- subslice numerator t_1 ((lenZ numerator)) ;
   if negb ((match (Add.limbs_cmp t_2 divisor), Lt with Lt, Lt | Eq, Eq | Gt, Gt => true | _, _ => false end)) then DebugPanic else
   do t_3 <- (match (nth_error divisor (Z.to_nat (lenZ divisor - 1))) with Some x_ => Val x_ | None => Panic end) ;
   if negb ((9223372036854775808 <=? t_3)) then DebugPanic else
   let n := (lenZ divisor) in
   do t_4 <- chk64 (((lenZ numerator)) - n) ; do t_5 <- chk64 (t_4 - 1) ; let m := t_5 in
   do t_6 <- chk64 (n - 1) ; do t_7 <- idx divisor t_6 ; do t_8 <- chk64 (n - 2) ; do t_9 <- idx divisor t_8 ;
   let d := (g_dw_join t_7 t_9) in
   do t_10 <- g_reciprocal_2_mg10 d ; let v := t_10 in
   do t_11 <- chk64 (m + 1) ;
   do t_51 <- for_down (Z.to_nat (t_11 - 0)) numerator (nn_body divisor n d v) ;
   let 'numerator := t_51 in
   Val numerator).
Proof. reflexivity. Qed.

Lemma subslice_slice' (l : list Z) j e k : e = Z.of_nat (j + k) ->
  subslice l (Z.of_nat j) e = DivKnuth.slice l j k.
Proof. intros ->. apply subslice_slice. Qed.
Lemma subslice_slice0 (l : list Z) e k : e = Z.of_nat k -> subslice l 0 e = DivKnuth.slice l 0 k.
Proof. intros ->. apply (subslice_slice l 0 k). Qed.

Tactic Notation "head_step" ident(x) ident(E) :=
  match goal with
  | |- obind ?o _ = obind ?o _ => destruct o as [x| | | |] eqn:E; cbn [obind]; try reflexivity
  end.

Lemma join_range' a b : inW a -> inW b -> 0 <= join a b < BB.
Proof. apply join_range. Qed.

Lemma nn_body_eq divisor d v num j :
  Forall inW num -> Forall inW divisor -> (2 <= length divisor)%nat -> 0 <= d < BB -> inW v ->
  Z.of_nat (j + length divisor) + 1 < B ->
  nn_body divisor (Z.of_nat (length divisor)) d v (Z.of_nat j) num
  = DivKnuth.nxm_norm_step num divisor (length divisor) j d v.
Proof.
  intros Hnum Hdiv Hn Hd Hv HB. set (n := length divisor) in *.
  unfold nn_body, DivKnuth.nxm_norm_step. cbv beta zeta.
  replace (0 + Z.of_nat j) with (Z.of_nat j) by lia.
  rewrite <- !Nat2Z.inj_add.
  rewrite !(chk64_ok (Z.of_nat (j + n))) by lia. cbn [obind].
  rewrite !(chk64_ok (Z.of_nat (j + n) - 1)) by lia. cbn [obind].
  rewrite !(chk64_ok (Z.of_nat (j + n) - 2)) by lia. cbn [obind].
  replace (Z.of_nat (j + n) - 1) with (Z.of_nat (j + n - 1)) by lia.
  replace (Z.of_nat (j + n) - 2) with (Z.of_nat (j + n - 2)) by lia.
  rewrite !idx_get.
  head_step n2 En2. pose proof (get_inW _ _ _ Hnum En2) as Hn2.
  head_step n1 En1. pose proof (get_inW _ _ _ Hnum En1) as Hn1.
  rewrite g_dw_join_eq by assumption.
  head_step n0 En0. pose proof (get_inW _ _ _ Hnum En0) as Hn0.
  pose proof (join_range' n2 n1 Hn2 Hn1) as Hn21.
  destruct (Z.leb_spec (join n2 n1) d); destruct (Z.ltb_spec d (join n2 n1)); try lia; cbn [negb]; [|reflexivity].
  destruct (Z.eqb_spec (join n2 n1) d) as [Eq|Nq].
  - (* n21 = d : q = MAX *)
    rewrite subslice_slice. head_step w Ew.
    destruct (slice_inW _ _ _ _ Hnum Ew) as [Hw Hlw].
    rewrite g_submul_nx1_eq by (auto; unfold inW; rewrite B_val; lia).
    destruct (submul_nx1 w divisor (B - 1)) as [[r bo]| | | |] eqn:Es; cbn [obind omap fst snd]; try reflexivity.
    rewrite splice_eq. apply upd_set_tail.
  - rewrite g_div_3x2_mg10_eq by assumption.
    destruct (div_3x2_mg10 (join n2 n1) n0 d v) as [[q r]| | | |] eqn:Ed; cbn [obind]; try reflexivity.
    destruct (div_3x2_mg10_range _ _ _ _ _ _ Ed) as [Hq Hr].
    rewrite (subslice_slice' num j _ (n - 2)) by lia. head_step w Ew.
    destruct (slice_inW _ _ _ _ Hnum Ew) as [Hw Hlw].
    rewrite chk64_ok by lia. cbn [obind].
    rewrite (subslice_slice0 divisor _ (n - 2)) by lia. head_step dl Edl.
    destruct (slice_inW _ _ _ _ Hdiv Edl) as [Hdl Hldl].
    rewrite g_submul_nx1_eq by assumption.
    destruct (submul_nx1 w dl q) as [[sr sbo]| | | |] eqn:Es; cbn [obind omap fst snd]; try reflexivity.
    destruct (submul_nx1_spec w dl q ltac:(lia) Hw Hdl Hq) as (sr' & sbo' & Es' & Hlsr & Hwsr & Hsbo & _).
    rewrite Es in Es'. injection Es' as <- <-.
    rewrite splice_eq.
    change (Prim.ov_sub128 r sbo) with (DivKnuth.ov_sub128 r sbo).
    unfold DivKnuth.ov_sub128. cbv beta iota.
    rewrite g_dw_low_eq. rewrite g_dw_high_eq by (unfold wrap128; apply Z.mod_pos_bound; reflexivity).
    pose proof (splice_inW num j sr Hnum Hwsr) as Hnum1.
    destruct (set_cases (DivKnuth.splice num j sr) (j + n - 2) (lo128 (wrap128 (r - sbo))))
      as [(num2 & y2 & E2 & Ei2 & Eu2) | (E2 & Ei2)]; rewrite E2, Ei2; cbn [obind]; [rewrite Eu2 | reflexivity].
    pose proof (set_inW _ _ _ _ Hnum1 (lo128_inW _) E2) as Hnum2.
    assert (Hhi : inW (hi128 (wrap128 (r - sbo)))).
    { apply hi128_inW. unfold wrap128. apply Z.mod_pos_bound. reflexivity. }
    destruct (set_cases num2 (j + n - 1) (hi128 (wrap128 (r - sbo))))
      as [(num3 & y3 & E3 & Ei3 & Eu3) | (E3 & Ei3)]; rewrite E3, Ei3; cbn [obind]; [rewrite Eu3 | reflexivity].
    pose proof (set_inW _ _ _ _ Hnum2 Hhi E3) as Hnum3.
    destruct (r <? sbo).
    + (* add back *)
      rewrite subslice_slice.
      destruct (DivKnuth.slice num3 j n) as [w2| | | |] eqn:Ew2; cbn [obind]; try reflexivity.
      destruct (slice_inW _ _ _ _ Hnum3 Ew2) as [Hw2 Hlw2].
      rewrite (subslice_slice0 divisor _ n) by lia.
      destruct (DivKnuth.slice divisor 0 n) as [dn| | | |] eqn:Edn; cbn [obind]; try reflexivity.
      destruct (slice_inW _ _ _ _ Hdiv Edn) as [Hdn Hldn].
      rewrite g_adc_n_eq by (auto; try lia; unfold inW; pose proof B_pos; lia).
      destruct (adc_n w2 dn 0) as [[ar ac]| | | |] eqn:Ea; cbn [obind omap fst snd]; try reflexivity.
      rewrite splice_eq.
      destruct (ac =? 1); cbn [negb obind]; [|reflexivity].
      apply upd_set_tail.
    + cbn [obind]. apply upd_set_tail.
Qed.

Lemma wrap_inW x : inW (wrap x).
Proof. unfold wrap, inW. apply Z.mod_pos_bound, B_pos. Qed.

(* the step keeps the numerator a word list *)
Lemma nxm_norm_step_words num divisor j d v num' :
  Forall inW num -> Forall inW divisor ->
  DivKnuth.nxm_norm_step num divisor (length divisor) j d v = Val num' -> Forall inW num'.
Proof.
  intros Hnum Hdiv E. set (n := length divisor) in *. unfold DivKnuth.nxm_norm_step in E.
  destruct (DivKnuth.get num (j + n)) as [n2| | | |]; cbn [obind] in E; try discriminate.
  destruct (DivKnuth.get num (j + n - 1)) as [n1| | | |]; cbn [obind] in E; try discriminate.
  destruct (DivKnuth.get num (j + n - 2)) as [n0| | | |]; cbn [obind] in E; try discriminate.
  destruct (d <? join n2 n1); [discriminate|].
  assert (HM : inW (B - 1)) by (unfold inW; rewrite B_val; lia).
  destruct (join n2 n1 =? d).
  - destruct (DivKnuth.slice num j n) as [w| | | |] eqn:Ew; cbn [obind] in E; try discriminate.
    destruct (slice_inW _ _ _ _ Hnum Ew) as [Hw Hlw].
    destruct (submul_nx1_spec w divisor (B - 1) ltac:(lia) Hw Hdiv HM) as (sr & sbo & Es & _ & Hwsr & _ & _).
    rewrite Es in E. cbn [obind fst snd] in E.
    apply (set_inW _ _ _ _ (splice_inW num j sr Hnum Hwsr) HM E).
  - destruct (div_3x2_mg10 (join n2 n1) n0 d v) as [[q r]| | | |] eqn:Ed; cbn [obind] in E; try discriminate.
    destruct (div_3x2_mg10_range _ _ _ _ _ _ Ed) as [Hq Hr].
    destruct (DivKnuth.slice num j (n - 2)) as [w| | | |] eqn:Ew; cbn [obind] in E; try discriminate.
    destruct (slice_inW _ _ _ _ Hnum Ew) as [Hw Hlw].
    destruct (DivKnuth.slice divisor 0 (n - 2)) as [dl| | | |] eqn:Edl; cbn [obind] in E; try discriminate.
    destruct (slice_inW _ _ _ _ Hdiv Edl) as [Hdl Hldl].
    destruct (submul_nx1_spec w dl q ltac:(lia) Hw Hdl Hq) as (sr & sbo & Es & _ & Hwsr & _ & _).
    rewrite Es in E. cbn [obind fst snd] in E.
    pose proof (splice_inW num j sr Hnum Hwsr) as Hnum1.
    unfold DivKnuth.ov_sub128 in E. cbv beta iota in E.
    destruct (DivKnuth.set (DivKnuth.splice num j sr) (j + n - 2) (lo128 (wrap128 (r - sbo)))) as [num2| | | |] eqn:E2;
      cbn [obind] in E; try discriminate.
    pose proof (set_inW _ _ _ _ Hnum1 (lo128_inW _) E2) as Hnum2.
    assert (Hhi : inW (hi128 (wrap128 (r - sbo)))).
    { apply hi128_inW. unfold wrap128. apply Z.mod_pos_bound. reflexivity. }
    destruct (DivKnuth.set num2 (j + n - 1) (hi128 (wrap128 (r - sbo)))) as [num3| | | |] eqn:E3;
      cbn [obind] in E; try discriminate.
    pose proof (set_inW _ _ _ _ Hnum2 Hhi E3) as Hnum3.
    destruct (r <? sbo).
    + destruct (DivKnuth.slice num3 j n) as [w2| | | |] eqn:Ew2; cbn [obind] in E; try discriminate.
      destruct (slice_inW _ _ _ _ Hnum3 Ew2) as [Hw2 Hlw2].
      destruct (DivKnuth.slice divisor 0 n) as [dn| | | |] eqn:Edn; cbn [obind] in E; try discriminate.
      destruct (slice_inW _ _ _ _ Hdiv Edn) as [Hdn Hldn].
      destruct (adc_n_spec w2 dn 0 ltac:(lia) Hw2 Hdn ltac:(unfold inW; pose proof B_pos; lia))
        as (ar & ac & Ea & _ & Hwar & _ & _).
      rewrite Ea in E. cbn [obind fst snd] in E.
      destruct (ac =? 1); cbn [obind fst snd] in E; [|discriminate].
      apply (set_inW _ _ _ _ (splice_inW num3 j ar Hnum3 Hwar) (wrap_inW _) E).
    + cbn [obind fst snd] in E. apply (set_inW _ _ _ _ Hnum3 Hq E).
Qed.

Lemma nn_loop_eq divisor d v k : forall num,
  Forall inW num -> Forall inW divisor -> (2 <= length divisor)%nat -> 0 <= d < BB -> inW v ->
  Z.of_nat (k + length divisor) < B ->
  for_down k num (nn_body divisor (Z.of_nat (length divisor)) d v)
  = DivKnuth.nxm_norm_loop k num divisor (length divisor) d v.
Proof.
  induction k as [|k IH]; intros num Hnum Hdiv Hn Hd Hv HB; [reflexivity|].
  cbn [for_down DivKnuth.nxm_norm_loop].
  rewrite (nn_body_eq divisor d v num k Hnum Hdiv Hn Hd Hv ltac:(lia)).
  destruct (DivKnuth.nxm_norm_step num divisor (length divisor) k d v) as [num'| | | |] eqn:Es; cbn [obind]; try reflexivity.
  apply IH; auto; [apply (nxm_norm_step_words num divisor k d v num' Hnum Hdiv Es) | lia].
Qed.

Lemma subslice_tail (l : list Z) k : (k <= length l)%nat ->
  subslice l (Z.of_nat (length l) - Z.of_nat k) (lenZ l) = Val (skipn (length l - k) l).
Proof.
  intros H. unfold subslice, lenZ.
  replace ((0 <=? Z.of_nat (length l) - Z.of_nat k) && (Z.of_nat (length l) - Z.of_nat k <=? Z.of_nat (length l))
           && (Z.of_nat (length l) <=? Z.of_nat (length l))) with true by lia.
  replace (Z.to_nat (Z.of_nat (length l) - (Z.of_nat (length l) - Z.of_nat k))) with k by lia.
  replace (Z.to_nat (Z.of_nat (length l) - Z.of_nat k)) with (length l - k)%nat by lia.
  f_equal. apply firstn_all2. rewrite skipn_length. lia.
Qed.

Lemma obind_val {A} (o : outcome A) : (do x <- o ; Val x) = o.
Proof. destruct o; reflexivity. Qed.

Theorem g_div_nxm_normalized_eq numerator divisor :
  Forall inW numerator -> Forall inW divisor -> lenZ numerator < B ->
  g_div_nxm_normalized numerator divisor = DivKnuth.div_nxm_normalized numerator divisor.
Proof.
  intros Hnum Hdiv HB. rewrite g_div_nxm_normalized_unfold. unfold DivKnuth.div_nxm_normalized, lenZ in *.
  set (n := length divisor). set (L := length numerator) in *.
  destruct (Nat.ltb_spec n 2) as [H2|H2].
  { replace (2 <=? Z.of_nat n) with false by lia. reflexivity. }
  replace (2 <=? Z.of_nat n) with true by lia. cbn [negb].
  destruct (Nat.ltb_spec n L) as [HL|HL]; cbn [negb].
  2:{ replace (Z.of_nat n <? Z.of_nat L) with false by lia. reflexivity. }
  replace (Z.of_nat n <? Z.of_nat L) with true by lia. cbn [negb].
  rewrite chk64_ok by lia. cbn [obind].
  pose proof (subslice_tail numerator n ltac:(fold L; lia)) as Et. unfold lenZ in Et. fold L in Et.
  rewrite Et. cbn [obind].
  destruct (Add.limbs_cmp (skipn (L - n) numerator) divisor); cbn [negb]; try reflexivity.
  assert (Hne : divisor <> []) by (destruct divisor; [cbn in H2; lia | discriminate]).
  pose proof (nth_error_last divisor Hne) as El. unfold lenZ in El. fold n in El. rewrite El. cbn [obind].
  change 9223372036854775808 with (2 ^ 63).
  destruct (Z.ltb_spec (last divisor 0) (2 ^ 63)); destruct (Z.leb_spec (2 ^ 63) (last divisor 0)); try lia;
    cbn [negb]; [reflexivity|].
  cbv zeta.
  rewrite ?(chk64_ok (Z.of_nat L - Z.of_nat n)) by lia. cbn [obind].
  rewrite (chk64_ok (Z.of_nat L - Z.of_nat n - 1)) by lia. cbn [obind].
  rewrite (chk64_ok (Z.of_nat n - 1)) by lia. cbn [obind].
  replace (Z.of_nat n - 1) with (Z.of_nat (n - 1)) by lia. rewrite idx_get.
  destruct (DivKnuth.get divisor (n - 1)) as [d1| | | |] eqn:E1; cbn [obind]; try reflexivity.
  rewrite (chk64_ok (Z.of_nat n - 2)) by lia. cbn [obind].
  replace (Z.of_nat n - 2) with (Z.of_nat (n - 2)) by lia. rewrite idx_get.
  destruct (DivKnuth.get divisor (n - 2)) as [d0| | | |] eqn:E0; cbn [obind]; try reflexivity.
  pose proof (get_inW _ _ _ Hdiv E1) as Hd1. pose proof (get_inW _ _ _ Hdiv E0) as Hd0.
  rewrite g_dw_join_eq by assumption.
  pose proof (join_range d1 d0 Hd1 Hd0) as Hd.
  rewrite g_reciprocal_2_mg10_eq by exact Hd.
  destruct (reciprocal_2_mg10 (join d1 d0)) as [v| | | |] eqn:Ev; cbn [obind]; try reflexivity.
  pose proof (reciprocal_2_mg10_inW _ _ Ev) as Hv.
  rewrite chk64_ok by lia. cbn [obind].
  replace (Z.to_nat (Z.of_nat L - Z.of_nat n - 1 + 1 - 0)) with (S (L - n - 1)) by lia.
  pose proof (nn_loop_eq divisor (join d1 d0) v (S (L - n - 1)) numerator Hnum Hdiv H2 Hd Hv ltac:(fold n; lia)) as El2.
  fold n in El2. rewrite El2. apply obind_val.
Qed.

(* ====================== div_nxm (un-normalised Knuth) ====================== *)
Definition nxm_body (divisor : list Z) (n d v shift : Z) : Z -> (list Z * Z) -> outcome (list Z * Z) :=
  fun k_j t_77 => let j := 0 + k_j in let '(numerator, q_high) := t_77 in do t_33 <- (do t_16 <- chk64 (j + n) ; let n2 := (get_or_default numerator t_16) in
  do t_17 <- chk64 (j + n) ; do t_18 <- chk64 (t_17 - 1) ; do t_19 <- idx numerator t_18 ; let n21 := (g_dw_join n2 t_19) in
  do t_20 <- chk64 (j + n) ; do t_21 <- chk64 (t_20 - 2) ; do t_22 <- idx numerator t_21 ; let n0 := t_22 in
  do t_32 <- (if (shift =? 0) then (Val (n21, n0)) else (do t_23 <- chksh 128 shift ; do t_24 <- chk64 (64 - shift) ; do t_25 <- chksh 64 t_24 ; do t_26 <- chksh 64 shift ; do t_27 <- chk64 (j + n) ; do t_28 <- chk64 (t_27 - 3) ; do t_29 <- idx numerator t_28 ; do t_30 <- chk64 (64 - shift) ; do t_31 <- chksh 64 t_30 ; Val ((Z.lor ((shl128 n21 t_23)) ((shr64 n0 t_25))), (Z.lor ((shl64 n0 t_26)) ((shr64 t_29 t_31)))))) ; Val t_32) ; let '(n21, n0) := t_33 in
   if negb ((n21 <=? d)) then DebugPanic else
  do t_70 <- (if (n21 <? d) then (do t_34 <- g_div_3x2_mg10 n21 n0 d v ; let '(q, r) := t_34 in
   do t_64 <- (if (negb (q =? 0)) then (do t_55 <- (if (shift =? 0) then (do t_35 <- chk64 (j + n) ; do t_36 <- chk64 (t_35 - 2) ; do t_37 <- subslice numerator j t_36 ; do t_38 <- chk64 (n - 2) ; do t_39 <- subslice divisor 0 t_38 ; do t_40 <- g_submul_nx1 t_37 t_39 q ; let '(t_42, t_41) := t_40 in let numerator := splice numerator j t_41 in let borrow := t_42 in
   let '(r, borrow) := (ov_sub128 r borrow) in
   let t_45 := (g_dw_low r) in do t_43 <- chk64 (j + n) ; do t_44 <- chk64 (t_43 - 2) ; do _ <- idx numerator t_44 ; let numerator := upd numerator t_44 t_45 in
   let t_48 := (g_dw_high r) in do t_46 <- chk64 (j + n) ; do t_47 <- chk64 (t_46 - 1) ; do _ <- idx numerator t_47 ; let numerator := upd numerator t_47 t_48 in
  Val (borrow, numerator)) else (do t_49 <- chk64 (j + n) ; do t_50 <- subslice numerator j t_49 ; do t_51 <- g_submul_nx1 t_50 divisor q ; let '(t_53, t_52) := t_51 in let numerator := splice numerator j t_52 in let borrow := t_53 in
  do t_54 <- chk64 (j + n) ; let n2 := (get_or_default numerator t_54) in
  Val ((negb (borrow =? n2)), numerator))) ; let '(t_56, numerator) := t_55 in let borrow := t_56 in
   do t_63 <- (if borrow then ( let q := (wrap (q - 1)) in 
  do t_57 <- chk64 (j + n) ; do t_58 <- subslice numerator j t_57 ; do t_59 <- subslice divisor 0 n ; do t_60 <- g_adc_n t_58 t_59 0 ; let '(t_62, t_61) := t_60 in let numerator := splice numerator j t_61 in let carry := t_62 in
   if negb (carry =? 1) then DebugPanic else
  Val (q, numerator)) else (Val (q, numerator))) ;
  let '(q, numerator) := t_63 in
  Val (numerator, q)) else (Val (numerator, q))) ;
  let '(numerator, q) := t_64 in
  Val (q, numerator)) else ( let q := (B - 1) in
  do t_65 <- chk64 (j + n) ; do t_66 <- subslice numerator j t_65 ; do t_67 <- g_submul_nx1 t_66 divisor q ; let '(t_69, t_68) := t_67 in let numerator := splice numerator j t_68 in let _carry := t_69 in
  Val (q, numerator))) ; let '(t_71, numerator) := t_70 in let q := t_71 in
  do t_72 <- chk64 (j + n) ; do t_75 <- (if (t_72 <? ((lenZ numerator))) then ( let t_74 := q in do t_73 <- chk64 (j + n) ; do _ <- idx numerator t_73 ; let numerator := upd numerator t_73 t_74 in
  Val (numerator, q_high)) else ( let q_high := q in 
  Val (numerator, q_high))) ;
  let '(numerator, q_high) := t_75 in
  Val (numerator, q_high).

Lemma g_div_nxm_unfold numerator divisor :
  g_div_nxm numerator divisor =
  (
  if negb ((3 <=? ((lenZ divisor)))) then DebugPanic else
   if negb ((((lenZ divisor)) <=? ((lenZ numerator)))) then DebugPanic else
  do t_1 <- (match (nth_error divisor (Z.to_nat (lenZ divisor - 1))) with Some x_ => Val x_ | None => Panic end) ; if negb ((1 <=? t_1)) then DebugPanic else
   let n := (lenZ divisor) in
  do t_2 <- chk64 (((lenZ numerator)) - n) ; let m := t_2 in
  do t_13 <- (do t_3 <- chk64 (n - 1) ; do t_4 <- idx divisor t_3 ; do t_5 <- chk64 (n - 2) ; do t_6 <- idx divisor t_5 ; let d := (g_dw_join t_4 t_6) in
   let shift := (clz64 ((g_dw_high d))) in
  do t_12 <- (if (shift =? 0) then (Val d) else (do t_7 <- chksh 128 shift ; do t_8 <- chk64 (n - 3) ; do t_9 <- idx divisor t_8 ; do t_10 <- chk64 (64 - shift) ; do t_11 <- chksh 64 t_10 ; Val (Z.lor ((shl128 d t_7)) ((shr64 t_9 t_11))))) ; Val (t_12, shift)) ; let '(d, shift) := t_13 in
   if negb ((170141183460469231731687303715884105728 <=? d)) then DebugPanic else
  do t_14 <- g_reciprocal_2_mg10 d ; let v := t_14 in
  let q_high := 0 in
  do t_15 <- chk64 (m + 1) ; do t_76 <- for_down (Z.to_nat (t_15 - 0)) (numerator, q_high) (nxm_body divisor n d v shift) ;
  let '(numerator, q_high) := t_76 in
  do t_78 <- subslice numerator 0 n ; if negb (lenZ divisor =? lenZ t_78) then Panic else let divisor := t_78 in
   do numerator <- copy_within numerator n ((lenZ numerator)) 0 ;
   let t_79 := q_high in do _ <- idx numerator m ; let numerator := upd numerator m t_79 in
  do t_80 <- chk64 (m + 1) ; do numerator <- fill_from numerator t_80 0 ;
  Val (numerator, divisor)).
Proof. reflexivity. Qed.

Lemma obind_assoc {A C D} (o : outcome A) (f : A -> outcome C) (g : C -> outcome D) :
  (do x <- (do y <- o ; f y) ; g x) = (do y <- o ; do x <- f y ; g x).
Proof. destruct o; reflexivity. Qed.

Lemma get_or_default_eq (l : list Z) i : get_or_default l (Z.of_nat i) = DivKnuth.get_or0 l i.
Proof. unfold get_or_default, DivKnuth.get_or0. rewrite Nat2Z.id. reflexivity. Qed.

Lemma get_or0_inW l i : Forall inW l -> inW (DivKnuth.get_or0 l i).
Proof.
  intros H. unfold DivKnuth.get_or0. destruct (Nat.ltb_spec i (length l)).
  - rewrite Forall_forall in H. apply H. apply nth_In. exact H0.
  - rewrite nth_overflow by lia. unfold inW. pose proof B_pos. lia.
Qed.

Lemma lor_range k a b : 0 < k -> 0 <= a < 2 ^ k -> 0 <= b < 2 ^ k -> 0 <= Z.lor a b < 2 ^ k.
Proof.
  intros Hk Ha Hb. split; [apply Z.lor_nonneg; lia|].
  destruct (Z.eq_dec (Z.lor a b) 0) as [->|N]; [lia|].
  apply Z.log2_lt_pow2; [pose proof (proj2 (Z.lor_nonneg a b) (conj (proj1 Ha) (proj1 Hb))); lia|].
  rewrite Z.log2_lor by lia. apply Z.max_lub_lt.
  - destruct (Z.eq_dec a 0) as [->|]; [cbn; lia|]. apply Z.log2_lt_pow2; lia.
  - destruct (Z.eq_dec b 0) as [->|]; [cbn; lia|]. apply Z.log2_lt_pow2; lia.
Qed.

Lemma store_eq (num : list Z) k q qh :
  (do p <- (if Z.of_nat k <? lenZ num
            then (do _ <- idx num (Z.of_nat k) ; Val (upd num (Z.of_nat k) q, qh))
            else Val (num, q)) ;
   let '(numerator, q_high) := p in Val (numerator, q_high))
  = (if Nat.ltb k (length num) then (do num0 <- DivKnuth.set num k q ; Val (num0, qh)) else Val (num, q)).
Proof.
  unfold lenZ. destruct (Nat.ltb_spec k (length num)) as [H|H].
  - replace (Z.of_nat k <? Z.of_nat (length num)) with true by lia.
    destruct (set_cases num k q) as [(l' & y & Es & Ei & Eu) | (Es & Ei)]; rewrite Es, Ei; cbn [obind];
      [rewrite Eu; reflexivity | reflexivity].
  - replace (Z.of_nat k <? Z.of_nat (length num)) with false by lia. reflexivity.
Qed.

Lemma nxm_body_eq divisor d v shift num qh j :
  Forall inW num -> Forall inW divisor -> (3 <= length divisor)%nat -> 0 <= d < BB -> inW v ->
  0 <= shift <= 63 -> Z.of_nat (j + length divisor) + 1 < B ->
  nxm_body divisor (Z.of_nat (length divisor)) d v shift (Z.of_nat j) (num, qh)
  = DivKnuth.nxm_step num divisor (length divisor) j d v shift qh.
Proof.
  intros Hnum Hdiv Hn Hd Hv Hsh HB. set (n := length divisor) in *.
  unfold nxm_body, DivKnuth.nxm_step. cbv beta zeta iota.
  replace (0 + Z.of_nat j) with (Z.of_nat j) by lia.
  rewrite <- !Nat2Z.inj_add.
  rewrite !(chk64_ok (Z.of_nat (j + n))) by lia. cbn [obind].
  rewrite !(chk64_ok (Z.of_nat (j + n) - 1)) by lia. cbn [obind].
  rewrite !(chk64_ok (Z.of_nat (j + n) - 2)) by lia. cbn [obind].
  assert (H3 : 0 <= Z.of_nat (j + n) - 3 < B) by lia.
  rewrite ?(chk64_ok (Z.of_nat (j + n) - 3)) by exact H3. cbn [obind].
  replace (Z.of_nat (j + n) - 1) with (Z.of_nat (j + n - 1)) by lia.
  replace (Z.of_nat (j + n) - 2) with (Z.of_nat (j + n - 2)) by lia.
  replace (Z.of_nat (j + n) - 3) with (Z.of_nat (j + n - 3)) by lia.
  rewrite !idx_get, !get_or_default_eq. rewrite !obind_assoc.
  pose proof (get_or0_inW num (j + n) Hnum) as Hn2. set (n2 := DivKnuth.get_or0 num (j + n)) in *.
  head_step n1 En1. pose proof (get_inW _ _ _ Hnum En1) as Hn1.
  rewrite !obind_assoc.
  head_step n0 En0. pose proof (get_inW _ _ _ Hnum En0) as Hn0.
  rewrite g_dw_join_eq by assumption.
  pose proof (join_range n2 n1 Hn2 Hn1) as Hn21.
  assert (HM : inW (B - 1)) by (unfold inW; rewrite B_val; lia).
  destruct (Z.eqb_spec shift 0) as [Es|Es].
  - (* shift = 0 *)
    cbn [obind]. cbv beta iota.
    destruct (Z.leb_spec (join n2 n1) d); destruct (Z.ltb_spec d (join n2 n1)); try lia; cbn [negb]; [|reflexivity].
    destruct (Z.ltb_spec (join n2 n1) d) as [Hlt|Hge].
    + rewrite g_div_3x2_mg10_eq by assumption. rewrite !obind_assoc.
      destruct (div_3x2_mg10 (join n2 n1) n0 d v) as [[q r]| | | |] eqn:Ed; cbn [obind]; try reflexivity.
      destruct (div_3x2_mg10_range _ _ _ _ _ _ Ed) as [Hq Hr].
      cbv beta iota.
      destruct (Z.eqb_spec q 0) as [Eq0|Nq0]; cbn [negb obind].
      * (* q = 0: nothing to subtract *)
        cbv beta iota. apply store_eq.
      * (* q <> 0, shift = 0: subtract q * divisor[..n-2] from the window, fix the two top limbs *)
        rewrite !obind_assoc.
        rewrite (subslice_slice' num j _ (n - 2)) by lia.
        destruct (DivKnuth.slice num j (n - 2)) as [w| | | |] eqn:Ew; cbn [obind]; try reflexivity. rewrite ?obind_assoc.
        destruct (slice_inW _ _ _ _ Hnum Ew) as [Hw Hlw].
        rewrite chk64_ok by lia. cbn [obind].
        rewrite (subslice_slice0 divisor _ (n - 2)) by lia.
        destruct (DivKnuth.slice divisor 0 (n - 2)) as [dl| | | |] eqn:Edl; cbn [obind]; try reflexivity. rewrite ?obind_assoc.
        destruct (slice_inW _ _ _ _ Hdiv Edl) as [Hdl Hldl].
        rewrite g_submul_nx1_eq by assumption.
        destruct (submul_nx1_spec w dl q ltac:(lia) Hw Hdl Hq) as (sr & sbo & Es' & Hlsr & Hwsr & Hsbo & _).
        rewrite Es'. cbn [obind omap fst snd]. cbv beta iota.
        rewrite splice_eq.
        change (Prim.ov_sub128 r sbo) with (DivKnuth.ov_sub128 r sbo).
        unfold DivKnuth.ov_sub128. cbv beta iota.
        rewrite g_dw_low_eq. rewrite g_dw_high_eq by (unfold wrap128; apply Z.mod_pos_bound; reflexivity).
        pose proof (splice_inW num j sr Hnum Hwsr) as Hnum1.
        destruct (set_cases (DivKnuth.splice num j sr) (j + n - 2) (lo128 (wrap128 (r - sbo))))
          as [(num2 & y2 & E2 & Ei2 & Eu2) | (E2 & Ei2)]; rewrite E2, Ei2; cbn [obind]; [rewrite Eu2 | reflexivity].
        pose proof (set_inW _ _ _ _ Hnum1 (lo128_inW _) E2) as Hnum2.
        assert (Hhi : inW (hi128 (wrap128 (r - sbo)))).
        { apply hi128_inW. unfold wrap128. apply Z.mod_pos_bound. reflexivity. }
        destruct (set_cases num2 (j + n - 1) (hi128 (wrap128 (r - sbo))))
          as [(num3 & y3 & E3 & Ei3 & Eu3) | (E3 & Ei3)]; rewrite E3, Ei3; cbn [obind]; [rewrite Eu3 | reflexivity].
        pose proof (set_inW _ _ _ _ Hnum2 Hhi E3) as Hnum3.
        destruct (r <? sbo); cbv beta iota.
        -- rewrite ?obind_assoc. rewrite subslice_slice.
           destruct (DivKnuth.slice num3 j n) as [w2| | | |] eqn:Ew2; cbn [obind]; try reflexivity.
           destruct (slice_inW _ _ _ _ Hnum3 Ew2) as [Hw2 Hlw2].
           rewrite ?obind_assoc. rewrite (subslice_slice0 divisor _ n) by lia.
           destruct (DivKnuth.slice divisor 0 n) as [dn| | | |] eqn:Edn; cbn [obind]; try reflexivity.
           destruct (slice_inW _ _ _ _ Hdiv Edn) as [Hdn Hldn].
           rewrite ?obind_assoc.
           rewrite g_adc_n_eq by (auto; try lia; unfold inW; pose proof B_pos; lia).
           destruct (adc_n w2 dn 0) as [[ar ac]| | | |] eqn:Ea; cbn [obind omap fst snd]; try reflexivity.
           cbv beta iota. rewrite splice_eq.
           destruct (ac =? 1); cbn [negb obind]; [|reflexivity].
           cbv beta iota. apply store_eq.
        -- cbn [obind]. cbv beta iota. apply store_eq.
    + (* n21 = d: the quotient digit is forced to MAX *)
      rewrite !obind_assoc. rewrite subslice_slice.
      destruct (DivKnuth.slice num j n) as [w| | | |] eqn:Ew; cbn [obind]; try reflexivity. rewrite ?obind_assoc.
      destruct (slice_inW _ _ _ _ Hnum Ew) as [Hw Hlw].
      rewrite g_submul_nx1_eq by assumption.
      destruct (submul_nx1 w divisor (B - 1)) as [[sr sbo]| | | |] eqn:Es'; cbn [obind omap fst snd]; try reflexivity.
      cbv beta iota. rewrite splice_eq. apply store_eq.
  - (* shift <> 0: the three leading numerator limbs are shifted on the fly *)
    rewrite !obind_assoc.
    rewrite !chksh_ok by lia. cbn [obind].
    rewrite !(chk64_ok (64 - shift)) by (rewrite B_val; lia). cbn [obind].
    rewrite !chksh_ok by lia. cbn [obind].
    rewrite ?obind_assoc.
    destruct (DivKnuth.get num (j + n - 3)) as [n3| | | |] eqn:En3; cbn [obind]; try reflexivity.
    pose proof (get_inW _ _ _ Hnum En3) as Hn3.
    cbv beta iota.
    change (Prim.shl128 (join n2 n1) shift) with (DivSmall.shl128 (join n2 n1) shift).
    set (n21 := Z.lor (DivSmall.shl128 (join n2 n1) shift) (shr64 n0 (64 - shift))).
    set (n0' := Z.lor (shl64 n0 shift) (shr64 n3 (64 - shift))).
    assert (Hn21' : 0 <= n21 < BB).
    { unfold n21. apply (lor_range 128); [lia | unfold DivSmall.shl128; apply Z.mod_pos_bound; reflexivity |].
      pose proof (shr64_inW n0 (64 - shift) Hn0 ltac:(lia)) as Hx. unfold inW in Hx. rewrite B_val in Hx.
      change (2 ^ 128) with 340282366920938463463374607431768211456. lia. }
    assert (Hn0' : inW n0') by (unfold n0'; apply lor_inW; [apply shl64_inW | apply shr64_inW; [exact Hn3 | lia]]).
    clearbody n21 n0'.
    destruct (Z.leb_spec n21 d); destruct (Z.ltb_spec d n21); try lia; cbn [negb]; [|reflexivity].
    destruct (Z.ltb_spec n21 d) as [Hlt|Hge].
    + rewrite g_div_3x2_mg10_eq by assumption. rewrite !obind_assoc.
      destruct (div_3x2_mg10 n21 n0' d v) as [[q r]| | | |] eqn:Ed; cbn [obind]; try reflexivity.
      destruct (div_3x2_mg10_range _ _ _ _ _ _ Ed) as [Hq Hr].
      cbv beta iota.
      destruct (Z.eqb_spec q 0) as [Eq0|Nq0]; cbn [negb obind].
      * cbv beta iota. apply store_eq.
      * rewrite !obind_assoc. rewrite subslice_slice.
        destruct (DivKnuth.slice num j n) as [w| | | |] eqn:Ew; cbn [obind]; try reflexivity. rewrite ?obind_assoc.
        destruct (slice_inW _ _ _ _ Hnum Ew) as [Hw Hlw].
        rewrite g_submul_nx1_eq by assumption.
        destruct (submul_nx1_spec w divisor q ltac:(lia) Hw Hdiv Hq) as (sr & sbo & Es' & Hlsr & Hwsr & Hsbo & _).
        rewrite Es'. cbn [obind omap fst snd]. cbv beta iota.
        rewrite splice_eq, get_or_default_eq.
        pose proof (splice_inW num j sr Hnum Hwsr) as Hnum1.
        destruct (negb (sbo =? DivKnuth.get_or0 (DivKnuth.splice num j sr) (j + n))); cbv beta iota.
        -- rewrite ?obind_assoc. rewrite subslice_slice.
           destruct (DivKnuth.slice (DivKnuth.splice num j sr) j n) as [w2| | | |] eqn:Ew2; cbn [obind]; try reflexivity.
           destruct (slice_inW _ _ _ _ Hnum1 Ew2) as [Hw2 Hlw2].
           rewrite ?obind_assoc. rewrite (subslice_slice0 divisor _ n) by lia.
           destruct (DivKnuth.slice divisor 0 n) as [dn| | | |] eqn:Edn; cbn [obind]; try reflexivity.
           destruct (slice_inW _ _ _ _ Hdiv Edn) as [Hdn Hldn].
           rewrite ?obind_assoc.
           rewrite g_adc_n_eq by (auto; try lia; unfold inW; pose proof B_pos; lia).
           destruct (adc_n w2 dn 0) as [[ar ac]| | | |] eqn:Ea; cbn [obind omap fst snd]; try reflexivity.
           cbv beta iota. rewrite splice_eq.
           destruct (ac =? 1); cbn [negb obind]; [|reflexivity].
           cbv beta iota. apply store_eq.
        -- cbn [obind]. cbv beta iota. apply store_eq.
    + rewrite !obind_assoc. rewrite subslice_slice.
      destruct (DivKnuth.slice num j n) as [w| | | |] eqn:Ew; cbn [obind]; try reflexivity. rewrite ?obind_assoc.
      destruct (slice_inW _ _ _ _ Hnum Ew) as [Hw Hlw].
      rewrite g_submul_nx1_eq by assumption.
      destruct (submul_nx1 w divisor (B - 1)) as [[sr sbo]| | | |] eqn:Es'; cbn [obind omap fst snd]; try reflexivity.
      cbv beta iota. rewrite splice_eq. apply store_eq.
Qed.

Lemma set_length l i x l' : DivKnuth.set l i x = Val l' -> length l' = length l.
Proof.
  unfold DivKnuth.set. destruct (Nat.ltb_spec i (length l)); [|discriminate]. intros E. injection E as <-.
  change (length (firstn i l ++ x :: skipn (S i) l) = length l).
  rewrite app_length. change (length (x :: skipn (S i) l)) with (S (length (skipn (S i) l))).
  rewrite firstn_length, (skipn_length (S i) l). lia.
Qed.
Lemma slice_bound l j k w : DivKnuth.slice l j k = Val w -> (j + k <= length l)%nat.
Proof. unfold DivKnuth.slice. destruct (Nat.leb_spec (j + k) (length l)); [auto | discriminate]. Qed.
Lemma splice_length l j w : (j + length w <= length l)%nat -> length (DivKnuth.splice l j w) = length l.
Proof.
  intros H. unfold DivKnuth.splice. rewrite !app_length, firstn_length, skipn_length. lia.
Qed.

(* the step keeps the numerator a word list of the same length *)
Lemma nxm_step_inv num divisor j d v shift qh num' qh' :
  Forall inW num -> Forall inW divisor ->
  DivKnuth.nxm_step num divisor (length divisor) j d v shift qh = Val (num', qh') ->
  Forall inW num' /\ length num' = length num.
Proof.
  intros Hnum Hdiv E. set (n := length divisor) in *. unfold DivKnuth.nxm_step in E. cbv zeta in E.
  destruct (DivKnuth.get num (j + n - 1)) as [n1| | | |]; cbn [obind] in E; try discriminate.
  destruct (DivKnuth.get num (j + n - 2)) as [n0| | | |]; cbn [obind] in E; try discriminate.
  assert (HM : inW (B - 1)) by (unfold inW; rewrite B_val; lia).
  (* whatever the fetched (n21, n0) are, the three ways of updating num preserve words and length *)
  assert (Store : forall (nm : list Z) q, Forall inW nm -> length nm = length num -> inW q ->
            (if Nat.ltb (j + n) (length nm) then (do num1 <- DivKnuth.set nm (j + n) q ; Val (num1, qh)) else Val (nm, q))
            = Val (num', qh') -> Forall inW num' /\ length num' = length num).
  { intros nm q Hnm Hl Hq Est. destruct (Nat.ltb (j + n) (length nm)).
    - destruct (DivKnuth.set nm (j + n) q) as [nm1| | | |] eqn:E1; cbn [obind] in Est; try discriminate.
      injection Est as <- _. split; [eapply set_inW; eauto | rewrite (set_length _ _ _ _ E1); exact Hl].
    - injection Est as <- _. split; assumption. }
  assert (Sub : forall (nm : list Z) k (dv : list Z) q w sr sbo, Forall inW nm -> length nm = length num ->
            Forall inW dv -> length dv = k -> inW q ->
            DivKnuth.slice nm j k = Val w -> submul_nx1 w dv q = Val (sr, sbo) ->
            Forall inW (DivKnuth.splice nm j sr) /\ length (DivKnuth.splice nm j sr) = length num).
  { intros nm k dv q w sr sbo Hnm Hl Hdv Hk Hq Ew Es.
    destruct (slice_inW _ _ _ _ Hnm Ew) as [Hw Hlw]. pose proof (slice_bound _ _ _ _ Ew) as Hb.
    destruct (submul_nx1_spec w dv q ltac:(lia) Hw Hdv Hq) as (sr' & sbo' & Es' & Hlsr & Hwsr & _).
    rewrite Es in Es'. injection Es' as <- <-.
    split; [apply splice_inW; assumption | rewrite splice_length; lia]. }
  assert (AddBack : forall (nm : list Z) q, Forall inW nm -> length nm = length num -> inW q ->
            (do w <- DivKnuth.slice nm j n ; do dn <- DivKnuth.slice divisor 0 n ; do ac <- adc_n w dn 0 ;
             if snd ac =? 1 then Val (wrap (q - 1), DivKnuth.splice nm j (fst ac)) else DebugPanic)
            = Val (wrap (q - 1), DivKnuth.splice nm j (fst (match adc_n (match DivKnuth.slice nm j n with Val w => w | _ => [] end)
                                                                   (match DivKnuth.slice divisor 0 n with Val w => w | _ => [] end) 0
                                                             with Val p => p | _ => ([], 0) end))) ->
            True) by (intros; exact I).
  clear AddBack.
  match type of E with (do nn <- ?F ; _) = _ => destruct F as [[n21 n0']| | | |] eqn:EF end; cbn [obind] in E; try discriminate.
  cbv beta iota in E.
  destruct (d <? n21); [discriminate|].
  destruct (n21 <? d).
  - destruct (div_3x2_mg10 n21 n0' d v) as [[q r]| | | |] eqn:Ed; cbn [obind] in E; try discriminate.
    destruct (div_3x2_mg10_range _ _ _ _ _ _ Ed) as [Hq Hr]. cbv beta iota in E.
    destruct (negb (q =? 0)); cbn [obind] in E.
    + destruct (shift =? 0).
      * destruct (DivKnuth.slice num j (n - 2)) as [w| | | |] eqn:Ew; cbn [obind] in E; try discriminate.
        destruct (DivKnuth.slice divisor 0 (n - 2)) as [dl| | | |] eqn:Edl; cbn [obind] in E; try discriminate.
        destruct (slice_inW _ _ _ _ Hdiv Edl) as [Hdl Hldl].
        destruct (submul_nx1 w dl q) as [[sr sbo]| | | |] eqn:Es; cbn [obind fst snd] in E; try discriminate.
        destruct (Sub num (n - 2)%nat dl q w sr sbo Hnum eq_refl Hdl Hldl Hq Ew Es) as [Hw1 Hl1].
        unfold DivKnuth.ov_sub128 in E. cbv beta iota in E.
        destruct (DivKnuth.set (DivKnuth.splice num j sr) (j + n - 2) (lo128 (wrap128 (r - sbo)))) as [num2| | | |] eqn:E2;
          cbn [obind] in E; try discriminate.
        pose proof (set_inW _ _ _ _ Hw1 (lo128_inW _) E2) as Hw2. pose proof (set_length _ _ _ _ E2) as Hl2.
        assert (Hhi : inW (hi128 (wrap128 (r - sbo)))).
        { apply hi128_inW. unfold wrap128. apply Z.mod_pos_bound. reflexivity. }
        destruct (DivKnuth.set num2 (j + n - 1) (hi128 (wrap128 (r - sbo)))) as [num3| | | |] eqn:E3;
          cbn [obind] in E; try discriminate.
        pose proof (set_inW _ _ _ _ Hw2 Hhi E3) as Hw3. pose proof (set_length _ _ _ _ E3) as Hl3.
        destruct (r <? sbo).
        -- destruct (DivKnuth.slice num3 j n) as [w2| | | |] eqn:Ew2; cbn [obind] in E; try discriminate.
           destruct (slice_inW _ _ _ _ Hw3 Ew2) as [Hww2 Hlw2]. pose proof (slice_bound _ _ _ _ Ew2) as Hb2.
           destruct (DivKnuth.slice divisor 0 n) as [dn| | | |] eqn:Edn; cbn [obind] in E; try discriminate.
           destruct (slice_inW _ _ _ _ Hdiv Edn) as [Hdn Hldn].
           destruct (adc_n_spec w2 dn 0 ltac:(lia) Hww2 Hdn ltac:(unfold inW; pose proof B_pos; lia))
             as (ar & ac & Ea & Hlar & Hwar & _ & _).
           rewrite Ea in E. cbn [obind fst snd] in E.
           destruct (ac =? 1); cbn [obind] in E; [|discriminate].
           apply (Store (DivKnuth.splice num3 j ar) (wrap (q - 1))
                    (splice_inW _ _ _ Hw3 Hwar) ltac:(rewrite splice_length; lia) (wrap_inW _) E).
        -- cbn [obind] in E. apply (Store num3 q Hw3 ltac:(lia) Hq E).
      * destruct (DivKnuth.slice num j n) as [w| | | |] eqn:Ew; cbn [obind] in E; try discriminate.
        destruct (submul_nx1 w divisor q) as [[sr sbo]| | | |] eqn:Es; cbn [obind fst snd] in E; try discriminate.
        destruct (Sub num n divisor q w sr sbo Hnum eq_refl Hdiv eq_refl Hq Ew Es) as [Hw1 Hl1].
        destruct (negb (sbo =? DivKnuth.get_or0 (DivKnuth.splice num j sr) (j + n))).
        -- destruct (DivKnuth.slice (DivKnuth.splice num j sr) j n) as [w2| | | |] eqn:Ew2; cbn [obind] in E; try discriminate.
           destruct (slice_inW _ _ _ _ Hw1 Ew2) as [Hww2 Hlw2]. pose proof (slice_bound _ _ _ _ Ew2) as Hb2.
           destruct (DivKnuth.slice divisor 0 n) as [dn| | | |] eqn:Edn; cbn [obind] in E; try discriminate.
           destruct (slice_inW _ _ _ _ Hdiv Edn) as [Hdn Hldn].
           destruct (adc_n_spec w2 dn 0 ltac:(lia) Hww2 Hdn ltac:(unfold inW; pose proof B_pos; lia))
             as (ar & ac & Ea & Hlar & Hwar & _ & _).
           rewrite Ea in E. cbn [obind fst snd] in E.
           destruct (ac =? 1); cbn [obind] in E; [|discriminate].
           apply (Store (DivKnuth.splice (DivKnuth.splice num j sr) j ar) (wrap (q - 1))
                    (splice_inW _ _ _ Hw1 Hwar) ltac:(rewrite splice_length; lia) (wrap_inW _) E).
        -- cbn [obind] in E. apply (Store _ q Hw1 Hl1 Hq E).
    + apply (Store num q Hnum eq_refl Hq E).
  - destruct (DivKnuth.slice num j n) as [w| | | |] eqn:Ew; cbn [obind] in E; try discriminate.
    destruct (submul_nx1 w divisor (B - 1)) as [[sr sbo]| | | |] eqn:Es; cbn [obind fst snd] in E; try discriminate.
    destruct (Sub num n divisor (B - 1) w sr sbo Hnum eq_refl Hdiv eq_refl HM Ew Es) as [Hw1 Hl1].
    apply (Store _ (B - 1) Hw1 Hl1 HM E).
Qed.

Lemma nxm_loop_eq divisor d v shift k : forall num qh,
  Forall inW num -> Forall inW divisor -> (3 <= length divisor)%nat -> 0 <= d < BB -> inW v ->
  0 <= shift <= 63 -> Z.of_nat (k + length divisor) < B ->
  for_down k (num, qh) (nxm_body divisor (Z.of_nat (length divisor)) d v shift)
  = DivKnuth.nxm_loop k num divisor (length divisor) d v shift qh.
Proof.
  induction k as [|k IH]; intros num qh Hnum Hdiv Hn Hd Hv Hsh HB; [reflexivity|].
  cbn [for_down DivKnuth.nxm_loop].
  rewrite (nxm_body_eq divisor d v shift num qh k Hnum Hdiv Hn Hd Hv Hsh ltac:(lia)).
  destruct (DivKnuth.nxm_step num divisor (length divisor) k d v shift qh) as [[num' qh']| | | |] eqn:Es;
    cbn [obind fst snd]; try reflexivity.
  destruct (nxm_step_inv num divisor k d v shift qh num' qh' Hnum Hdiv Es) as [Hw' _].
  apply IH; auto. lia.
Qed.

Lemma nxm_loop_length divisor d v shift k : forall num qh num' qh',
  Forall inW num -> Forall inW divisor ->
  DivKnuth.nxm_loop k num divisor (length divisor) d v shift qh = Val (num', qh') ->
  length num' = length num.
Proof.
  induction k as [|k IH]; intros num qh num' qh' Hnum Hdiv E.
  - cbn in E. injection E as <- _. reflexivity.
  - cbn [DivKnuth.nxm_loop] in E.
    destruct (DivKnuth.nxm_step num divisor (length divisor) k d v shift qh) as [[num1 qh1]| | | |] eqn:Es;
      cbn [obind fst snd] in E; try discriminate.
    destruct (nxm_step_inv num divisor k d v shift qh num1 qh1 Hnum Hdiv Es) as [Hw1 Hl1].
    rewrite (IH num1 qh1 num' qh' Hw1 Hdiv E). exact Hl1.
Qed.

Lemma idx_app_at' (pre : list Z) x post i : i = Z.of_nat (length pre) -> idx (pre ++ x :: post) i = Val x.
Proof. intros ->. apply idx_app_mid. Qed.
Lemma upd_app_at' (pre : list Z) x post i v : i = Z.of_nat (length pre) ->
  upd (pre ++ x :: post) i v = pre ++ v :: post.
Proof. intros ->. apply upd_app_mid. Qed.

(* divisor.copy_from_slice(&numerator[..n]); numerator.copy_within(n.., 0); numerator[m] = q_high;
   numerator[m + 1..].fill(0) *)
Lemma nxm_epilogue (num divisor : list Z) qh n m :
  length num = (m + n)%nat -> (1 <= n)%nat -> length divisor = n -> Z.of_nat (m + n) + 1 < B ->
  (do t_78 <- subslice num 0 (Z.of_nat n) ;
   if negb (lenZ divisor =? lenZ t_78) then Panic else
   do numerator <- copy_within num (Z.of_nat n) (lenZ num) 0 ;
   do _ <- idx numerator (Z.of_nat m) ; let numerator := upd numerator (Z.of_nat m) qh in
   do t_80 <- chk64 (Z.of_nat m + 1) ; do numerator <- fill_from numerator t_80 0 ;
   Val (numerator, t_78))
  = Val (skipn n num ++ qh :: repeat 0 (length num - m - 1), firstn n num).
Proof.
  intros HL Hn Hd HB.
  rewrite (subslice_slice0 num (Z.of_nat n) n eq_refl). unfold DivKnuth.slice.
  replace (Nat.leb (0 + n) (length num)) with true by (symmetry; apply Nat.leb_le; lia).
  cbn [obind skipn].
  unfold lenZ. rewrite firstn_length. replace (Nat.min n (length num)) with n by lia.
  rewrite Hd. rewrite Z.eqb_refl. cbn [negb].
  unfold copy_within, lenZ.
  replace ((0 <=? Z.of_nat n) && (Z.of_nat n <=? Z.of_nat (length num)) && (Z.of_nat (length num) <=? Z.of_nat (length num))
           && (0 <=? 0) && (0 + (Z.of_nat (length num) - Z.of_nat n) <=? Z.of_nat (length num))) with true by lia.
  cbn [obind]. change (Z.to_nat 0) with 0%nat. cbn [firstn app].
  replace (Z.to_nat (Z.of_nat (length num) - Z.of_nat n)) with m by lia.
  replace (Z.to_nat (0 + (Z.of_nat (length num) - Z.of_nat n))) with m by lia.
  rewrite Nat2Z.id.
  assert (Hsk : length (skipn n num) = m) by (rewrite skipn_length; lia).
  rewrite (firstn_all2 (skipn n num)) by lia.
  destruct (skipn m num) as [|y rest] eqn:Esm.
  { assert (length (skipn m num) = 0%nat) by (rewrite Esm; reflexivity). rewrite skipn_length in H. lia. }
  assert (Hrest : length rest = (n - 1)%nat).
  { assert (length (skipn m num) = S (length rest)) by (rewrite Esm; reflexivity). rewrite skipn_length in H. lia. }
  rewrite (idx_app_at' (skipn n num) y rest) by lia. cbn [obind].
  rewrite (upd_app_at' (skipn n num) y rest) by lia.
  rewrite chk64_ok by lia. cbn [obind].
  unfold fill_from, lenZ. rewrite app_length. cbn [length].
  replace ((0 <=? Z.of_nat m + 1) && (Z.of_nat m + 1 <=? Z.of_nat (length (skipn n num) + S (length rest)))) with true by lia.
  cbn [obind]. replace (Z.to_nat (Z.of_nat m + 1)) with (length (skipn n num ++ [qh])) by (rewrite app_length; cbn [length]; lia).
  replace (skipn n num ++ qh :: rest) with ((skipn n num ++ [qh]) ++ rest) by (rewrite <- app_assoc; reflexivity).
  rewrite firstn_app, firstn_all, Nat.sub_diag. cbn [firstn]. rewrite app_nil_r.
  rewrite <- app_assoc. cbn [app].
  replace (length (skipn n num) + S (length rest) - length (skipn n num ++ [qh]))%nat with (length num - m - 1)%nat
    by (rewrite app_length; cbn [length]; lia).
  reflexivity.
Qed.

Theorem g_div_nxm_eq numerator divisor :
  Forall inW numerator -> Forall inW divisor -> lenZ numerator + 1 < B ->
  g_div_nxm numerator divisor = DivKnuth.div_nxm numerator divisor.
Proof.
  intros Hnum Hdiv HB. rewrite g_div_nxm_unfold. unfold DivKnuth.div_nxm, lenZ in *.
  set (n := length divisor). set (L := length numerator) in *.
  destruct (Nat.ltb_spec n 3) as [H3|H3].
  { replace (3 <=? Z.of_nat n) with false by lia. reflexivity. }
  replace (3 <=? Z.of_nat n) with true by lia. cbn [negb].
  destruct (Nat.ltb_spec L n) as [HL|HL]; cbn [negb].
  { replace (Z.of_nat n <=? Z.of_nat L) with false by lia. reflexivity. }
  replace (Z.of_nat n <=? Z.of_nat L) with true by lia. cbn [negb].
  assert (Hne : divisor <> []) by (destruct divisor; [cbn in H3; lia | discriminate]).
  pose proof (nth_error_last divisor Hne) as El. unfold lenZ in El. fold n in El. rewrite El. cbn [obind].
  destruct (Z.ltb_spec (last divisor 0) 1); destruct (Z.leb_spec 1 (last divisor 0)); try lia; cbn [negb]; [reflexivity|].
  cbv zeta.
  rewrite (chk64_ok (Z.of_nat L - Z.of_nat n)) by lia. cbn [obind].
  rewrite !obind_assoc.
  rewrite (chk64_ok (Z.of_nat n - 1)) by lia. cbn [obind].
  replace (Z.of_nat n - 1) with (Z.of_nat (n - 1)) by lia. rewrite idx_get. rewrite ?obind_assoc.
  destruct (DivKnuth.get divisor (n - 1)) as [d1| | | |] eqn:E1; cbn [obind]; try reflexivity.
  rewrite (chk64_ok (Z.of_nat n - 2)) by lia. cbn [obind].
  replace (Z.of_nat n - 2) with (Z.of_nat (n - 2)) by lia. rewrite idx_get. rewrite ?obind_assoc.
  destruct (DivKnuth.get divisor (n - 2)) as [d0| | | |] eqn:E0; cbn [obind]; try reflexivity.
  pose proof (get_inW _ _ _ Hdiv E1) as Hd1. pose proof (get_inW _ _ _ Hdiv E0) as Hd0.
  rewrite !g_dw_join_eq by assumption.
  pose proof (join_range d1 d0 Hd1 Hd0) as Hd.
  rewrite !g_dw_high_eq by exact Hd.
  rewrite (PfDivBase.hi128_join d1 d0 Hd0).
  (* shift = clz64 d1: d1 > 0 because ... the last limb of the divisor is d1 *)
  assert (Ed1 : d1 = last divisor 0).
  { unfold DivKnuth.get in E1. rewrite <- (Nat2Z.id (n - 1)) in E1.
    replace (Z.of_nat (n - 1)) with (Z.of_nat (length divisor) - 1) in E1 by (fold n; lia).
    change (Z.of_nat (length divisor)) with (lenZ divisor) in E1. rewrite (nth_error_last divisor Hne) in E1.
    injection E1 as <-. reflexivity. }
  assert (Hd1pos : 0 < d1 < B) by (unfold inW in Hd1; lia).
  destruct (PfDivSmall.clz64_spec d1 Hd1pos) as [Hsh _].
  set (shift := clz64 d1) in *.
  rewrite ?obind_assoc.
  assert (Hcore : forall dd, 0 <= dd < BB ->
    (if negb (170141183460469231731687303715884105728 <=? dd) then DebugPanic else
     do t_14 <- g_reciprocal_2_mg10 dd ;
     do t_15 <- chk64 (Z.of_nat L - Z.of_nat n + 1) ;
     do t_76 <- for_down (Z.to_nat (t_15 - 0)) (numerator, 0) (nxm_body divisor (Z.of_nat n) dd t_14 shift) ;
     let '(numerator0, q_high) := t_76 in
     do t_78 <- subslice numerator0 0 (Z.of_nat n) ;
     if negb (Z.of_nat (length divisor) =? Z.of_nat (length t_78)) then Panic else
     do numerator1 <- copy_within numerator0 (Z.of_nat n) (Z.of_nat (length numerator0)) 0 ;
     do _ <- idx numerator1 (Z.of_nat L - Z.of_nat n) ;
     do t_80 <- chk64 (Z.of_nat L - Z.of_nat n + 1) ;
     do numerator2 <- fill_from (upd numerator1 (Z.of_nat L - Z.of_nat n) q_high) t_80 0 ;
     Val (numerator2, t_78))
    = (if dd <? 2 ^ 127 then DebugPanic else
       do v <- reciprocal_2_mg10 dd ;
       do p <- DivKnuth.nxm_loop (S (L - n)) numerator divisor n dd v shift 0 ;
       let '(num, q_high) := p in
       Val (skipn n num ++ q_high :: repeat 0 (length num - (L - n) - 1), firstn n num))).
  { intros dd Hdd. change 170141183460469231731687303715884105728 with (2 ^ 127).
    destruct (Z.ltb_spec dd (2 ^ 127)); destruct (Z.leb_spec (2 ^ 127) dd); try lia; cbn [negb]; [reflexivity|].
    rewrite g_reciprocal_2_mg10_eq by exact Hdd.
    destruct (reciprocal_2_mg10 dd) as [v| | | |] eqn:Ev; cbn [obind]; try reflexivity.
    pose proof (reciprocal_2_mg10_inW _ _ Ev) as Hv.
    rewrite !chk64_ok by lia. cbn [obind].
    replace (Z.to_nat (Z.of_nat L - Z.of_nat n + 1 - 0)) with (S (L - n)) by lia.
    pose proof (nxm_loop_eq divisor dd v shift (S (L - n)) numerator 0 Hnum Hdiv H3 Hdd Hv Hsh ltac:(fold n; lia)) as Elp.
    fold n in Elp. rewrite Elp.
    destruct (DivKnuth.nxm_loop (S (L - n)) numerator divisor n dd v shift 0) as [[num qh]| | | |] eqn:En; cbn [obind]; try reflexivity.
    pose proof (nxm_loop_length divisor dd v shift (S (L - n)) numerator 0 num qh Hnum Hdiv En) as Hln. fold L in Hln.
    replace (Z.of_nat L - Z.of_nat n) with (Z.of_nat (L - n)) by lia.
    pose proof (nxm_epilogue num divisor qh n (L - n) ltac:(lia) ltac:(lia) eq_refl ltac:(lia)) as Eep.
    unfold lenZ in Eep. cbv zeta in Eep. rewrite chk64_ok in Eep by lia. cbn [obind] in Eep.
    exact Eep. }
  destruct (Z.eqb_spec shift 0) as [Es|Es].
  - cbn [obind]. cbv beta iota. apply (Hcore (join d1 d0) Hd).
  - rewrite chksh_ok by lia. cbn [obind].
    rewrite (chk64_ok (Z.of_nat n - 3)) by lia. cbn [obind].
    replace (Z.of_nat n - 3) with (Z.of_nat (n - 3)) by lia. rewrite idx_get. rewrite ?obind_assoc.
    destruct (DivKnuth.get divisor (n - 3)) as [d3| | | |] eqn:E3; cbn [obind]; try reflexivity.
    pose proof (get_inW _ _ _ Hdiv E3) as Hd3.
    rewrite (chk64_ok (64 - shift)) by (rewrite B_val; lia). cbn [obind].
    rewrite chksh_ok by lia. cbn [obind]. cbv beta iota.
    change (Prim.shl128 (join d1 d0) shift) with (DivSmall.shl128 (join d1 d0) shift).
    apply Hcore.
    apply (lor_range 128); [lia | unfold DivSmall.shl128; apply Z.mod_pos_bound; reflexivity |].
    pose proof (shr64_inW d3 (64 - shift) Hd3 ltac:(lia)) as Hx. unfold inW in Hx. rewrite B_val in Hx.
    change (2 ^ 128) with 340282366920938463463374607431768211456. lia.
Qed.
