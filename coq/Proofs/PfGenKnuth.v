(* Proofs/PfGenKnuth.v — source tie for div_nxm_normalized (src/algorithms/div/knuth.rs): the
   definition tools_rs2v.py generates from the current text (downward loop `for j in (0..=m).rev()`,
   `continue`, windows `&mut numerator[j..j + n]` passed to the translated kernels submul_nx1 /
   adc_n and written back, `numerator[k] = v`) equals Model/DivKnuth.v div_nxm_normalized, whose
   step function uses the same window operations on nat indices. *)
From Coq Require Import ZArith List Bool Lia.
From RV.Model Require Import Base Word Limbs DivRecip DivSmall.
From RV.Model Require DivKnuth Add.
From RV.Gen Require Import Prim Scalar.
From RV.Proofs Require Import BaseFacts PfLimbs PfGenScalar PfGenAdd PfGenLimbs.
Import ListNotations.
Local Open Scope Z_scope.

(* ---------- Z-indexed primitives of the translation = nat-indexed primitives of the model ---------- *)
Lemma idx_get (l : list Z) i : idx l (Z.of_nat i) = DivKnuth.get l i.
Proof. unfold idx, DivKnuth.get. rewrite Nat2Z.id. reflexivity. Qed.

Lemma subslice_slice (l : list Z) j k :
  subslice l (Z.of_nat j) (Z.of_nat (j + k)) = DivKnuth.slice l j k.
Proof.
  unfold subslice, DivKnuth.slice, lenZ.
  replace (Z.to_nat (Z.of_nat (j + k) - Z.of_nat j)) with k by lia. rewrite Nat2Z.id.
  destruct (Nat.leb_spec (j + k) (length l)).
  - replace ((0 <=? Z.of_nat j) && (Z.of_nat j <=? Z.of_nat (j + k)) && (Z.of_nat (j + k) <=? Z.of_nat (length l)))
      with true by lia. reflexivity.
  - replace ((0 <=? Z.of_nat j) && (Z.of_nat j <=? Z.of_nat (j + k)) && (Z.of_nat (j + k) <=? Z.of_nat (length l)))
      with false by lia. reflexivity.
Qed.

Lemma splice_eq (l : list Z) j w : Prim.splice l (Z.of_nat j) w = DivKnuth.splice l j w.
Proof. unfold Prim.splice, DivKnuth.splice. rewrite Nat2Z.id. reflexivity. Qed.

Lemma upd_set {A} (l : list Z) i x (K : list Z -> outcome A) :
  (do _ <- idx l (Z.of_nat i) ; K (upd l (Z.of_nat i) x)) = (do l' <- DivKnuth.set l i x ; K l').
Proof.
  unfold idx, upd, DivKnuth.set. rewrite Nat2Z.id.
  destruct (Nat.ltb_spec i (length l)) as [H|H].
  - destruct (nth_error l i) eqn:E; [reflexivity|]. apply nth_error_None in E. lia.
  - destruct (nth_error l i) eqn:E; [|reflexivity].
    assert (nth_error l i <> None) by congruence. apply nth_error_Some in H0. lia.
Qed.

Lemma upd_set_tail (l : list Z) i x :
  (do _ <- idx l (Z.of_nat i) ; Val (upd l (Z.of_nat i) x)) = DivKnuth.set l i x.
Proof.
  rewrite (upd_set l i x (fun l' => Val l')). destruct (DivKnuth.set l i x); reflexivity.
Qed.

Lemma set_cases (l : list Z) i x :
  (exists l' y, DivKnuth.set l i x = Val l' /\ idx l (Z.of_nat i) = Val y /\ upd l (Z.of_nat i) x = l') \/
  (DivKnuth.set l i x = Panic /\ idx l (Z.of_nat i) = Panic).
Proof.
  unfold idx, upd, DivKnuth.set. rewrite Nat2Z.id.
  destruct (Nat.ltb_spec i (length l)) as [H|H].
  - left. destruct (nth_error l i) eqn:E; [|apply nth_error_None in E; lia].
    eexists _, _. repeat split.
  - right. destruct (nth_error l i) eqn:E; [|split; reflexivity].
    assert (nth_error l i <> None) by congruence. apply nth_error_Some in H0. lia.
Qed.

(* ---------- words stay words ---------- *)
Lemma In_firstn_sub {A} (l : list A) n x : In x (firstn n l) -> In x l.
Proof.
  revert l. induction n; intros l H; [destruct H|]. destruct l; [destruct H|].
  destruct H as [->|H]; [left; reflexivity | right; apply IHn; exact H].
Qed.
Lemma In_skipn_sub {A} (l : list A) n x : In x (skipn n l) -> In x l.
Proof. revert l. induction n; intros l H; [exact H|]. destruct l; [exact H|]. right. apply IHn. exact H. Qed.
Lemma get_inW l i x : Forall inW l -> DivKnuth.get l i = Val x -> inW x.
Proof.
  unfold DivKnuth.get. intros Hl E. destruct (nth_error l i) eqn:En; [|discriminate].
  injection E as <-. rewrite Forall_forall in Hl. apply Hl. eapply nth_error_In. exact En.
Qed.
Lemma slice_inW l j k w : Forall inW l -> DivKnuth.slice l j k = Val w ->
  Forall inW w /\ length w = k.
Proof.
  unfold DivKnuth.slice. intros Hl E. destruct (Nat.leb_spec (j + k) (length l)); [|discriminate].
  injection E as <-. split.
  - rewrite Forall_forall in *. intros x Hx. apply Hl. apply In_firstn_sub in Hx. eapply In_skipn_sub. exact Hx.
  - rewrite firstn_length, skipn_length. lia.
Qed.
Lemma splice_inW l j w : Forall inW l -> Forall inW w -> Forall inW (DivKnuth.splice l j w).
Proof.
  intros Hl Hw. unfold DivKnuth.splice. apply Forall_app. split.
  - rewrite Forall_forall in *. intros x Hx. apply Hl. eapply In_firstn_sub. exact Hx.
  - apply Forall_app. split; [exact Hw|].
    rewrite Forall_forall in *. intros x Hx. apply Hl. eapply In_skipn_sub. exact Hx.
Qed.
Lemma set_inW l i x l' : Forall inW l -> inW x -> DivKnuth.set l i x = Val l' -> Forall inW l'.
Proof.
  unfold DivKnuth.set. intros Hl Hx E. destruct (Nat.ltb i (length l)); [|discriminate].
  injection E as <-. apply Forall_app. split.
  - rewrite Forall_forall in *. intros y Hy. apply Hl. eapply In_firstn_sub. exact Hy.
  - constructor; [exact Hx|]. rewrite Forall_forall in *. intros y Hy. apply Hl.
    apply (In_skipn_sub l (S i) y). exact Hy.
Qed.

Lemma lo128_inW x : inW (lo128 x).
Proof. unfold lo128, inW. apply Z.mod_pos_bound, B_pos. Qed.

(* ---------- the generated loop body, named ---------- *)
Definition nn_body (divisor : list Z) (n d v : Z) : Z -> list Z -> outcome (list Z) :=
  fun k_j t_52 => let j := 0 + k_j in let 'numerator := t_52 in
  do t_12 <- chk64 (j + n) ; do t_13 <- idx numerator t_12 ; do t_14 <- chk64 (j + n) ; do t_15 <- chk64 (t_14 - 1) ;
  do t_16 <- idx numerator t_15 ; let n21 := (g_dw_join t_13 t_16) in
  do t_17 <- chk64 (j + n) ; do t_18 <- chk64 (t_17 - 2) ; do t_19 <- idx numerator t_18 ; let n0 := t_19 in
  if negb ((n21 <=? d)) then DebugPanic else
  if (n21 =? d) then ( let q := (B - 1) in
    do t_20 <- chk64 (j + n) ; do t_21 <- subslice numerator j t_20 ; do t_22 <- g_submul_nx1 t_21 divisor q ;
    let '(t_24, t_23) := t_22 in let numerator := splice numerator j t_23 in let _carry := t_24 in
    let t_26 := q in do t_25 <- chk64 (j + n) ; do _ <- idx numerator t_25 ; let numerator := upd numerator t_25 t_26 in
    Val numerator) else
  do t_27 <- g_div_3x2_mg10 n21 n0 d v ; let '(q, r) := t_27 in
  do t_28 <- chk64 (j + n) ; do t_29 <- chk64 (t_28 - 2) ; do t_30 <- subslice numerator j t_29 ;
  do t_31 <- chk64 (n - 2) ; do t_32 <- subslice divisor 0 t_31 ; do t_33 <- g_submul_nx1 t_30 t_32 q ;
  let '(t_35, t_34) := t_33 in let numerator := splice numerator j t_34 in let borrow := t_35 in
  let '(r, borrow) := (ov_sub128 r borrow) in
  let t_38 := (g_dw_low r) in do t_36 <- chk64 (j + n) ; do t_37 <- chk64 (t_36 - 2) ; do _ <- idx numerator t_37 ;
  let numerator := upd numerator t_37 t_38 in
  let t_41 := (g_dw_high r) in do t_39 <- chk64 (j + n) ; do t_40 <- chk64 (t_39 - 1) ; do _ <- idx numerator t_40 ;
  let numerator := upd numerator t_40 t_41 in
  do t_48 <- (if borrow then ( let q := (wrap (q - 1)) in
      do t_42 <- chk64 (j + n) ; do t_43 <- subslice numerator j t_42 ; do t_44 <- subslice divisor 0 n ;
      do t_45 <- g_adc_n t_43 t_44 0 ; let '(t_47, t_46) := t_45 in let numerator := splice numerator j t_46 in
      let carry := t_47 in
      if negb (carry =? 1) then DebugPanic else
      Val (q, numerator)) else (Val (q, numerator))) ;
  let '(q, numerator) := t_48 in
  let t_50 := q in do t_49 <- chk64 (j + n) ; do _ <- idx numerator t_49 ; let numerator := upd numerator t_49 t_50 in
  Val numerator.

Lemma g_div_nxm_normalized_unfold numerator divisor :
  g_div_nxm_normalized numerator divisor =
  (if negb ((2 <=? ((lenZ divisor)))) then DebugPanic else
   if negb ((((lenZ divisor)) <? ((lenZ numerator)))) then DebugPanic else
   do t_1 <- chk64 (((lenZ numerator)) - ((lenZ divisor))) ; do t_2 <- subslice numerator t_1 ((lenZ numerator)) ;
   if negb ((match (Add.limbs_cmp t_2 divisor), Lt with Lt, Lt | Eq, Eq | Gt, Gt => true | _, _ => false end)) then DebugPanic else
   do t_3 <- (match (nth_error divisor (Z.to_nat (lenZ divisor - 1))) with Some x_ => Val x_ | None => Panic end) ;
   if negb ((9223372036854775808 <=? t_3)) then DebugPanic else
   let n := (lenZ divisor) in
   do t_4 <- chk64 (((lenZ numerator)) - n) ; do t_5 <- chk64 (t_4 - 1) ; let m := t_5 in
   do t_6 <- chk64 (n - 1) ; do t_7 <- idx divisor t_6 ; do t_8 <- chk64 (n - 2) ; do t_9 <- idx divisor t_8 ;
   let d := (g_dw_join t_7 t_9) in
   do t_10 <- g_reciprocal_2_mg10 d ; let v := t_10 in
   do t_11 <- chk64 (m + 1) ;
   do t_51 <- for_down (Z.to_nat (t_11 - 0)) numerator (nn_body divisor n d v) ;
   let 'numerator := t_51 in
   Val numerator).
Proof. reflexivity. Qed.

Lemma subslice_slice' (l : list Z) j e k : e = Z.of_nat (j + k) ->
  subslice l (Z.of_nat j) e = DivKnuth.slice l j k.
Proof. intros ->. apply subslice_slice. Qed.
Lemma subslice_slice0 (l : list Z) e k : e = Z.of_nat k -> subslice l 0 e = DivKnuth.slice l 0 k.
Proof. intros ->. apply (subslice_slice l 0 k). Qed.

Tactic Notation "head_step" ident(x) ident(E) :=
  match goal with
  | |- obind ?o _ = obind ?o _ => destruct o as [x| | | |] eqn:E; cbn [obind]; try reflexivity
  end.

Lemma join_range' a b : inW a -> inW b -> 0 <= join a b < BB.
Proof. apply join_range. Qed.

Lemma nn_body_eq divisor d v num j :
  Forall inW num -> Forall inW divisor -> (2 <= length divisor)%nat -> 0 <= d < BB -> inW v ->
  Z.of_nat (j + length divisor) + 1 < B ->
  nn_body divisor (Z.of_nat (length divisor)) d v (Z.of_nat j) num
  = DivKnuth.nxm_norm_step num divisor (length divisor) j d v.
Proof.
  intros Hnum Hdiv Hn Hd Hv HB. set (n := length divisor) in *.
  unfold nn_body, DivKnuth.nxm_norm_step. cbv beta zeta.
  replace (0 + Z.of_nat j) with (Z.of_nat j) by lia.
  rewrite <- !Nat2Z.inj_add.
  rewrite !(chk64_ok (Z.of_nat (j + n))) by lia. cbn [obind].
  rewrite !(chk64_ok (Z.of_nat (j + n) - 1)) by lia. cbn [obind].
  rewrite !(chk64_ok (Z.of_nat (j + n) - 2)) by lia. cbn [obind].
  replace (Z.of_nat (j + n) - 1) with (Z.of_nat (j + n - 1)) by lia.
  replace (Z.of_nat (j + n) - 2) with (Z.of_nat (j + n - 2)) by lia.
  rewrite !idx_get.
  head_step n2 En2. pose proof (get_inW _ _ _ Hnum En2) as Hn2.
  head_step n1 En1. pose proof (get_inW _ _ _ Hnum En1) as Hn1.
  rewrite g_dw_join_eq by assumption.
  head_step n0 En0. pose proof (get_inW _ _ _ Hnum En0) as Hn0.
  pose proof (join_range' n2 n1 Hn2 Hn1) as Hn21.
  destruct (Z.leb_spec (join n2 n1) d); destruct (Z.ltb_spec d (join n2 n1)); try lia; cbn [negb]; [|reflexivity].
  destruct (Z.eqb_spec (join n2 n1) d) as [Eq|Nq].
  - (* n21 = d : q = MAX *)
    rewrite subslice_slice. head_step w Ew.
    destruct (slice_inW _ _ _ _ Hnum Ew) as [Hw Hlw].
    rewrite g_submul_nx1_eq by (auto; unfold inW; rewrite B_val; lia).
    destruct (submul_nx1 w divisor (B - 1)) as [[r bo]| | | |] eqn:Es; cbn [obind omap fst snd]; try reflexivity.
    rewrite splice_eq. apply upd_set_tail.
  - rewrite g_div_3x2_mg10_eq by assumption.
    destruct (div_3x2_mg10 (join n2 n1) n0 d v) as [[q r]| | | |] eqn:Ed; cbn [obind]; try reflexivity.
    destruct (div_3x2_mg10_range _ _ _ _ _ _ Ed) as [Hq Hr].
    rewrite (subslice_slice' num j _ (n - 2)) by lia. head_step w Ew.
    destruct (slice_inW _ _ _ _ Hnum Ew) as [Hw Hlw].
    rewrite chk64_ok by lia. cbn [obind].
    rewrite (subslice_slice0 divisor _ (n - 2)) by lia. head_step dl Edl.
    destruct (slice_inW _ _ _ _ Hdiv Edl) as [Hdl Hldl].
    rewrite g_submul_nx1_eq by assumption.
    destruct (submul_nx1 w dl q) as [[sr sbo]| | | |] eqn:Es; cbn [obind omap fst snd]; try reflexivity.
    destruct (submul_nx1_spec w dl q ltac:(lia) Hw Hdl Hq) as (sr' & sbo' & Es' & Hlsr & Hwsr & Hsbo & _).
    rewrite Es in Es'. injection Es' as <- <-.
    rewrite splice_eq.
    change (Prim.ov_sub128 r sbo) with (DivKnuth.ov_sub128 r sbo).
    unfold DivKnuth.ov_sub128. cbv beta iota.
    rewrite g_dw_low_eq. rewrite g_dw_high_eq by (unfold wrap128; apply Z.mod_pos_bound; reflexivity).
    pose proof (splice_inW num j sr Hnum Hwsr) as Hnum1.
    destruct (set_cases (DivKnuth.splice num j sr) (j + n - 2) (lo128 (wrap128 (r - sbo))))
      as [(num2 & y2 & E2 & Ei2 & Eu2) | (E2 & Ei2)]; rewrite E2, Ei2; cbn [obind]; [rewrite Eu2 | reflexivity].
    pose proof (set_inW _ _ _ _ Hnum1 (lo128_inW _) E2) as Hnum2.
    assert (Hhi : inW (hi128 (wrap128 (r - sbo)))).
    { apply hi128_inW. unfold wrap128. apply Z.mod_pos_bound. reflexivity. }
    destruct (set_cases num2 (j + n - 1) (hi128 (wrap128 (r - sbo))))
      as [(num3 & y3 & E3 & Ei3 & Eu3) | (E3 & Ei3)]; rewrite E3, Ei3; cbn [obind]; [rewrite Eu3 | reflexivity].
    pose proof (set_inW _ _ _ _ Hnum2 Hhi E3) as Hnum3.
    destruct (r <? sbo).
    + (* add back *)
      rewrite subslice_slice.
      destruct (DivKnuth.slice num3 j n) as [w2| | | |] eqn:Ew2; cbn [obind]; try reflexivity.
      destruct (slice_inW _ _ _ _ Hnum3 Ew2) as [Hw2 Hlw2].
      rewrite (subslice_slice0 divisor _ n) by lia.
      destruct (DivKnuth.slice divisor 0 n) as [dn| | | |] eqn:Edn; cbn [obind]; try reflexivity.
      destruct (slice_inW _ _ _ _ Hdiv Edn) as [Hdn Hldn].
      rewrite g_adc_n_eq by (auto; try lia; unfold inW; pose proof B_pos; lia).
      destruct (adc_n w2 dn 0) as [[ar ac]| | | |] eqn:Ea; cbn [obind omap fst snd]; try reflexivity.
      rewrite splice_eq.
      destruct (ac =? 1); cbn [negb obind]; [|reflexivity].
      apply upd_set_tail.
    + cbn [obind]. apply upd_set_tail.
Qed.

Lemma wrap_inW x : inW (wrap x).
Proof. unfold wrap, inW. apply Z.mod_pos_bound, B_pos. Qed.

(* the step keeps the numerator a word list *)
Lemma nxm_norm_step_words num divisor j d v num' :
  Forall inW num -> Forall inW divisor ->
  DivKnuth.nxm_norm_step num divisor (length divisor) j d v = Val num' -> Forall inW num'.
Proof.
  intros Hnum Hdiv E. set (n := length divisor) in *. unfold DivKnuth.nxm_norm_step in E.
  destruct (DivKnuth.get num (j + n)) as [n2| | | |]; cbn [obind] in E; try discriminate.
  destruct (DivKnuth.get num (j + n - 1)) as [n1| | | |]; cbn [obind] in E; try discriminate.
  destruct (DivKnuth.get num (j + n - 2)) as [n0| | | |]; cbn [obind] in E; try discriminate.
  destruct (d <? join n2 n1); [discriminate|].
  assert (HM : inW (B - 1)) by (unfold inW; rewrite B_val; lia).
  destruct (join n2 n1 =? d).
  - destruct (DivKnuth.slice num j n) as [w| | | |] eqn:Ew; cbn [obind] in E; try discriminate.
    destruct (slice_inW _ _ _ _ Hnum Ew) as [Hw Hlw].
    destruct (submul_nx1_spec w divisor (B - 1) ltac:(lia) Hw Hdiv HM) as (sr & sbo & Es & _ & Hwsr & _ & _).
    rewrite Es in E. cbn [obind fst snd] in E.
    apply (set_inW _ _ _ _ (splice_inW num j sr Hnum Hwsr) HM E).
  - destruct (div_3x2_mg10 (join n2 n1) n0 d v) as [[q r]| | | |] eqn:Ed; cbn [obind] in E; try discriminate.
    destruct (div_3x2_mg10_range _ _ _ _ _ _ Ed) as [Hq Hr].
    destruct (DivKnuth.slice num j (n - 2)) as [w| | | |] eqn:Ew; cbn [obind] in E; try discriminate.
    destruct (slice_inW _ _ _ _ Hnum Ew) as [Hw Hlw].
    destruct (DivKnuth.slice divisor 0 (n - 2)) as [dl| | | |] eqn:Edl; cbn [obind] in E; try discriminate.
    destruct (slice_inW _ _ _ _ Hdiv Edl) as [Hdl Hldl].
    destruct (submul_nx1_spec w dl q ltac:(lia) Hw Hdl Hq) as (sr & sbo & Es & _ & Hwsr & _ & _).
    rewrite Es in E. cbn [obind fst snd] in E.
    pose proof (splice_inW num j sr Hnum Hwsr) as Hnum1.
    unfold DivKnuth.ov_sub128 in E. cbv beta iota in E.
    destruct (DivKnuth.set (DivKnuth.splice num j sr) (j + n - 2) (lo128 (wrap128 (r - sbo)))) as [num2| | | |] eqn:E2;
      cbn [obind] in E; try discriminate.
    pose proof (set_inW _ _ _ _ Hnum1 (lo128_inW _) E2) as Hnum2.
    assert (Hhi : inW (hi128 (wrap128 (r - sbo)))).
    { apply hi128_inW. unfold wrap128. apply Z.mod_pos_bound. reflexivity. }
    destruct (DivKnuth.set num2 (j + n - 1) (hi128 (wrap128 (r - sbo)))) as [num3| | | |] eqn:E3;
      cbn [obind] in E; try discriminate.
    pose proof (set_inW _ _ _ _ Hnum2 Hhi E3) as Hnum3.
    destruct (r <? sbo).
    + destruct (DivKnuth.slice num3 j n) as [w2| | | |] eqn:Ew2; cbn [obind] in E; try discriminate.
      destruct (slice_inW _ _ _ _ Hnum3 Ew2) as [Hw2 Hlw2].
      destruct (DivKnuth.slice divisor 0 n) as [dn| | | |] eqn:Edn; cbn [obind] in E; try discriminate.
      destruct (slice_inW _ _ _ _ Hdiv Edn) as [Hdn Hldn].
      destruct (adc_n_spec w2 dn 0 ltac:(lia) Hw2 Hdn ltac:(unfold inW; pose proof B_pos; lia))
        as (ar & ac & Ea & _ & Hwar & _ & _).
      rewrite Ea in E. cbn [obind fst snd] in E.
      destruct (ac =? 1); cbn [obind fst snd] in E; [|discriminate].
      apply (set_inW _ _ _ _ (splice_inW num3 j ar Hnum3 Hwar) (wrap_inW _) E).
    + cbn [obind fst snd] in E. apply (set_inW _ _ _ _ Hnum3 Hq E).
Qed.

Lemma nn_loop_eq divisor d v k : forall num,
  Forall inW num -> Forall inW divisor -> (2 <= length divisor)%nat -> 0 <= d < BB -> inW v ->
  Z.of_nat (k + length divisor) < B ->
  for_down k num (nn_body divisor (Z.of_nat (length divisor)) d v)
  = DivKnuth.nxm_norm_loop k num divisor (length divisor) d v.
Proof.
  induction k as [|k IH]; intros num Hnum Hdiv Hn Hd Hv HB; [reflexivity|].
  cbn [for_down DivKnuth.nxm_norm_loop].
  rewrite (nn_body_eq divisor d v num k Hnum Hdiv Hn Hd Hv ltac:(lia)).
  destruct (DivKnuth.nxm_norm_step num divisor (length divisor) k d v) as [num'| | | |] eqn:Es; cbn [obind]; try reflexivity.
  apply IH; auto; [apply (nxm_norm_step_words num divisor k d v num' Hnum Hdiv Es) | lia].
Qed.

Lemma subslice_tail (l : list Z) k : (k <= length l)%nat ->
  subslice l (Z.of_nat (length l) - Z.of_nat k) (lenZ l) = Val (skipn (length l - k) l).
Proof.
  intros H. unfold subslice, lenZ.
  replace ((0 <=? Z.of_nat (length l) - Z.of_nat k) && (Z.of_nat (length l) - Z.of_nat k <=? Z.of_nat (length l))
           && (Z.of_nat (length l) <=? Z.of_nat (length l))) with true by lia.
  replace (Z.to_nat (Z.of_nat (length l) - (Z.of_nat (length l) - Z.of_nat k))) with k by lia.
  replace (Z.to_nat (Z.of_nat (length l) - Z.of_nat k)) with (length l - k)%nat by lia.
  f_equal. apply firstn_all2. rewrite skipn_length. lia.
Qed.

Lemma obind_val {A} (o : outcome A) : (do x <- o ; Val x) = o.
Proof. destruct o; reflexivity. Qed.

Theorem g_div_nxm_normalized_eq numerator divisor :
  Forall inW numerator -> Forall inW divisor -> lenZ numerator < B ->
  g_div_nxm_normalized numerator divisor = DivKnuth.div_nxm_normalized numerator divisor.
Proof.
  intros Hnum Hdiv HB. rewrite g_div_nxm_normalized_unfold. unfold DivKnuth.div_nxm_normalized, lenZ in *.
  set (n := length divisor). set (L := length numerator) in *.
  destruct (Nat.ltb_spec n 2) as [H2|H2].
  { replace (2 <=? Z.of_nat n) with false by lia. reflexivity. }
  replace (2 <=? Z.of_nat n) with true by lia. cbn [negb].
  destruct (Nat.ltb_spec n L) as [HL|HL]; cbn [negb].
  2:{ replace (Z.of_nat n <? Z.of_nat L) with false by lia. reflexivity. }
  replace (Z.of_nat n <? Z.of_nat L) with true by lia. cbn [negb].
  rewrite chk64_ok by lia. cbn [obind].
  pose proof (subslice_tail numerator n ltac:(fold L; lia)) as Et. unfold lenZ in Et. fold L in Et.
  rewrite Et. cbn [obind].
  destruct (Add.limbs_cmp (skipn (L - n) numerator) divisor); cbn [negb]; try reflexivity.
  assert (Hne : divisor <> []) by (destruct divisor; [cbn in H2; lia | discriminate]).
  pose proof (nth_error_last divisor Hne) as El. unfold lenZ in El. fold n in El. rewrite El. cbn [obind].
  change 9223372036854775808 with (2 ^ 63).
  destruct (Z.ltb_spec (last divisor 0) (2 ^ 63)); destruct (Z.leb_spec (2 ^ 63) (last divisor 0)); try lia;
    cbn [negb]; [reflexivity|].
  cbv zeta.
  rewrite ?(chk64_ok (Z.of_nat L - Z.of_nat n)) by lia. cbn [obind].
  rewrite (chk64_ok (Z.of_nat L - Z.of_nat n - 1)) by lia. cbn [obind].
  rewrite (chk64_ok (Z.of_nat n - 1)) by lia. cbn [obind].
  replace (Z.of_nat n - 1) with (Z.of_nat (n - 1)) by lia. rewrite idx_get.
  destruct (DivKnuth.get divisor (n - 1)) as [d1| | | |] eqn:E1; cbn [obind]; try reflexivity.
  rewrite (chk64_ok (Z.of_nat n - 2)) by lia. cbn [obind].
  replace (Z.of_nat n - 2) with (Z.of_nat (n - 2)) by lia. rewrite idx_get.
  destruct (DivKnuth.get divisor (n - 2)) as [d0| | | |] eqn:E0; cbn [obind]; try reflexivity.
  pose proof (get_inW _ _ _ Hdiv E1) as Hd1. pose proof (get_inW _ _ _ Hdiv E0) as Hd0.
  rewrite g_dw_join_eq by assumption.
  pose proof (join_range d1 d0 Hd1 Hd0) as Hd.
  rewrite g_reciprocal_2_mg10_eq by exact Hd.
  destruct (reciprocal_2_mg10 (join d1 d0)) as [v| | | |] eqn:Ev; cbn [obind]; try reflexivity.
  pose proof (reciprocal_2_mg10_inW _ _ Ev) as Hv.
  rewrite chk64_ok by lia. cbn [obind].
  replace (Z.to_nat (Z.of_nat L - Z.of_nat n - 1 + 1 - 0)) with (S (L - n - 1)) by lia.
  pose proof (nn_loop_eq divisor (join d1 d0) v (S (L - n - 1)) numerator Hnum Hdiv H2 Hd Hv ltac:(fold n; lia)) as El2.
  fold n in El2. rewrite El2. apply obind_val.
Qed.
