(* Proofs/PfC14.v — every entry point of property C14 meets its executable specification. *)
From Coq Require Import ZArith List Bool Lia Arith.
From RV.Model Require Import Base Word.
From RV.Model Require DivRecip DivSmall DivKnuth Div DivRef.
From RV.Run Require Import RunC14.
From RV.Proofs Require Import BaseFacts PfDivBase PfDivRecip PfDivSmall PfDivKnuth PfDiv PfDivRef.
Import ListNotations.
Local Open Scope Z_scope.

Lemma list_eqb_refl {A} (eqb : A -> A -> bool) (l : list A) :
  (forall x, eqb x x = true) -> list_eqb eqb l l = true.
Proof. intros H. induction l as [|x l IH]; cbn; [reflexivity | now rewrite H, IH]. Qed.
Lemma tok_eqb_refl t : tok_eqb t t = true.
Proof.
  destruct t; cbn; auto using Z.eqb_refl, eqb_reflx;
    apply list_eqb_refl; apply Z.eqb_refl.
Qed.
Lemma expect_refl t : expect (Val t) t = true.
Proof. unfold expect. cbn. apply list_eqb_refl, tok_eqb_refl. Qed.

Lemma BBB_eq : BBB = B * B * B.
Proof. unfold BBB. rewrite B_pow. reflexivity. Qed.

Lemma in128_lt d : in128 d -> 0 <= d < B * B.
Proof. unfold in128. rewrite BB_eq. auto. Qed.

Lemma under_true (pre : bool) t : under pre (Val t) t = true.
Proof. unfold under. destruct pre; [apply expect_refl | reflexivity]. Qed.

Lemma pre_nx_spec n : pre_nx n = true -> n <> [] /\ last n 0 <> 0.
Proof.
  unfold pre_nx, lastz. rewrite andb_true_iff, !negb_true_iff, Nat.eqb_neq, Z.eqb_neq.
  intros [H1 H2]. split; [|exact H2]. destruct n; [cbn in H1; lia | discriminate].
Qed.

Theorem C14_all c : wf c -> spec c (run c) = true.
Proof.
  destruct c as [bits n d | bits n d | bits n d | bits n d | bits n d | bits n d | bits n d
                | bits u d v | bits u21 u0 d v | bits d | bits d
                | bits u d | bits n21 n0 d | bits d]; cbn [wf spec run].
  - (* div *)
    intros (_ & Hn & Hd). destruct (Z.eqb_spec (eval d) 0) as [E|E].
    + rewrite (div_kernel_zero n d Hd E). reflexivity.
    + rewrite (div_kernel_val n d Hn Hd E). apply expect_refl.
  - (* div_nxm *)
    intros (_ & Hn & Hd). unfold under. destruct (pre_nxm n d) eqn:Hpre; [|reflexivity].
    unfold pre_nxm, lastz in Hpre. rewrite !andb_true_iff, negb_true_iff, !Nat.leb_le, Z.eqb_neq in Hpre.
    destruct Hpre as [[H3 Hle] Hl].
    rewrite (div_nxm_spec n d Hn Hd H3 Hle Hl). apply expect_refl.
  - (* div_nxm_normalized *)
    intros (_ & Hn & Hd). unfold under. destruct (pre_nxm_norm n d) eqn:Hpre; [|reflexivity].
    unfold pre_nxm_norm, lastz in Hpre.
    rewrite !andb_true_iff, Nat.leb_le, Nat.ltb_lt, Z.leb_le, Z.ltb_lt in Hpre.
    destruct Hpre as [[[H2 Hlt] Htop] Himp].
    rewrite (div_nxm_normalized_spec n d Hn Hd H2 Hlt Htop Himp). apply expect_refl.
  - (* div_nx1 *)
    intros (_ & Hn & Hd). unfold under.
    destruct (negb (d =? 0) && pre_nx n) eqn:Hpre; [|reflexivity].
    rewrite andb_true_iff, negb_true_iff, Z.eqb_neq in Hpre. destruct Hpre as [Hd0 Hnx].
    destruct (pre_nx_spec n Hnx) as [Hne Hl]. unfold inW in Hd.
    rewrite (div_nx1_spec n d Hn ltac:(lia) Hne Hl). apply expect_refl.
  - (* div_nx1_normalized *)
    intros (_ & Hn & Hd). unfold under. destruct (Z.leb_spec (2 ^ 63) d) as [Hpre|]; [|reflexivity].
    unfold inW in Hd. rewrite (div_nx1_normalized_spec n d Hn ltac:(lia)). apply expect_refl.
  - (* div_nx2 *)
    intros (_ & Hn & Hd). apply in128_lt in Hd. unfold under.
    destruct ((B <=? d) && pre_nx n) eqn:Hpre; [|reflexivity].
    rewrite andb_true_iff, Z.leb_le in Hpre. destruct Hpre as [HdB Hnx].
    destruct (pre_nx_spec n Hnx) as [Hne Hl].
    rewrite (div_nx2_spec n d Hn ltac:(lia) Hne Hl). apply expect_refl.
  - (* div_nx2_normalized *)
    intros (_ & Hn & Hd). apply in128_lt in Hd. unfold under.
    destruct (Z.leb_spec (2 ^ 127) d) as [Hpre|]; [|reflexivity].
    rewrite (div_nx2_normalized_spec n d Hn ltac:(lia)). apply expect_refl.
  - (* div_2x1 *)
    intros (_ & Hu & Hd & Hv). apply in128_lt in Hu. unfold under.
    destruct ((2 ^ 63 <=? d) && (u / B <? d) && (v =? (BB - 1) / d - B)) eqn:Hpre; [|reflexivity].
    rewrite !andb_true_iff, Z.leb_le, Z.ltb_lt, Z.eqb_eq in Hpre. destruct Hpre as [[Hn Hlt] Ev].
    rewrite BB_eq in Ev. fold (recip1 d) in Ev. subst v. unfold inW in Hd.
    rewrite (div_2x1_ok u d ltac:(lia) ltac:(lia) Hlt). apply expect_refl.
  - (* div_3x2 *)
    intros (_ & Hu & Hu0 & Hd & Hv). apply in128_lt in Hu. apply in128_lt in Hd. unfold under.
    destruct ((2 ^ 127 <=? d) && (u21 <? d) && (v =? (BBB - 1) / d - B)) eqn:Hpre; [|reflexivity].
    rewrite !andb_true_iff, Z.leb_le, Z.ltb_lt, Z.eqb_eq in Hpre. destruct Hpre as [[Hn Hlt] Ev].
    rewrite BBB_eq in Ev. fold (recip2 d) in Ev. subst v.
    rewrite (div_3x2_ok u21 u0 d ltac:(lia) ltac:(lia) Hu0). apply expect_refl.
  - (* reciprocal *)
    intros (_ & Hd). unfold under. destruct (Z.leb_spec (2 ^ 63) d) as [Hpre|]; [|reflexivity].
    unfold inW in Hd. rewrite (reciprocal_mg10_ok RecipOK_holds d ltac:(lia)).
    cbn [omap obind]. rewrite BB_eq. apply expect_refl.
  - (* reciprocal_2 *)
    intros (_ & Hd). apply in128_lt in Hd. unfold under.
    destruct (Z.leb_spec (2 ^ 127) d) as [Hpre|]; [|reflexivity].
    rewrite (reciprocal_2_ok d ltac:(lia)). cbn [omap obind]. rewrite BBB_eq. apply expect_refl.
  - (* div_2x1_ref *)
    intros (_ & Hu & Hd). apply in128_lt in Hu. unfold under.
    destruct ((2 ^ 63 <=? d) && (u / B <? d)) eqn:Hpre; [|reflexivity].
    rewrite !andb_true_iff, Z.leb_le, Z.ltb_lt in Hpre. destruct Hpre as [Hn Hlt]. unfold inW in Hd.
    rewrite (div_2x1_ref_ok u d ltac:(lia) ltac:(lia) Hlt). apply expect_refl.
  - (* div_3x2_ref *)
    intros (_ & Hu & Hu0 & Hd). apply in128_lt in Hu. apply in128_lt in Hd. unfold under.
    destruct ((2 ^ 127 <=? d) && (n21 <? d)) eqn:Hpre; [|reflexivity].
    rewrite !andb_true_iff, Z.leb_le, Z.ltb_lt in Hpre. destruct Hpre as [Hn Hlt].
    rewrite (div_3x2_ref_ok n21 n0 d ltac:(lia) ltac:(lia) Hu0). apply expect_refl.
  - (* reciprocal_ref *)
    intros (_ & Hd). unfold under. destruct (Z.leb_spec (2 ^ 63) d) as [Hpre|]; [|reflexivity].
    unfold inW in Hd. rewrite (reciprocal_ref_ok d ltac:(lia)).
    cbn [omap obind]. rewrite BB_eq. apply expect_refl.
Qed.

(* Regression of finding D1 (repaired in the crate): the two witnesses now violate a
   debug_assert, i.e. are outside the documented conditions of use. *)
Example C14_D1_regression :
  run (div_nxm_normalized 192 [0; 0; 2 ^ 63] [0; 2 ^ 63]) = DebugPanic /\
  run (div_nxm_normalized 128 [1; 2 ^ 63] [0; 2 ^ 63]) = DebugPanic.
Proof. split; vm_compute; reflexivity. Qed.
