(* Proofs/PfDiv3x2.v — Möller–Granlund 2010: Algorithm 5 / Theorem 3 (div_3x2_mg10 is exact when v
   is the 3/2 reciprocal of d) and Algorithm 6 (reciprocal_2_mg10 computes the 3/2 reciprocal
   from the 2/1 reciprocal of the high word). *)
From Coq Require Import ZArith List Bool Lia.
From RV.Model Require Import Base Word DivRecip DivSmall.
From RV.Proofs Require Import BaseFacts PfDivBase.
Import ListNotations.
Local Open Scope Z_scope.

Lemma wrap_uniq y x q : 0 <= x < B -> y = B * q + x -> wrap y = x.
Proof. intros H E. unfold wrap. symmetry. apply Z.mod_unique with (q := q); lia. Qed.

Lemma mod_uniq m y x q : 0 <= x < m -> y = m * q + x -> y mod m = x.
Proof. intros H E. symmetry. apply Z.mod_unique with (q := q); lia. Qed.

Lemma divmod_uniq U d Q R : 0 <= R < d -> U = d * Q + R -> (U / d, U mod d) = (Q, R).
Proof.
  intros H E. f_equal; symmetry.
  - apply Z.div_unique with (r := R); lia.
  - apply Z.mod_unique with (q := Q); lia.
Qed.

(* the core inequality behind MG10 Theorem 3 *)
Lemma d32_core d e u2 u1 u0 v k s :
  e + d = B * B -> v * d + k = B * e -> 0 <= v -> 1 <= k <= d -> B <= d ->
  u2 * B + u1 + 1 + s = d -> 0 <= s -> 0 <= u1 < B -> 0 <= u0 < B -> 0 <= u2 ->
  B * u1 * e + u0 * (B * B) + B * u2 * k + B * B <= e * e + B * B * d.
Proof.
  intros He Hk Hv Hk1 HBd Hs Hs0 Hu1 Hu0 Hu2. pose proof B_pos as HB.
  assert (A1 : 0 <= (B - 1 - u1) * (v * d)) by (apply Z.mul_nonneg_nonneg; nia).
  assert (A2 : 0 <= (B - 1 - u0) * (B * B)) by (apply Z.mul_nonneg_nonneg; nia).
  assert (A3 : 0 <= s * k) by (apply Z.mul_nonneg_nonneg; lia).
  assert (A4 : 0 <= (d - k) * (d - B)) by (apply Z.mul_nonneg_nonneg; lia).
  assert (Es : s = d - u2 * B - u1 - 1) by lia.
  assert (Ee : e = B * B - d) by lia.
  assert (Ek : k = B * e - v * d) by lia.
  clear Hs He Hk. subst s. subst k. subst e.
  assert (Id : (B * B - d) * (B * B - d) + B * B * d
               - (B * u1 * (B * B - d) + u0 * (B * B) + B * u2 * (B * (B * B - d) - v * d) + B * B)
             = (B - 1 - u1) * (v * d) + (B - 1 - u0) * (B * B)
               + (d - u2 * B - u1 - 1) * (B * (B * B - d) - v * d)
               + (d - (B * (B * B - d) - v * d)) * (d - B)) by ring.
  lia.
Qed.

Lemma d32_bounds u2 u1 u0 d v q1 q0 rp :
  B * B <= 2 * d -> d < B * B ->
  0 <= v -> (B + v) * d <= B * B * B - 1 < (B + v + 1) * d ->
  0 <= u2 -> 0 <= u1 < B -> 0 <= u0 < B -> u2 * B + u1 < d ->
  0 <= q0 < B -> u2 * v + (u2 * B + u1) = q1 * B + q0 ->
  rp = (u2 * B + u1) * B + u0 - (q1 + 1) * d ->
  - d <= rp /\ (q0 - B) * B < rp /\
  (q0 * B <= B * B - d -> rp < B * B - d) /\ (B * B - d <= q0 * B -> rp < q0 * B).
Proof.
  intros Hd1 Hd2 Hv0 [Hv1 Hv2] Hu2 Hu1 Hu0 Hu Hq0 Eq Erp. pose proof B_pos as HB.
  set (e := B * B - d). set (k := B * B * B - (B + v) * d).
  assert (Y : B * (rp + d) = u1 * e + u0 * B + u2 * k + q0 * d).
  { assert (E1 : q1 * B = u2 * v + (u2 * B + u1) - q0) by lia.
    rewrite Erp. replace (B * ((u2 * B + u1) * B + u0 - (q1 + 1) * d + d))
      with ((u2 * B + u1) * B * B + u0 * B - (q1 * B) * d) by ring.
    rewrite E1. unfold e, k. ring. }
  assert (Hk : 1 <= k <= d) by (unfold k; lia).
  assert (He : 1 <= e <= d) by (unfold e; lia).
  assert (Eed : e + d = B * B) by (unfold e; ring).
  assert (C : B * u1 * e + u0 * (B * B) + B * u2 * k + B * B <= e * e + B * B * d).
  { assert (B2 : 2 <= B) by (rewrite B_val; lia).
    assert (B * 2 <= B * B) by (apply Z.mul_le_mono_nonneg_l; lia).
    assert (B <= d) by lia.
    assert (v * d + k = B * e) by (unfold k, e; ring).
    apply (d32_core d e u2 u1 u0 v k (d - 1 - (u2 * B + u1))); lia. }
  assert (P1 : 0 <= u1 * e) by (apply Z.mul_nonneg_nonneg; lia).
  assert (P2 : 0 <= u0 * B) by (apply Z.mul_nonneg_nonneg; lia).
  assert (P3 : 0 <= u2 * k) by (apply Z.mul_nonneg_nonneg; lia).
  assert (P4 : 0 <= q0 * d) by (apply Z.mul_nonneg_nonneg; lia).
  assert (YY : B * (B * (rp + d)) = B * u1 * e + u0 * (B * B) + B * u2 * k + B * q0 * d)
    by (rewrite Y; ring).
  clearbody e k. clear Erp Eq Hv1 Hv2 Hu.
  split; [|split; [|split]].
  - assert (B * 0 <= B * (rp + d)) by lia.
    apply Z.mul_le_mono_pos_l in H; lia.
  - assert (q0 * e < B * e) by (apply Z.mul_lt_mono_pos_r; lia).
    apply (Z.mul_lt_mono_pos_l B); [lia|].
    replace (B * ((q0 - B) * B)) with (q0 * (B * B) - B * (B * B) ) by ring.
    rewrite <- Eed.
    replace (B * rp) with (B * (rp + d) - B * d) by ring. rewrite Y.
    replace (q0 * (e + d) - B * (e + d)) with (q0 * d - B * d + (q0 * e - B * e)) by ring.
    lia.
  - intros Hc.
    assert (B * q0 * d <= e * d) by (apply Z.mul_le_mono_nonneg_r; lia).
    assert (B * (B * (rp + d)) < B * (B * (e + d))).
    { replace (B * (B * (e + d))) with ((B * B) * e + B * B * d) by ring. rewrite <- Eed at 1. lia. }
    apply Z.mul_lt_mono_pos_l in H0; [|lia]. apply Z.mul_lt_mono_pos_l in H0; lia.
  - intros Hc.
    assert (e * e <= (B * q0) * e) by (apply Z.mul_le_mono_nonneg_r; lia).
    assert (B * (B * (rp + d)) < B * (B * (q0 * B + d))).
    { replace (B * (B * (q0 * B + d))) with (B * q0 * (B * B) + B * B * d) by ring.
      rewrite <- Eed at 1.
      replace (B * q0 * (e + d)) with (B * q0 * e + B * q0 * d) by ring. lia. }
    apply Z.mul_lt_mono_pos_l in H0; [|lia]. apply Z.mul_lt_mono_pos_l in H0; lia.
Qed.

Lemma wrap_dec_inc x : 0 <= x < B -> wrap (wrap (x + 1) - 1) = x.
Proof.
  intros H. unfold wrap. rewrite Zminus_mod_idemp_l.
  replace (x + 1 - 1) with x by ring. apply Z.mod_small; lia.
Qed.

Lemma div_3x2_body_spec u21 u0 d v :
  2 ^ 127 <= d < B * B -> 0 <= u21 < d -> 0 <= u0 < B -> v = recip2 d ->
  div_3x2_body u21 u0 d v = Val ((u21 * B + u0) / d, (u21 * B + u0) mod d).
Proof.
  intros Hd Hu Hu0 ->. pose proof B_pos as HB. pose proof pow63 as P63.
  destruct (recip2_spec d Hd) as [Hv [Hv1 Hv2]].
  set (v := recip2 d) in *. clearbody v.
  rewrite pow127 in Hd.
  assert (Hd1 : B * B <= 2 * d) by (rewrite <- P63 at 1; lia).
  destruct Hd as [_ Hd2].
  pose proof (hi_lo_128 u21) as Eu. pose proof (lo128_range u21) as Ru1.
  assert (Ru2 : 0 <= hi128 u21 < B) by (apply hi128_range; lia).
  pose proof (hi_lo_128 d) as Ed. pose proof (lo128_range d) as Rd0.
  assert (Rd1 : 0 <= hi128 d < B) by (apply hi128_range; lia).
  unfold div_3x2_body.
  set (u2 := hi128 u21) in *. set (u1 := lo128 u21) in *.
  set (d1 := hi128 d) in *. set (d0 := lo128 d) in *.
  clearbody u2 u1 d1 d0.
  set (q := u2 * v + u21).
  assert (Hqr : 0 <= q < B * B).
  { subst q. split.
    - assert (0 <= u2 * v) by (apply Z.mul_nonneg_nonneg; lia). lia.
    - (* (u2 (B+v) + u1) d <= u2 B^3 + u1 d < B^2 d *)
      apply (Z.mul_lt_mono_pos_r d); [lia|].
      assert (A : u2 * ((B + v) * d) <= u2 * (B * B * B)) by (apply Z.mul_le_mono_nonneg_l; lia).
      assert (A2 : u1 * d <= u1 * (B * B)) by (apply Z.mul_le_mono_nonneg_l; lia).
      replace ((u2 * v + u21) * d) with (u2 * ((B + v) * d) + u1 * d) by (rewrite Eu; ring).
      assert (A3 : (u2 * B + u1) * (B * B) <= (d - 1) * (B * B)) by (apply Z.mul_le_mono_nonneg_r; lia).
      clear - A A2 A3 HB. lia. }
  rewrite BB_eq. destruct (Z.leb_spec (B * B) q) as [Hc|_]; [lia|].
  pose proof (hi_lo_128 q) as Eq. pose proof (lo128_range q) as Rq0.
  pose proof (hi128_range q Hqr) as Rq1.
  set (q1 := hi128 q) in *. set (q0 := lo128 q) in *. clearbody q1 q0.
  set (U := u21 * B + u0).
  set (rp := (u2 * B + u1) * B + u0 - (q1 + 1) * d).
  assert (Eq' : u2 * v + (u2 * B + u1) = q1 * B + q0) by (subst q; lia).
  destruct (d32_bounds u2 u1 u0 d v q1 q0 rp Hd1 Hd2 (proj1 Hv) (conj Hv1 Hv2)
              (proj1 Ru2) Ru1 Hu0 ltac:(lia) Rq0 Eq' eq_refl) as (Hb1 & Hb2 & Hb3 & Hb4).
  assert (HU : U = (q1 + 1) * d + rp) by (subst U rp; rewrite Eu; ring).
  assert (HUB : U < d * B).
  { subst U. assert (u21 * B <= (d - 1) * B) by (apply Z.mul_le_mono_nonneg_r; lia). lia. }
  assert (Hrpl : - (B * B) < rp).
  { assert (0 <= q0 * B) by (apply Z.mul_nonneg_nonneg; lia). lia. }
  assert (Hrpu : rp < B * B).
  { assert (q0 * B <= (B - 1) * B) by (apply Z.mul_le_mono_nonneg_r; lia).
    destruct (Z.le_gt_cases (q0 * B) (B * B - d)) as [Hc|Hc];
      [pose proof (Hb3 Hc)|pose proof (Hb4 ltac:(lia))]; lia. }
  (* the computed r is rp mod B^2 *)
  assert (Hr : wrap128 (wrap128 (join (wrap (u1 - wrap (q1 * d1))) u0 - d0 * q1) - d)
               = rp mod (B * B)).
  { rewrite !wrap128_mod. rewrite Zminus_mod_idemp_l. unfold join, wrap.
    rewrite (Z.mod_eq (q1 * d1) B) by lia.
    rewrite (Z.mod_eq (u1 - _) B) by lia.
    set (j1 := q1 * d1 / B). set (j2 := (u1 - (q1 * d1 - B * j1)) / B).
    replace ((u1 - (q1 * d1 - B * j1) - B * j2) * B + u0 - d0 * q1 - d)
      with (rp + (j1 - j2 - u2) * (B * B)) by (subst rp; replace d0 with (d - d1 * B) by lia; ring).
    apply Z.mod_add. lia. }
  rewrite Hr. clear Hr.
  assert (Hdec : wrap (wrap (q1 + 1) - 1) = q1) by (apply wrap_dec_inc; lia).
  destruct (Z.ltb_spec rp 0) as [Hneg|Hpos].
  - (* candidate too large by one *)
    assert (Hm : rp mod (B * B) = rp + B * B) by (apply mod_uniq with (q := -1); lia).
    rewrite Hm.
    assert (Hh : q0 <= hi128 (rp + B * B)).
    { unfold hi128. apply Z.div_le_lower_bound; lia. }
    destruct (Z.leb_spec q0 (hi128 (rp + B * B))) as [_|Hc]; [|lia].
    rewrite Hdec.
    assert (Hw : wrap128 (rp + B * B + d) = rp + d).
    { rewrite wrap128_mod. apply mod_uniq with (q := 1); lia. }
    rewrite Hw. destruct (Z.leb_spec d (rp + d)) as [Hc|_]; [lia|].
    f_equal. symmetry. apply divmod_uniq; lia.
  - rewrite (Z.mod_small rp (B * B)) by lia.
    assert (Hq1s : q1 + 1 < B).
    { apply (Z.mul_lt_mono_pos_r d); [lia|]. clear - HU Hpos HUB. lia. }
    assert (Hw1 : wrap (q1 + 1) = q1 + 1) by (apply wrap_small; lia).
    destruct (Z.leb_spec q0 (hi128 rp)) as [Hge|Hlt].
    + (* spurious decrement, undone by the increment *)
      assert (Hq0r : q0 * B <= rp).
      { pose proof (hi_lo_128 rp). pose proof (lo128_range rp).
        assert (q0 * B <= hi128 rp * B) by (apply Z.mul_le_mono_nonneg_r; lia). lia. }
      assert (Hre : rp < B * B - d).
      { destruct (Z.le_gt_cases (q0 * B) (B * B - d)) as [Hc|Hc];
          [exact (Hb3 Hc)|pose proof (Hb4 ltac:(lia)); lia]. }
      rewrite Hdec.
      assert (Hw : wrap128 (rp + d) = rp + d).
      { rewrite wrap128_mod. apply Z.mod_small; lia. }
      rewrite Hw. destruct (Z.leb_spec d (rp + d)) as [_|Hc]; [|lia].
      replace (rp + d - d) with rp by ring.
      rewrite wrap128_mod, (Z.mod_small rp) by lia. rewrite Hw1.
      f_equal. symmetry. apply divmod_uniq; lia.
    + destruct (Z.leb_spec d rp) as [Hge|Hlt2].
      * assert (q1 + 2 < B).
        { apply (Z.mul_lt_mono_pos_r d); [lia|]. clear - HU Hge HUB. lia. }
        rewrite Hw1. rewrite (wrap_small (q1 + 1 + 1)) by lia.
        rewrite wrap128_mod, (Z.mod_small (rp - d)) by lia.
        f_equal. symmetry. apply divmod_uniq; lia.
      * rewrite Hw1.
        f_equal. symmetry. apply divmod_uniq; lia.
Qed.

(* ---------- Algorithm 6 ---------- *)
Definition r2_ph1 (d1 d0 v : Z) : Z * Z :=
  let p := wrap (wrap (d1 * v) + d0) in
  if p <? d0 then
    let v := wrap (v - 1) in
    let '(v, p) := if d1 <=? p then (wrap (v - 1), wrap (p - d1)) else (v, p) in
    (v, wrap (p - d1))
  else (v, p).

Definition r2_ph2 (d d0 : Z) (vp : Z * Z) : Z :=
  let '(v, p) := vp in
  let t := v * d0 in
  let t1 := hi128 t in
  let t0 := lo128 t in
  let p := wrap (p + t1) in
  if p <? t1 then
    let v := wrap (v - 1) in
    if d <=? join p t0 then wrap (v - 1) else v
  else v.

Lemma recip2_body_split d v :
  recip2_body d v = r2_ph2 d (lo128 d) (r2_ph1 (hi128 d) (lo128 d) v).
Proof. reflexivity. Qed.

Lemma r2_ph1_spec d1 d0 v k1 :
  B <= 2 * d1 -> d1 < B -> 0 <= d0 < B -> 0 <= v < B ->
  (B + v) * d1 + k1 = B * B -> 1 <= k1 <= d1 ->
  exists v' w, r2_ph1 d1 d0 v = (v', B - w) /\ 0 <= v' < B /\ 0 < w <= d1 /\
               (B + v') * d1 + d0 + w = B * B.
Proof.
  intros Hd1 Hd1u Hd0 Hv Hk Hk1. pose proof B_pos as HB.
  assert (Hlow : forall x, 0 <= x -> B * B <= (B + x) * d1 + k1 -> k1 + x * d1 < B -> False).
  { intros x Hx H1 H2. (* then B*(B-d1) < B *) 
    assert (B * 1 <= B * (B - d1)) by (apply Z.mul_le_mono_nonneg_l; lia). lia. }
  unfold r2_ph1.
  assert (W1 : wrap (d1 * v) = B - k1) by (apply wrap_uniq with (q := B - d1 - 1); lia).
  rewrite W1.
  destruct (Z.lt_ge_cases d0 k1) as [Hc|Hc].
  - rewrite (wrap_small (B - k1 + d0)) by lia.
    destruct (Z.ltb_spec (B - k1 + d0) d0) as [Hc2|_]; [lia|].
    exists v, (k1 - d0). split; [f_equal; ring|]. lia.
  - assert (W2 : wrap (B - k1 + d0) = d0 - k1) by (apply wrap_uniq with (q := 1); lia).
    rewrite W2. destruct (Z.ltb_spec (d0 - k1) d0) as [_|Hc2]; [|lia].
    assert (Hv1 : 1 <= v).
    { destruct (Z.lt_ge_cases v 1) as [Hv0|]; [|assumption]. exfalso.
      assert (v = 0) by lia. subst v. apply (Hlow 0); lia. }
    rewrite (wrap_small (v - 1)) by lia.
    destruct (Z.leb_spec d1 (d0 - k1)) as [Hc3|Hc3].
    + assert (Hv2 : 2 <= v).
      { destruct (Z.lt_ge_cases v 2) as [Hv0|]; [|assumption]. exfalso.
        assert (v = 1) by lia. subst v. apply (Hlow 1); lia. }
      rewrite (wrap_small (v - 1 - 1)) by lia.
      rewrite (wrap_small (d0 - k1 - d1)) by lia.
      assert (W3 : wrap (d0 - k1 - d1 - d1) = B - (2 * d1 + k1 - d0))
        by (apply wrap_uniq with (q := -1); lia).
      rewrite W3. exists (v - 1 - 1), (2 * d1 + k1 - d0). split; [reflexivity|]. lia.
    + assert (W3 : wrap (d0 - k1 - d1) = B - (d1 + k1 - d0))
        by (apply wrap_uniq with (q := -1); lia).
      rewrite W3. exists (v - 1), (d1 + k1 - d0). split; [reflexivity|]. lia.
Qed.

Lemma r2_ph2_spec d d1 d0 v w :
  d = d1 * B + d0 -> B <= 2 * d1 -> d1 < B -> 0 <= d0 < B -> 0 <= v < B ->
  0 < w <= d1 -> (B + v) * d1 + d0 + w = B * B ->
  exists vf, r2_ph2 d d0 (v, B - w) = vf /\ 0 <= vf /\
             (B + vf) * d <= B * B * B - 1 < (B + vf + 1) * d.
Proof.
  intros Ed Hd1 Hd1u Hd0 Hv Hw Hinv. pose proof B_pos as HB.
  unfold r2_ph2.
  assert (Ht : 0 <= v * d0 < B * B).
  { split; [apply Z.mul_nonneg_nonneg; lia|].
    assert (v * d0 <= B * d0) by (apply Z.mul_le_mono_nonneg_r; lia).
    assert (B * d0 < B * B) by (apply Z.mul_lt_mono_pos_l; lia). lia. }
  pose proof (hi_lo_128 (v * d0)) as Et. pose proof (lo128_range (v * d0)) as Rt0.
  pose proof (hi128_range (v * d0) Ht) as Rt1.
  set (t := v * d0) in *. set (t1 := hi128 t) in *. set (t0 := lo128 t) in *.
  assert (Hdlt : d < B * B).
  { assert (d1 * B <= (B - 1) * B) by (apply Z.mul_le_mono_nonneg_r; lia). lia. }
  assert (Hd2 : B * B <= 2 * d).
  { assert (B * B <= (2 * d1) * B) by (apply Z.mul_le_mono_nonneg_r; lia). lia. }
  assert (Hwd : w * B <= d).
  { assert (w * B <= d1 * B) by (apply Z.mul_le_mono_nonneg_r; lia). lia. }
  (* (B+v) d = B^3 - w B + t *)
  assert (Key : (B + v) * d = B * B * B - w * B + t).
  { rewrite Ed. replace ((B + v) * (d1 * B + d0)) with (((B + v) * d1 + d0) * B + v * d0) by ring.
    replace ((B + v) * d1 + d0) with (B * B - w) by lia. subst t. ring. }
  assert (KeyB : (B + v + 1) * d = (B + v) * d + d) by ring.
  clearbody t t1 t0.
  destruct (Z.lt_ge_cases t1 w) as [Hc|Hc].
  - rewrite (wrap_small (B - w + t1)) by lia.
    destruct (Z.ltb_spec (B - w + t1) t1) as [Hc2|_]; [lia|].
    exists v. split; [reflexivity|]. split; [lia|].
    assert (B * 1 <= B * (w - t1)) by (apply Z.mul_le_mono_nonneg_l; lia).
    assert (0 <= t1 * B) by (apply Z.mul_nonneg_nonneg; lia).
    rewrite KeyB, Key. lia.
  - assert (W2 : wrap (B - w + t1) = t1 - w) by (apply wrap_uniq with (q := 1); lia).
    rewrite W2. destruct (Z.ltb_spec (t1 - w) t1) as [_|Hc2]; [|lia].
    assert (HtB : w * B <= t).
    { assert (w * B <= t1 * B) by (apply Z.mul_le_mono_nonneg_r; lia). lia. }
    assert (HBd : B * d < B * (B * B)) by (apply Z.mul_lt_mono_pos_l; lia).
    assert (Hv1 : 1 <= v).
    { destruct (Z.lt_ge_cases v 1) as [Hv0|]; [|assumption]. exfalso.
      assert (v = 0) by lia. subst v. lia. }
    rewrite (wrap_small (v - 1)) by lia.
    assert (Ej : join (t1 - w) t0 = t - w * B) by (unfold join; lia).
    rewrite Ej.
    assert (Km1 : (B + (v - 1)) * d = (B + v) * d - d) by ring.
    destruct (Z.leb_spec d (t - w * B)) as [Hc3|Hc3].
    + assert (Hv2 : 2 <= v).
      { destruct (Z.lt_ge_cases v 2) as [Hv0|]; [|assumption]. exfalso.
        assert (v = 1) by lia. subst v. lia. }
      rewrite (wrap_small (v - 1 - 1)) by lia.
      exists (v - 1 - 1). split; [reflexivity|]. split; [lia|].
      replace (B + (v - 1 - 1) + 1) with (B + (v - 1)) by ring.
      replace ((B + (v - 1 - 1)) * d) with ((B + v) * d - 2 * d) by ring.
      rewrite Km1, Key. lia.
    + exists (v - 1). split; [reflexivity|]. split; [lia|].
      replace (B + (v - 1) + 1) with (B + v) by ring.
      rewrite Km1, Key. lia.
Qed.

Lemma recip2_body_spec d v :
  2 ^ 127 <= d < B * B -> v = recip1 (hi128 d) ->
  recip2_body d v = recip2 d.
Proof.
  intros Hd ->. pose proof B_pos as HB. pose proof pow63 as P63.
  pose proof (hi_lo_128 d) as Ed. pose proof (lo128_range d) as Rd0.
  assert (Rd1 : 0 <= hi128 d < B) by (apply hi128_range; lia).
  rewrite recip2_body_split.
  set (d1 := hi128 d) in *. set (d0 := lo128 d) in *. clearbody d1 d0.
  assert (Hd1 : 2 ^ 63 <= d1 < B).
  { split; [|lia]. rewrite pow127 in Hd.
    destruct (Z.lt_ge_cases d1 (2 ^ 63)) as [Hc|]; [|assumption]. exfalso.
    assert (d1 * B <= (2 ^ 63 - 1) * B) by (apply Z.mul_le_mono_nonneg_r; lia). lia. }
  destruct (recip1_spec d1 Hd1) as [Hv [Hv1 Hv2]].
  set (v := recip1 d1) in *. clearbody v.
  set (k1 := B * B - (B + v) * d1).
  assert (Hk1 : (B + v) * d1 + k1 = B * B) by (unfold k1; ring).
  assert (Hk1r : 1 <= k1 <= d1) by (unfold k1; lia).
  assert (Hd1' : B <= 2 * d1) by lia.
  clearbody k1.
  destruct (r2_ph1_spec d1 d0 v k1 Hd1' (proj2 Hd1) Rd0 Hv Hk1 Hk1r)
    as (v' & w & E1 & Hv' & Hw & Hinv).
  rewrite E1.
  destruct (r2_ph2_spec d d1 d0 v' w Ed Hd1' (proj2 Hd1) Rd0 Hv' Hw Hinv) as (vf & E2 & Hvf & Hf1 & Hf2).
  rewrite E2. unfold recip2.
  assert ((B * B * B - 1) / d = B + vf).
  { symmetry. apply Z.div_unique with (r := B * B * B - 1 - (B + vf) * d); lia. }
  lia.
Qed.
Print Assumptions div_3x2_body_spec.
Print Assumptions recip2_body_spec.
