(* Proofs/PfFloat.v — float -> Uint: TryFrom<f64> / TryFrom<f32> of Model/Float.v return exactly
   what the integer specification RunC18.spec_try prescribes, for every width and every
   canonical binary64 value (hence every f64 and every widened f32 bit pattern). *)
From Coq Require Import ZArith List Bool Lia.
From Coq.Floats Require Import FloatClass SpecFloat.
From RV.Model Require Import Base Word Add Float.
From RV.Proofs Require Import BaseFacts PfAdd PfSpecFloat PfFloatUint.
From RV.Run Require Import RunC18.
Import ListNotations.
Local Open Scope Z_scope.

(* ---------- round_half_up on a common scale ---------- *)
Lemma rhu_scaled c m e : 1 <= c -> 0 <= e + c ->
  round_half_up m e = (m * 2 ^ (e + c) + 2 ^ (c - 1)) / 2 ^ c.
Proof.
  intros Hc He. unfold round_half_up.
  assert (Hc2 : 2 ^ c = 2 * 2 ^ (c - 1)).
  { replace c with (1 + (c - 1)) at 1 by lia. rewrite Z.pow_add_r by lia. reflexivity. }
  assert (Hp : 0 < 2 ^ (c - 1)) by (apply pow2_pos; lia).
  destruct (Z.leb_spec 0 e) as [G|G].
  - rewrite Z.pow_add_r by lia.
    apply Z.div_unique with (r := 2 ^ (c - 1)); [lia|ring].
  - set (k := - e) in *. replace (- e - 1) with (k - 1) by (unfold k; lia).
    replace (e + c) with (c - k) by (unfold k; lia).
    assert (E1 : 2 ^ c = 2 ^ k * 2 ^ (c - k)) by (rewrite <- Z.pow_add_r by lia; f_equal; lia).
    assert (E2 : 2 ^ (c - 1) = 2 ^ (k - 1) * 2 ^ (c - k)) by (rewrite <- Z.pow_add_r by lia; f_equal; lia).
    rewrite E2, E1.
    replace (m * 2 ^ (c - k) + 2 ^ (k - 1) * 2 ^ (c - k)) with ((m + 2 ^ (k - 1)) * 2 ^ (c - k)) by ring.
    rewrite Z.div_mul_cancel_r; [reflexivity| |]; apply Z.pow_nonzero; lia.
Qed.

(* renormalising the mantissa does not change the rounded integer *)
Lemma rhu_renorm m e d : 0 <= d -> round_half_up (m * 2 ^ d) (e - d) = round_half_up m e.
Proof.
  intros Hd. set (c := Z.max 1 (d - e)).
  rewrite (rhu_scaled c (m * 2 ^ d) (e - d)) by (unfold c; lia).
  rewrite (rhu_scaled c m e) by (unfold c; lia).
  f_equal. f_equal. rewrite <- Z.mul_assoc, <- Z.pow_add_r by (unfold c; lia). f_equal. f_equal. lia.
Qed.

(* wrapping: the remainder modulo M*C, rounded at scale C, is congruent modulo M *)
Lemma div_mod_shift S h C M : 0 < C -> 0 < M ->
  ((S mod (M * C) + h) / C) mod M = ((S + h) / C) mod M.
Proof.
  intros HC HM.
  rewrite (Z.div_mod S (M * C)) at 2 by nia.
  replace (M * C * (S / (M * C)) + S mod (M * C) + h)
    with ((S mod (M * C) + h) + (S / (M * C) * M) * C) by ring.
  rewrite Z.div_add by lia. rewrite Z.mod_add by lia. reflexivity.
Qed.

(* ---------- classification on spec_float ---------- *)
Definition sf_class (X : spec_float) : fclass :=
  match X with
  | S754_nan => FNaN
  | S754_infinity s => if s then FNegInf else FPosInf
  | S754_zero _ => FPos 0
  | S754_finite s m e =>
      if s then FNeg (round_half_up (Zpos m) e) else FPos (round_half_up (Zpos m) e)
  end.

Definition res_of_class (bits : Z) (c : fclass) : to_uint_result :=
  match c with
  | FNaN => NotANumber bits
  | FNegInf => ValueNegative bits (uint_of bits 0)
  | FNeg n => ValueNegative bits (uint_of bits (modp2 (- n) bits))
  | FPosInf => ValueTooLarge bits (uint_of bits 0)
  | FPos n => if n <? 2 ^ bits then TOk (uint_of bits n)
              else ValueTooLarge bits (uint_of bits (modp2 n bits))
  end.

Lemma spec_try_class prec emax bits x :
  spec_try prec emax bits x = res_toks (res_of_class bits (classify prec emax x)).
Proof.
  unfold spec_try, res_of_class. destruct (classify prec emax x); try reflexivity.
  destruct (n <? 2 ^ bits); reflexivity.
Qed.

(* canonical binary64 values *)
Definition valid64 (X : spec_float) : Prop :=
  match X with
  | S754_finite _ m e =>
      (2 ^ 52 <= Zpos m < 2 ^ 53 /\ -1074 <= e <= 971) \/ (Zpos m < 2 ^ 52 /\ e = -1074)
  | _ => True
  end.

(* ---------- comparisons against the constants of the code ---------- *)
Lemma SFltb_zero X :
  SFltb X f64_zero = match X with
                     | S754_infinity true | S754_finite true _ _ => true
                     | _ => false
                     end.
Proof. destruct X as [s|s| |s m e]; try destruct s; reflexivity. Qed.

Lemma SFleb_fin_fin m1 e1 m2 e2 :
  SFleb (S754_finite false m1 e1) (S754_finite false m2 e2)
  = match e1 ?= e2 with Lt => true | Gt => false | Eq => (Zpos m1 <=? Zpos m2) end.
Proof.
  unfold SFleb, SFcompare. destruct (e1 ?= e2); try reflexivity.
  all: unfold Z.leb; cbn [Z.compare]; unfold Pos.compare;
    destruct (Pos.compare_cont Eq m1 m2); reflexivity.
Qed.

Lemma SFltb_fin_fin m1 e1 m2 e2 :
  SFltb (S754_finite false m1 e1) (S754_finite false m2 e2)
  = match e1 ?= e2 with Lt => true | Gt => false | Eq => (Zpos m1 <? Zpos m2) end.
Proof.
  unfold SFltb, SFcompare. destruct (e1 ?= e2); try reflexivity.
  all: unfold Z.ltb; cbn [Z.compare]; unfold Pos.compare;
    destruct (Pos.compare_cont Eq m1 m2); reflexivity.
Qed.

Lemma exp2_int_64 bits :
  exp2_int 53 1024 bits
  = if bits <? 1024 then S754_finite false 4503599627370496 (bits - 52) else S754_infinity false.
Proof. reflexivity. Qed.

(* one unfolding of the recursive model function *)
Lemma try_from_f64_S fuel bits value :
  Float.try_from_f64 (S fuel) bits value =
  if is_nan value then Val (NotANumber bits) else
  if SFltb value f64_zero then
    do r <- Float.try_from_f64 fuel bits (SFabs value) ;
    Val (ValueNegative bits (Add.wrapping_neg bits (wrapped_of bits r)))
  else
  let modulus := exp2_int 53 1024 bits in
  if SFleb modulus value then
    do r <- Float.try_from_f64 fuel bits (SFrem 53 1024 value modulus) ;
    Val (ValueTooLarge bits (wrapped_of bits r))
  else
  if SFltb value f64_half then Val (TOk (uZERO bits)) else
  if negb (is_normal 53 value) then Panic else
  let b := encode 53 1024 value in
  let sign := shr64 b 63 in
  if negb (sign =? 0) then Panic else
  let biased_exponent := Z.land (shr64 b 52) 0x7ff in
  if biased_exponent <? 1022 then Panic else
  let fraction := Z.land b 0x000fffffffffffff in
  let mantissa := Z.lor 0x0010000000000000 fraction in
  if biased_exponent <? 1023 + 52 then
    let shift := 1023 + 52 - biased_exponent in
    if 64 <=? shift - 1 then DebugPanic else
    let half := shl64 1 (shift - 1) in
    if B <=? mantissa + half then DebugPanic else
    if 64 <=? shift then DebugPanic else
    try_from_u64 bits (shr64 (mantissa + half) shift)
  else
  let exponent := biased_exponent - 1023 in
  if bits + 52 <? exponent then Val (ValueTooLarge bits (uZERO bits)) else
  if exponent <=? 52 then try_from_u64 bits (shr64 mantissa (52 - exponent))
  else
    let exponent := exponent - 52 in
    do r <- try_from_u64 bits mantissa ;
    match r with
    | TOk n =>
        let '(n', overflow) := overflowing_shl bits n exponent in
        Val (if overflow then ValueTooLarge bits n' else TOk n')
    | e => Val e
    end.
Proof. reflexivity. Qed.

(* the result for a non-negative value whose rounded integer is n *)
Definition pos_result (bits n : Z) : to_uint_result := res_of_class bits (FPos n).

Lemma wrapped_pos_result bits n : 0 <= bits -> 0 <= n ->
  wrapped_of bits (pos_result bits n) = uint_of bits (n mod 2 ^ bits).
Proof.
  intros Hb Hn. unfold pos_result, res_of_class.
  destruct (Z.ltb_spec n (2 ^ bits)); cbn [wrapped_of].
  - now rewrite Z.mod_small by lia.
  - now rewrite modp2_spec by lia.
Qed.

Lemma rhu_nonneg m e : 0 <= m -> 0 <= round_half_up m e.
Proof.
  intros Hm. unfold round_half_up. destruct (Z.leb_spec 0 e).
  - apply Z.mul_nonneg_nonneg; [lia|apply Z.pow_nonneg; lia].
  - apply Z.div_pos; [|apply pow2_pos; lia].
    pose proof (Z.pow_nonneg 2 (- e - 1) ltac:(lia)). lia.
Qed.

(* ---------- the part of try_from below the modulus ---------- *)
Lemma encode_normal m e :
  2 ^ 52 <= Zpos m < 2 ^ 53 -> -1074 <= e <= 971 ->
  encode 53 1024 (S754_finite false m e) = (e + 1075) * 2 ^ 52 + (Zpos m - 2 ^ 52).
Proof.
  intros Hm He. unfold encode, sbit.
  destruct (Z.ltb_spec (Zpos m) (2 ^ (53 - 1))) as [G|G]; [change (2 ^ (53 - 1)) with (2 ^ 52) in G; lia|].
  change (2 ^ (53 - 1)) with (2 ^ 52). lia.
Qed.

Lemma below_modulus fuel bits m e :
  0 <= bits ->
  valid64 (S754_finite false m e) ->
  (1024 <= bits \/ e < bits - 52) ->
  Float.try_from_f64 (S fuel) bits (S754_finite false m e)
  = Val (pos_result bits (round_half_up (Zpos m) e)).
Proof.
  intros Hb Hv Hlt. rewrite try_from_f64_S.
  cbn [is_nan]. rewrite SFltb_zero. cbv zeta.
  (* value >= modulus is false *)
  assert (Hmod : SFleb (exp2_int 53 1024 bits) (S754_finite false m e) = false).
  { rewrite exp2_int_64. destruct (Z.ltb_spec bits 1024) as [G|G].
    - rewrite SFleb_fin_fin. destruct Hlt as [Hlt|Hlt]; [lia|].
      destruct (Z.compare_spec (bits - 52) e); try reflexivity; lia.
    - reflexivity. }
  rewrite Hmod. clear Hmod.
  unfold f64_half. rewrite SFltb_fin_fin.
  assert (H2b : 0 < 2 ^ bits) by (apply pow2_pos; lia).
  cbn [valid64] in Hv.
  assert (Hhalf : match e ?= -53 with
                  | Lt => true | Gt => false | Eq => Zpos m <? 4503599627370496 end = (e <? -53)).
  { destruct (Z.compare_spec e (-53)); destruct (Z.ltb_spec e (-53)); try reflexivity; try lia.
    all: subst; apply Z.ltb_ge; destruct Hv as [[? ?]|[? ?]]; lia. }
  rewrite Hhalf. clear Hhalf.
  destruct (Z.ltb_spec e (-53)) as [E|E].
  - (* value < 0.5 *)
    assert (Hn : round_half_up (Zpos m) e = 0).
    { unfold round_half_up. destruct (Z.leb_spec 0 e); [lia|].
      apply Z.div_small.
      assert (2 ^ 53 <= 2 ^ (- e - 1)) by (apply Z.pow_le_mono_r; lia).
      assert (E2 : 2 ^ (- e) = 2 * 2 ^ (- e - 1)).
      { replace (- e) with (1 + (- e - 1)) at 1 by lia. rewrite Z.pow_add_r by lia. reflexivity. }
      rewrite E2. destruct Hv as [[Hm He]|[Hm He]]; lia. }
    rewrite Hn. unfold pos_result, res_of_class.
    destruct (Z.ltb_spec 0 (2 ^ bits)); [|lia]. now rewrite uint_of_0.
  - (* 0.5 <= value: a normal number; IEEE field extraction *)
    destruct Hv as [[Hm He]|[Hm He]]; [|lia].
    assert (Hnorm : is_normal 53 (S754_finite false m e) = true).
    { unfold is_normal, SFclassify.
      assert (digits2_pos m = 53%positive) as ->; [|reflexivity].
      apply Pos2Z.inj. rewrite digits2_pos_log2, (log2_eq _ 52); lia. }
    rewrite Hnorm. cbn [negb].
    rewrite encode_normal by assumption.
    set (b := (e + 1075) * 2 ^ 52 + (Zpos m - 2 ^ 52)).
    assert (Hsign : shr64 b 63 = 0) by (unfold shr64; apply Z.div_small; unfold b; lia).
    rewrite Hsign. cbn [Z.eqb negb].
    assert (Hbe : Z.land (shr64 b 52) 0x7ff = e + 1075).
    { unfold shr64. change 0x7ff with (2 ^ 11 - 1). rewrite land_ones_mod by lia.
      assert (b / 2 ^ 52 = e + 1075) as ->.
      { unfold b. symmetry. apply Z.div_unique with (r := Zpos m - 2 ^ 52); lia. }
      apply Z.mod_small. lia. }
    rewrite Hbe.
    assert (Hfr : Z.land b 0x000fffffffffffff = Zpos m - 2 ^ 52).
    { change 0x000fffffffffffff with (2 ^ 52 - 1). rewrite land_ones_mod by lia.
      unfold b. rewrite Z.add_comm, Z.mod_add by lia. apply Z.mod_small; lia. }
    rewrite Hfr.
    assert (Hman : Z.lor 0x0010000000000000 (Zpos m - 2 ^ 52) = Zpos m).
    { change 0x0010000000000000 with (1 * 2 ^ 52). rewrite lor_disjoint by lia. lia. }
    rewrite Hman.
    destruct (Z.ltb_spec (e + 1075) 1022); [lia|].
    change (1023 + 52) with 1075.
    destruct (Z.ltb_spec (e + 1075) 1075) as [G|G].
    + (* fractional bits: round half up on the mantissa *)
      replace (1075 - (e + 1075)) with (- e) by lia.
      destruct (Z.leb_spec 64 (- e - 1)); [lia|].
      assert (Hhalfv : shl64 1 (- e - 1) = 2 ^ (- e - 1)).
      { unfold shl64. rewrite Z.mul_1_l. apply Z.mod_small.
        split; [apply Z.pow_nonneg; lia|]. rewrite B_pow. apply Z.pow_lt_mono_r; lia. }
      rewrite Hhalfv.
      assert (0 < 2 ^ (- e - 1) <= 2 ^ 52) by (split; [apply pow2_pos; lia|apply Z.pow_le_mono_r; lia]).
      destruct (Z.leb_spec B (Zpos m + 2 ^ (- e - 1))); [rewrite B_val in *; lia|].
      destruct (Z.leb_spec 64 (- e)); [lia|].
      unfold shr64.
      assert (0 < 2 ^ (- e)) by (apply pow2_pos; lia).
      assert (2 <= 2 ^ (- e)).
      { replace (- e) with (1 + (- e - 1)) by lia. rewrite Z.pow_add_r by lia. lia. }
      rewrite try_from_u64_spec; [|lia|].
      * unfold round_half_up. destruct (Z.leb_spec 0 e); [lia|].
        unfold pos_result, res_of_class, u64_result. rewrite modp2_spec by lia. reflexivity.
      * split; [apply Z.div_pos; lia|]. apply Z.div_lt_upper_bound; [lia|]. rewrite B_val. nia.
    + replace (e + 1075 - 1023) with (e + 52) by lia.
      destruct (Z.ltb_spec (bits + 52) (e + 52)) as [G2|G2]; [lia|].
      destruct (Z.leb_spec (e + 52) 52) as [G3|G3].
      * assert (e = 0) by lia. subst e. change (52 - (0 + 52)) with 0.
        unfold shr64. rewrite Z.pow_0_r, Z.div_1_r.
        rewrite try_from_u64_spec by (rewrite ?B_val; lia).
        unfold round_half_up. cbn [Z.leb Z.compare]. rewrite Z.pow_0_r, Z.mul_1_r.
        unfold pos_result, res_of_class, u64_result. rewrite modp2_spec by lia. reflexivity.
      * replace (e + 52 - 52) with e by lia.
        rewrite try_from_u64_spec by (rewrite ?B_val; lia). unfold u64_result.
        assert (Hmb : Zpos m < 2 ^ bits).
        { assert (2 ^ 53 <= 2 ^ bits) by (apply Z.pow_le_mono_r; lia). lia. }
        destruct (Z.ltb_spec (Zpos m) (2 ^ bits)); [|lia]. cbn [obind].
        destruct (uint_of_canon bits (Zpos m) Hb ltac:(lia)) as [Hc Hev].
        rewrite overflowing_shl_spec by (auto; lia). rewrite Hev.
        unfold round_half_up. destruct (Z.leb_spec 0 e); [|lia].
        unfold pos_result, res_of_class.
        destruct (Z.leb_spec (2 ^ bits) (Zpos m * 2 ^ e)); destruct (Z.ltb_spec (Zpos m * 2 ^ e) (2 ^ bits)); try lia.
        -- rewrite modp2_spec by lia. reflexivity.
        -- rewrite Z.mod_small; [reflexivity|]. split; [|lia].
           apply Z.mul_nonneg_nonneg; [lia|apply Z.pow_nonneg; lia].
Qed.

Lemma rhu_zero e : round_half_up 0 e = 0.
Proof.
  unfold round_half_up. destruct (Z.leb_spec 0 e); [lia|]. apply Z.div_small.
  assert (E2 : 2 ^ (- e) = 2 * 2 ^ (- e - 1)).
  { replace (- e) with (1 + (- e - 1)) at 1 by lia. rewrite Z.pow_add_r by lia. reflexivity. }
  pose proof (pow2_pos (- e - 1) ltac:(lia)). lia.
Qed.

(* ---------- zero, infinity ---------- *)
Lemma zero_case fuel bits s :
  Float.try_from_f64 (S fuel) bits (S754_zero s) = Val (TOk (uZERO bits)).
Proof.
  rewrite try_from_f64_S, exp2_int_64. destruct s; destruct (bits <? 1024); reflexivity.
Qed.

Lemma inf_case fuel bits :
  Float.try_from_f64 (S (S fuel)) bits (S754_infinity false) = Val (ValueTooLarge bits (uZERO bits)).
Proof.
  rewrite try_from_f64_S, exp2_int_64. destruct (bits <? 1024); reflexivity.
Qed.

(* ---------- finite non-negative values, including those at or above the modulus ---------- *)
Lemma nonneg_finite fuel bits m e :
  0 <= bits ->
  valid64 (S754_finite false m e) ->
  Float.try_from_f64 (S (S fuel)) bits (S754_finite false m e)
  = Val (pos_result bits (round_half_up (Zpos m) e)).
Proof.
  intros Hb Hv.
  destruct (Z_lt_le_dec bits 1024) as [Hb2|Hb2]; [|apply below_modulus; auto].
  destruct (Z_lt_le_dec e (bits - 52)) as [Hlt|Hge]; [apply below_modulus; auto|].
  (* value >= 2^bits *)
  cbn [valid64] in Hv. destruct Hv as [[Hm He]|[Hm He]]; [|lia].
  rewrite try_from_f64_S. cbn [is_nan]. rewrite SFltb_zero. cbv zeta.
  rewrite exp2_int_64. destruct (Z.ltb_spec bits 1024) as [_|]; [|lia].
  assert (Hmod : SFleb (S754_finite false 4503599627370496 (bits - 52)) (S754_finite false m e) = true).
  { rewrite SFleb_fin_fin. destruct (Z.compare_spec (bits - 52) e); try reflexivity; lia. }
  rewrite Hmod. clear Hmod.
  set (ez := bits - 52) in *. set (sh := e - ez).
  set (R := (Zpos m * 2 ^ sh) mod 2 ^ 52).
  assert (Hrem : SFrem 53 1024 (S754_finite false m e) (S754_finite false 4503599627370496 ez)
                 = binary_normalize 53 1024 R ez false).
  { unfold SFrem. rewrite Z.min_r by lia. fold sh. rewrite Z.sub_diag, Z.pow_0_r, Z.mul_1_r.
    reflexivity. }
  rewrite Hrem. clear Hrem.
  assert (H252 : 0 < 2 ^ 52) by lia.
  pose proof (Z.mod_pos_bound (Zpos m * 2 ^ sh) (2 ^ 52) H252) as HR. fold R in HR.
  (* scaled values *)
  set (C := 2 ^ 1074). set (h := 2 ^ 1073).
  assert (HC : 0 < C) by (apply pow2_pos; lia).
  assert (H2b : 0 < 2 ^ bits) by (apply pow2_pos; lia).
  set (S0 := Zpos m * 2 ^ (e + 1074)).
  assert (Hn : round_half_up (Zpos m) e = (S0 + h) / C) by (apply rhu_scaled; lia).
  assert (HRS : R * 2 ^ (ez + 1074) = S0 mod (2 ^ bits * C)).
  { unfold R, S0, C. rewrite <- Z.mul_mod_distr_r by (try apply Z.pow_nonzero; lia).
    f_equal.
    - rewrite <- Z.mul_assoc, <- Z.pow_add_r by (unfold sh; lia). f_equal. f_equal. unfold sh. lia.
    - rewrite <- !Z.pow_add_r by (unfold ez; lia). f_equal. unfold ez. lia. }
  assert (Hn' : round_half_up R ez = (S0 mod (2 ^ bits * C) + h) / C).
  { rewrite (rhu_scaled 1074) by (unfold ez; lia). rewrite HRS. reflexivity. }
  assert (Hcong : round_half_up R ez mod 2 ^ bits = round_half_up (Zpos m) e mod 2 ^ bits).
  { rewrite Hn, Hn'. apply div_mod_shift; lia. }
  assert (Hbig : 2 ^ bits <= round_half_up (Zpos m) e).
  { rewrite Hn. apply Z.div_le_lower_bound; [lia|].
    assert (2 ^ bits * C <= S0); [|unfold h; pose proof (pow2_pos 1073 ltac:(lia)); lia].
    unfold S0, C.
    assert (E1 : 2 ^ bits * 2 ^ 1074 = 2 ^ 52 * 2 ^ (ez + 1074)).
    { rewrite <- !Z.pow_add_r by (unfold ez; lia). f_equal. unfold ez. lia. }
    rewrite E1.
    assert (2 ^ (ez + 1074) <= 2 ^ (e + 1074)) by (apply Z.pow_le_mono_r; lia).
    assert (0 < 2 ^ (ez + 1074)) by (apply pow2_pos; unfold ez; lia).
    nia. }
  assert (Hgoal : forall w, w = uint_of bits (round_half_up R ez mod 2 ^ bits) ->
            Val (ValueTooLarge bits w) = Val (pos_result bits (round_half_up (Zpos m) e))).
  { intros w ->. unfold pos_result, res_of_class.
    destruct (Z.ltb_spec (round_half_up (Zpos m) e) (2 ^ bits)); [lia|].
    rewrite modp2_spec, Hcong by lia. reflexivity. }
  destruct (Z.eq_dec R 0) as [R0|R0].
  - rewrite R0. cbn [binary_normalize]. rewrite zero_case. cbn [obind wrapped_of].
    apply Hgoal. rewrite R0.
    rewrite rhu_zero.
    rewrite Z.mod_0_l by lia. now rewrite uint_of_0.
  - destruct R as [|r|r] eqn:ER; try lia. cbn [binary_normalize].
    set (d := Z.log2 (Zpos r) + 1).
    pose proof (log2_bounds (Zpos r) ltac:(lia)) as Hlr.
    assert (Hd : 1 <= d <= 52).
    { unfold d. pose proof (Z.log2_nonneg (Zpos r)). split; [lia|].
      assert (Z.log2 (Zpos r) < 52); [|lia]. apply Z.log2_lt_pow2; lia. }
    rewrite (binary_round_exact 53 1024 false r ez) by (cbv zeta; fold d; unfold ez; lia).
    fold d. unfold mkfin.
    destruct (Z.leb_spec (ez - (53 - d)) (1024 - 53)) as [_|]; [|unfold ez in *; lia].
    assert (HM : 2 ^ 52 <= Zpos r * 2 ^ (53 - d) < 2 ^ 53).
    { assert (E1 : 2 ^ 52 = 2 ^ (d - 1) * 2 ^ (53 - d)) by (rewrite <- Z.pow_add_r by lia; f_equal; lia).
      assert (E2 : 2 ^ 53 = 2 ^ d * 2 ^ (53 - d)) by (rewrite <- Z.pow_add_r by lia; f_equal; lia).
      rewrite E1, E2. replace (Z.log2 (Zpos r)) with (d - 1) in Hlr by (unfold d; lia).
      replace (d - 1 + 1) with d in Hlr by lia.
      assert (0 < 2 ^ (53 - d)) by (apply pow2_pos; lia). nia. }
    assert (HMpos : Zpos (Z.to_pos (Zpos r * 2 ^ (53 - d))) = Zpos r * 2 ^ (53 - d))
      by (apply Z2Pos.id; lia).
    rewrite below_modulus; [| lia | cbn [valid64]; rewrite HMpos; left; unfold ez in *; lia | right; lia].
    cbn [obind]. rewrite HMpos. rewrite rhu_renorm by lia.
    rewrite wrapped_pos_result by (try apply rhu_nonneg; lia).
    apply Hgoal. reflexivity.
Qed.

(* ---------- Theorem A: every canonical binary64 value ---------- *)
Lemma opp_mod_idem n M : 0 < M -> (- (n mod M)) mod M = (- n) mod M.
Proof.
  intros HM. replace (- (n mod M)) with (0 - n mod M) by lia.
  rewrite Zminus_mod_idemp_r. f_equal.
Qed.

Theorem try_from_f64_correct bits X :
  0 <= bits -> valid64 X ->
  Float.try_from_f64 try_from_fuel bits X = Val (res_of_class bits (sf_class X)).
Proof.
  intros Hb Hv. unfold try_from_fuel.
  assert (H2b : 0 < 2 ^ bits) by (apply pow2_pos; lia).
  assert (Hneg0 : Add.wrapping_neg bits (uZERO bits) = uint_of bits 0).
  { destruct (canon_uZERO bits Hb) as [Hc He]. rewrite wrapping_neg_eq, He by auto.
    cbn [Z.opp]. now rewrite Z.mod_0_l by lia. }
  destruct X as [s|s| |s m e].
  - rewrite zero_case. cbn [sf_class res_of_class].
    destruct (Z.ltb_spec 0 (2 ^ bits)); [|lia]. now rewrite uint_of_0.
  - destruct s.
    + rewrite try_from_f64_S. cbn [is_nan]. rewrite SFltb_zero. cbn [SFabs].
      rewrite inf_case. cbn [obind wrapped_of sf_class res_of_class]. now rewrite Hneg0.
    + rewrite inf_case. cbn [sf_class res_of_class]. now rewrite uint_of_0.
  - reflexivity.
  - destruct s.
    + rewrite try_from_f64_S. cbn [is_nan]. rewrite SFltb_zero. cbn [SFabs].
      rewrite nonneg_finite by auto. cbn [obind sf_class res_of_class].
      pose proof (rhu_nonneg (Zpos m) e ltac:(lia)) as Hn.
      rewrite wrapped_pos_result by lia.
      set (n := round_half_up (Zpos m) e) in *.
      pose proof (Z.mod_pos_bound n (2 ^ bits) H2b) as Hmb.
      destruct (uint_of_canon bits (n mod 2 ^ bits) Hb Hmb) as [Hc He].
      rewrite wrapping_neg_eq, He by auto.
      rewrite opp_mod_idem, modp2_spec by lia. reflexivity.
    + rewrite nonneg_finite by auto. reflexivity.
Qed.

(* ---------- bit patterns ---------- *)
Section Decode.
  Variables prec emax : Z.
  Hypothesis Hprec : 1 < prec.
  Hypothesis Hemax : 0 < emax.

  Lemma sign_of_fsign x : 0 <= x -> sign_of prec emax x = fsign prec emax x.
  Proof.
    intros Hx. unfold sign_of, fsign.
    assert (HK : 0 < 2 ^ (prec - 1) * (2 * emax)).
    { pose proof (pow2_pos (prec - 1) ltac:(lia)). nia. }
    set (K := 2 ^ (prec - 1) * (2 * emax)) in *.
    destruct (Z.leb_spec K x) as [G|G].
    - apply negb_true_iff, Z.eqb_neq. assert (1 <= x / K); [|lia].
      apply Z.div_le_lower_bound; lia.
    - apply negb_false_iff, Z.eqb_eq. apply Z.div_small. lia.
  Qed.

  Lemma decode_fields x : 0 <= x ->
    decode prec emax x =
    if fexpo prec emax x =? 2 * emax - 1 then
      (if ffrac prec x =? 0 then S754_infinity (fsign prec emax x) else S754_nan)
    else if fmant prec emax x =? 0 then S754_zero (fsign prec emax x)
    else S754_finite (fsign prec emax x) (Z.to_pos (fmant prec emax x)) (fexp2 prec emax x).
  Proof.
    intros Hx. unfold decode. rewrite sign_of_fsign by exact Hx.
    change (bexp_of prec emax x) with (fexpo prec emax x).
    change (frac_of prec x) with (ffrac prec x).
    unfold fmant, fexp2.
    pose proof (pow2_pos (prec - 1) ltac:(lia)) as Hp.
    pose proof (Z.mod_pos_bound x (2 ^ (prec - 1)) Hp) as Hfr. fold (ffrac prec x) in Hfr.
    destruct (fexpo prec emax x =? 2 * emax - 1); [reflexivity|].
    destruct (Z.eqb_spec (fexpo prec emax x) 0) as [E|E].
    - destruct (Z.eqb_spec (ffrac prec x) 0); reflexivity.
    - destruct (Z.eqb_spec (2 ^ (prec - 1) + ffrac prec x) 0); [lia|].
      f_equal. lia.
  Qed.

  Lemma class_decode x : 0 <= x -> sf_class (decode prec emax x) = classify prec emax x.
  Proof.
    intros Hx. rewrite decode_fields by exact Hx. unfold classify.
    destruct (fexpo prec emax x =? 2 * emax - 1).
    - destruct (ffrac prec x =? 0); reflexivity.
    - assert (Hm : 0 <= fmant prec emax x).
      { unfold fmant. pose proof (pow2_pos (prec - 1) ltac:(lia)) as Hp.
        pose proof (Z.mod_pos_bound x (2 ^ (prec - 1)) Hp) as Hfr. fold (ffrac prec x) in Hfr.
        destruct (fexpo prec emax x =? 0); lia. }
      destruct (Z.eqb_spec (fmant prec emax x) 0) as [E|E].
      + rewrite E, rhu_zero. cbn [sf_class]. rewrite andb_false_r. reflexivity.
      + cbn [sf_class]. rewrite Z2Pos.id by lia.
        destruct (Z.ltb_spec 0 (fmant prec emax x)); [|lia]. rewrite andb_true_r.
        destruct (fsign prec emax x); reflexivity.
  Qed.
End Decode.

Lemma fexpo_range prec emax x : 0 < emax -> 0 <= fexpo prec emax x < 2 * emax.
Proof. intros. unfold fexpo. apply Z.mod_pos_bound. lia. Qed.

Lemma valid64_decode x : 0 <= x -> valid64 (decode 53 1024 x).
Proof.
  intros Hx. rewrite decode_fields by lia.
  pose proof (fexpo_range 53 1024 x ltac:(lia)) as He.
  assert (Hfr : 0 <= ffrac 53 x < 2 ^ 52) by (unfold ffrac; apply Z.mod_pos_bound; lia).
  destruct (Z.eqb_spec (fexpo 53 1024 x) (2 * 1024 - 1)).
  - destruct (ffrac 53 x =? 0); exact I.
  - destruct (Z.eqb_spec (fmant 53 1024 x) 0); [exact I|].
    cbn [valid64]. unfold fmant, fexp2 in *. change (2 ^ (53 - 1)) with (2 ^ 52) in *.
    destruct (Z.eqb_spec (fexpo 53 1024 x) 0).
    + right. rewrite Z2Pos.id by lia. lia.
    + left. rewrite Z2Pos.id by lia. lia.
Qed.

(* widening an f32 pattern *)
Lemma widen_decode32 x : 0 <= x ->
  valid64 (widen (decode 24 128 x)) /\ sf_class (widen (decode 24 128 x)) = classify 24 128 x.
Proof.
  intros Hx. rewrite <- (class_decode 24 128) by lia.
  rewrite decode_fields by lia.
  pose proof (fexpo_range 24 128 x ltac:(lia)) as He.
  assert (Hfr : 0 <= ffrac 24 x < 2 ^ 23) by (unfold ffrac; apply Z.mod_pos_bound; lia).
  destruct (Z.eqb_spec (fexpo 24 128 x) (2 * 128 - 1)).
  - destruct (ffrac 24 x =? 0); cbn [widen valid64]; auto.
  - destruct (Z.eqb_spec (fmant 24 128 x) 0) as [E0|E0]; [cbn [widen valid64]; auto|].
    set (m := fmant 24 128 x) in *. set (e := fexp2 24 128 x).
    assert (Hm : 0 < m < 2 ^ 24).
    { unfold m, fmant in *. change (2 ^ (24 - 1)) with (2 ^ 23) in *.
      destruct (fexpo 24 128 x =? 0); lia. }
    assert (Hee : -149 <= e <= 104).
    { unfold e, fexp2. destruct (Z.eqb_spec (fexpo 24 128 x) 0); lia. }
    cbn [widen].
    assert (Hmp : Zpos (Z.to_pos m) = m) by (apply Z2Pos.id; lia).
    set (d := Z.log2 m + 1).
    pose proof (log2_bounds m ltac:(lia)) as Hl.
    assert (Hd : 1 <= d <= 24).
    { unfold d. pose proof (Z.log2_nonneg m). split; [lia|].
      assert (Z.log2 m < 24); [|lia]. apply Z.log2_lt_pow2; lia. }
    rewrite (binary_round_exact 53 1024) by (cbv zeta; rewrite Hmp; fold d; lia).
    rewrite Hmp. fold d. unfold mkfin.
    destruct (Z.leb_spec (e - (53 - d)) (1024 - 53)) as [_|]; [|lia].
    assert (HM : 2 ^ 52 <= m * 2 ^ (53 - d) < 2 ^ 53).
    { assert (E1 : 2 ^ 52 = 2 ^ (d - 1) * 2 ^ (53 - d)) by (rewrite <- Z.pow_add_r by lia; f_equal; lia).
      assert (E2 : 2 ^ 53 = 2 ^ d * 2 ^ (53 - d)) by (rewrite <- Z.pow_add_r by lia; f_equal; lia).
      rewrite E1, E2. replace (Z.log2 m) with (d - 1) in Hl by (unfold d; lia).
      replace (d - 1 + 1) with d in Hl by lia.
      assert (0 < 2 ^ (53 - d)) by (apply pow2_pos; lia). nia. }
    assert (HMpos : Zpos (Z.to_pos (m * 2 ^ (53 - d))) = m * 2 ^ (53 - d)) by (apply Z2Pos.id; lia).
    split.
    + cbn [valid64]. rewrite HMpos. left. lia.
    + cbn [sf_class]. rewrite HMpos, Hmp, rhu_renorm by lia. reflexivity.
Qed.

(* ---------- the entry points ---------- *)
Theorem uint_try_from_f64_spec bits x : 0 <= bits -> 0 <= x ->
  uint_try_from_f64 bits x = Val (res_of_class bits (classify 53 1024 x)).
Proof.
  intros Hb Hx. unfold uint_try_from_f64.
  rewrite try_from_f64_correct by (auto using valid64_decode).
  now rewrite class_decode by lia.
Qed.

Theorem uint_try_from_f32_spec bits x : 0 <= bits -> 0 <= x ->
  uint_try_from_f32 bits x = Val (res_of_class bits (classify 24 128 x)).
Proof.
  intros Hb Hx. unfold uint_try_from_f32.
  destruct (widen_decode32 x Hx) as [Hv Hc].
  rewrite try_from_f64_correct by auto. now rewrite Hc.
Qed.
