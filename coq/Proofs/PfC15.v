(* Proofs/PfC15.v — every C15 call: the model's answer meets the executable specification. *)
From Coq Require Import ZArith List Bool Lia.
From RV.Model Require Import Base Word Add Limbs.
From RV.Proofs Require Import BaseFacts PfAdd PfC01 PfLimbs PfMulN.
From RV.Run Require Import RunC15.
Import ListNotations.
Local Open Scope Z_scope.

Lemma Bn_eq n : Bn n = B ^ Z.of_nat n.
Proof. unfold Bn. symmetry. apply Bn_pow2. Qed.

(* the low limbs and the high part of T are determined by eval r + B^n * c = T *)
Lemma split_unique n r c T :
  length r = n -> Forall inW r -> eval r + B ^ Z.of_nat n * c = T ->
  to_limbs n T = r /\ highp n T = c.
Proof.
  intros Hl Hw He. pose proof (eval_bound r Hw) as Hb. rewrite Hl in Hb.
  pose proof (Bn_pos n) as HB.
  assert (Hm : T mod B ^ Z.of_nat n = eval r).
  { symmetry. apply Z.mod_unique with (q := c); [left; lia | lia]. }
  assert (Hd : T / B ^ Z.of_nat n = c).
  { symmetry. apply Z.div_unique with (r := eval r); [left; lia | lia]. }
  split.
  - apply eval_inj; [rewrite to_limbs_length; lia | apply to_limbs_inW | exact Hw|].
    rewrite eval_to_limbs. exact Hm.
  - unfold highp. rewrite divp2_spec by lia. rewrite <- Bn_pow2. exact Hd.
Qed.

Lemma lz_expect n r c T :
  length r = n -> Forall inW r -> eval r + B ^ Z.of_nat n * c = T ->
  expect (Val (lz (r, c))) [lowp n T; TZ (highp n T)] = true.
Proof.
  intros Hl Hw He. destruct (split_unique n r c T Hl Hw He) as [E1 E2].
  unfold lz, lowp. cbn [fst snd]. rewrite E1, E2. apply expect_refl.
Qed.

Lemma lz_expect_neg n r c T :
  length r = n -> Forall inW r -> eval r - B ^ Z.of_nat n * c = T ->
  expect (Val (lz (r, c))) [lowp n T; TZ (- highp n T)] = true.
Proof.
  intros Hl Hw He. destruct (split_unique n r (- c) T Hl Hw ltac:(lia)) as [E1 E2].
  unfold lz, lowp. cbn [fst snd]. rewrite E1, E2, Z.opp_involutive. apply expect_refl.
Qed.

Lemma low_unique n r T :
  length r = n -> Forall inW r -> eval r = T mod B ^ Z.of_nat n -> to_limbs n T = r.
Proof.
  intros Hl Hw He. apply eval_inj; [rewrite to_limbs_length; lia | apply to_limbs_inW | exact Hw|].
  rewrite eval_to_limbs. congruence.
Qed.

(* general (unequal lengths) form of algorithms::cmp *)
Lemma limbs_cmp_gen l r :
  Forall inW l -> Forall inW r ->
  limbs_cmp l r =
  match Z.compare (eval (firstn (Nat.min (length l) (length r)) l))
                  (eval (firstn (Nat.min (length l) (length r)) r)) with
  | Eq => Nat.compare (length l) (length r) | x => x end.
Proof.
  intros Hl Hr. unfold limbs_cmp. set (m := Nat.min (length l) (length r)).
  destruct (Forall_firstn_skipn inW m l Hl) as [Hl1 _].
  destruct (Forall_firstn_skipn inW m r Hr) as [Hr1 _].
  assert (L1 : length (firstn m l) = m) by (apply firstn_length_le; unfold m; lia).
  assert (L2 : length (firstn m r) = m) by (apply firstn_length_le; unfold m; lia).
  rewrite cmp_rev_spec, !rev_involutive
    by (rewrite ?rev_length; auto using Forall_rev; congruence).
  reflexivity.
Qed.

Theorem C15_all c : wf c -> spec c (run c) = true.
Proof.
  destruct c as [bits lhs a b|bits lhs a b|bits lhs a|bits lhs a b|bits lhs a b|bits lhs a
                |bits lhs rhs cy|bits lhs rhs bw|bits l s|bits l s|bits l r
                |bits x y cy|bits x y cy|bits x y cy|bits x y cy]; cbn [wf spec run].
  - (* addmul *)
    intros (Hl & Ha & Hb). pose proof (addmul_spec lhs a b Hl Ha Hb) as S.
    destruct (Limbs.addmul lhs a b) as [l' f]. destruct S as (H1 & H2 & H3 & H4).
    unfold lowp. rewrite (low_unique _ l' _ H1 H2 H3), H4, Bn_eq. apply expect_refl.
  - (* addmul_n *)
    intros (Hl & Ha & Hb).
    destruct (Nat.eqb_spec (length lhs) (length a)) as [E1|E1];
      destruct (Nat.eqb_spec (length lhs) (length b)) as [E2|E2]; cbn [andb].
    + destruct (addmul_n_spec lhs a b E1 E2 Hl Ha Hb) as (r & E & H1 & H2 & H3).
      rewrite E. cbn [obind]. unfold lowp. rewrite (low_unique _ r _ H1 H2 H3). apply expect_refl.
    + rewrite addmul_n_mismatch by (right; exact E2). reflexivity.
    + rewrite addmul_n_mismatch by (left; exact E1). reflexivity.
    + rewrite addmul_n_mismatch by (left; exact E1). reflexivity.
  - (* mul_nx1 *)
    intros (Hl & Ha). unfold Limbs.mul_nx1.
    assert (H0 : inW 0) by (unfold inW; pose proof B_pos; lia).
    pose proof (mul_nx1_loop_spec lhs a 0 Hl Ha H0) as S.
    destruct (mul_nx1_loop lhs a 0) as [r c]. destruct S as (H1 & H2 & H3 & H4).
    apply lz_expect; auto. lia.
  - (* addmul_nx1 *)
    intros (Hl & Ha & Hb & Hlen). unfold Limbs.addmul_nx1.
    replace (Nat.eqb (length lhs) (length a)) with true by (symmetry; apply Nat.eqb_eq; exact Hlen).
    assert (H0 : inW 0) by (unfold inW; pose proof B_pos; lia).
    pose proof (addmul_nx1_loop_spec lhs a b 0 Hlen Hl Ha Hb H0) as S.
    destruct (addmul_nx1_loop lhs a b 0) as [r c]. destruct S as (H1 & H2 & H3 & H4).
    cbn [obind]. apply lz_expect; auto. lia.
  - (* submul_nx1 *)
    intros (Hl & Ha & Hb & Hlen).
    destruct (submul_nx1_spec lhs a b Hlen Hl Ha Hb) as (r & bo & E & H1 & H2 & H3 & H4).
    rewrite E. cbn [obind]. apply lz_expect_neg; auto.
  - (* add_nx1 *)
    intros (Hl & Ha). pose proof (add_nx1_spec lhs a Hl Ha) as S.
    destruct (Limbs.add_nx1 lhs a) as [r c]. destruct S as (H1 & H2 & H3 & H4).
    apply lz_expect; auto.
  - (* adc_n *)
    intros (Hl & Hr & Hc). destruct (Nat.leb_spec (length lhs) (length rhs)) as [L|L].
    + destruct (adc_n_spec lhs rhs cy L Hl Hr Hc) as (r & c' & E & H1 & H2 & H3 & H4).
      rewrite E. cbn [obind]. apply lz_expect; auto.
    + rewrite adc_n_short by lia. reflexivity.
  - (* sbb_n *)
    intros (Hl & Hr & Hc). destruct (Nat.leb_spec (length lhs) (length rhs)) as [L|L].
    + destruct (sbb_n_spec lhs rhs bw L Hl Hr Hc) as (r & c' & E & H1 & H2 & H3 & H4 & H5).
      rewrite E. cbn [obind]. apply lz_expect_neg; auto.
    + rewrite sbb_n_short by lia. reflexivity.
  - (* shift_left_small *)
    intros (Hl & Hs). destruct (shift_left_small_spec l s Hl Hs) as (r & o & E & H1 & H2 & H3 & H4).
    rewrite E. cbn [obind]. apply lz_expect; auto.
  - (* shift_right_small *)
    intros (Hl & Hs). destruct (shift_right_small_spec l s Hl Hs) as (r & o & E & H1 & H2 & H3 & H4).
    rewrite E. cbn [obind]. unfold lz, lowp. cbn [fst snd].
    rewrite divp2_spec, modp2_spec by lia.
    assert (P1 : 0 < 2 ^ s) by (apply Z.pow_pos_nonneg; lia).
    assert (P2 : 0 < 2 ^ (64 - s)) by (apply Z.pow_pos_nonneg; lia).
    pose proof (Z.mod_pos_bound (eval l) (2 ^ s) P1) as Hm.
    pose proof (pow2_split s ltac:(lia)) as HB.
    rewrite (to_limbs_unique (length l) r (eval l / 2 ^ s) H1 H2 H3).
    rewrite <- B_pow, Z.mod_small by (rewrite HB; nia).
    rewrite H4. apply expect_refl.
  - (* cmp *)
    intros (Hl & Hr). rewrite limbs_cmp_gen by auto.
    destruct (eval (firstn (Nat.min (length l) (length r)) l)
              ?= eval (firstn (Nat.min (length l) (length r)) r)); apply expect_refl.
  - (* adc *)
    intros (Hx & Hy & Hc). pose proof (adc_spec x y cy Hx Hy Hc) as S.
    destruct (Word.adc x y cy) as [lo' hi']. destruct S as (H1 & H2 & H3).
    rewrite modp2_spec, divp2_spec by lia. rewrite <- B_pow. unfold inW in *.
    replace ((x + y + cy) mod B) with lo' by (apply Z.mod_unique with (q := hi'); lia).
    replace ((x + y + cy) / B) with hi' by (apply Z.div_unique with (r := lo'); lia).
    apply expect_refl.
  - (* sbb *)
    intros (Hx & Hy & Hc). pose proof (sbb_spec x y cy Hx Hy Hc) as S.
    destruct (Word.sbb x y cy) as [lo' hi']. destruct S as (H1 & H2 & _ & H3).
    rewrite modp2_spec, divp2_spec by lia. rewrite <- B_pow. unfold inW in *.
    replace ((x - y - cy) mod B) with lo' by (apply Z.mod_unique with (q := - hi'); lia).
    replace ((x - y - cy) / B) with (- hi') by (apply Z.div_unique with (r := lo'); lia).
    rewrite Z.opp_involutive. apply expect_refl.
  - (* carrying_add *)
    intros (Hx & Hy). pose proof (carrying_add_spec x y cy Hx Hy) as S.
    destruct (Word.carrying_add x y cy) as [r f]. destruct S as (H1 & H2).
    rewrite modp2_spec by lia. rewrite <- B_pow. unfold inW in *.
    replace ((x + y + b2z cy) mod B) with r by (apply Z.mod_unique with (q := b2z f); lia).
    replace (B <=? x + y + b2z cy) with f; [apply expect_refl|].
    destruct f; cbn [b2z] in *; symmetry; [apply Z.leb_le | apply Z.leb_gt]; lia.
  - (* borrowing_sub *)
    intros (Hx & Hy). pose proof (borrowing_sub_spec x y cy Hx Hy) as S.
    destruct (Word.borrowing_sub x y cy) as [r f]. destruct S as (H1 & H2).
    rewrite modp2_spec by lia. rewrite <- B_pow. unfold inW in *.
    replace ((x - y - b2z cy) mod B) with r by (apply Z.mod_unique with (q := - b2z f); lia).
    replace (x - y - b2z cy <? 0) with f; [apply expect_refl|].
    destruct f; cbn [b2z] in *; symmetry; [apply Z.ltb_lt | apply Z.ltb_ge]; lia.
Qed.
