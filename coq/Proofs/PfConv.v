(* Proofs/PfConv.v — characterising lemmas for Model/Conv.v: one per model function
   (value, canonicity, flags / error variant). *)
From Coq Require Import ZArith List Bool Lia.
From RV.Model Require Import Base Word Conv.
From RV.Proofs Require Import BaseFacts.
Import ListNotations.
Local Open Scope Z_scope.

(* ---------- arithmetic helpers ---------- *)
Lemma pow2_pos k : 0 <= k -> 0 < 2 ^ k.
Proof. intros. apply Z.pow_pos_nonneg; lia. Qed.

Lemma pow2_split a b : 0 <= b <= a -> 2 ^ a = 2 ^ b * 2 ^ (a - b).
Proof. intros. rewrite <- Z.pow_add_r by lia. f_equal. lia. Qed.

Lemma pow2_le a b : 0 <= a <= b -> 2 ^ a <= 2 ^ b.
Proof. intros. apply Z.pow_le_mono_r; lia. Qed.

(* x + 2^a * q reduced mod 2^b, b <= a *)
Lemma mod_add_pow2 x q a b : 0 <= b <= a -> (x + 2 ^ a * q) mod 2 ^ b = x mod 2 ^ b.
Proof.
  intros H. rewrite (pow2_split a b) by lia.
  replace (x + 2 ^ b * 2 ^ (a - b) * q) with (x + (2 ^ (a - b) * q) * 2 ^ b) by ring.
  apply Z.mod_add. pose proof (pow2_pos b). lia.
Qed.

Lemma mod_mod_pow2 x a b : 0 <= b <= a -> (x mod 2 ^ a) mod 2 ^ b = x mod 2 ^ b.
Proof.
  intros H. pose proof (pow2_pos a ltac:(lia)).
  rewrite (Z.mod_eq x (2 ^ a)) by lia.
  replace (x - 2 ^ a * (x / 2 ^ a)) with (x + 2 ^ a * (- (x / 2 ^ a))) by ring.
  now apply mod_add_pow2.
Qed.

Lemma Bn_pow2Z n : 0 <= n -> B ^ n = 2 ^ (64 * n).
Proof. intros. rewrite B_pow, <- Z.pow_mul_r by lia. reflexivity. Qed.

(* ---------- get_nth / set_nth ---------- *)
Lemma get_nth_snoc i x : get_nth (i ++ [x]) (length i) = Val x.
Proof.
  unfold get_nth. rewrite nth_error_app2 by lia. rewrite Nat.sub_diag. reflexivity.
Qed.
Lemma set_nth_snoc i x v : set_nth (i ++ [x]) (length i) v = Val (i ++ [v]).
Proof.
  induction i as [|y i IH]; cbn [app length set_nth]; [reflexivity|]. rewrite IH. reflexivity.
Qed.
Lemma set_nth_0 x t v : set_nth (x :: t) 0 v = Val (v :: t).
Proof. reflexivity. Qed.

(* ---------- from_limbs ---------- *)
Lemma from_limbs_canon bits l : 0 <= bits -> canon bits l -> from_limbs bits l = Val l.
Proof.
  intros H Hc. unfold from_limbs. destruct (should_mask bits) eqn:Hs; [|reflexivity].
  assert (Hb : 0 < bits).
  { unfold should_mask in Hs. apply andb_true_iff in Hs. destruct Hs as [Hs _].
    now apply Z.ltb_lt in Hs. }
  destruct Hc as (Hl & Hw & Hlt).
  pose proof (last_gt_mask bits l Hb Hl Hw) as Hm.
  destruct (canon_len_split bits l Hb Hl) as (i & x & -> & Hi).
  rewrite last_snoc in Hm.
  replace (Z.to_nat (nlimbs bits - 1)) with (length i) by lia.
  rewrite nth_error_app2 by lia. rewrite Nat.sub_diag. cbn [nth_error].
  destruct (Z.leb_spec (2 ^ bits) (eval (i ++ [x]))); [lia|].
  apply Z.ltb_ge in Hm. destruct (Z.leb_spec x (mask bits)); [reflexivity | lia].
Qed.

Lemma mk_canon bits l : length l = nlimbsN bits -> Forall inW l -> eval l < 2 ^ bits -> canon bits l.
Proof. unfold canon. auto. Qed.

(* ---------- overflowing_from_limbs_slice ---------- *)
Lemma existsb_nz t :
  Forall inW t -> existsb (fun limb => negb (limb =? 0)) t = (0 <? eval t).
Proof.
  induction 1 as [|x t Hx Ht IH]; cbn [existsb eval]; [reflexivity|].
  rewrite IH. pose proof (eval_bound t Ht). pose proof B_pos. unfold inW in Hx.
  destruct (Z.eqb_spec x 0); cbn [negb orb];
    destruct (Z.ltb_spec 0 (eval t)); destruct (Z.ltb_spec 0 (x + B * eval t)); try reflexivity; nia.
Qed.

Lemma land_mask_top bits x :
  0 < bits -> inW x -> Z.land x (mask bits) = x mod 2 ^ topbits bits.
Proof.
  intros H Hx. pose proof (topbits_range bits H). rewrite mask_topbits by lia.
  apply land_ones_mod. lia.
Qed.

Lemma masked_snoc bits i x :
  0 < bits -> inW x -> masked bits (i ++ [x]) = i ++ [Z.land x (mask bits)].
Proof.
  intros H Hx. unfold masked. rewrite should_mask_spec by lia.
  destruct (Z.eqb_spec (topbits bits) 64) as [E|E]; cbn [negb].
  - rewrite land_mask_top, E, <- B_pow by auto. rewrite Z.mod_small by exact Hx. reflexivity.
  - now rewrite map_last_snoc.
Qed.

Lemma pow_bits_divides_Bn bits :
  0 < bits -> B ^ nlimbs bits = 2 ^ bits * 2 ^ (64 * nlimbs bits - bits).
Proof.
  intros H. pose proof (nlimbs_bounds bits H). rewrite Bn_pow2Z by lia.
  rewrite <- Z.pow_add_r by lia. f_equal. lia.
Qed.

Lemma overflowing_from_limbs_slice_spec bits s :
  0 <= bits -> Forall inW s ->
  overflowing_from_limbs_slice bits s =
  Val (uint_of bits (eval s mod 2 ^ bits), 2 ^ bits <=? eval s).
Proof.
  intros H Hs. unfold overflowing_from_limbs_slice.
  pose proof (pow2_pos bits H) as Hp.
  pose proof (eval_bound s Hs) as Hbs.
  destruct (Nat.ltb_spec (length s) (nlimbsN bits)) as [Hlt|Hge].
  - (* short slice: zero extended, never overflows *)
    assert (Hb : 0 < bits).
    { destruct (Z.eq_dec bits 0) as [->|]; [cbn in Hlt; lia | lia]. }
    pose proof (nlimbs_bounds bits Hb) as Hnb. pose proof (nlimbsN_Z bits H) as HnZ.
    assert (Hev : eval (s ++ repeat 0 (nlimbsN bits - length s)) = eval s).
    { rewrite eval_app, eval_repeat0. lia. }
    assert (Hsm : eval s < 2 ^ bits).
    { assert (B ^ Z.of_nat (length s) <= 2 ^ (64 * (nlimbs bits - 1))).
      { rewrite Bn_pow2Z by lia. apply pow2_le. lia. }
      assert (2 ^ (64 * (nlimbs bits - 1)) < 2 ^ bits) by (apply Z.pow_lt_mono_r; lia). lia. }
    assert (Hc : canon bits (s ++ repeat 0 (nlimbsN bits - length s))).
    { apply mk_canon.
      - rewrite app_length, repeat_length. lia.
      - apply Forall_app. split; [exact Hs | apply Forall_inW_repeat0].
      - lia. }
    rewrite from_limbs_canon by auto. cbn [obind].
    rewrite Z.mod_small by lia.
    destruct (Z.leb_spec (2 ^ bits) (eval s)); [lia|].
    f_equal. f_equal. apply uint_of_unique; auto.
  - set (L := nlimbsN bits) in *.
    assert (Hsplit : s = firstn L s ++ skipn L s) by (symmetry; apply firstn_skipn).
    assert (Hlh : length (firstn L s) = L) by (apply firstn_length_le; lia).
    assert (Hwh : Forall inW (firstn L s)).
    { rewrite Hsplit in Hs. apply Forall_app in Hs. tauto. }
    assert (Hwt : Forall inW (skipn L s)).
    { rewrite Hsplit in Hs. apply Forall_app in Hs. tauto. }
    assert (Hes : eval s = eval (firstn L s) + B ^ Z.of_nat L * eval (skipn L s)).
    { rewrite Hsplit at 1. rewrite eval_app, Hlh. reflexivity. }
    rewrite existsb_nz by exact Hwt.
    pose proof (eval_bound _ Hwh) as Hbh. rewrite Hlh in Hbh.
    pose proof (eval_bound _ Hwt) as Hbt.
    set (hd := firstn L s) in *. set (tl := skipn L s) in *.
    destruct (Nat.ltb_spec 0 L) as [HL|HL].
    + assert (Hb : 0 < bits).
      { destruct (Z.eq_dec bits 0) as [E|]; [|lia]. subst L. rewrite E in HL. cbn in HL. lia. }
      pose proof (nlimbsN_Z bits H) as HnZ. fold L in HnZ.
      destruct (canon_len_split bits hd Hb Hlh) as (i & x & Ehd & Hi).
      assert (HLi : (L - 1)%nat = length i) by lia.
      rewrite Ehd, HLi, get_nth_snoc. cbn [obind]. rewrite set_nth_snoc. cbn [obind].
      assert (Hx : inW x).
      { rewrite Ehd in Hwh. apply Forall_app in Hwh. destruct Hwh as [_ Hwx]. now inversion Hwx. }
      rewrite <- masked_snoc by auto. rewrite <- Ehd.
      destruct (masked_spec bits hd Hb Hlh Hwh) as [Hc He].
      rewrite from_limbs_canon by auto. cbn [obind].
      pose proof (last_gt_mask bits hd Hb Hlh Hwh) as Hm. rewrite Ehd, last_snoc in Hm.
      rewrite Hm. rewrite <- Ehd.
      pose proof (pow_bits_divides_Bn bits Hb) as Hd.
      pose proof (nlimbs_bounds bits Hb) as Hnb.
      assert (Hq : 0 < 2 ^ (64 * nlimbs bits - bits)) by (apply pow2_pos; lia).
      assert (Hmod : eval s mod 2 ^ bits = eval hd mod 2 ^ bits).
      { rewrite Hes, HnZ, Hd.
        replace (eval hd + 2 ^ bits * 2 ^ (64 * nlimbs bits - bits) * eval tl)
          with (eval hd + (2 ^ (64 * nlimbs bits - bits) * eval tl) * 2 ^ bits) by ring.
        apply Z.mod_add. lia. }
      f_equal. f_equal.
      * apply uint_of_unique; [exact Hc | congruence].
      * rewrite Hes.
        assert (HBL : 2 ^ bits <= B ^ Z.of_nat L).
        { rewrite HnZ, Hd. pose proof (pow2_pos bits ltac:(lia)) as Hp2. clear - Hq Hp2. nia. }
        pose proof (pow2_pos bits ltac:(lia)) as Hp2.
        destruct (Z.ltb_spec 0 (eval tl)); destruct (Z.leb_spec (2 ^ bits) (eval hd));
          destruct (Z.leb_spec (2 ^ bits) (eval hd + B ^ Z.of_nat L * eval tl));
          cbn [orb]; try reflexivity;
          (generalize dependent (eval tl); generalize dependent (eval hd);
           generalize dependent (B ^ Z.of_nat L); generalize dependent (2 ^ bits);
           clear; intros; nia).
    + assert (Hb : bits = 0).
      { destruct (Z.eq_dec bits 0) as [E|N]; [exact E|].
        pose proof (nlimbs_pos bits ltac:(lia)). pose proof (nlimbsN_Z bits H). lia. }
      assert (L = 0%nat) by lia.
      assert (Ehd : hd = []) by (destruct hd; [reflexivity | cbn in Hlh; lia]).
      rewrite Ehd. subst bits. cbn [from_limbs should_mask Z.ltb Z.compare andb obind].
      rewrite Hes, Ehd. replace L with 0%nat by lia. cbn [eval Z.of_nat]. rewrite Z.pow_0_r.
      f_equal. f_equal.
      destruct (Z.ltb_spec 0 (eval tl)); destruct (Z.leb_spec (2 ^ 0) (0 + 1 * eval tl));
        try reflexivity; cbn in *; lia.
Qed.

Lemma from_limbs_slice_spec bits s :
  0 <= bits -> Forall inW s ->
  Conv.from_limbs_slice bits s =
  if eval s <? 2 ^ bits then Val (uint_of bits (eval s)) else Panic.
Proof.
  intros H Hs. unfold Conv.from_limbs_slice. rewrite overflowing_from_limbs_slice_spec by auto.
  cbn [obind]. pose proof (eval_bound s Hs).
  destruct (Z.leb_spec (2 ^ bits) (eval s)); destruct (Z.ltb_spec (eval s) (2 ^ bits)); try lia;
    [reflexivity|]. rewrite Z.mod_small by lia. reflexivity.
Qed.

(* ---------- primitive -> Uint ---------- *)
Definition res_of (bits v : Z) : to_res :=
  if v <? 2 ^ bits then ROk (uint_of bits v) else RTooLarge bits (uint_of bits (v mod 2 ^ bits)).

Lemma nlimbs_1 bits : 0 < bits <= 64 -> nlimbs bits = 1.
Proof. intros H. pose proof (nlimbs_bounds bits ltac:(lia)). lia. Qed.
Lemma nlimbs_ge2 bits : 64 < bits -> 2 <= nlimbs bits.
Proof. intros H. pose proof (nlimbs_bounds bits ltac:(lia)). lia. Qed.
Lemma topbits_1 bits : 0 < bits <= 64 -> topbits bits = bits.
Proof. intros H. unfold topbits. rewrite nlimbs_1 by lia. lia. Qed.

Lemma try_from_u64_spec bits v :
  0 <= bits -> 0 <= v < B -> try_from_u64 bits v = Val (res_of bits v).
Proof.
  intros H Hv. unfold try_from_u64, res_of.
  destruct (Z.eq_dec bits 0) as [->|N].
  - (* BITS = 0 *)
    cbn [nlimbs Z.add Z.div nlimbsN Z.to_nat zero_limbs repeat mask Z.eqb Z.leb Z.compare
         Z.pow uint_of to_limbs uZERO].
    change (nlimbs 0) with 0. change (nlimbsN 0) with 0%nat. change (mask 0) with 0.
    cbn [Z.leb Z.compare Z.eqb zero_limbs repeat].
    change (2 ^ 0) with 1.
    destruct (Z.ltb_spec 0 v); destruct (Z.ltb_spec v 1); try lia; reflexivity.
  - destruct (Z_le_gt_dec bits 64) as [Hle|Hgt].
    + (* one limb *)
      assert (Hn : nlimbs bits = 1) by (apply nlimbs_1; lia).
      assert (HnN : nlimbsN bits = 1%nat) by (unfold nlimbsN; rewrite Hn; reflexivity).
      assert (Hm : mask bits = 2 ^ bits - 1) by (rewrite mask_topbits, topbits_1 by lia; reflexivity).
      pose proof (pow2_pos bits H) as Hp.
      assert (HpB : 2 ^ bits <= B) by (rewrite B_pow; apply pow2_le; lia).
      rewrite Hn, HnN. change (1 <=? 1) with true. change (1 =? 1) with true.
      change (1 =? 0) with false. cbn [zero_limbs repeat set_nth obind].
      rewrite Hm.
      destruct (Z.ltb_spec (2 ^ bits - 1) v); destruct (Z.ltb_spec v (2 ^ bits)); try lia.
      * rewrite <- Hm, land_mask_top, topbits_1 by (unfold inW; lia).
        pose proof (Z.mod_pos_bound v (2 ^ bits) Hp) as Hmb.
        assert (Hc : canon bits [v mod 2 ^ bits]).
        { apply mk_canon; [now rewrite HnN | repeat constructor; unfold inW; lia | cbn [eval]; lia]. }
        rewrite from_limbs_canon by auto. cbn [obind]. do 2 f_equal.
        apply uint_of_unique; [exact Hc | cbn [eval]; lia].
      * assert (Hc : canon bits [v]).
        { apply mk_canon; [now rewrite HnN | repeat constructor; unfold inW; lia | cbn [eval]; lia]. }
        rewrite from_limbs_canon by auto. cbn [obind]. do 2 f_equal.
        apply uint_of_unique; [exact Hc | cbn [eval]; lia].
    + (* two or more limbs *)
      pose proof (nlimbs_ge2 bits ltac:(lia)) as Hn.
      destruct (Z.leb_spec (nlimbs bits) 1); [lia|].
      pose proof (nlimbsN_Z bits H) as HnZ.
      destruct (nlimbsN bits) as [|k] eqn:Ek; [lia|].
      cbn [zero_limbs repeat set_nth obind].
      assert (HB : B < 2 ^ bits) by (rewrite B_pow; apply Z.pow_lt_mono_r; lia).
      assert (Hc : canon bits (v :: repeat 0 k)).
      { apply mk_canon.
        - rewrite Ek. cbn [length]. now rewrite repeat_length.
        - constructor; [exact Hv | apply Forall_inW_repeat0].
        - cbn [eval]. rewrite eval_repeat0. lia. }
      rewrite from_limbs_canon by auto. cbn [obind].
      destruct (Z.ltb_spec v (2 ^ bits)); [|lia]. do 2 f_equal.
      apply uint_of_unique; [exact Hc|]. cbn [eval]. rewrite eval_repeat0. lia.
Qed.

Lemma try_from_u128_spec bits v :
  0 <= bits -> 0 <= v < 2 ^ 128 -> try_from_u128 bits v = Val (res_of bits v).
Proof.
  intros H Hv. unfold try_from_u128.
  assert (HBB : 2 ^ 128 = B * B) by (rewrite B_pow; reflexivity).
  pose proof B_pos as HB. pose proof (pow2_pos bits H) as Hp.
  destruct (Z.leb_spec v (B - 1)) as [Hs|Hl].
  - rewrite Z.mod_small by lia. apply try_from_u64_spec; lia.
  - pose proof (Z.mod_pos_bound v B HB) as Hlo.
    pose proof (Z.div_mod v B ltac:(lia)) as Hdm.
    assert (Hh : 0 <= v / B < B) by (split; [apply Z.div_pos; lia | apply Z.div_lt_upper_bound; lia]).
    destruct (Z.ltb_spec (nlimbs bits) 2) as [Hn|Hn].
    + (* at most one limb: every such value is too large *)
      assert (Hb64 : bits <= 64).
      { destruct (Z_le_gt_dec bits 64); [assumption|]. pose proof (nlimbs_ge2 bits ltac:(lia)). lia. }
      assert (HpB : 2 ^ bits <= B) by (rewrite B_pow; apply pow2_le; lia).
      rewrite try_from_u64_spec by lia. cbn [obind]. unfold res_of.
      destruct (Z.ltb_spec v (2 ^ bits)); [lia|].
      assert (Hmm : (v mod B) mod 2 ^ bits = v mod 2 ^ bits).
      { rewrite B_pow. apply mod_mod_pow2. lia. }
      destruct (Z.ltb_spec (v mod B) (2 ^ bits)).
      * rewrite <- Hmm. rewrite (Z.mod_small (v mod B)) by lia. reflexivity.
      * rewrite Hmm. reflexivity.
    + assert (Hb64 : 64 < bits).
      { destruct (Z_le_gt_dec bits 64) as [Hle|]; [|lia].
        destruct (Z.eq_dec bits 0) as [->|]; [cbn in Hn; lia|]. rewrite nlimbs_1 in Hn by lia. lia. }
      pose proof (nlimbsN_Z bits H) as HnZ.
      destruct (nlimbsN bits) as [|[|k]] eqn:Ek; [lia | lia |].
      cbn [zero_limbs repeat set_nth obind]. unfold get_nth. cbn [nth_error obind].
      rewrite (Z.mod_small (v / B)) by lia.
      set (lo := v mod B) in *. set (h := v / B) in *.
      pose proof (nlimbs_bounds bits ltac:(lia)) as Hnb.
      assert (HB2 : B < 2 ^ bits) by (rewrite B_pow; apply Z.pow_lt_mono_r; lia).
      destruct (Z.eqb_spec (nlimbs bits) 2) as [E2|E2]; cbn [andb].
      * (* exactly two limbs *)
        assert (k = 0%nat) by lia. subst k. cbn [repeat].
        assert (Ht : topbits bits = bits - 64) by (unfold topbits; rewrite E2; lia).
        assert (Hm : mask bits = 2 ^ (bits - 64) - 1) by (rewrite mask_topbits, Ht by lia; reflexivity).
        assert (Hsp : 2 ^ bits = B * 2 ^ (bits - 64)).
        { rewrite B_pow, <- Z.pow_add_r by lia. f_equal. lia. }
        pose proof (pow2_pos (bits - 64) ltac:(lia)) as Hpt.
        unfold res_of.
        destruct (Z.ltb_spec (mask bits) h) as [Hov|Hok].
        -- rewrite land_mask_top, Ht by (unfold inW; lia).
           pose proof (Z.mod_pos_bound h (2 ^ (bits - 64)) Hpt) as Hmb.
           assert (Hval : v mod 2 ^ bits = lo + B * (h mod 2 ^ (bits - 64))).
           { rewrite Hsp. rewrite Z.rem_mul_r by lia. reflexivity. }
           assert (Hc : canon bits [lo; h mod 2 ^ (bits - 64)]).
           { apply mk_canon; [now rewrite Ek | repeat constructor; unfold inW; lia |].
             cbn [eval]. rewrite Hsp. nia. }
           rewrite from_limbs_canon by auto. cbn [obind].
           destruct (Z.ltb_spec v (2 ^ bits)); [rewrite Hsp in *; nia|].
           do 2 f_equal. apply uint_of_unique; [exact Hc|]. cbn [eval]. lia.
        -- assert (Hc : canon bits [lo; h]).
           { apply mk_canon; [now rewrite Ek | repeat constructor; unfold inW; lia |].
             cbn [eval]. rewrite Hsp. nia. }
           rewrite from_limbs_canon by auto. cbn [obind].
           destruct (Z.ltb_spec v (2 ^ bits)); [|rewrite Hsp in *; nia].
           do 2 f_equal. apply uint_of_unique; [exact Hc|]. cbn [eval]. lia.
      * (* three or more limbs: always fits *)
        assert (H128 : 2 ^ 128 <= 2 ^ bits) by (apply pow2_le; lia).
        assert (Hc : canon bits (lo :: h :: repeat 0 k)).
        { apply mk_canon.
          - rewrite Ek. cbn [length]. now rewrite repeat_length.
          - constructor; [unfold inW; lia|]. constructor; [unfold inW; lia|]. apply Forall_inW_repeat0.
          - cbn [eval]. rewrite eval_repeat0. lia. }
        rewrite from_limbs_canon by auto. cbn [obind]. unfold res_of.
        destruct (Z.ltb_spec v (2 ^ bits)); [|lia].
        do 2 f_equal. apply uint_of_unique; [exact Hc|]. cbn [eval]. rewrite eval_repeat0. lia.
Qed.

Lemma try_from_unsigned_spec bits w v :
  0 <= bits -> 1 <= w -> (w <= 64 \/ w = 128) -> 0 <= v < 2 ^ w ->
  try_from_unsigned bits w v = Val (res_of bits v).
Proof.
  intros H Hw Hww Hv. unfold try_from_unsigned.
  destruct (Z.eqb_spec w 128) as [->|N].
  - now apply try_from_u128_spec.
  - assert (2 ^ w <= B) by (rewrite B_pow; apply pow2_le; lia).
    rewrite Z.mod_small by lia. apply try_from_u64_spec; lia.
Qed.

Lemma try_from_prim_spec bits p x :
  0 <= bits -> 1 <= pw p -> (pw p <= 64 \/ pw p = 128) -> prim_min p <= x <= prim_max p ->
  try_from_prim bits p x =
  Val (if x <? 0 then RNegative bits (uint_of bits ((x mod 2 ^ pw p) mod 2 ^ bits))
       else res_of bits x).
Proof.
  intros H Hw Hww Hx. unfold try_from_prim, prim_min, prim_max in *.
  pose proof (pow2_pos (pw p) ltac:(lia)) as Hp.
  destruct (psigned p).
  - assert (Hsp : 2 ^ pw p = 2 * 2 ^ (pw p - 1)).
    { replace (pw p) with (1 + (pw p - 1)) at 1 by lia. rewrite Z.pow_add_r by lia. reflexivity. }
    rewrite modp2_spec by lia.
    pose proof (Z.mod_pos_bound x (2 ^ pw p) Hp) as Hu.
    destruct (Z.ltb_spec x 0).
    + rewrite try_from_unsigned_spec by (auto; lia). cbn [obind]. unfold res_of.
      destruct (Z.ltb_spec (x mod 2 ^ pw p) (2 ^ bits)).
      * rewrite (Z.mod_small (x mod 2 ^ pw p) (2 ^ bits)) by lia. reflexivity.
      * reflexivity.
    + rewrite Z.mod_small by lia. apply try_from_unsigned_spec; auto; lia.
  - destruct (Z.ltb_spec x 0); [lia|]. apply try_from_unsigned_spec; auto; lia.
Qed.

(* ---------- bit_len ---------- *)
Definition blen (v : Z) : Z := if v =? 0 then 0 else Z.log2 v + 1.

Lemma blen_gt v c : 0 <= v -> 0 <= c -> (c <? blen v) = (2 ^ c <=? v).
Proof.
  intros Hv Hc. unfold blen. pose proof (pow2_pos c Hc).
  destruct (Z.eqb_spec v 0) as [->|N].
  - destruct (Z.ltb_spec c 0); destruct (Z.leb_spec (2 ^ c) 0); try reflexivity; lia.
  - pose proof (Z.log2_le_pow2 v c ltac:(lia)) as Hl.
    destruct (Z.ltb_spec c (Z.log2 v + 1)); destruct (Z.leb_spec (2 ^ c) v); try reflexivity; lia.
Qed.

Lemma log2_shift e m x :
  0 <= m -> 0 <= e < 2 ^ m -> 0 < x -> Z.log2 (e + 2 ^ m * x) = m + Z.log2 x.
Proof.
  intros Hm He Hx. pose proof (Z.log2_spec x Hx) as [L1 L2]. pose proof (Z.log2_nonneg x).
  apply Z.log2_unique; [lia|].
  rewrite Z.pow_add_r by lia.
  replace (Z.succ (m + Z.log2 x)) with (m + Z.succ (Z.log2 x)) by lia. rewrite (Z.pow_add_r 2 m (Z.succ _)) by lia.
  pose proof (pow2_pos m Hm). split; nia.
Qed.

Lemma clz64_mask bits : 0 < bits -> clz64 (mask bits) = 64 - topbits bits.
Proof.
  intros H. pose proof (topbits_range bits H) as Ht. rewrite mask_topbits by lia.
  unfold clz64. pose proof (pow2_pos (topbits bits) ltac:(lia)).
  assert (2 ^ 1 <= 2 ^ topbits bits) by (apply pow2_le; lia). change (2 ^ 1) with 2 in *.
  destruct (Z.eqb_spec (2 ^ topbits bits - 1) 0); [lia|].
  replace (2 ^ topbits bits - 1) with (Z.pred (2 ^ topbits bits)) by lia.
  rewrite Z.log2_pred_pow2 by lia. lia.
Qed.

Lemma lz_loop_spec bits rl : forall n,
  0 < bits -> Forall inW rl -> 0 <= n -> Z.of_nat (length rl) + n = nlimbs bits ->
  eval (rev rl) < 2 ^ bits ->
  lz_loop bits rl n = Val (bits - blen (eval (rev rl))).
Proof.
  induction rl as [|x t IH]; intros n Hb Hw Hn Hlen Hlt.
  - cbn [lz_loop rev eval]. unfold blen. cbn. f_equal. lia.
  - inversion Hw as [|? ? Hx Ht]; subst. cbn [lz_loop rev].
    pose proof (eval_bound (rev t) ltac:(now apply Forall_rev)) as Hbt. rewrite rev_length in Hbt.
    assert (Hev : eval (rev t ++ [x]) = eval (rev t) + B ^ Z.of_nat (length t) * x).
    { rewrite eval_app, rev_length. cbn [eval]. lia. }
    cbn [rev] in Hlt. cbn [length] in Hlen.
    destruct (Z.eqb_spec x 0) as [->|Nx].
    + rewrite Hev, Z.mul_0_r, Z.add_0_r.
      rewrite Hev in Hlt. apply IH; auto; lia.
    + unfold inW in Hx.
      rewrite clz64_mask by lia. unfold clz64. destruct (Z.eqb_spec x 0); [lia|].
      rewrite Hev. rewrite Bn_pow2Z in * by lia.
      assert (Hlog : Z.log2 (eval (rev t) + 2 ^ (64 * Z.of_nat (length t)) * x)
                     = 64 * Z.of_nat (length t) + Z.log2 x) by (apply log2_shift; lia).
      unfold blen.
      pose proof (pow2_pos (64 * Z.of_nat (length t)) ltac:(lia)) as Hpp.
      destruct (Z.eqb_spec (eval (rev t) + 2 ^ (64 * Z.of_nat (length t)) * x) 0); [nia|].
      rewrite Hlog. pose proof (topbits_range bits Hb) as Htb.
      assert (Hlx : Z.log2 x < 64) by (apply Z.log2_lt_pow2; [lia | rewrite <- B_pow; lia]).
      pose proof (Z.log2_nonneg x).
      assert (Hcap : n = 0 -> Z.log2 x < topbits bits).
      { intros ->. apply Z.log2_lt_pow2; [lia|].
        rewrite Hev in Hlt. rewrite (pow_bits_split bits Hb) in Hlt.
        rewrite Bn_pow2Z in Hlt by (pose proof (nlimbs_pos bits Hb); lia).
        replace (64 * (nlimbs bits - 1)) with (64 * Z.of_nat (length t)) in Hlt by lia.
        pose proof (pow2_pos (topbits bits) ltac:(lia)). nia. }
      destruct (Z.ltb_spec (n * 64 + (63 - Z.log2 x)) (64 - topbits bits)) as [Hbad|Hok].
      * exfalso. destruct (Z.eq_dec n 0) as [E|E]; [specialize (Hcap E); lia | lia].
      * f_equal. unfold topbits. lia.
Qed.

Lemma bit_len_spec bits l :
  0 < bits -> canon bits l -> bit_len bits l = Val (blen (eval l)).
Proof.
  intros Hb (Hl & Hw & Hlt). unfold bit_len, leading_zeros.
  rewrite lz_loop_spec; auto using Forall_rev.
  - rewrite rev_involutive. cbn [obind].
    assert (0 <= blen (eval l)).
    { unfold blen. destruct (eval l =? 0); [lia|]. pose proof (Z.log2_nonneg (eval l)). lia. }
    destruct (Z.ltb_spec bits (bits - blen (eval l))); [lia|]. f_equal. lia.
  - lia.
  - rewrite rev_length, Hl, nlimbsN_Z by lia. lia.
  - now rewrite rev_involutive.
Qed.

(* ---------- Uint -> primitive ---------- *)
Lemma prim_max_cap p : prim_max p = 2 ^ (if psigned p then pw p - 1 else pw p) - 1.
Proof. unfold prim_max. destruct (psigned p); reflexivity. Qed.

Lemma cast_small p v : 1 <= pw p -> 0 <= v <= prim_max p -> cast p v = v.
Proof.
  intros Hw Hv. unfold cast, prim_max in *. rewrite modp2_spec by lia.
  assert (Hsp : 2 ^ pw p = 2 * 2 ^ (pw p - 1)).
  { replace (pw p) with (1 + (pw p - 1)) at 1 by lia. rewrite Z.pow_add_r by lia. reflexivity. }
  pose proof (pow2_pos (pw p - 1) ltac:(lia)).
  destruct (psigned p); cbn [andb].
  - rewrite Z.mod_small by lia. destruct (Z.leb_spec (2 ^ (pw p - 1)) v); [lia | reflexivity].
  - apply Z.mod_small. lia.
Qed.

Lemma cast_congr p a b : 0 <= pw p -> a mod 2 ^ pw p = b mod 2 ^ pw p -> cast p a = cast p b.
Proof. intros Hw E. unfold cast. rewrite !modp2_spec by lia. now rewrite E. Qed.

Lemma canon_cons bits l :
  0 < bits -> canon bits l -> exists l0 t, l = l0 :: t /\ inW l0 /\ Forall inW t.
Proof.
  intros Hb (Hl & Hw & _). pose proof (nlimbs_pos bits Hb). pose proof (nlimbsN_Z bits ltac:(lia)).
  destruct l as [|l0 t]; [cbn in Hl; lia|]. inversion Hw; subst. eauto.
Qed.

Lemma try_to_int_spec bits p l :
  0 <= bits -> canon bits l -> 1 <= pw p <= 64 ->
  try_to_int bits p l =
  Val (if eval l <=? prim_max p then FOk (eval l)
       else FOverflow bits (cast p (eval l)) (prim_max p)).
Proof.
  intros H Hc Hw. unfold try_to_int.
  set (cap := if psigned p then pw p - 1 else pw p).
  assert (Hcap : 0 <= cap <= 64) by (subst cap; destruct (psigned p); lia).
  pose proof (prim_max_cap p) as Hmax. fold cap in Hmax.
  pose proof (pow2_pos cap ltac:(lia)) as Hpc.
  destruct (Z.eqb_spec bits 0) as [->|N].
  - rewrite (canon_zero_width l Hc). cbn [eval].
    destruct (Z.leb_spec 0 (prim_max p)); [reflexivity | lia].
  - assert (Hb : 0 < bits) by lia.
    rewrite bit_len_spec by auto. cbn [obind].
    destruct (canon_cons bits l Hb Hc) as (l0 & t & -> & Hl0 & Ht).
    pose proof (canon_range _ _ H Hc) as Hr. cbn [eval] in *.
    rewrite blen_gt by lia. unfold get_nth. cbn [nth_error obind].
    pose proof (eval_bound t Ht) as Hbt. pose proof B_pos. unfold inW in Hl0.
    assert (HcB : 2 ^ cap <= B) by (rewrite B_pow; apply pow2_le; lia).
    destruct (Z.leb_spec (2 ^ cap) (l0 + B * eval t)) as [Hov|Hnov];
      destruct (Z.leb_spec (l0 + B * eval t) (prim_max p)) as [Hfit|Hnfit]; try lia.
    + do 2 f_equal. apply cast_congr; [lia|]. rewrite B_pow. symmetry. apply mod_add_pow2. lia.
    + assert (E0 : eval t = 0) by nia. rewrite E0, Z.mul_0_r, Z.add_0_r in Hfit |- *.
      rewrite cast_small by lia. reflexivity.
Qed.

Lemma land_low_high a c : 0 <= a < B -> Z.land a (B * c) = 0.
Proof.
  intros Ha. apply Z.bits_inj'. intros n Hn. rewrite Z.land_spec, Z.bits_0.
  destruct (Z_lt_le_dec n 64) as [Hlt|Hge].
  - rewrite B_pow, Z.mul_comm, Z.mul_pow2_bits_low by lia. apply andb_false_r.
  - replace a with (a mod 2 ^ 64) by (rewrite <- B_pow; apply Z.mod_small; lia).
    rewrite Z.mod_pow2_bits_high by lia. reflexivity.
Qed.
Lemma lor_low_high a c : 0 <= a < B -> Z.lor a (B * c) = a + B * c.
Proof.
  intros Ha. pose proof (land_low_high a c Ha) as Hl.
  rewrite <- Z.lxor_lor by exact Hl. symmetry. now apply Z.add_nocarry_lxor.
Qed.

Lemma try_to_128_spec bits p l :
  0 <= bits -> canon bits l -> pw p = 128 ->
  try_to_128 bits p l =
  Val (if eval l <=? prim_max p then FOk (eval l)
       else FOverflow bits (cast p (eval l)) (prim_max p)).
Proof.
  intros H Hc Hw. unfold try_to_128.
  set (cap := if psigned p then 127 else 128).
  pose proof (prim_max_cap p) as Hmax. rewrite Hw in Hmax.
  replace (if psigned p then 128 - 1 else 128) with cap in Hmax by (subst cap; destruct (psigned p); reflexivity).
  assert (Hcap : 127 <= cap <= 128) by (subst cap; destruct (psigned p); lia).
  assert (HB127 : 2 * B <= 2 ^ 127) by (rewrite B_pow; change (2 * 2 ^ 64) with (2 ^ 65); apply pow2_le; lia).
  assert (H127c : 2 ^ 127 <= 2 ^ cap) by (apply pow2_le; lia).
  pose proof B_pos as HB.
  assert (HBB : 2 ^ 128 = B * B) by (rewrite B_pow; reflexivity).
  assert (H2127 : 2 ^ 128 = 2 * 2 ^ 127) by reflexivity.
  assert (H63 : 2 ^ 127 = B * 2 ^ 63) by (rewrite B_pow; reflexivity).
  destruct (Z.eqb_spec bits 0) as [->|N].
  - rewrite (canon_zero_width l Hc). cbn [eval].
    destruct (Z.leb_spec 0 (prim_max p)); [reflexivity | lia].
  - assert (Hb : 0 < bits) by lia.
    destruct (canon_cons bits l Hb Hc) as (l0 & t & -> & Hl0 & Ht).
    unfold get_nth at 1. cbn [nth_error obind].
    pose proof (canon_range _ _ H Hc) as Hr. cbn [eval] in Hr.
    pose proof (eval_bound t Ht) as Hbt. unfold inW in Hl0.
    assert (Hc0 : cast p l0 = l0) by (apply cast_small; lia).
    rewrite Hc0.
    destruct (Z.leb_spec bits 64) as [Hle|Hgt].
    + assert (HpB : 2 ^ bits <= B) by (rewrite B_pow; apply pow2_le; lia).
      assert (E0 : eval t = 0) by nia. cbn [eval]. rewrite E0, Z.mul_0_r, Z.add_0_r.
      destruct (Z.leb_spec l0 (prim_max p)); [reflexivity | lia].
    + destruct Hc as (Hlen & Hwl & Hlt).
      pose proof (nlimbs_ge2 bits ltac:(lia)) as Hn2. pose proof (nlimbsN_Z bits H) as HnZ.
      destruct t as [|l1 t]; [cbn [length] in Hlen; lia|].
      inversion Ht as [|? ? Hl1 Ht']; subst. unfold inW in Hl1.
      unfold get_nth. cbn [nth_error obind].
      assert (Hcn : canon bits (l0 :: l1 :: t)) by (apply mk_canon; auto).
      rewrite bit_len_spec by auto. cbn [obind].
      rewrite blen_gt by (cbn [eval] in *; lia). fold cap.
      assert (Hc1 : cast p l1 = l1) by (apply cast_small; lia). rewrite Hc1.
      pose proof (eval_bound t Ht') as Hbt'.
      (* the assembled 128-bit result is the cast of the whole value *)
      assert (Hres : Z.lor l0 (cast p (l1 * 2 ^ 64)) = cast p (eval (l0 :: l1 :: t))).
      { transitivity (cast p (l0 + B * l1)).
        - unfold cast. rewrite Hw, !modp2_spec by lia. rewrite <- B_pow.
          rewrite (Z.mod_small (l1 * B)) by nia. rewrite (Z.mod_small (l0 + B * l1)) by nia.
          change (128 - 1) with 127.
          destruct (psigned p); cbn [andb].
          + destruct (Z.leb_spec (2 ^ 127) (l1 * B)); destruct (Z.leb_spec (2 ^ 127) (l0 + B * l1)); try nia.
            * replace (l1 * B - 2 ^ 128) with (B * (l1 - B)) by lia.
              rewrite lor_low_high by lia. lia.
            * replace (l1 * B) with (B * l1) by lia. apply lor_low_high. lia.
          + replace (l1 * B) with (B * l1) by lia. apply lor_low_high. lia.
        - apply cast_congr; [lia|]. rewrite Hw. cbn [eval].
          replace (l0 + B * (l1 + B * eval t)) with (l0 + B * l1 + 2 ^ 128 * eval t) by lia.
          symmetry. apply mod_add_pow2. lia. }
      rewrite Hres.
      destruct (Z.leb_spec (2 ^ cap) (eval (l0 :: l1 :: t)));
        destruct (Z.leb_spec (eval (l0 :: l1 :: t)) (prim_max p)); try lia; [reflexivity|].
      rewrite cast_small by (cbn [eval] in *; lia). reflexivity.
Qed.

Lemma try_to_prim_spec bits p l :
  0 <= bits -> canon bits l -> 1 <= pw p -> (pw p <= 64 \/ pw p = 128) ->
  try_to_prim bits p l =
  Val (if eval l <=? prim_max p then FOk (eval l)
       else FOverflow bits (cast p (eval l)) (prim_max p)).
Proof.
  intros H Hc Hw Hww. unfold try_to_prim. destruct (Z.eqb_spec (pw p) 128).
  - now apply try_to_128_spec.
  - apply try_to_int_spec; auto; lia.
Qed.

Lemma odd_low l0 e : Z.odd (l0 + B * e) = Z.odd l0.
Proof.
  rewrite B_pow. change (2 ^ 64) with (2 * 2 ^ 63). rewrite <- Z.mul_assoc. apply Z.odd_add_mul_2.
Qed.

Lemma try_to_bool_spec bits l :
  0 <= bits -> canon bits l ->
  try_to_bool bits l =
  Val (if eval l <=? 1 then FOk (negb (eval l =? 0)) else FOverflow bits (Z.odd (eval l)) true).
Proof.
  intros H Hc. unfold try_to_bool.
  destruct (Z.eqb_spec bits 0) as [->|N].
  - rewrite (canon_zero_width l Hc). reflexivity.
  - assert (Hb : 0 < bits) by lia.
    rewrite bit_len_spec by auto. cbn [obind].
    destruct (canon_cons bits l Hb Hc) as (l0 & t & -> & Hl0 & Ht).
    pose proof (canon_range _ _ H Hc) as Hr. cbn [eval] in *.
    rewrite blen_gt by lia. change (2 ^ 1) with 2.
    pose proof (eval_bound t Ht) as Hbt. pose proof B_pos. unfold inW in Hl0.
    assert (2 < B) by (rewrite B_val; lia).
    unfold bit. destruct (Z.leb_spec bits 0); [lia|].
    change (0 / 64) with 0. change (0 mod 64) with 0. change (Z.to_nat 0) with 0%nat.
    unfold get_nth. cbn [nth_error obind].
    destruct (Z.leb_spec 2 (l0 + B * eval t)); destruct (Z.leb_spec (l0 + B * eval t) 1); try lia.
    + rewrite Z.bit0_odd, odd_low. reflexivity.
    + assert (E0 : eval t = 0) by nia. rewrite E0, Z.mul_0_r, Z.add_0_r. reflexivity.
Qed.
