(* Proofs/PfGcd.v — gcd / lcm / gcd_extended (Model/Gcd.v) are correct GIVEN
     DivKernelOK   : the limb division kernel computes quotient and remainder (C14), and
     LehmerStepOK  : LehmerMatrix::from(a, b) (a >= b) is the identity or an exact, gcd-preserving,
                     strictly reducing step whose entries are values of Uint<BITS>.
   Both are explicit hypotheses of every statement here (Section variables, discharged in
   PfGcdMatrix.v / by C14 as far as they are proved there). *)
From Coq Require Import ZArith Znumtheory List Bool Lia.
From RV.Model Require Import Base Word Limbs GcdMatrix Gcd.
From RV.Model Require Add Conv Shift Div.
From RV.Proofs Require Import BaseFacts PfLimbs PfAdd PfC01 PfConv PfGcdUint.
From RV.Run Require Import RunC12.
Import ListNotations.
Local Open Scope Z_scope.

(* what a non-identity Lehmer matrix must do to the pair (A, Bv), over Z (no wrap) *)
Definition good_step (m : mat) (A Bv : Z) : Prop :=
  let '(C, D) := zmap m A Bv in
  0 <= D <= C /\ C <= A /\ D < Bv /\ 2 * (C * D) <= A * Bv /\ Z.gcd C D = Z.gcd A Bv.

(* shape of a product of Euclidean quotient matrices: determinant given by the sign flag,
   second row dominates the first *)
Definition unimod (m : mat) : Prop :=
  m0 m * m3 m - m1 m * m2 m = (if m4 m then 1 else -1) /\ m0 m <= m2 m /\ m1 m <= m3 m.

Definition LehmerStepOK : Prop := forall bits a b,
  0 <= bits -> canon bits a -> canon bits b -> eval b <= eval a ->
  exists m, from bits a b = Val m /\ wordsP m /\
    (m = IDENTITY \/
     (m <> IDENTITY /\ fitsP bits m /\ unimod m /\ good_step m (eval a) (eval b))).

Lemma mat_eqb_spec x y : mat_eqb x y = true <-> x = y.
Proof.
  destruct x as [x0 x1 x2 x3 x4], y as [y0 y1 y2 y3 y4]. unfold mat_eqb. cbn [m0 m1 m2 m3 m4].
  rewrite !andb_true_iff, !Z.eqb_eq, eqb_true_iff.
  split; [intros ((((-> & ->) & ->) & ->) & ->); reflexivity | intros E; inversion E; auto].
Qed.
Lemma mat_eqb_false x y : x <> y -> mat_eqb x y = false.
Proof. intros N. destruct (mat_eqb x y) eqn:E; [apply mat_eqb_spec in E; contradiction | reflexivity]. Qed.

Lemma gcd_euclid_step A Bv : 0 < Bv -> Z.gcd Bv (A mod Bv) = Z.gcd A Bv.
Proof.
  intros H. rewrite Z.gcd_comm, Z.gcd_mod by lia. apply Z.gcd_comm.
Qed.

Lemma euclid_halves A Bv : 0 < Bv <= A -> 2 * (Bv * (A mod Bv)) <= A * Bv.
Proof.
  intros H. pose proof (Z.mod_pos_bound A Bv ltac:(lia)).
  pose proof (Z.div_mod A Bv ltac:(lia)).
  assert (1 <= A / Bv) by (apply Z.div_le_lower_bound; lia). nia.
Qed.

Section Loops.
  Hypothesis HD : DivKernelOK.
  Hypothesis HL : LehmerStepOK.

  (* one iteration, seen from the integers *)
  Lemma step_facts bits a b :
    0 < bits -> canon bits a -> canon bits b -> 0 < eval b <= eval a ->
    exists m, from bits a b = Val m /\ wordsP m /\
      ((m = IDENTITY /\ exists r, urem a b = Val r /\ canon bits r /\ eval r = eval a mod eval b) \/
       (m <> IDENTITY /\ fitsP bits m /\ good_step m (eval a) (eval b) /\
        exists c d, apply bits m a b = Val (c, d) /\ canon bits c /\ canon bits d /\
          eval c = fst (zmap m (eval a) (eval b)) /\ eval d = snd (zmap m (eval a) (eval b)))).
  Proof.
    intros Hb Ha Hbb Hr. destruct (HL bits a b ltac:(lia) Ha Hbb ltac:(lia)) as (m & Em & Wm & [Hid|(Hn & Hf & _ & Hg)]).
    - exists m. split; [exact Em|]. split; [exact Wm|]. left. split; [exact Hid|].
      destruct (udiv_rem_spec HD bits a b ltac:(lia) Ha Hbb ltac:(lia)) as (q & r & E & Cq & Cr & Eq & Er).
      exists r. unfold urem. rewrite E. cbn [obind snd]. auto.
    - exists m. split; [exact Em|]. split; [exact Wm|]. right. do 3 (split; [assumption|]).
      destruct (apply_spec bits m a b Hb Wm Hf Ha Hbb) as (c & d & E & Cc & Cd & Ec & Ed).
      exists c, d. split; [exact E|]. split; [exact Cc|]. split; [exact Cd|].
      pose proof (canon_range bits a ltac:(lia) Ha).
      unfold good_step in Hg. destruct (zmap m (eval a) (eval b)) as [C D]. cbn [fst snd] in *.
      destruct Hg as (G1 & G2 & G3 & G4 & G5).
      rewrite Z.mod_small in Ec by lia. rewrite Z.mod_small in Ed by lia. auto.
  Qed.

  (* ---------- gcd ---------- *)
  Lemma gcd_loop_spec bits : 0 < bits -> forall fuel a b,
    canon bits a -> canon bits b -> eval b <= eval a ->
    (eval b = 0 \/ eval a * eval b < 2 ^ (Z.of_nat fuel - 1)) ->
    exists g, gcd_loop fuel bits a b = Val g /\ canon bits g /\ eval g = Z.gcd (eval a) (eval b).
  Proof.
    intros Hb. induction fuel as [|fuel IH]; intros a b Ha Hbb Hle Hm;
      pose proof (canon_range bits a ltac:(lia) Ha) as Ra; pose proof (canon_range bits b ltac:(lia) Hbb) as Rb.
    - cbn [gcd_loop]. rewrite is_zero_spec by (auto; lia).
      destruct (Z.eqb_spec (eval b) 0) as [E|E].
      + exists a. rewrite E, Z.gcd_0_r, Z.abs_eq by lia. auto.
      + exfalso. destruct Hm as [Hm|Hm]; [lia|]. cbn in Hm. nia.
    - cbn [gcd_loop]. rewrite is_zero_spec by (auto; lia).
      destruct (Z.eqb_spec (eval b) 0) as [E|E].
      + exists a. rewrite E, Z.gcd_0_r, Z.abs_eq by lia. auto.
      + destruct Hm as [Hm|Hm]; [lia|].
        rewrite (ult_spec bits) by auto. destruct (Z.ltb_spec (eval a) (eval b)); [lia|].
        assert (Hf1 : 0 <= Z.of_nat fuel - 1).
        { destruct fuel; [|lia]. exfalso. cbn in Hm. nia. }
        assert (Hsplit : 2 ^ (Z.of_nat (S fuel) - 1) = 2 * 2 ^ (Z.of_nat fuel - 1)).
        { replace (Z.of_nat (S fuel) - 1) with (1 + (Z.of_nat fuel - 1)) by lia.
          rewrite Z.pow_add_r by lia. reflexivity. }
        destruct (step_facts bits a b Hb Ha Hbb ltac:(lia))
          as (m & -> & Wm & [(-> & r & Er & Cr & Ev)|(Hn & Hf & Hg & c & d & Eap & Cc & Cd & Ec & Ed)]).
        * cbn [obind]. change (mat_eqb IDENTITY IDENTITY) with true. cbv iota. rewrite Er. cbn [obind].
          pose proof (Z.mod_pos_bound (eval a) (eval b) ltac:(lia)).
          destruct (IH b r Hbb Cr ltac:(lia)) as (g & Eg & Cg & Vg).
          { right. rewrite Ev. pose proof (euclid_halves (eval a) (eval b) ltac:(lia)). lia. }
          exists g. split; [exact Eg|]. split; [exact Cg|]. rewrite Vg, Ev. apply gcd_euclid_step. lia.
        * cbn [obind]. rewrite (mat_eqb_false _ _ Hn). rewrite Eap. cbn [obind fst snd].
          unfold good_step in Hg. destruct (zmap m (eval a) (eval b)) as [C D]. cbn [fst snd] in *.
          destruct Hg as (G1 & G2 & G3 & G4 & G5).
          destruct (IH c d Cc Cd ltac:(lia)) as (g & Eg & Cg & Vg).
          { right. rewrite Ec, Ed. lia. }
          exists g. split; [exact Eg|]. split; [exact Cg|]. rewrite Vg, Ec, Ed. exact G5.
  Qed.

  Lemma fuel_enough bits A Bv :
    0 < bits -> 0 <= A < 2 ^ bits -> 0 <= Bv < 2 ^ bits ->
    A * Bv < 2 ^ (Z.of_nat (gcd_fuel bits) - 1).
  Proof.
    intros Hb HA HB. unfold gcd_fuel. rewrite Z2Nat.id by lia.
    replace (2 * bits + 2 - 1) with (bits + bits + 1) by lia.
    rewrite !Z.pow_add_r by lia. pose proof (pow2_pos' bits ltac:(lia)). change (2 ^ 1) with 2. nia.
  Qed.

  Theorem gcd_spec bits a b :
    0 <= bits -> canon bits a -> canon bits b ->
    Gcd.gcd bits a b = Val (uint_of bits (Z.gcd (eval a) (eval b))).
  Proof.
    intros H Ha Hb. unfold Gcd.gcd.
    destruct (Z.eq_dec bits 0) as [->|N].
    - apply canon_zero_width in Ha, Hb. subst. reflexivity.
    - assert (Hpos : 0 < bits) by lia.
      pose proof (canon_range bits a H Ha) as Ra. pose proof (canon_range bits b H Hb) as Rb.
      rewrite (ult_spec bits) by auto.
      destruct (Z.ltb_spec (eval a) (eval b)).
      + destruct (gcd_loop_spec bits Hpos (gcd_fuel bits) b a Hb Ha ltac:(lia)) as (g & -> & Cg & Vg).
        { right. apply fuel_enough; auto. }
        f_equal. apply uint_of_unique; [exact Cg|]. rewrite Vg. apply Z.gcd_comm.
      + destruct (gcd_loop_spec bits Hpos (gcd_fuel bits) a b Ha Hb ltac:(lia)) as (g & -> & Cg & Vg).
        { right. apply fuel_enough; auto. }
        f_equal. apply uint_of_unique; [exact Cg|]. exact Vg.
  Qed.

  (* ---------- lcm ---------- *)
  Theorem lcm_spec bits a b :
    0 <= bits -> canon bits a -> canon bits b ->
    Gcd.lcm bits a b =
    Val (let '(A, Bv) := (eval a, eval b) in
         if (A =? 0) || (Bv =? 0) then Some (uint_of bits 0)
         else let L := A * Bv / Z.gcd A Bv in
              if L <? 2 ^ bits then Some (uint_of bits L) else None).
  Proof.
    intros H Ha Hb. unfold Gcd.lcm. rewrite gcd_spec by auto. cbn [obind].
    pose proof (canon_range bits a H Ha) as Ra. pose proof (canon_range bits b H Hb) as Rb.
    set (g := Z.gcd (eval a) (eval b)).
    assert (Hg0 : 0 <= g) by apply Z.gcd_nonneg.
    assert (Hgb : g <= 2 ^ bits - 1).
    { destruct (Z.eq_dec (eval a) 0) as [E|E].
      - subst g. rewrite E, Z.gcd_0_l, Z.abs_eq by lia. lia.
      - assert (g <= eval a); [|lia]. apply Z.divide_pos_le; [lia|]. apply Z.gcd_divide_l. }
    destruct (canon_uint_of_val bits g H ltac:(lia)) as [Cg Eg].
    destruct (canon_uZERO bits H) as [Cz Ez].
    rewrite is_zero_spec by auto. rewrite Eg.
    destruct (Z.eqb_spec g 0) as [G0|G0].
    - cbn [obind]. f_equal. rewrite uchecked_mul_spec by auto. rewrite Ez, Z.mul_0_r.
      pose proof (pow2_pos' bits H). destruct (Z.ltb_spec 0 (2 ^ bits)); [|lia].
      apply Z.gcd_eq_0 in G0. destruct G0 as [-> ->]. reflexivity.
    - destruct (udiv_rem_spec HD bits b _ H Hb Cg ltac:(lia)) as (q & r & E & Cq & Cr & Eq & Er).
      unfold udiv. rewrite E. cbn [obind fst]. f_equal. rewrite uchecked_mul_spec by auto.
      rewrite Eq, Eg. cbv zeta.
      assert (Hdiv : (g | eval b)) by apply Z.gcd_divide_r.
      assert (Hex : eval a * (eval b / g) = eval a * eval b / g).
      { symmetry. apply Z.divide_div_mul_exact; [lia | exact Hdiv]. }
      destruct (Z.eqb_spec (eval a) 0) as [A0|A0]; cbn [orb].
      + rewrite A0, Z.mul_0_l. pose proof (pow2_pos' bits H).
        destruct (Z.ltb_spec 0 (2 ^ bits)); [reflexivity | lia].
      + destruct (Z.eqb_spec (eval b) 0) as [B0|B0].
        * rewrite B0, Z.div_0_l, Z.mul_0_r by lia. pose proof (pow2_pos' bits H).
          destruct (Z.ltb_spec 0 (2 ^ bits)); [reflexivity | lia].
        * rewrite Hex. reflexivity.
  Qed.

  (* ---------- gcd_extended ---------- *)
  (* the linear invariant: (a, b) = (s0, s1) * A0 + (t0, t1) * B0 in the ring mod 2^bits *)
  Definition xinv (bits A0 B0 : Z) (s : xstate) : Prop :=
    canon bits (xa s) /\ canon bits (xb s) /\ canon bits (xs0 s) /\ canon bits (xs1 s) /\
    canon bits (xt0 s) /\ canon bits (xt1 s) /\
    eval (xa s) mod 2 ^ bits = (eval (xs0 s) * A0 + eval (xt0 s) * B0) mod 2 ^ bits /\
    eval (xb s) mod 2 ^ bits = (eval (xs1 s) * A0 + eval (xt1 s) * B0) mod 2 ^ bits /\
    Z.gcd (eval (xa s)) (eval (xb s)) = Z.gcd A0 B0.

  Lemma mod_eq_lin M x y x' y' a b :
    0 < M -> x mod M = x' mod M -> y mod M = y' mod M ->
    (a * x + b * y) mod M = (a * x' + b * y') mod M.
  Proof.
    intros HM Hx Hy.
    rewrite Z.add_mod, (Z.mul_mod a x), (Z.mul_mod b y), Hx, Hy by lia.
    rewrite <- (Z.mul_mod a x'), <- (Z.mul_mod b y'), <- Z.add_mod by lia. reflexivity.
  Qed.

  Lemma euclid_upd_spec bits q x0 x1 :
    0 <= bits -> canon bits q -> canon bits x0 -> canon bits x1 ->
    exists y, euclid_upd bits q x0 x1 = Val (x1, y) /\ canon bits y /\
              eval y = (eval x0 - eval q * eval x1) mod 2 ^ bits.
  Proof.
    intros H Cq C0 C1. unfold euclid_upd.
    destruct (umul_spec bits q x1 H Cq C1) as (p & -> & Cp & Ep). cbn [obind].
    destruct (usub_spec bits x0 p H C0 Cp) as [Cy Ey].
    eexists; split; [reflexivity|]. split; [exact Cy|]. rewrite Ey, Ep.
    pose proof (pow2_pos' bits H). rewrite Zminus_mod_idemp_r. reflexivity.
  Qed.

  Lemma zmap_lin m M x y x' y' :
    0 < M -> x mod M = x' mod M -> y mod M = y' mod M ->
    fst (zmap m x y) mod M = fst (zmap m x' y') mod M /\
    snd (zmap m x y) mod M = snd (zmap m x' y') mod M.
  Proof.
    intros HM Hx Hy. unfold zmap. destruct (m4 m); cbn [fst snd]; split;
      rewrite !(Zminus_mod (_ * _)), !(Z.mul_mod _ x), !(Z.mul_mod _ y), ?Hx, ?Hy by lia;
      rewrite <- !(Z.mul_mod _ x'), <- !(Z.mul_mod _ y'), <- !Zminus_mod by lia; reflexivity.
  Qed.

  Lemma zmap_combine m s0 s1 t0 t1 A0 B0 :
    fst (zmap m (s0 * A0 + t0 * B0) (s1 * A0 + t1 * B0)) =
      fst (zmap m s0 s1) * A0 + fst (zmap m t0 t1) * B0 /\
    snd (zmap m (s0 * A0 + t0 * B0) (s1 * A0 + t1 * B0)) =
      snd (zmap m s0 s1) * A0 + snd (zmap m t0 t1) * B0.
  Proof. unfold zmap. destruct (m4 m); cbn [fst snd]; split; ring. Qed.

  Lemma mod_lin_idem M u v A0 B0 :
    0 < M -> ((u mod M) * A0 + (v mod M) * B0) mod M = (u * A0 + v * B0) mod M.
  Proof.
    intros HM. rewrite Z.add_mod, !Z.mul_mod_idemp_l, <- Z.add_mod by lia. reflexivity.
  Qed.

  Lemma euclid_cong M a b s0 s1 t0 t1 A0 B0 q :
    0 < M -> a mod M = (s0 * A0 + t0 * B0) mod M -> b mod M = (s1 * A0 + t1 * B0) mod M ->
    ((a - q * b) mod M) mod M =
    (((s0 - q * s1) mod M) * A0 + ((t0 - q * t1) mod M) * B0) mod M.
  Proof.
    intros HM Ia Ib. rewrite Z.mod_mod, mod_lin_idem by lia.
    replace (a - q * b) with (1 * a + (- q) * b) by ring.
    rewrite (mod_eq_lin M _ _ _ _ 1 (- q) HM Ia Ib). f_equal. ring.
  Qed.

  Lemma lehmer_cong m M a b s0 s1 t0 t1 A0 B0 :
    0 < M -> a mod M = (s0 * A0 + t0 * B0) mod M -> b mod M = (s1 * A0 + t1 * B0) mod M ->
    fst (zmap m a b) mod M =
      ((fst (zmap m s0 s1) mod M) * A0 + (fst (zmap m t0 t1) mod M) * B0) mod M /\
    snd (zmap m a b) mod M =
      ((snd (zmap m s0 s1) mod M) * A0 + (snd (zmap m t0 t1) mod M) * B0) mod M.
  Proof.
    intros HM Ia Ib. destruct (zmap_lin m M _ _ _ _ HM Ia Ib) as [L1 L2].
    destruct (zmap_combine m s0 s1 t0 t1 A0 B0) as [K1 K2].
    rewrite !mod_lin_idem by lia. rewrite L1, L2, K1, K2. auto.
  Qed.

  Lemma gcdx_loop_spec bits A0 B0 : 0 < bits -> forall fuel s,
    xinv bits A0 B0 s -> eval (xb s) <= eval (xa s) ->
    (eval (xb s) = 0 \/ eval (xa s) * eval (xb s) < 2 ^ (Z.of_nat fuel - 1)) ->
    exists s', gcdx_loop fuel bits s = Val s' /\ xinv bits A0 B0 s' /\ eval (xb s') = 0.
  Proof.
    intros Hb. pose proof (pow2_pos' bits ltac:(lia)) as HM.
    induction fuel as [|fuel IH]; intros s Hinv Hle Hm;
      destruct Hinv as (Ca & Cb & Cs0 & Cs1 & Ct0 & Ct1 & Ia & Ib & Ig);
      pose proof (canon_range bits _ ltac:(lia) Ca) as Ra; pose proof (canon_range bits _ ltac:(lia) Cb) as Rb.
    - cbn [gcdx_loop]. rewrite is_zero_spec by (auto; lia).
      destruct (Z.eqb_spec (eval (xb s)) 0) as [E|E].
      + exists s. unfold xinv. auto 12.
      + exfalso. destruct Hm as [Hm|Hm]; [lia|]. cbn in Hm. nia.
    - cbn [gcdx_loop]. rewrite is_zero_spec by (auto; lia).
      destruct (Z.eqb_spec (eval (xb s)) 0) as [E|E].
      + exists s. unfold xinv. auto 12.
      + destruct Hm as [Hm|Hm]; [lia|].
        rewrite (ult_spec bits) by auto. destruct (Z.ltb_spec (eval (xa s)) (eval (xb s))); [lia|].
        assert (Hf1 : 0 <= Z.of_nat fuel - 1).
        { destruct fuel; [|lia]. exfalso. cbn in Hm. nia. }
        assert (Hsplit : 2 ^ (Z.of_nat (S fuel) - 1) = 2 * 2 ^ (Z.of_nat fuel - 1)).
        { replace (Z.of_nat (S fuel) - 1) with (1 + (Z.of_nat fuel - 1)) by lia.
          rewrite Z.pow_add_r by lia. reflexivity. }
        destruct (HL bits (xa s) (xb s) ltac:(lia) Ca Cb ltac:(lia)) as (m & -> & Wm & [->|(Hn & Hf & _ & Hg)]).
        * (* Euclidean step *)
          cbn [obind]. change (mat_eqb IDENTITY IDENTITY) with true. cbv iota.
          destruct (udiv_rem_spec HD bits _ _ ltac:(lia) Ca Cb ltac:(lia)) as (q & r & E' & Cq & Cr & Eq & Er).
          unfold udiv. rewrite E'. cbn [obind fst].
          destruct (euclid_upd_spec bits q _ _ ltac:(lia) Cq Ca Cb) as (b' & -> & Cb' & Eb'). cbn [obind].
          destruct (euclid_upd_spec bits q _ _ ltac:(lia) Cq Cs0 Cs1) as (s1' & -> & Cs1' & Es1'). cbn [obind].
          destruct (euclid_upd_spec bits q _ _ ltac:(lia) Cq Ct0 Ct1) as (t1' & -> & Ct1' & Et1'). cbn [obind fst snd].
          pose proof (Z.mod_pos_bound (eval (xa s)) (eval (xb s)) ltac:(lia)) as Hmb.
          pose proof (Z.div_mod (eval (xa s)) (eval (xb s)) ltac:(lia)) as Hdm.
          assert (Eb'' : eval b' = eval (xa s) mod eval (xb s)).
          { rewrite Eb', Eq. replace (eval (xa s) - eval (xa s) / eval (xb s) * eval (xb s))
              with (eval (xa s) mod eval (xb s)) by lia. apply Z.mod_small. lia. }
          apply IH.
          -- unfold xinv. cbn [xa xb xs0 xs1 xt0 xt1]. do 6 (split; [assumption|]).
             split; [exact Ib|]. split.
             ++ rewrite Es1', Et1'. rewrite <- (Z.mod_mod (eval b')) by lia. rewrite Eb' at 1.
                rewrite Z.mod_mod by lia. apply euclid_cong; auto.
             ++ rewrite Eb''. rewrite gcd_euclid_step by lia. exact Ig.
          -- cbn [xa xb]. lia.
          -- cbn [xa xb]. right. rewrite Eb''.
             pose proof (euclid_halves (eval (xa s)) (eval (xb s)) ltac:(lia)). lia.
        * (* Lehmer step *)
          cbn [obind]. rewrite (mat_eqb_false _ _ Hn).
          destruct (apply_spec bits m _ _ Hb Wm Hf Ca Cb) as (c & d & -> & Cc & Cd & Ec & Ed). cbn [obind].
          destruct (apply_spec bits m _ _ Hb Wm Hf Cs0 Cs1) as (s0' & s1' & -> & Cs0' & Cs1' & Es0' & Es1'). cbn [obind].
          destruct (apply_spec bits m _ _ Hb Wm Hf Ct0 Ct1) as (t0' & t1' & -> & Ct0' & Ct1' & Et0' & Et1'). cbn [obind fst snd].
          unfold good_step in Hg. destruct (zmap m (eval (xa s)) (eval (xb s))) as [C D] eqn:EZ. cbn [fst snd] in *.
          destruct Hg as (G1 & G2 & G3 & G4 & G5).
          assert (EcC : eval c = C) by (rewrite Ec; apply Z.mod_small; lia).
          assert (EdD : eval d = D) by (rewrite Ed; apply Z.mod_small; lia).
          apply IH.
          -- unfold xinv. cbn [xa xb xs0 xs1 xt0 xt1]. do 6 (split; [assumption|]).
             destruct (lehmer_cong m (2 ^ bits) _ _ _ _ _ _ A0 B0 HM Ia Ib) as [L1 L2].
             rewrite EZ in L1, L2. cbn [fst snd] in L1, L2.
             split; [|split].
             ++ rewrite Es0', Et0', <- L1, EcC. reflexivity.
             ++ rewrite Es1', Et1', <- L2, EdD. reflexivity.
             ++ rewrite EcC, EdD, G5. exact Ig.
          -- cbn [xa xb]. lia.
          -- cbn [xa xb]. right. rewrite EcC, EdD. lia.
  Qed.

  (* the Bezout congruence demanded by the property *)
  Definition bezout_ok (bits A Bv : Z) (r : list Z * list Z * list Z * bool) : Prop :=
    let '(g, x, y, sign) := r in
    g = uint_of bits (Z.gcd A Bv) /\ canon bits x /\ canon bits y /\
    (if sign then A * eval x - Bv * eval y else Bv * eval y - A * eval x) mod 2 ^ bits
      = Z.gcd A Bv mod 2 ^ bits.

  Lemma bezout_neg M g s t a b :
    0 < M -> g = (s * a + t * b) mod M ->
    (a * s - b * ((0 - t) mod M)) mod M = g mod M /\
    (b * t - a * ((0 - s) mod M)) mod M = g mod M.
  Proof.
    intros HM ->. rewrite Z.mod_mod by lia. split.
    - rewrite Zminus_mod, Z.mul_mod_idemp_r, <- Zminus_mod by lia. f_equal. ring.
    - rewrite Zminus_mod, Z.mul_mod_idemp_r, <- Zminus_mod by lia. f_equal. ring.
  Qed.

  Theorem gcd_extended_spec bits a b :
    0 <= bits -> canon bits a -> canon bits b ->
    exists r, Gcd.gcd_extended bits a b = Val r /\ bezout_ok bits (eval a) (eval b) r.
  Proof.
    intros H Ha Hb. unfold Gcd.gcd_extended.
    destruct (Z.eqb_spec bits 0) as [->|N].
    - apply canon_zero_width in Ha, Hb. subst. eexists; split; [reflexivity|].
      cbn. repeat split; try apply canon_0_nil.
    - assert (Hpos : 0 < bits) by lia. pose proof (pow2_pos' bits H) as HM.
      pose proof (canon_range bits a H Ha) as Ra. pose proof (canon_range bits b H Hb) as Rb.
      destruct (uONE_spec bits Hpos) as [C1 E1]. destruct (canon_uZERO bits H) as [C0 E0].
      rewrite (ult_spec bits) by auto.
      (* the common part, for the ordered pair (a', b') *)
      assert (Main : forall a' b', canon bits a' -> canon bits b' -> eval b' <= eval a' ->
        exists s, gcdx_loop (gcd_fuel bits) bits (XS a' b' (uONE bits) (uZERO bits) (uZERO bits) (uONE bits) true)
                  = Val s /\
          canon bits (xa s) /\ canon bits (xs0 s) /\ canon bits (xt0 s) /\
          eval (xa s) = Z.gcd (eval a') (eval b') /\
          eval (xa s) mod 2 ^ bits = (eval (xs0 s) * eval a' + eval (xt0 s) * eval b') mod 2 ^ bits).
      { intros a' b' Ca' Cb' Hle.
        pose proof (canon_range bits a' H Ca') as Ra'. pose proof (canon_range bits b' H Cb') as Rb'.
        destruct (gcdx_loop_spec bits (eval a') (eval b') Hpos (gcd_fuel bits)
                    (XS a' b' (uONE bits) (uZERO bits) (uZERO bits) (uONE bits) true))
          as (s & Es & (Ca & Cb & Cs0 & Cs1 & Ct0 & Ct1 & Ia & Ib & Ig) & Ez).
        - unfold xinv. cbn [xa xb xs0 xs1 xt0 xt1]. do 6 (split; [assumption|]).
          rewrite E1, E0. split; [f_equal; ring|]. split; [f_equal; ring | reflexivity].
        - cbn [xa xb]. lia.
        - cbn [xa xb]. right. apply fuel_enough; auto.
        - exists s. split; [exact Es|]. do 3 (split; [assumption|]). split; [|exact Ia].
          rewrite Ez, Z.gcd_0_r in Ig. pose proof (canon_range bits _ H Ca). lia. }
      assert (Hgb : forall x y, 0 <= x < 2 ^ bits -> 0 <= y < 2 ^ bits -> 0 <= Z.gcd x y < 2 ^ bits).
      { intros x y Hx Hy. split; [apply Z.gcd_nonneg|].
        destruct (Z.eq_dec x 0) as [->|Nx]; [rewrite Z.gcd_0_l, Z.abs_eq; lia|].
        assert (Z.gcd x y <= x); [|lia]. apply Z.divide_pos_le; [lia | apply Z.gcd_divide_l]. }
      destruct (Z.ltb_spec (eval a) (eval b)) as [Hlt|Hge].
      + (* swapped *)
        destruct (Main b a Hb Ha ltac:(lia)) as (s & -> & Ca' & Cs0 & Ct0 & Eg & Il). cbn [obind].
        assert (Gg : xa s = uint_of bits (Z.gcd (eval a) (eval b))).
        { apply uint_of_unique; [exact Ca'|]. rewrite Eg. apply Z.gcd_comm. }
        rewrite Z.mod_small in Il by (apply canon_range; auto).
        destruct (bezout_neg (2 ^ bits) _ _ _ _ _ HM Il) as [Z1 Z2].
        rewrite Eg, (Z.gcd_comm (eval b)) in Z1, Z2.
        destruct (xeven s).
        * destruct (usub_spec bits (uZERO bits) (xt0 s) H C0 Ct0) as [Cn En]. rewrite E0 in En.
          eexists; split; [reflexivity|]. cbn [bezout_ok negb]. split; [exact Gg|]. split; [exact Cn|]. split; [exact Cs0|].
          rewrite En. exact Z1.
        * destruct (usub_spec bits (uZERO bits) (xs0 s) H C0 Cs0) as [Cn En]. rewrite E0 in En.
          eexists; split; [reflexivity|]. cbn [bezout_ok negb]. split; [exact Gg|]. split; [exact Ct0|]. split; [exact Cn|].
          rewrite En. exact Z2.
      + destruct (Main a b Ha Hb ltac:(lia)) as (s & -> & Ca' & Cs0 & Ct0 & Eg & Il). cbn [obind].
        assert (Gg : xa s = uint_of bits (Z.gcd (eval a) (eval b))).
        { apply uint_of_unique; [exact Ca'|]. exact Eg. }
        rewrite Z.mod_small in Il by (apply canon_range; auto).
        destruct (bezout_neg (2 ^ bits) _ _ _ _ _ HM Il) as [Z1 Z2].
        rewrite Eg in Z1, Z2.
        destruct (xeven s).
        * destruct (usub_spec bits (uZERO bits) (xt0 s) H C0 Ct0) as [Cn En]. rewrite E0 in En.
          eexists; split; [reflexivity|]. cbn [bezout_ok]. split; [exact Gg|]. split; [exact Cs0|]. split; [exact Cn|].
          rewrite En. exact Z1.
        * destruct (usub_spec bits (uZERO bits) (xs0 s) H C0 Cs0) as [Cn En]. rewrite E0 in En.
          eexists; split; [reflexivity|]. cbn [bezout_ok]. split; [exact Gg|]. split; [exact Cn|]. split; [exact Ct0|].
          rewrite En. exact Z2.
  Qed.
End Loops.
