(* Proofs/PfC01.v — every C01 call: the model's answer meets the executable specification. *)
From Coq Require Import ZArith List Bool Lia.
From RV.Model Require Import Base Word Add.
From RV.Proofs Require Import BaseFacts PfAdd.
From RV.Run Require Import RunC01.
Import ListNotations.
Local Open Scope Z_scope.

Lemma list_eqb_refl {A} (eqb : A -> A -> bool) (l : list A) :
  (forall x, eqb x x = true) -> list_eqb eqb l l = true.
Proof. intros H. induction l as [|x l IH]; cbn; [reflexivity | now rewrite H, IH]. Qed.
Lemma tok_eqb_refl t : tok_eqb t t = true.
Proof.
  destruct t; cbn; auto using Z.eqb_refl, eqb_reflx;
    apply list_eqb_refl; apply Z.eqb_refl.
Qed.
Lemma expect_refl t : expect (Val t) t = true.
Proof. unfold expect. cbn. apply list_eqb_refl, tok_eqb_refl. Qed.

(* ---- the three primitive facts, as equalities with the canonical representation ---- *)
Lemma add_eq bits a b :
  0 <= bits -> canon bits a -> canon bits b ->
  Add.overflowing_add bits a b =
  (uint_of bits ((eval a + eval b) mod 2 ^ bits), 2 ^ bits <=? eval a + eval b).
Proof.
  intros H Ha Hb. pose proof (overflowing_add_spec bits a b H Ha Hb) as S.
  destruct (Add.overflowing_add bits a b) as [r f]. destruct S as (Hc & He & ->).
  f_equal. now apply uint_of_unique.
Qed.
Lemma sub_eq bits a b :
  0 <= bits -> canon bits a -> canon bits b ->
  Add.overflowing_sub bits a b =
  (uint_of bits ((eval a - eval b) mod 2 ^ bits), eval a <? eval b).
Proof.
  intros H Ha Hb. pose proof (overflowing_sub_spec bits a b H Ha Hb) as S.
  destruct (Add.overflowing_sub bits a b) as [r f]. destruct S as (Hc & He & ->).
  f_equal. now apply uint_of_unique.
Qed.
Lemma neg_eq bits a :
  0 <= bits -> canon bits a ->
  Add.overflowing_neg bits a = (uint_of bits ((- eval a) mod 2 ^ bits), 0 <? eval a).
Proof.
  intros H Ha. unfold Add.overflowing_neg.
  destruct (canon_uZERO bits H) as [Hz Hz0]. rewrite sub_eq, Hz0 by auto. reflexivity.
Qed.

Lemma in_range_add bits a b :
  0 <= bits -> canon bits a -> canon bits b ->
  in_range bits (eval a + eval b) = negb (2 ^ bits <=? eval a + eval b).
Proof.
  intros H Ha Hb. pose proof (canon_range bits a H Ha). pose proof (canon_range bits b H Hb).
  unfold in_range, M. destruct (Z.leb_spec 0 (eval a + eval b)); [|lia].
  cbn [andb]. now rewrite Z.ltb_antisym.
Qed.
Lemma in_range_sub bits a b :
  0 <= bits -> canon bits a -> canon bits b ->
  in_range bits (eval a - eval b) = negb (eval a <? eval b).
Proof.
  intros H Ha Hb. pose proof (canon_range bits a H Ha). pose proof (canon_range bits b H Hb).
  unfold in_range, M. destruct (Z.ltb_spec (eval a - eval b) (2 ^ bits)); [|lia].
  rewrite andb_true_r. destruct (Z.leb_spec 0 (eval a - eval b)); destruct (Z.ltb_spec (eval a) (eval b)); auto; lia.
Qed.
Lemma in_range_neg bits a :
  0 <= bits -> canon bits a -> in_range bits (- eval a) = negb (0 <? eval a).
Proof.
  intros H Ha. pose proof (canon_range bits a H Ha).
  unfold in_range, M. destruct (Z.ltb_spec (- eval a) (2 ^ bits)); [|lia].
  rewrite andb_true_r. destruct (Z.leb_spec 0 (- eval a)); destruct (Z.ltb_spec 0 (eval a)); auto; lia.
Qed.

Lemma cmp_rev_spec l : forall r,
  length l = length r -> Forall inW l -> Forall inW r ->
  cmp_rev l r = Z.compare (eval (rev l)) (eval (rev r)).
Proof.
  induction l as [|x l IH]; intros [|y r] Hl Hwl Hwr; cbn [length] in Hl; try discriminate.
  - reflexivity.
  - inversion Hwl as [|? ? Hx Hl']; inversion Hwr as [|? ? Hy Hr']; subst.
    cbn [cmp_rev rev]. rewrite !eval_app, !rev_length. cbn [eval].
    assert (Hll : length l = length r) by lia. rewrite <- Hll.
    pose proof (eval_bound (rev l) ltac:(now apply Forall_rev)) as B1.
    pose proof (eval_bound (rev r) ltac:(now apply Forall_rev)) as B2.
    rewrite rev_length in *. rewrite <- Hll in B2.
    pose proof (Bn_pos (length l)). unfold inW in *.
    destruct (Z.ltb_spec y x); [symmetry; apply Z.compare_gt_iff; nia|].
    destruct (Z.ltb_spec x y); [symmetry; apply Z.compare_lt_iff; nia|].
    assert (x = y) by lia. subst y. rewrite IH by auto.
    rewrite !Z.mul_0_r, !Z.add_0_r.
    destruct (Z.compare_spec (eval (rev l)) (eval (rev r))); symmetry;
      [apply Z.compare_eq_iff | apply Z.compare_lt_iff | apply Z.compare_gt_iff]; nia.
Qed.

Lemma limbs_cmp_spec a b :
  length a = length b -> Forall inW a -> Forall inW b ->
  limbs_cmp a b = Z.compare (eval a) (eval b).
Proof.
  intros Hl Ha Hb. unfold limbs_cmp. rewrite <- Hl, Nat.min_id.
  rewrite firstn_all. rewrite Hl at 1. rewrite firstn_all.
  rewrite cmp_rev_spec, !rev_involutive by (rewrite ?rev_length; auto using Forall_rev).
  rewrite Nat.compare_refl. destruct (eval a ?= eval b); reflexivity.
Qed.

Lemma ult_spec bits a b : canon bits a -> canon bits b -> ult a b = (eval a <? eval b).
Proof.
  intros (Hla & Hwa & _) (Hlb & Hwb & _). unfold ult.
  rewrite limbs_cmp_spec by (auto; congruence). unfold Z.ltb.
  destruct (eval a ?= eval b); reflexivity.
Qed.

Lemma wrapping_add_canon bits a b :
  0 <= bits -> canon bits a -> canon bits b ->
  canon bits (Add.wrapping_add bits a b) /\
  eval (Add.wrapping_add bits a b) = (eval a + eval b) mod 2 ^ bits.
Proof.
  intros H Ha Hb. unfold Add.wrapping_add.
  pose proof (overflowing_add_spec bits a b H Ha Hb) as S.
  destruct (Add.overflowing_add bits a b) as [r f]. cbn [fst]. tauto.
Qed.

Lemma usum_spec bits xs : forall acc,
  0 <= bits -> Forall (canon bits) xs -> canon bits acc ->
  canon bits (fold_left (Add.wrapping_add bits) xs acc) /\
  eval (fold_left (Add.wrapping_add bits) xs acc)
  = (eval acc + fold_right Z.add 0 (map eval xs)) mod 2 ^ bits.
Proof.
  induction xs as [|x xs IH]; intros acc H Hxs Hacc; cbn [fold_left map fold_right].
  - split; [exact Hacc|]. pose proof (canon_range bits acc H Hacc).
    rewrite Z.add_0_r, Z.mod_small; lia.
  - inversion Hxs as [|? ? Hx Hxs']; subst.
    destruct (wrapping_add_canon bits acc x H Hacc Hx) as [Hc He].
    destruct (IH _ H Hxs' Hc) as [IH1 IH2]. split; [exact IH1|].
    rewrite IH2, He. assert (0 < 2 ^ bits) by (apply Z.pow_pos_nonneg; lia).
    rewrite Zplus_mod_idemp_l. f_equal. ring.
Qed.

Theorem C01_all c : wf c -> spec c (run c) = true.
Proof.
  destruct c as [bits a b|bits a b|bits a|bits a b|bits a b|bits a|bits a b|bits a b
                |bits a b|bits a b|bits a|bits a b|bits sh a b|bits sh a b|bits sh a|bits sh xs];
    cbn [wf spec run].
  - intros (H & Ha & Hb). rewrite add_eq by auto. unfold spec_ov, pair_toks, U. rewrite modp2_spec by lia. cbn [fst snd].
    rewrite in_range_add, negb_involutive by auto. apply expect_refl.
  - intros (H & Ha & Hb). rewrite sub_eq by auto. unfold spec_ov, pair_toks, U. rewrite modp2_spec by lia. cbn [fst snd].
    rewrite in_range_sub, negb_involutive by auto. apply expect_refl.
  - intros (H & Ha). rewrite neg_eq by auto. unfold spec_ov, pair_toks, U. rewrite modp2_spec by lia. cbn [fst snd].
    rewrite in_range_neg, negb_involutive by auto. apply expect_refl.
  - intros (H & Ha & Hb). unfold Add.checked_add. rewrite add_eq by auto.
    unfold spec_checked. rewrite in_range_add by auto.
    pose proof (canon_range bits a H Ha). pose proof (canon_range bits b H Hb).
    destruct (Z.leb_spec (2 ^ bits) (eval a + eval b)); cbn [negb checked_of opt_toks].
    + apply expect_refl.
    + unfold U. rewrite Z.mod_small by lia. apply expect_refl.
  - intros (H & Ha & Hb). unfold Add.checked_sub. rewrite sub_eq by auto.
    unfold spec_checked. rewrite in_range_sub by auto.
    pose proof (canon_range bits a H Ha). pose proof (canon_range bits b H Hb).
    destruct (Z.ltb_spec (eval a) (eval b)); cbn [negb checked_of opt_toks].
    + apply expect_refl.
    + unfold U. rewrite Z.mod_small by lia. apply expect_refl.
  - intros (H & Ha). unfold Add.checked_neg. rewrite neg_eq by auto.
    unfold spec_checked. rewrite in_range_neg by auto.
    pose proof (canon_range bits a H Ha).
    destruct (Z.ltb_spec 0 (eval a)); cbn [negb checked_of opt_toks].
    + apply expect_refl.
    + unfold U. rewrite Z.mod_small by lia. apply expect_refl.
  - intros (H & Ha & Hb). unfold Add.saturating_add. rewrite add_eq by auto.
    unfold spec_sat, U, M.
    pose proof (canon_range bits a H Ha). pose proof (canon_range bits b H Hb).
    destruct (Z.ltb_spec (eval a + eval b) 0); [lia|].
    destruct (Z.leb_spec (2 ^ bits) (eval a + eval b)).
    + destruct (canon_uMAX bits H) as [Hm He]. rewrite (uint_of_unique _ _ _ Hm He). apply expect_refl.
    + rewrite Z.mod_small by lia. apply expect_refl.
  - intros (H & Ha & Hb). unfold Add.saturating_sub. rewrite sub_eq by auto.
    unfold spec_sat, U, M.
    pose proof (canon_range bits a H Ha). pose proof (canon_range bits b H Hb).
    destruct (Z.ltb_spec (eval a) (eval b)).
    + destruct (Z.ltb_spec (eval a - eval b) 0); [|lia].
      destruct (canon_uZERO bits H) as [Hm He]. rewrite (uint_of_unique _ _ _ Hm He). apply expect_refl.
    + destruct (Z.ltb_spec (eval a - eval b) 0); [lia|].
      destruct (Z.leb_spec (2 ^ bits) (eval a - eval b)); [lia|].
      rewrite Z.mod_small by lia. apply expect_refl.
  - intros (H & Ha & Hb). unfold Add.wrapping_add. rewrite add_eq by auto. unfold spec_wrap. rewrite modp2_spec by lia. apply expect_refl.
  - intros (H & Ha & Hb). unfold Add.wrapping_sub. rewrite sub_eq by auto. unfold spec_wrap. rewrite modp2_spec by lia. apply expect_refl.
  - intros (H & Ha). unfold Add.wrapping_neg. rewrite neg_eq by auto. unfold spec_wrap. rewrite modp2_spec by lia. apply expect_refl.
  - intros (H & Ha & Hb). unfold Add.abs_diff, Add.wrapping_sub.
    rewrite (ult_spec bits a b Ha Hb).
    pose proof (canon_range bits a H Ha). pose proof (canon_range bits b H Hb).
    destruct (Z.ltb_spec (eval a) (eval b)); rewrite sub_eq by auto; cbn [fst]; unfold U.
    + rewrite Z.mod_small by lia. replace (Z.abs (eval a - eval b)) with (eval b - eval a) by lia.
      apply expect_refl.
    + rewrite Z.mod_small by lia. replace (Z.abs (eval a - eval b)) with (eval a - eval b) by lia.
      apply expect_refl.
  - intros (H & Ha & Hb). unfold Add.wrapping_add. rewrite add_eq by auto. unfold spec_wrap. rewrite modp2_spec by lia. apply expect_refl.
  - intros (H & Ha & Hb). unfold Add.wrapping_sub. rewrite sub_eq by auto. unfold spec_wrap. rewrite modp2_spec by lia. apply expect_refl.
  - intros (H & Ha). unfold Add.wrapping_neg. rewrite neg_eq by auto. unfold spec_wrap. rewrite modp2_spec by lia. apply expect_refl.
  - intros (H & Hxs). unfold Add.usum. destruct (canon_uZERO bits H) as [Hz Hz0].
    destruct (usum_spec bits xs _ H Hxs Hz) as [Hc He]. rewrite Hz0, Z.add_0_l in He.
    unfold spec_wrap, U, M. rewrite modp2_spec by lia. rewrite <- He. rewrite (canon_uint_of _ _ Hc). apply expect_refl.
Qed.
