(* Proofs/PfGenInvRing.v — the generated definition of Uint::inv_ring (src/mul.rs) is Model/Mul.v's
   inv_ring.  `Self::from(2)` is From<i32> (Model/Conv.v on both sides); the Newton loop
   `while correct_limbs < LIMBS` runs with the round bound LIMBS of the translator's table. *)
From Coq Require Import ZArith List Bool Lia.
From RV.Model Require Import Base Word.
From RV.Model Require Add Conv Mul.
From RV.Gen Require Import Prim Scalar.
From RV.Proofs Require Import BaseFacts PfGenScalar PfGenAdd PfGenMul.
From RV.Proofs Require PfMul PfGcdUint PfModelsAgree.
Import ListNotations.

Lemma nlimbs_ge2 bits : 0 <= bits -> 2 <= nlimbs bits -> 64 < bits.
Proof. intros H0 H. unfold nlimbs in H. Z.div_mod_to_equations. lia. Qed.

Section IR.
  Variable bits : Z.
  Hypothesis H0 : 0 <= bits.
  Hypothesis HB : 2 * nlimbs bits < B.
  Variable a : list Z.
  Hypothesis La : length a = nlimbsN bits.
  Hypothesis Wa : Forall inW a.

  Let HL : 0 <= nlimbs bits. Proof. apply nlimbs_nonneg; exact H0. Qed.
  Let HB' : nlimbs bits <= B. Proof. lia. Qed.

  Definition okx (x : list Z) : Prop := length x = nlimbsN bits /\ Forall inW x.

  Lemma ir_loop_eq {T} cond body (K : list Z -> outcome T) :
    (forall x c, cond (x, c) = Val (c <? nlimbs bits)) ->
    (forall x c, okx x -> 1 <= c < nlimbs bits -> body (x, c) =
       do two <- Mul.from_i32 bits 2 ;
       do p <- Mul.wrapping_mul bits a x ;
       do r <- Mul.wrapping_mul bits x (Add.wrapping_sub bits two p) ;
       Val (r, c * 2)) ->
    forall fuel x c, okx x -> 1 <= c ->
    (do t <- while_rounds fuel (x, c) cond body ; let '(r, _) := t in K r)
    = (do r <- Mul.inv_ring_loop fuel bits a x c ; K r).
  Proof.
    intros Hc Hb. induction fuel as [|fuel IH]; intros x c Ox Hc0.
    - cbn [while_rounds Mul.inv_ring_loop]. rewrite Hc. cbn [obind]. destruct (c <? nlimbs bits); reflexivity.
    - cbn [while_rounds Mul.inv_ring_loop]. rewrite Hc. cbn [obind].
      destruct (Z.ltb_spec c (nlimbs bits)) as [Hlt|Hge]; [|reflexivity].
      rewrite (Hb x c Ox ltac:(lia)).
      assert (Hbig : 64 < bits) by (apply nlimbs_ge2; lia).
      rewrite (PfMul.from_i32_two bits Hbig). cbn [obind].
      assert (2 ^ 1 < 2 ^ bits) by (apply Z.pow_lt_mono_r; lia).
      destruct (PfMul.canon_uint_of_val bits 2 H0 ltac:(lia)) as [C2 _].
      destruct Ox as (Lx & Wx).
      destruct (PfMul.wrapping_mul_spec bits a x H0 La Lx Wa Wx) as (p & Ep & Cp & _). rewrite Ep. cbn [obind].
      destruct (PfGcdUint.usub_spec bits _ _ H0 C2 Cp) as [(Ld & Wd & _) _].
      change (GcdMatrix.usub bits (uint_of bits 2) p) with (Add.wrapping_sub bits (uint_of bits 2) p) in Ld, Wd.
      destruct (PfMul.wrapping_mul_spec bits x _ H0 Lx Ld Wx Wd) as (r & Er & (Lr & Wr & _) & _). rewrite Er. cbn [obind].
      apply IH; [split; assumption | lia].
  Qed.

  Theorem g_inv_ring_eq : g_inv_ring bits (nlimbs bits) a = Mul.inv_ring bits a.
  Proof.
    unfold g_inv_ring, Mul.inv_ring.
    destruct (Z.eqb_spec bits 0) as [E0|N0]; [reflexivity|].
    destruct (PfModelsAgree.nlimbsN_pos bits ltac:(lia)) as (n & Hn).
    assert (Ea : exists a0 at_, a = a0 :: at_).
    { destruct a as [|a0 at_]; [rewrite Hn in La; discriminate | eauto]. }
    destruct Ea as (a0 & at_ & Ea). rewrite Ea.
    change (idx (a0 :: at_) 0) with (Val a0 : outcome Z). cbn [obind].
    destruct (Z.land a0 1 =? 0); [reflexivity|]. cbv zeta. rewrite <- Ea.
    unfold Mul.inv64, Mul.inv64_seed, Mul.inv64_step, Mul.wmul, Mul.wsub, wrap.
    match goal with |- context [(?x =? 1)] => destruct (x =? 1) eqn:E1 end; cbn [negb obind]; [|reflexivity].
    unfold uZERO, zero_limbs. rewrite Hn. cbn [repeat].
    change (idx (0 :: repeat 0 n) 0) with (Val 0 : outcome Z). cbn [obind].
    unfold upd. cbn [Z.to_nat firstn skipn app].
    replace (Z.to_nat (nlimbs bits)) with (nlimbsN bits) by reflexivity.
    rewrite <- ?Hn.
    match goal with |- context [while_rounds _ (?x0, 1) ?c ?bd] =>
      pose proof (ir_loop_eq c bd (fun r => do t_13 <- g_apply_mask bits (nlimbs bits) r ; Val (Some t_13))) as HW;
      set (X0 := x0) in * end.
    assert (Ox0 : okx X0).
    { unfold okx, X0. cbn [length]. rewrite repeat_length, Hn. split; [reflexivity|].
      constructor; [|apply Forall_inW_repeat0].
      match goal with |- inW (?v mod B) => unfold inW; apply Z.mod_pos_bound; apply B_pos end. }
    match goal with |- (do t_11 <- ?W ; _) = _ =>
      transitivity (do t <- W ; let '(r, _) := t in do t_13 <- g_apply_mask bits (nlimbs bits) r ; Val (Some t_13)) end.
    { match goal with |- (do t_11 <- ?W ; _) = _ => destruct W as [[r c]| | | |]; reflexivity end. }
    rewrite HW; [| | |exact Ox0|lia].
    - destruct (Mul.inv_ring_loop (nlimbsN bits) bits a X0 1) as [r| | | |] eqn:EL; try reflexivity. cbn [obind].
      assert (Lr : length r = nlimbsN bits).
      { assert (Hpos : 0 < bits) by lia.
        assert (forall fuel x c, okx x -> 1 <= c -> Mul.inv_ring_loop fuel bits a x c = Val r -> length r = nlimbsN bits) as G.
        { induction fuel as [|fuel IH]; intros x c (Lx & Wx) Hc1; cbn [Mul.inv_ring_loop].
          - destruct (c <? nlimbs bits); [discriminate|]. intros [= <-]. exact Lx.
          - destruct (Z.ltb_spec c (nlimbs bits)) as [Hlt|Hge]; [|intros [= <-]; exact Lx].
            assert (Hbig : 64 < bits) by (apply nlimbs_ge2; lia).
            rewrite (PfMul.from_i32_two bits Hbig). cbn [obind].
            assert (2 ^ 1 < 2 ^ bits) by (apply Z.pow_lt_mono_r; lia).
            destruct (PfMul.canon_uint_of_val bits 2 H0 ltac:(lia)) as [C2 _].
            destruct (PfMul.wrapping_mul_spec bits a x H0 La Lx Wa Wx) as (p & Ep & Cp & _). rewrite Ep. cbn [obind].
            destruct (PfGcdUint.usub_spec bits _ _ H0 C2 Cp) as [(Ld & Wd & _) _].
            change (GcdMatrix.usub bits (uint_of bits 2) p) with (Add.wrapping_sub bits (uint_of bits 2) p) in Ld, Wd.
            destruct (PfMul.wrapping_mul_spec bits x _ H0 Lx Ld Wx Wd) as (r' & Er & (Lr' & Wr' & _) & _). rewrite Er. cbn [obind].
            apply IH; [split; assumption | lia]. }
        exact (G _ X0 1 Ox0 (Z.le_refl 1) EL). }
      rewrite (g_apply_mask_eq bits r H0 HB' Lr). reflexivity.
    - intros x c. reflexivity.
    - intros x c (Lx & Wx) Hc. cbv beta iota.
      change (Conv.from_of (Conv.try_from_prim bits {| Conv.pw := 32; Conv.psigned := true |} 2)) with (Mul.from_i32 bits 2).
      destruct (Mul.from_i32 bits 2) as [two| | | |] eqn:E2; try reflexivity. cbn [obind].
      rewrite (g_wrapping_mul_eq bits a x H0 HB' La Lx Wa Wx).
      assert (Hbig : 64 < bits) by (apply nlimbs_ge2; lia).
      rewrite (PfMul.from_i32_two bits Hbig) in E2. injection E2 as <-.
      assert (2 ^ 1 < 2 ^ bits) by (apply Z.pow_lt_mono_r; lia).
      destruct (PfMul.canon_uint_of_val bits 2 H0 ltac:(lia)) as [C2 _].
      destruct (PfMul.wrapping_mul_spec bits a x H0 La Lx Wa Wx) as (p & Ep & Cp & _). rewrite Ep. cbn [obind].
      pose proof C2 as (L2 & _). pose proof Cp as (Lp & _).
      rewrite (g_wrapping_sub_eq bits _ p H0 HB' L2 Lp). cbn [obind].
      destruct (PfGcdUint.usub_spec bits _ _ H0 C2 Cp) as [(Ld & Wd & _) _].
      change (GcdMatrix.usub bits (uint_of bits 2) p) with (Add.wrapping_sub bits (uint_of bits 2) p) in Ld, Wd.
      rewrite (g_wrapping_mul_eq bits x _ H0 HB' Lx Ld Wx Wd).
      destruct (Mul.wrapping_mul bits x (Add.wrapping_sub bits (uint_of bits 2) p)) as [r| | | |]; try reflexivity. cbn [obind].
      rewrite chk64_ok by lia. reflexivity.
  Qed.
End IR.
