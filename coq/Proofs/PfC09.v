(* Proofs/PfC09.v — every C09 call: the model's answer meets the executable specification. *)
From Coq Require Import ZArith List Bool Lia.
From RV.Model Require Import Base Word Limbs BaseConv Str Fmt.
From RV.Proofs Require Import BaseFacts PfPositional PfBaseConv PfStr PfFmt.
From RV.Run Require Import RunC09.
Import ListNotations.
Local Open Scope Z_scope.

Lemma digits_lt b v : 2 <= b -> Forall (fun d => d < b) (digits_le b v).
Proof.
  intros Hb. eapply Forall_impl; [|apply (digits_range b v Hb)]. unfold digit_ok. intros; lia.
Qed.
Lemma digits_inW b v : 2 <= b < B -> Forall inW (digits_le b v).
Proof.
  intros Hb. eapply Forall_impl; [|apply (digits_range b v ltac:(lia))].
  unfold digit_ok, inW. intros; lia.
Qed.

(* from_base(to_base(a)) = a *)
Lemma roundtrip_ok bits base a ds (val : list Z -> Z) r :
  0 <= bits -> canon bits a -> Forall (fun d => d < base) ds -> val ds = eval a ->
  conv_ok bits base ds val r -> r = Ok a.
Proof.
  intros Hbits Ha Hds Hval Hok. pose proof (canon_range bits a Hbits Ha) as Hr.
  pose proof (split_bad_all base ds Hds) as Hs.
  destruct r as [l|[| |d b]]; cbn [conv_ok] in Hok; try rewrite Hs in Hok; cbn [fst snd] in Hok.
  - destruct Hok as (_ & Hc & He). f_equal.
    rewrite <- (canon_uint_of bits l Hc), <- (canon_uint_of bits a Ha). congruence.
  - lia.
  - destruct Hok.
  - destruct Hok; discriminate.
Qed.

Theorem C09_all c : wf c -> spec c (run c) = true.
Proof.
  destruct c as [bits a base|bits a base|bits base ds|bits base ds|bits a base|bits a base
                |bits radix text|bits text|bits t plus alt zero fa hasw w a
                |bits t plus alt zero fa hasw w a]; cbn [wf spec run].
  - (* to_base_le *)
    intros (Hbits & Ha & Hb). destruct (Z.ltb_spec base 2) as [L|L].
    + now rewrite to_base_le_panic.
    + rewrite to_base_le_spec by (try apply Ha; unfold inW in Hb; lia). apply expect_refl.
  - (* to_base_be *)
    intros (Hbits & Ha & Hb). destruct (Z.ltb_spec base 2) as [L|L].
    + now rewrite to_base_be_panic.
    + rewrite to_base_be_spec by (try apply Ha; unfold inW in Hb; lia). apply expect_refl.
  - (* from_base_le *)
    intros (Hbits & Hb & Hds).
    destruct (from_base_le_spec bits base ds Hbits Hb Hds) as (r & E & H1 & H2).
    rewrite E. cbn [obind]. apply (spec_from_base_holds true); auto.
  - (* from_base_be *)
    intros (Hbits & Hb & Hds).
    destruct (from_base_be_spec bits base ds Hbits Hb Hds) as (r & E & H1 & H2).
    rewrite E. cbn [obind]. apply (spec_from_base_holds false); auto.
  - (* roundtrip_le *)
    intros (Hbits & Ha & Hb). destruct (Z.ltb_spec base 2) as [L|L].
    + now rewrite to_base_le_panic.
    + assert (Hb' : 2 <= base < B) by (unfold inW in Hb; lia).
      rewrite to_base_le_spec by (try apply Ha; lia). cbn [obind].
      destruct (from_base_le_spec bits base _ Hbits Hb (digits_inW base (eval a) Hb'))
        as (r & E & _ & H2).
      rewrite E. cbn [obind].
      rewrite (roundtrip_ok bits base a _ _ r Hbits Ha (digits_lt base _ ltac:(lia))
                 (value_digits base (eval a) ltac:(lia)
                    (proj1 (canon_range bits a Hbits Ha))) (H2 L)).
      apply expect_refl.
  - (* roundtrip_be *)
    intros (Hbits & Ha & Hb). destruct (Z.ltb_spec base 2) as [L|L].
    + now rewrite to_base_be_panic.
    + assert (Hb' : 2 <= base < B) by (unfold inW in Hb; lia).
      rewrite to_base_be_spec by (try apply Ha; lia). cbn [obind].
      assert (Hw : Forall inW (digits_be base (eval a))).
      { unfold digits_be. apply Forall_rev. now apply digits_inW. }
      destruct (from_base_be_spec bits base _ Hbits Hb Hw) as (r & E & _ & H2).
      rewrite E. cbn [obind].
      assert (Hlt : Forall (fun d => d < base) (digits_be base (eval a))).
      { unfold digits_be. apply Forall_rev. apply digits_lt. lia. }
      assert (Hval : value_be base (digits_be base (eval a)) = eval a).
      { unfold value_be, digits_be. rewrite rev_involutive. apply value_digits; [lia|].
        apply (canon_range bits a Hbits Ha). }
      rewrite (roundtrip_ok bits base a _ _ r Hbits Ha Hlt Hval (H2 L)).
      apply expect_refl.
  - (* from_str_radix *)
    intros (Hbits & Hr & Hu). destruct (utf8_decode text) as [cs|]; [|reflexivity].
    destruct (from_str_radix_spec bits radix cs Hbits Hr) as (r & E & S).
    rewrite E. exact S.
  - (* from_str *)
    intros (Hbits & Hu). destruct (utf8_decode text) as [cs|]; [|reflexivity].
    destruct (from_str_spec bits cs Hbits) as (r & E & S).
    rewrite E. exact S.
  - (* fmt *)
    intros (Hbits & Ha & Ht & _). rewrite fmt_spec by auto. apply expect_refl.
  - (* fmt_ref *)
    intros (Hbits & Ha & Ht & _).
    pose proof (canon_range bits a ltac:(lia) Ha) as Hv.
    assert (2 ^ bits <= 2 ^ 128) by (apply Z.pow_le_mono_r; lia).
    rewrite fmt_ref_spec by (auto; lia).
    destruct (base_of_ref t Ht) as (_ & -> & _). apply expect_refl.
Qed.

(* ---- Prop-level corollaries: on valid digit strings the result is determined exactly ---- *)
Lemma conv_exact bits base ds (val : list Z -> Z) r :
  Forall (fun d => d < base) ds -> conv_ok bits base ds val r ->
  r = if 2 ^ bits <=? val ds then Err BOverflow else Ok (uint_of bits (val ds)).
Proof.
  intros Hds Hok. pose proof (split_bad_all base ds Hds) as Hs.
  destruct r as [l|[| |d b]]; cbn [conv_ok] in Hok; try rewrite Hs in Hok; cbn [fst snd] in Hok.
  - destruct Hok as (_ & Hc & He). rewrite <- He. destruct Hc as (Hl & Hw & Hlt).
    destruct (Z.leb_spec (2 ^ bits) (eval l)); [lia|]. f_equal. symmetry.
    apply canon_uint_of. repeat split; auto.
  - destruct (Z.leb_spec (2 ^ bits) (val ds)); [reflexivity|lia].
  - destruct Hok.
  - destruct Hok; discriminate.
Qed.

Theorem from_base_le_exact bits base ds :
  0 <= bits -> 2 <= base < B -> Forall (fun d => 0 <= d < base) ds ->
  BaseConv.from_base_le bits base ds =
  Val (if 2 ^ bits <=? value_le base ds then Err BOverflow
       else Ok (uint_of bits (value_le base ds))).
Proof.
  intros Hbits Hb Hds.
  assert (Hw : Forall inW ds) by (eapply Forall_impl; [|exact Hds]; unfold inW; intros; lia).
  assert (Hlt : Forall (fun d => d < base) ds) by (eapply Forall_impl; [|exact Hds]; cbn beta; intros; lia).
  destruct (from_base_le_spec bits base ds Hbits ltac:(unfold inW; lia) Hw) as (r & E & _ & H2).
  rewrite E. f_equal. apply (conv_exact bits base ds _ r Hlt). apply H2. lia.
Qed.

Theorem from_base_be_exact bits base ds :
  0 <= bits -> 2 <= base < B -> Forall (fun d => 0 <= d < base) ds ->
  BaseConv.from_base_be bits base ds =
  Val (if 2 ^ bits <=? value_be base ds then Err BOverflow
       else Ok (uint_of bits (value_be base ds))).
Proof.
  intros Hbits Hb Hds.
  assert (Hw : Forall inW ds) by (eapply Forall_impl; [|exact Hds]; unfold inW; intros; lia).
  assert (Hlt : Forall (fun d => d < base) ds) by (eapply Forall_impl; [|exact Hds]; cbn beta; intros; lia).
  destruct (from_base_be_spec bits base ds Hbits ltac:(unfold inW; lia) Hw) as (r & E & _ & H2).
  rewrite E. f_equal. apply (conv_exact bits base ds _ r Hlt). apply H2. lia.
Qed.

Theorem from_base_invalid_base bits base ds : base < 2 ->
  BaseConv.from_base_le bits base ds = Val (Err (BInvalidBase base)) /\
  BaseConv.from_base_be bits base ds = Val (Err (BInvalidBase base)).
Proof.
  intros H. unfold BaseConv.from_base_le, BaseConv.from_base_be.
  destruct (Z.ltb_spec base 2); [split; reflexivity|lia].
Qed.
