(* Proofs/PfFloatUint.v — the integer pieces used by the float conversions (local copies in
   Model/Float.v): from_limbs, TryFrom<u64>, overflowing_shl, most_significant_bits,
   wrapping_neg.  One characterising lemma per model function. *)
From Coq Require Import ZArith List Bool Lia.
From RV.Model Require Import Base Word Add Float.
From RV.Proofs Require Import BaseFacts PfAdd PfSpecFloat.
Import ListNotations.
Local Open Scope Z_scope.

(* ---------- bit facts ---------- *)
Lemma lor_disjoint x y k : 0 <= k -> 0 <= y < 2 ^ k -> Z.lor (x * 2 ^ k) y = x * 2 ^ k + y.
Proof.
  intros Hk Hy.
  assert (Hl : Z.land (x * 2 ^ k) y = 0).
  { apply Z.bits_inj'. intros n Hn. rewrite Z.land_spec, Z.bits_0.
    destruct (Z.lt_ge_cases n k).
    - rewrite Z.mul_pow2_bits_low by lia. reflexivity.
    - assert (Z.testbit y n = false) as ->; [|apply andb_false_r].
      destruct (Z.eq_dec y 0) as [->|]; [apply Z.bits_0|].
      apply Z.bits_above_log2; [lia|].
      apply Z.log2_lt_pow2; [lia|]. assert (2 ^ k <= 2 ^ n) by (apply Z.pow_le_mono_r; lia). lia. }
  rewrite <- Z.lxor_lor by exact Hl. symmetry. apply Z.add_nocarry_lxor. exact Hl.
Qed.

Lemma lor_disjoint' x y k : 0 <= k -> 0 <= y < 2 ^ k -> x mod 2 ^ k = 0 -> Z.lor x y = x + y.
Proof.
  intros Hk Hy Hx.
  assert (0 < 2 ^ k) by (apply Z.pow_pos_nonneg; lia).
  pose proof (Z.div_mod x (2 ^ k) ltac:(lia)) as E. rewrite Hx, Z.add_0_r, Z.mul_comm in E.
  rewrite E. apply lor_disjoint; assumption.
Qed.

Lemma pow2_pos k : 0 <= k -> 0 < 2 ^ k.
Proof. intros. apply Z.pow_pos_nonneg; lia. Qed.

Lemma pow2_split a b : 0 <= a -> 0 <= b -> 2 ^ (a + b) = 2 ^ a * 2 ^ b.
Proof. intros. apply Z.pow_add_r; lia. Qed.

(* ---------- from_limbs, TryFrom<u64> ---------- *)
Lemma from_limbs_canon bits l : canon bits l -> from_limbs bits l = Val l.
Proof.
  intros Hc. unfold from_limbs.
  destruct (Z.eq_dec bits 0) as [->|N].
  - reflexivity.
  - destruct (Z_lt_le_dec bits 0).
    + unfold should_mask. destruct (Z.ltb_spec 0 bits); [lia|reflexivity].
    + destruct Hc as (Hl & Hw & Hr).
      rewrite (last_gt_mask bits l) by (auto; lia).
      destruct (Z.leb_spec (2 ^ bits) (eval l)); [lia|]. now rewrite andb_false_r.
Qed.

Lemma uint_of_small bits v : 0 < bits -> 0 <= v < B -> v < 2 ^ bits ->
  canon bits (v :: zero_limbs (Nat.pred (nlimbsN bits))) /\
  v :: zero_limbs (Nat.pred (nlimbsN bits)) = uint_of bits v.
Proof.
  intros Hb Hv Hlt.
  assert (Hc : canon bits (v :: zero_limbs (Nat.pred (nlimbsN bits)))).
  { pose proof (nlimbs_pos bits Hb). pose proof (nlimbsN_Z bits ltac:(lia)).
    unfold canon, zero_limbs. cbn [length eval]. rewrite repeat_length, eval_repeat0.
    split; [lia|]. split; [constructor; [exact Hv|apply Forall_inW_repeat0]|lia]. }
  split; [exact Hc|]. apply uint_of_unique; [exact Hc|].
  cbn [eval]. unfold zero_limbs. rewrite eval_repeat0. lia.
Qed.

Definition u64_result (bits value : Z) : to_uint_result :=
  if value <? 2 ^ bits then TOk (uint_of bits value)
  else ValueTooLarge bits (uint_of bits (value mod 2 ^ bits)).

Lemma try_from_u64_spec bits value :
  0 <= bits -> 0 <= value < B -> try_from_u64 bits value = Val (u64_result bits value).
Proof.
  intros Hb Hv. unfold try_from_u64, u64_result.
  destruct (Z.eq_dec bits 0) as [->|N].
  - (* LIMBS = 0 *)
    change (nlimbs 0) with 0. change (mask 0) with 0. change (2 ^ 0) with 1.
    cbn [Z.leb Z.compare Z.eqb].
    destruct (Z.ltb_spec 0 value); destruct (Z.ltb_spec value 1); try lia; reflexivity.
  - assert (Hpos : 0 < bits) by lia.
    pose proof (nlimbs_pos bits Hpos) as Hn1. pose proof (nlimbsN_Z bits Hb) as HnZ.
    pose proof (nlimbs_bounds bits Hpos) as Hnb.
    pose proof (topbits_range bits Hpos) as Ht.
    assert (HS : nlimbsN bits = S (Nat.pred (nlimbsN bits))) by lia.
    assert (Hfall : value < 2 ^ bits ->
      match nlimbsN bits with
      | O => Panic
      | S n => do r <- from_limbs bits (value :: zero_limbs n) ; Val (TOk r)
      end = Val (TOk (uint_of bits value))).
    { intros Hlt. rewrite HS. destruct (uint_of_small bits value Hpos Hv Hlt) as [Hc He].
      rewrite from_limbs_canon by exact Hc. cbn [obind]. now rewrite He. }
    destruct (Z.leb_spec (nlimbs bits) 1) as [L1|L1].
    + assert (E1 : nlimbs bits = 1) by lia.
      assert (Hm : mask bits = 2 ^ bits - 1).
      { rewrite mask_topbits by lia. unfold topbits. rewrite E1. f_equal. f_equal. lia. }
      rewrite Hm, E1. cbn [Z.eqb].
      destruct (Z.ltb_spec (2 ^ bits - 1) value) as [G|G];
        destruct (Z.ltb_spec value (2 ^ bits)) as [G'|G']; try lia.
      * rewrite land_ones_mod by lia.
        assert (H2 : 0 < 2 ^ bits) by (apply pow2_pos; lia).
        pose proof (Z.mod_pos_bound value (2 ^ bits) H2) as Hmb.
        assert (H2B : 2 ^ bits <= B) by (rewrite B_pow; apply Z.pow_le_mono_r; lia).
        destruct (uint_of_small bits (value mod 2 ^ bits) Hpos ltac:(lia) ltac:(lia)) as [Hc He].
        assert (Hp : Nat.pred (nlimbsN bits) = O) by lia. rewrite Hp in *. cbn [zero_limbs repeat] in *.
        rewrite from_limbs_canon by exact Hc. cbn [obind]. now rewrite He.
      * apply Hfall. lia.
    + destruct (Z.ltb_spec value (2 ^ bits)) as [G'|G'].
      * apply Hfall. exact G'.
      * assert (2 ^ 64 <= 2 ^ bits) by (apply Z.pow_le_mono_r; lia). rewrite B_pow in Hv. lia.
Qed.

(* ---------- wrapping_neg ---------- *)
Lemma wrapping_neg_eq bits a :
  0 <= bits -> canon bits a -> Add.wrapping_neg bits a = uint_of bits ((- eval a) mod 2 ^ bits).
Proof.
  intros H Ha. unfold Add.wrapping_neg, Add.overflowing_neg.
  destruct (canon_uZERO bits H) as [Hz Hz0].
  pose proof (overflowing_sub_spec bits (uZERO bits) a H Hz Ha) as S.
  destruct (Add.overflowing_sub bits (uZERO bits) a) as [r f]. destruct S as (Hc & He & _).
  cbn [fst]. apply uint_of_unique; [exact Hc|]. rewrite He, Hz0. reflexivity.
Qed.

Lemma uint_of_canon bits v : 0 <= bits -> 0 <= v < 2 ^ bits ->
  canon bits (uint_of bits v) /\ eval (uint_of bits v) = v.
Proof.
  intros Hb Hv. unfold uint_of.
  assert (He : eval (to_limbs (nlimbsN bits) v) = v).
  { rewrite eval_to_limbs, nlimbsN_Z by lia. apply Z.mod_small.
    destruct (Z.eq_dec bits 0) as [->|N]; [change (nlimbs 0) with 0; cbn in *; lia|].
    destruct (Bn_multiple bits ltac:(lia)) as (k & Hk & E). rewrite E. nia. }
  split; [|exact He]. unfold canon. rewrite to_limbs_length, He.
  split; [reflexivity|]. split; [apply to_limbs_inW|lia].
Qed.

Lemma uint_of_0 bits : 0 <= bits -> uint_of bits 0 = uZERO bits.
Proof.
  intros H. symmetry. destruct (canon_uZERO bits H) as [Hc He]. apply uint_of_unique; auto.
Qed.

(* ---------- overflowing_shl ---------- *)
Lemma shl_loop_spec l : forall b c,
  Forall inW l -> 0 <= b < 64 -> 0 <= c < 2 ^ b ->
  let '(rs, c') := shl_loop l b c in
  length rs = length l /\ Forall inW rs /\ 0 <= c' < 2 ^ b /\
  eval rs + B ^ Z.of_nat (length l) * c' = eval l * 2 ^ b + c.
Proof.
  induction l as [|x t IH]; intros b c Hw Hb Hc.
  - cbn [shl_loop length eval Z.of_nat]. rewrite Z.pow_0_r. repeat split; auto; lia.
  - inversion Hw as [|? ? Hx Ht]; subst. cbn [shl_loop].
    assert (H2b : 0 < 2 ^ b) by (apply pow2_pos; lia).
    assert (H2c : 0 < 2 ^ (64 - b)) by (apply pow2_pos; lia).
    assert (HB : B = 2 ^ (64 - b) * 2 ^ b) by (rewrite B_pow, <- Z.pow_add_r by lia; f_equal; lia).
    unfold inW in Hx.
    (* carry out = x / 2^(64-b) *)
    assert (Hcarry : shr64 (shr64 x (64 - b - 1)) 1 = x / 2 ^ (64 - b)).
    { unfold shr64. rewrite Z.div_div by (try apply pow2_pos; lia).
      rewrite <- Z.pow_add_r by lia. f_equal. f_equal. lia. }
    assert (Hlow : shl64 x b = (x mod 2 ^ (64 - b)) * 2 ^ b).
    { unfold shl64. rewrite HB. rewrite Z.mul_mod_distr_r by lia. reflexivity. }
    pose proof (Z.div_mod x (2 ^ (64 - b)) ltac:(lia)) as Hdm.
    pose proof (Z.mod_pos_bound x (2 ^ (64 - b)) H2c) as Hmb.
    assert (Hq : 0 <= x / 2 ^ (64 - b) < 2 ^ b).
    { split; [apply Z.div_pos; lia|]. apply Z.div_lt_upper_bound; lia. }
    rewrite Hcarry, Hlow, lor_disjoint by lia.
    specialize (IH b (x / 2 ^ (64 - b)) Ht Hb Hq).
    destruct (shl_loop t b (x / 2 ^ (64 - b))) as [rs c']. destruct IH as (Il & Iw & Ic & Ie).
    cbn [length eval]. rewrite Bn_S.
    split; [lia|]. split; [constructor; [unfold inW; nia|exact Iw]|]. split; [lia|nia].
Qed.

Lemma all_zero_eval l : Forall inW l -> all_zero l = (eval l =? 0).
Proof.
  induction l as [|x t IH]; intros Hw; [reflexivity|].
  inversion Hw as [|? ? Hx Ht]; subst. cbn [all_zero forallb eval].
  change (forallb (fun x => x =? 0) t) with (all_zero t). rewrite IH by exact Ht.
  pose proof (eval_bound t Ht). pose proof B_pos. unfold inW in Hx.
  destruct (Z.eqb_spec x 0); destruct (Z.eqb_spec (eval t) 0); destruct (Z.eqb_spec (x + B * eval t) 0);
    cbn [andb]; try reflexivity; nia.
Qed.

Lemma eval_zero_limbs_app k l : eval (zero_limbs k ++ l) = B ^ Z.of_nat k * eval l.
Proof. rewrite eval_app. unfold zero_limbs. rewrite eval_repeat0, repeat_length. lia. Qed.

Lemma overflowing_shl_spec bits a rhs :
  0 <= bits -> canon bits a -> 0 <= rhs ->
  overflowing_shl bits a rhs
  = (uint_of bits ((eval a * 2 ^ rhs) mod 2 ^ bits), 2 ^ bits <=? eval a * 2 ^ rhs).
Proof.
  intros Hb Ha Hr. unfold overflowing_shl.
  pose proof (canon_range bits a Hb Ha) as Hva.
  destruct Ha as (Hl & Hw & Hlt).
  assert (H2 : 0 < 2 ^ bits) by (apply pow2_pos; lia).
  assert (H2r : 0 < 2 ^ rhs) by (apply pow2_pos; lia).
  pose proof (nlimbsN_Z bits Hb) as HnZ.
  assert (Hq : 0 <= rhs / 64) by (apply Z.div_pos; lia).
  pose proof (Z.div_mod rhs 64 ltac:(lia)) as Hdm.
  pose proof (Z.mod_pos_bound rhs 64 ltac:(lia)) as Hmb.
  destruct (Nat.leb_spec (nlimbsN bits) (Z.to_nat (rhs / 64))) as [G|G].
  - (* everything is shifted out *)
    assert (Hbr : bits <= rhs).
    { destruct (Z.eq_dec bits 0); [lia|]. pose proof (nlimbs_bounds bits ltac:(lia)). lia. }
    assert (Hm : (eval a * 2 ^ rhs) mod 2 ^ bits = 0).
    { replace rhs with ((rhs - bits) + bits) by lia. rewrite Z.pow_add_r by lia.
      rewrite Z.mul_assoc. apply Z.mod_mul. lia. }
    rewrite Hm, uint_of_0 by lia. f_equal. rewrite all_zero_eval by exact Hw.
    assert (2 ^ bits <= 2 ^ rhs) by (apply Z.pow_le_mono_r; lia).
    destruct (Z.eqb_spec (eval a) 0) as [E|E]; cbn [negb]; symmetry.
    + apply Z.leb_gt. rewrite E. lia.
    + apply Z.leb_le. nia.
  - set (k := Z.to_nat (rhs / 64)) in *. set (b := rhs mod 64) in *.
    assert (Hpos : 0 < bits).
    { destruct (Z.eq_dec bits 0) as [E|E]; [|lia]. rewrite E in G. cbn in G. lia. }
    set (L := nlimbsN bits) in *.
    assert (Hsplit : a = firstn (L - k) a ++ skipn (L - k) a) by (symmetry; apply firstn_skipn).
    set (a1 := firstn (L - k) a) in *. set (a2 := skipn (L - k) a) in *.
    assert (Hl1 : length a1 = (L - k)%nat) by (unfold a1; rewrite firstn_length; lia).
    assert (Hw12 : Forall inW a1 /\ Forall inW a2) by (apply Forall_app; rewrite <- Hsplit; exact Hw).
    destruct Hw12 as [Hw1 Hw2].
    pose proof (shl_loop_spec a1 b 0 Hw1 ltac:(unfold b; lia) ltac:(pose proof (pow2_pos b ltac:(unfold b; lia)); lia)) as Hs.
    destruct (shl_loop a1 b 0) as [rs c']. destruct Hs as (Sl & Sw & Sc & Se).
    set (r := zero_limbs k ++ rs).
    assert (Hlr : length r = L).
    { unfold r, zero_limbs. rewrite app_length, repeat_length. lia. }
    assert (Hwr : Forall inW r).
    { unfold r. apply Forall_app. split; [apply Forall_inW_repeat0|exact Sw]. }
    destruct (masked_spec bits r Hpos Hlr Hwr) as [Hcan Hev].
    rewrite (last_gt_mask bits r Hpos Hlr Hwr).
    rewrite (all_zero_eval a2 Hw2).
    (* the exact product *)
    pose proof (eval_bound a2 Hw2) as Hb2. pose proof (eval_bound r Hwr) as Hbr.
    assert (Hk : Z.of_nat k = rhs / 64) by (unfold k; lia).
    assert (Hprod : eval a * 2 ^ rhs
                    = eval r + B ^ Z.of_nat L * (c' + 2 ^ b * eval a2)).
    { rewrite Hsplit at 1. rewrite eval_app, Hl1. unfold r. rewrite eval_zero_limbs_app.
      assert (E : 2 ^ rhs = B ^ Z.of_nat k * 2 ^ b).
      { rewrite B_pow, <- Z.pow_mul_r, <- Z.pow_add_r by lia. f_equal. unfold b. lia. }
      rewrite E.
      assert (EL : B ^ Z.of_nat L = B ^ Z.of_nat k * B ^ Z.of_nat (L - k)).
      { rewrite <- Z.pow_add_r by lia. f_equal. lia. }
      rewrite EL. rewrite Hl1 in Se. clear - Se. nia. }
    rewrite Hlr in Hbr. fold L in HnZ. rewrite HnZ in *.
    destruct (Bn_multiple bits Hpos) as (kk & Hkk & HBk).
    assert (H2b : 0 < 2 ^ b) by (apply pow2_pos; unfold b; lia).
    f_equal.
    + apply uint_of_unique; [exact Hcan|]. rewrite Hev, Hprod, HBk.
      replace (eval r + 2 ^ bits * kk * (c' + 2 ^ b * eval a2))
        with (eval r + (kk * (c' + 2 ^ b * eval a2)) * 2 ^ bits) by ring.
      rewrite Z.mod_add by lia. reflexivity.
    + rewrite Hprod.
      destruct (Z.eqb_spec c' 0) as [E1|E1]; destruct (Z.eqb_spec (eval a2) 0) as [E2|E2];
        cbn [negb orb];
        [ rewrite E1, E2; rewrite Z.mul_0_r, Z.add_0_r, Z.mul_0_r, Z.add_0_r; reflexivity | | | ].
      all: symmetry; apply Z.leb_le;
        assert (HX : 1 <= c' + 2 ^ b * eval a2) by (clear - Sc Hb2 H2b E1 E2; nia);
        assert (HP : 0 < 2 ^ bits) by (apply pow2_pos; lia);
        assert (HY : B ^ nlimbs bits <= B ^ nlimbs bits * (c' + 2 ^ b * eval a2))
          by (rewrite HBk; clear - HX Hkk HP; nia);
        assert (HZ : 2 ^ bits <= B ^ nlimbs bits) by (rewrite HBk; clear - Hkk HP; nia); lia.
Qed.

(* ---------- most_significant_bits ---------- *)
Lemma rposition_none l : Forall inW l -> rposition_nz l = None -> eval l = 0.
Proof.
  induction l as [|x t IH]; intros Hw H; [reflexivity|].
  inversion Hw as [|? ? Hx Ht]; subst. cbn [rposition_nz] in H.
  destruct (rposition_nz t); [discriminate|].
  destruct (Z.eqb_spec x 0); [|discriminate]. cbn [eval]. rewrite IH by auto. lia.
Qed.

Lemma rposition_some l : forall i, Forall inW l -> rposition_nz l = Some i ->
  exists pre hi post, l = pre ++ hi :: post /\ length pre = i /\ hi <> 0 /\ eval post = 0.
Proof.
  induction l as [|x t IH]; intros i Hw H; [discriminate|].
  inversion Hw as [|? ? Hx Ht]; subst. cbn [rposition_nz] in H.
  destruct (rposition_nz t) as [j|] eqn:E.
  - inversion H; subst. destruct (IH j Ht eq_refl) as (pre & hi & post & -> & Hl & Hh & Hp).
    exists (x :: pre), hi, post. cbn [length]. repeat split; auto.
  - destruct (Z.eqb_spec x 0); [discriminate|]. inversion H; subst.
    exists [], x, t. repeat split; auto. now apply rposition_none.
Qed.

(* the pair returned for the value v *)
Definition msb_exp (v : Z) : Z := if v <? 2 ^ 64 then 0 else Z.log2 v - 63.
Definition msb_bits (v : Z) : Z := v / 2 ^ msb_exp v.

Lemma msb_spec a : Forall inW a ->
  most_significant_bits a = Val (msb_bits (eval a), msb_exp (eval a)).
Proof.
  intros Hw. unfold most_significant_bits.
  destruct (rposition_nz a) as [i|] eqn:E.
  2:{ pose proof (rposition_none a Hw E) as H0. unfold msb_bits, msb_exp. rewrite H0. cbn.
      destruct a as [|x t]; [reflexivity|]. inversion Hw as [|? ? Hx Ht]; subst.
      cbn [eval] in H0. pose proof (eval_bound t Ht). pose proof B_pos. unfold inW in Hx.
      assert (x = 0) by nia. now subst. }
  destruct (rposition_some a i Hw E) as (pre & hi & post & -> & Hl & Hh & Hp).
  apply Forall_app in Hw. destruct Hw as [Hwp Hwh]. inversion Hwh as [|? ? Hhi Hwpost]; subst.
  unfold inW in Hhi.
  destruct pre as [|p0 pre0].
  - (* the only non-zero limb is the first *)
    cbn [length app]. cbn [eval]. rewrite Hp. unfold msb_bits, msb_exp.
    rewrite Z.mul_0_r, Z.add_0_r. rewrite <- B_pow.
    destruct (Z.ltb_spec hi B); [|lia]. now rewrite Z.pow_0_r, Z.div_1_r.
  - assert (Hne : p0 :: pre0 <> []) by discriminate.
    destruct (list_snoc_inv _ Hne) as (pp & lo & Epp). rewrite Epp in *. clear Hne Epp p0 pre0.
    assert (Hlen : length (pp ++ [lo]) = S (length pp)) by (rewrite app_length; cbn; lia).
    rewrite Hlen.
    assert (Hn1 : nth_error ((pp ++ [lo]) ++ hi :: post) (S (length pp)) = Some hi).
    { rewrite nth_error_app2 by lia. now rewrite Hlen, Nat.sub_diag. }
    assert (Hn2 : nth_error ((pp ++ [lo]) ++ hi :: post) (length pp) = Some lo).
    { rewrite nth_error_app1 by lia. rewrite nth_error_app2 by lia. now rewrite Nat.sub_diag. }
    rewrite Hn1, Hn2. f_equal.
    apply Forall_app in Hwp. destruct Hwp as [Hwpp Hwlo].
    inversion Hwlo as [|? ? Hlo _]; subst. unfold inW in Hlo.
    pose proof (eval_bound pp Hwpp) as Hbpp.
    set (j := Z.of_nat (length pp)) in *.
    (* the value *)
    assert (Hv : eval ((pp ++ [lo]) ++ hi :: post) = eval pp + B ^ j * lo + B ^ (j + 1) * hi).
    { rewrite <- app_assoc, eval_app. cbn [app eval]. rewrite Hp. fold j.
      rewrite Z.pow_add_r, Z.pow_1_r by lia. ring. }
    rewrite Hv. clear Hv Hn1 Hn2.
    assert (Hhpos : 0 < hi) by lia.
    pose proof (log2_bounds hi Hhpos) as Hlh.
    assert (Hl63 : 0 <= Z.log2 hi <= 63).
    { split; [apply Z.log2_nonneg|]. assert (Z.log2 hi < 64); [|lia].
      apply Z.log2_lt_pow2; [lia|]. rewrite <- B_pow. lia. }
    unfold clz64. destruct (Z.eqb_spec hi 0); [lia|].
    set (lz := 63 - Z.log2 hi).
    assert (Hlz : 0 <= lz <= 63) by (unfold lz; lia).
    assert (HBj : 0 < B ^ j) by (apply Z.pow_pos_nonneg; [apply B_pos|unfold j; lia]).
    set (v := eval pp + B ^ j * lo + B ^ (j + 1) * hi).
    assert (HBj1 : B ^ (j + 1) = B ^ j * B) by (rewrite Z.pow_add_r, Z.pow_1_r by (unfold j; lia); ring).
    assert (Hlogv : Z.log2 v = 64 * (j + 1) + Z.log2 hi).
    { apply log2_eq; [unfold j; lia|].
      assert (E1 : 2 ^ (64 * (j + 1) + Z.log2 hi) = B ^ (j + 1) * 2 ^ Z.log2 hi).
      { rewrite B_pow, <- Z.pow_mul_r, <- Z.pow_add_r by (unfold j; lia). reflexivity. }
      assert (E2 : 2 ^ (64 * (j + 1) + Z.log2 hi + 1) = B ^ (j + 1) * 2 ^ (Z.log2 hi + 1)).
      { rewrite B_pow, <- Z.pow_mul_r, <- Z.pow_add_r by (unfold j; lia). f_equal. lia. }
      rewrite E1, E2. unfold v. rewrite HBj1. nia. }
    assert (Hbig : 2 ^ 64 <= v).
    { unfold v. rewrite HBj1, <- B_pow. nia. }
    unfold msb_bits, msb_exp. fold v. destruct (Z.ltb_spec v (2 ^ 64)); [lia|].
    rewrite Hlogv.
    assert (Hexp : Z.of_nat (S (length pp)) * 64 - lz = 64 * (j + 1) + Z.log2 hi - 63).
    { rewrite Nat2Z.inj_succ. fold j. unfold lz. lia. }
    rewrite Hexp. f_equal.
    (* v / 2^e = hi * 2^lz + lo / 2^(64 - lz) *)
    assert (H2lz : 0 < 2 ^ lz) by (apply pow2_pos; lia).
    assert (H2c : 0 < 2 ^ (64 - lz)) by (apply pow2_pos; lia).
    assert (HBs : B = 2 ^ lz * 2 ^ (64 - lz)) by (rewrite B_pow, <- Z.pow_add_r by lia; f_equal; lia).
    assert (He : 2 ^ (64 * (j + 1) + Z.log2 hi - 63) = B ^ j * 2 ^ (64 - lz)).
    { rewrite B_pow, <- Z.pow_mul_r, <- Z.pow_add_r by (unfold j, lz; lia). f_equal. unfold lz. lia. }
    rewrite He.
    assert (Hdiv : v / (B ^ j * 2 ^ (64 - lz)) = hi * 2 ^ lz + lo / 2 ^ (64 - lz)).
    { rewrite <- Z.div_div by lia.
      assert (v / B ^ j = lo + B * hi) as ->.
      { unfold v. rewrite HBj1. symmetry. apply Z.div_unique with (r := eval pp); [lia|ring]. }
      rewrite HBs at 1.
      replace (lo + 2 ^ lz * 2 ^ (64 - lz) * hi) with (lo + (hi * 2 ^ lz) * 2 ^ (64 - lz)) by ring.
      rewrite Z.div_add by lia. lia. }
    rewrite Hdiv.
    assert (Hhib : hi < 2 ^ (64 - lz)).
    { replace (64 - lz) with (Z.log2 hi + 1) by (unfold lz; lia). lia. }
    destruct (Z.ltb_spec 0 lz) as [G|G].
    + unfold shl64, shr64. rewrite Z.mod_small by (rewrite HBs; nia).
      apply lor_disjoint; [lia|]. split; [apply Z.div_pos; lia|].
      apply Z.div_lt_upper_bound; [lia|]. replace (2 ^ (64 - lz) * 2 ^ lz) with B by (rewrite HBs; ring). lia.
    + assert (lz = 0) by lia. subst lz. replace (63 - Z.log2 hi) with 0 in * by lia.
      rewrite Z.pow_0_r, Z.mul_1_r, Z.sub_0_r. rewrite Z.div_small by (rewrite <- B_pow; lia). lia.
Qed.
