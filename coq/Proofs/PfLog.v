(* Proofs/PfLog.v — src/log.rs: for every estimate satisfying RunC13.log_est_ok the two
   correction loops deliver floor(log_base value); the checked forms never panic. *)
From Coq Require Import ZArith List Bool Lia.
From RV.Model Require Import Base Word Add Pow Log.
From RV.Model Require Bits Shift Conv.
From RV.Proofs Require Import BaseFacts PfAdd PfBits PfPow.
From RV.Proofs Require PfConv.
From RV.Run Require RunC06.
From RV.Run Require Import RunC13.
Import ListNotations.
Local Open Scope Z_scope.

(* ---------- conversions ---------- *)
Lemma from_i32_spec bits v : 0 <= bits -> 0 <= v < 2 ^ 31 ->
  from_i32 bits v = if v <? 2 ^ bits then Val (uint_of bits v) else Panic.
Proof.
  intros Hb Hv. unfold from_i32, Conv.from_of.
  rewrite PfConv.try_from_prim_spec; cbn [i32 Conv.pw Conv.psigned]; try lia.
  - destruct (Z.ltb_spec v 0); [lia|]. cbn [obind]. unfold PfConv.res_of.
    destruct (v <? 2 ^ bits); reflexivity.
  - unfold Conv.prim_min, Conv.prim_max. cbn [i32 Conv.pw Conv.psigned]. lia.
Qed.

Lemma from_usize_spec bits v : 0 <= bits -> 0 <= v < B ->
  from_usize bits v = if v <? 2 ^ bits then Val (uint_of bits v) else Panic.
Proof.
  intros Hb Hv. unfold from_usize, Conv.from_of. rewrite B_pow in Hv.
  rewrite PfConv.try_from_prim_spec; cbn [usize Conv.pw Conv.psigned]; try lia.
  - destruct (Z.ltb_spec v 0); [lia|]. cbn [obind]. unfold PfConv.res_of.
    destruct (v <? 2 ^ bits); reflexivity.
  - unfold Conv.prim_min, Conv.prim_max. cbn [usize Conv.pw Conv.psigned]. lia.
Qed.

Lemma to_usize_spec bits a : 0 <= bits -> canon bits a -> eval a < B ->
  to_usize bits a = Val (eval a).
Proof.
  intros Hb Ha Hv. unfold to_usize, Conv.to_of. rewrite B_pow in Hv.
  rewrite PfConv.try_to_prim_spec; cbn [usize Conv.pw Conv.psigned]; auto; try lia.
  unfold Conv.prim_max. cbn [usize Conv.pw Conv.psigned].
  destruct (Z.leb_spec (eval a) (2 ^ 64 - 1)); [reflexivity | lia].
Qed.

Lemma uONE_val bits : 0 <= bits ->
  canon bits (Bits.uONE bits) /\ eval (Bits.uONE bits) = (if bits =? 0 then 0 else 1).
Proof.
  intros Hb. destruct (Z.eqb_spec bits 0) as [->|N].
  - cbn. unfold canon. cbn. repeat split; auto.
  - apply uONE_spec. lia.
Qed.

(* ---------- powers ---------- *)
Lemma pow_ge_1 b k : 1 <= b -> 0 <= k -> 1 <= b ^ k.
Proof. intros. assert (0 < b ^ k) by (apply Z.pow_pos_nonneg; lia). lia. Qed.
Lemma pow_lt_succ b k : 2 <= b -> 0 <= k -> b ^ k < b ^ (k + 1).
Proof.
  intros Hb Hk. rewrite Z.pow_add_r, Z.pow_1_r by lia. pose proof (pow_ge_1 b k ltac:(lia) Hk). nia.
Qed.
(* b^k <= n < 2^bits forces k < bits *)
Lemma log_lt_bits b k n bits : 2 <= b -> 0 <= k -> 0 <= bits -> b ^ k <= n -> n < 2 ^ bits -> k < bits.
Proof.
  intros Hb Hk Hbits H1 H2.
  destruct (Z.lt_ge_cases k bits) as [|Hge]; [assumption|].
  assert (2 ^ bits <= 2 ^ k) by (apply Z.pow_le_mono_r; lia).
  assert (2 ^ k <= b ^ k) by (apply Z.pow_le_mono_l; lia). lia.
Qed.

(* ---------- checked_pow as used by the loops ---------- *)
Lemma checked_pow_cases bits base x :
  0 < bits -> canon bits base -> canon bits x ->
  (2 ^ bits <= eval base ^ eval x /\ Pow.checked_pow bits base x = Val None) \/
  (eval base ^ eval x < 2 ^ bits /\
   exists v, Pow.checked_pow bits base x = Val (Some v) /\ canon bits v /\
             eval v = eval base ^ eval x).
Proof.
  intros Hb Hbase Hx. destruct (checked_pow_spec bits base x Hb Hbase Hx) as (res & Hc & Ev & E).
  rewrite E. destruct (Z.leb_spec (2 ^ bits) (eval base ^ eval x)) as [H|H].
  - left. auto.
  - right. split; [exact H|]. exists res. split; [reflexivity|]. split; [exact Hc|].
    rewrite Ev. apply Z.mod_small. split; [|exact H].
    apply Z.pow_nonneg. pose proof (canon_range bits base ltac:(lia) Hbase). lia.
Qed.

Lemma sub_one_spec bits x : 0 < bits -> canon bits x -> 1 <= eval x ->
  canon bits (wrapping_sub bits x (Bits.uONE bits)) /\
  eval (wrapping_sub bits x (Bits.uONE bits)) = eval x - 1.
Proof.
  intros Hb Hx H1. destruct (uONE_spec bits Hb) as [Ho Eo].
  pose proof (overflowing_sub_spec bits x (Bits.uONE bits) ltac:(lia) Hx Ho) as S.
  unfold wrapping_sub. destruct (overflowing_sub bits x (Bits.uONE bits)) as [r f].
  destruct S as (Hc & Ev & _). cbn [fst]. split; [exact Hc|].
  pose proof (canon_range bits x ltac:(lia) Hx). rewrite Ev, Eo. apply Z.mod_small. lia.
Qed.

Lemma add_one_spec bits x : 0 < bits -> canon bits x ->
  (2 ^ bits <= eval x + 1 /\ checked_add bits x (Bits.uONE bits) = None) \/
  (eval x + 1 < 2 ^ bits /\
   exists t, checked_add bits x (Bits.uONE bits) = Some t /\ canon bits t /\ eval t = eval x + 1).
Proof.
  intros Hb Hx. destruct (uONE_spec bits Hb) as [Ho Eo].
  pose proof (overflowing_add_spec bits x (Bits.uONE bits) ltac:(lia) Hx Ho) as S.
  unfold checked_add. destruct (overflowing_add bits x (Bits.uONE bits)) as [r f].
  destruct S as (Hc & Ev & Ef). rewrite Eo in *. subst f.
  pose proof (canon_range bits x ltac:(lia) Hx).
  destruct (Z.leb_spec (2 ^ bits) (eval x + 1)) as [H1|H1]; cbn [checked_of].
  - left. auto.
  - right. split; [exact H1|]. exists r. split; [reflexivity|]. split; [exact Hc|].
    rewrite Ev. apply Z.mod_small. lia.
Qed.

(* ---------- the two correction loops ---------- *)
Section Loops.
  Variables (bits : Z) (self base : list Z).
  Hypothesis Hb : 0 < bits.
  Hypothesis Hself : canon bits self.
  Hypothesis Hbase : canon bits base.
  Let n := eval self.
  Let b := eval base.
  Hypothesis Hb2 : 2 <= b.
  Hypothesis Hn1 : 1 <= n.

  Definition down_inv (x : list Z) : Prop :=
    canon bits x /\ (2 ^ bits <= b ^ eval x -> b ^ (eval x - 1) <= n).
  Definition down_post (o : outcome (list Z)) : Prop :=
    exists y, o = Val y /\ canon bits y /\ b ^ eval y <= n.

  Lemma log_down_step_ok x : down_inv x ->
    match log_down_step bits self base x with
    | Done r => down_post r
    | More x' => down_inv x' /\ 0 <= eval x' < eval x
    end.
  Proof.
    intros [Hx Hov]. unfold log_down_step.
    pose proof (canon_range bits x ltac:(lia) Hx) as Hxr.
    pose proof (canon_range bits self ltac:(lia) Hself) as Hnr. fold n in Hnr.
    assert (Hx1 : 2 ^ bits <= b ^ eval x -> 1 <= eval x).
    { intros H. destruct (Z.eq_dec (eval x) 0) as [E|]; [|lia]. rewrite E, Z.pow_0_r in H.
      assert (2 ^ 1 <= 2 ^ bits) by (apply Z.pow_le_mono_r; lia). lia. }
    destruct (checked_pow_cases bits base x Hb Hbase Hx) as [[Hge E]|(Hlt & v & E & Hv & Ev)];
      fold b in Hge || fold b in Hlt, Ev; rewrite E, sbind_val.
    - (* overflow: one decrement, then leave *)
      destruct (sub_one_spec bits x Hb Hx (Hx1 Hge)) as [Hc Es].
      exists (wrapping_sub bits x (Bits.uONE bits)). rewrite Es. auto.
    - rewrite (ult_spec bits) by auto. fold n. rewrite Ev.
      destruct (Z.ltb_spec n (b ^ eval x)) as [Hgt|Hle].
      + assert (1 <= eval x).
        { destruct (Z.eq_dec (eval x) 0) as [E0|]; [|lia]. rewrite E0, Z.pow_0_r in Hgt. lia. }
        rewrite is_zero_spec by auto. destruct (Z.eqb_spec (eval x) 0); [lia|].
        destruct (sub_one_spec bits x Hb Hx ltac:(lia)) as [Hc Es].
        split; [|rewrite Es; lia]. split; [exact Hc|]. rewrite Es. intros Hov'.
        (* b^(x-1) < b^x < 2^bits: the premise is absurd *)
        pose proof (pow_lt_succ b (eval x - 1) Hb2 ltac:(lia)) as Hs.
        replace (eval x - 1 + 1) with (eval x) in Hs by lia. lia.
      + exists x. auto.
  Qed.

  Definition up_inv (x : list Z) : Prop := canon bits x /\ b ^ eval x <= n.
  Definition up_post (o : outcome (list Z)) : Prop :=
    exists y, o = Val y /\ canon bits y /\ b ^ eval y <= n < b ^ (eval y + 1).

  Lemma log_up_step_ok x : up_inv x ->
    match log_up_step bits self base x with
    | Done r => up_post r
    | More x' => up_inv x' /\ 0 <= 2 ^ bits - eval x' < 2 ^ bits - eval x
    end.
  Proof.
    intros [Hx Hle]. unfold log_up_step.
    pose proof (canon_range bits x ltac:(lia) Hx) as Hxr.
    pose proof (canon_range bits self ltac:(lia) Hself) as Hnr. fold n in Hnr.
    destruct (add_one_spec bits x Hb Hx) as [[Hge E]|(Hlt & t & E & Ht & Et)]; rewrite E.
    - (* x + 1 = 2^bits: b^(x+1) >= 2^(2^bits) > 2^bits > n *)
      exists x. split; [reflexivity|]. split; [exact Hx|]. split; [exact Hle|].
      assert (2 ^ (eval x + 1) <= b ^ (eval x + 1)) by (apply Z.pow_le_mono_l; lia).
      pose proof (pow_gt_self (eval x + 1) ltac:(lia)). lia.
    - destruct (checked_pow_cases bits base t Hb Hbase Ht) as [[Hge E']|(Hlt' & v & E' & Hv & Ev)];
        fold b in Hge || fold b in Hlt', Ev; rewrite E', sbind_val.
      + exists x. rewrite Et in Hge. split; [reflexivity|]. split; [exact Hx|]. lia.
      + rewrite (ule_spec bits) by auto. fold n. rewrite Ev, Et.
        destruct (Z.leb_spec (b ^ (eval x + 1)) n) as [Hle'|Hgt].
        * split; [split; [exact Ht | rewrite Et; exact Hle']|]. rewrite Et. lia.
        * exists x. split; [reflexivity|]. split; [exact Hx|]. lia.
  Qed.

  Lemma log_loops e :
    canon bits e -> (2 ^ bits <= b ^ eval e -> b ^ (eval e - 1) <= n) ->
    exists y,
      (do r <- run_loop (log_fuel bits) (log_down_step bits self base) e ;
       run_loop (log_fuel bits) (log_up_step bits self base) r) = Val y /\
      canon bits y /\ b ^ eval y <= n < b ^ (eval y + 1).
  Proof.
    intros He Hov.
    assert (Hfuel : Z.of_nat (log_fuel bits) = bits + 1).
    { unfold log_fuel. rewrite Nat2Z.inj_succ, Z2Nat.id; lia. }
    assert (H2 : 2 ^ bits < 2 ^ Z.of_nat (log_fuel bits)).
    { rewrite Hfuel. apply Z.pow_lt_mono_r; lia. }
    pose proof (run_loop_spec (log_down_step bits self base) down_inv down_post (fun x => eval x)
                  log_down_step_ok (log_fuel bits) e (conj He Hov)) as D.
    destruct D as (y & Ey & Hy & Hley).
    { pose proof (canon_range bits e ltac:(lia) He). lia. }
    rewrite Ey. cbn [obind].
    pose proof (run_loop_spec (log_up_step bits self base) up_inv up_post
                  (fun x => 2 ^ bits - eval x) log_up_step_ok (log_fuel bits) y (conj Hy Hley)) as U.
    destruct U as (z & Ez & Hz & Hz2).
    { pose proof (canon_range bits y ltac:(lia) Hy). lia. }
    exists z. auto.
  Qed.
End Loops.

(* ---------- log ---------- *)
Definition floor_log (n b k : Z) : Prop := 0 <= k /\ b ^ k <= n < b ^ (k + 1).

Lemma log2_floor n : 1 <= n -> floor_log n 2 (RunC06.bitlen n - 1).
Proof.
  intros Hn. unfold RunC06.bitlen. destruct (Z.eqb_spec n 0); [lia|].
  pose proof (Z.log2_spec n ltac:(lia)) as H. pose proof (Z.log2_nonneg n).
  unfold floor_log. replace (Z.log2 n + 1 - 1) with (Z.log2 n) by lia.
  replace (Z.log2 n + 1) with (Z.succ (Z.log2 n)) by lia. lia.
Qed.

Lemma log_est_ok_used bits n b est :
  3 <= b -> b <= n -> log_est_ok bits n b est = true ->
  exists e, est_of est = Some e /\ canon bits e /\
            (2 ^ bits <= b ^ eval e -> b ^ (eval e - 1) <= n) .
Proof.
  intros H3 Hbn. unfold log_est_ok.
  destruct (Z.leb_spec 3 b) as [_|?]; [|lia]. destruct (Z.leb_spec b n) as [_|?]; [|lia]. cbn [andb].
  destruct est as [|e [|]]; try discriminate.
  rewrite andb_true_iff, canonb_iff. intros [Hc Hcond]. exists e. split; [reflexivity|].
  split; [exact Hc|]. intros Hov.
  assert (Hbits : 0 <= bits).
  { destruct Hc as (_ & Hw & Hlt). destruct (Z.lt_ge_cases bits 0) as [Hneg|]; [|lia].
    rewrite Z.pow_neg_r in Hlt by lia. pose proof (eval_bound e Hw). lia. }
  destruct (Z.eq_dec bits 0) as [Hz|Hnz].
  { subst bits. apply canon_zero_width in Hc. subst e. cbn [eval]. rewrite Z.pow_neg_r by lia. lia. }
  pose proof (canon_range bits e Hbits Hc) as Her.
  pose proof (M_pos bits Hbits) as HM. unfold M in *.
  rewrite pow_gt_spec in Hcond by lia.
  destruct (Z.ltb_spec (2 ^ bits - 1) (b ^ eval e)); [|lia].
  assert (1 <= eval e).
  { destruct (Z.eq_dec (eval e) 0) as [E|]; [|lia]. rewrite E, Z.pow_0_r in Hov.
    assert (2 ^ 1 <= 2 ^ bits) by (apply Z.pow_le_mono_r; lia). lia. }
  rewrite pow_le_spec in Hcond by lia. apply Z.leb_le in Hcond. exact Hcond.
Qed.

Theorem log_spec bits self base est :
  0 <= bits < B -> canon bits self -> canon bits base ->
  log_est_ok bits (eval self) (eval base) est = true ->
  if (eval self =? 0) || (eval base <? 2) then Log.log bits self base (est_of est) = Panic
  else exists k, Log.log bits self base (est_of est) = Val k /\ floor_log (eval self) (eval base) k.
Proof.
  intros Hb Hself Hbase Hest. assert (Hb0 : 0 <= bits) by lia.
  pose proof (canon_range bits self Hb0 Hself) as Hnr.
  pose proof (canon_range bits base Hb0 Hbase) as Hbr.
  unfold Log.log. rewrite is_zero_spec by auto.
  destruct (Z.eqb_spec (eval self) 0) as [E0|N0]; [reflexivity|]. cbn [orb].
  rewrite from_i32_spec by lia.
  destruct (Z.ltb_spec 2 (2 ^ bits)) as [H2|H2].
  2:{ (* 2 does not fit: every base is below 2 *)
      destruct (Z.ltb_spec (eval base) 2); [reflexivity | lia]. }
  cbn [obind]. destruct (uint_of_small bits 2 Hb0 ltac:(lia)) as [Htwo Etwo].
  rewrite (ult_spec bits) by auto. rewrite Etwo.
  destruct (Z.ltb_spec (eval base) 2) as [Hlt|Hge]; [reflexivity|].
  assert (Hpos : 0 < bits).
  { destruct (Z.eq_dec bits 0) as [->|]; [cbn in H2; lia | lia]. }
  rewrite (ueq_spec bits) by auto. rewrite Etwo.
  destruct (Z.eqb_spec (eval base) 2) as [Eb|Nb].
  - (* base = 2: bit_len - 1 *)
    rewrite bit_len_spec by auto. cbn [obind]. unfold Bits.usub.
    pose proof (log2_floor (eval self) ltac:(lia)) as F. rewrite Eb.
    destruct (Z.ltb_spec (RunC06.bitlen (eval self)) 1); [unfold floor_log in F; lia|].
    eexists. split; [reflexivity | exact F].
  - rewrite (ult_spec bits) by auto.
    destruct (Z.ltb_spec (eval self) (eval base)) as [Hsb|Hsb].
    + exists 0. split; [reflexivity|]. unfold floor_log. rewrite Z.pow_0_r, Z.pow_1_r. lia.
    + destruct (log_est_ok_used bits (eval self) (eval base) est ltac:(lia) Hsb Hest)
        as (e & Ee & He & Hov).
      rewrite Ee.
      destruct (log_loops bits self base Hpos Hself Hbase ltac:(lia) ltac:(lia) e He Hov)
        as (y & Ey & Hy & Hy1 & Hy2).
      (* peel the two binds *)
      destruct (run_loop (log_fuel bits) (log_down_step bits self base) e) as [r| | | |];
        cbn [obind] in Ey |- *; try discriminate.
      rewrite Ey. cbn [obind].
      pose proof (canon_range bits y Hb0 Hy) as Hyr.
      assert (eval y < bits) by (apply (log_lt_bits (eval base) (eval y) (eval self)); lia).
      rewrite to_usize_spec by (auto; lia).
      exists (eval y). split; [reflexivity|]. unfold floor_log. lia.
Qed.

Theorem checked_log_spec bits self base est :
  0 <= bits < B -> canon bits self -> canon bits base ->
  log_est_ok bits (eval self) (eval base) est = true ->
  if (eval self =? 0) || (eval base <? 2)
  then Log.checked_log bits self base (est_of est) = Val None
  else exists k, Log.checked_log bits self base (est_of est) = Val (Some k) /\
                 floor_log (eval self) (eval base) k.
Proof.
  intros Hb Hself Hbase Hest. assert (Hb0 : 0 <= bits) by lia.
  pose proof (log_spec bits self base est Hb Hself Hbase Hest) as L.
  pose proof (canon_range bits self Hb0 Hself) as Hnr.
  pose proof (canon_range bits base Hb0 Hbase) as Hbr.
  unfold Log.checked_log. destruct (uONE_val bits Hb0) as [Ho Eo].
  rewrite (ule_spec bits) by auto. rewrite is_zero_spec by auto. rewrite Eo.
  destruct (Z.eqb_spec (eval self) 0) as [E0|N0]; cbn [orb] in *.
  { rewrite orb_true_r. reflexivity. }
  rewrite orb_false_r.
  destruct (Z.eqb_spec bits 0) as [Ez|Nz].
  { subst bits. apply canon_zero_width in Hself. subst self. cbn in N0. lia. }
  destruct (Z.leb_spec (eval base) 1); destruct (Z.ltb_spec (eval base) 2); try lia.
  - reflexivity.
  - destruct L as (k & E & F). rewrite E. cbn [obind]. exists k. auto.
Qed.

Theorem checked_log2_spec bits self :
  0 <= bits -> canon bits self ->
  if eval self =? 0 then Log.checked_log2 bits self = Val None
  else Log.checked_log2 bits self = Val (Some (RunC06.bitlen (eval self) - 1)) /\
       floor_log (eval self) 2 (RunC06.bitlen (eval self) - 1).
Proof.
  intros Hb Hself. pose proof (canon_range bits self Hb Hself) as Hnr.
  unfold Log.checked_log2. rewrite is_zero_spec by auto.
  destruct (Z.eqb_spec (eval self) 0); [reflexivity|].
  rewrite bit_len_spec by auto. cbn [obind]. unfold Bits.usub.
  pose proof (log2_floor (eval self) ltac:(lia)) as F.
  destruct (Z.ltb_spec (RunC06.bitlen (eval self)) 1); [unfold floor_log in F; lia|].
  cbn [obind]. auto.
Qed.

Theorem checked_log10_spec bits self est :
  0 <= bits < B -> canon bits self ->
  log_est_ok bits (eval self) (if 10 <? M bits then 10 else 0) est = true ->
  if eval self =? 0 then Log.checked_log10 bits self (est_of est) = Val None
  else exists k, Log.checked_log10 bits self (est_of est) = Val (Some k) /\
                 floor_log (eval self) 10 k.
Proof.
  intros Hb Hself Hest. assert (Hb0 : 0 <= bits) by lia.
  pose proof (canon_range bits self Hb0 Hself) as Hnr.
  unfold Log.checked_log10. rewrite PfConv.try_from_u64_spec by (rewrite ?B_val; lia).
  cbn [obind]. unfold PfConv.res_of. unfold M in Hest.
  destruct (Z.ltb_spec 10 (2 ^ bits)) as [H10|H10].
  - destruct (uint_of_small bits 10 Hb0 ltac:(lia)) as [Hten Eten].
    pose proof (checked_log_spec bits self (uint_of bits 10) est Hb Hself Hten) as L.
    rewrite Eten in L. specialize (L Hest). cbn [Z.ltb Z.compare orb] in L.
    rewrite orb_false_r in L. exact L.
  - rewrite is_zero_spec by auto. destruct (Z.eqb_spec (eval self) 0); [reflexivity|].
    exists 0. split; [reflexivity|]. unfold floor_log. rewrite Z.pow_0_r, Z.pow_1_r. lia.
Qed.
