(* Proofs/PfC20.v — every C20 call: the model's facade result and inherent result meet the
   executable specification (equal results, same None / flag / both panic, unwrapping facades
   panic exactly on None, plus the value-level characterisations). *)
From Coq Require Import ZArith List Bool Lia.
From RV.Model Require Import Base Word.
From RV.Model Require Add Shift Bits Conv Bytes Mul UDiv Pow Gcd BaseConv Str Facade.
From RV.Proofs Require Import BaseFacts PfAdd PfC01 PfShift PfBits PfConv PfBytes PfC06 PfFacade.
From RV.Proofs Require PfMul PfUDiv PfC03Closed PfPow PfGcd PfGcdMatrix PfC12Closed PfStr.
From RV.Run Require Import RunC20.
Import ListNotations.
Import Facade.
Local Open Scope Z_scope.

(* ---------- plumbing: token equality, the separator ---------- *)
Lemma toks_eqb_refl t : toks_eqb t t = true.
Proof. unfold toks_eqb. apply list_eqb_refl, tok_eqb_refl. Qed.

Fixpoint nosep (t : list tok) : bool :=
  match t with
  | [] => true
  | TErr 0 :: _ => false
  | _ :: r => nosep r
  end.

Lemma split_sep_app f i : nosep f = true -> split_sep (f ++ SEP :: i) = Some (f, i).
Proof.
  induction f as [|x f IH]; intros H.
  - reflexivity.
  - cbn [app]. destruct x as [l|z|b| | |code|bs]; cbn [nosep] in H; cbn [split_sep];
      try (rewrite IH by exact H; reflexivity).
    destruct code as [|p|p]; [discriminate H| |]; rewrite IH by exact H; reflexivity.
Qed.

Lemma spec_val c f i :
  nosep f = true -> spec c (Val (f ++ SEP :: i)) = toks_eqb f (expected c i) && extra c f.
Proof. intros H. unfold spec. now rewrite split_sep_app. Qed.

(* a side the harness can print: a value without the separator, or a panic *)
Definition okside (s : side) : Prop :=
  match s with Val t => nosep t = true | Panic => True | _ => False end.

Lemma join_same c s :
  okside s -> unwraps c = false -> (forall t, extra c t = true) -> spec c (join s s) = true.
Proof.
  intros Hs Hu He. destruct s as [t| | | |]; cbn [okside] in Hs; try contradiction.
  - cbn [join enc]. rewrite spec_val by exact Hs. unfold expected. rewrite Hu, He, toks_eqb_refl. reflexivity.
  - cbn [join enc]. change ([PANICKED] ++ SEP :: [PANICKED]) with ([PANICKED] ++ SEP :: [PANICKED]).
    rewrite spec_val by reflexivity. unfold expected. rewrite Hu, He. reflexivity.
Qed.

Lemma join_val c f i :
  nosep f = true -> toks_eqb f (expected c i) = true -> extra c f = true ->
  spec c (join (Val f) (Val i)) = true.
Proof. intros H1 H2 H3. cbn [join enc]. rewrite spec_val by exact H1. now rewrite H2, H3. Qed.

(* ---------- unpacking wf ---------- *)
Ltac unpack :=
  repeat match goal with
  | H : (_ && _) = true |- _ => apply andb_prop in H; destruct H
  end;
  repeat match goal with
  | H : (0 <=? _) = true |- _ => apply Z.leb_le in H
  | H : canonb _ _ = true |- _ => apply canonb_iff in H
  | H : usizeb _ = true |- _ => unfold usizeb in H; apply andb_prop in H; destruct H
  | H : u32b _ = true |- _ => unfold u32b in H; apply andb_prop in H; destruct H
  | H : (_ <=? _) = true |- _ => apply Z.leb_le in H
  | H : (_ <? _) = true |- _ => apply Z.ltb_lt in H
  end.

(* sides built from total model functions *)
Lemma okside_sU l : okside (sU l). Proof. reflexivity. Qed.
Lemma okside_sB b : okside (sB b). Proof. reflexivity. Qed.
Lemma okside_sY l : okside (sY l). Proof. reflexivity. Qed.
Lemma okside_sOpt o : okside (sOpt o). Proof. destruct o; reflexivity. Qed.
Lemma okside_sPair p : okside (sPair p). Proof. reflexivity. Qed.
Lemma okside_oU o : (exists v, o = Val v) \/ o = Panic -> okside (oU o).
Proof. intros [[v ->]| ->]; [reflexivity|exact I]. Qed.

Lemma bytesb_iff bs : bytesb bs = true -> Forall Bytes.isbyte bs.
Proof.
  unfold bytesb. rewrite forallb_forall, Forall_forall. intros H x Hx. specialize (H x Hx).
  unfold Bytes.isbyteb in H. unfold Bytes.isbyte. apply andb_prop in H. destruct H as [H1 H2].
  apply Z.leb_le in H1. apply Z.ltb_lt in H2. lia.
Qed.

Lemma from_limbs_total bits l : (exists v, Conv.from_limbs bits l = Val v) \/ Conv.from_limbs bits l = Panic.
Proof.
  unfold Conv.from_limbs. destruct (should_mask bits); [|left; eauto].
  destruct (nth_error l _); [|now right]. destruct (_ <=? _); [left; eauto | now right].
Qed.

Lemma eval_uZERO bits : 0 <= bits -> eval (uZERO bits) = 0.
Proof. intros H. now destruct (canon_uZERO bits H). Qed.

Lemma is_zero_spec bits a : 0 <= bits -> canon bits a -> limbs_eq a (uZERO bits) = (eval a =? 0).
Proof.
  intros Hb Ha. destruct (canon_uZERO bits Hb) as [(Lz & Wz & _) Ez]. destruct Ha as (La & Wa & _).
  rewrite limbs_eq_spec by (auto; congruence). now rewrite Ez.
Qed.

Ltac fwd :=
  apply join_same;
  [ first [ apply okside_sU | apply okside_sB | apply okside_sY | apply okside_sOpt | apply okside_sPair
          | (cbn; reflexivity) ]
  | reflexivity | intros; reflexivity ].

Lemma join_unwrap_opt c (o : option (list Z)) :
  unwraps c = true -> (forall t, extra c t = true) ->
  spec c (join (oU (unwrap_opt (Val o))) (oOpt (Val o))) = true.
Proof.
  intros Hu He. destruct o as [v|]; cbn [unwrap_opt obind oU oOpt omap opt_toks].
  - apply join_val; [reflexivity| |apply He]. unfold expected. rewrite Hu. cbn [unwrap_toks]. apply toks_eqb_refl.
  - cbn [join enc]. rewrite spec_val by reflexivity. unfold expected. rewrite Hu, He. reflexivity.
Qed.

Lemma forallb_canon bits xs : forallb (canonb bits) xs = true -> Forall (canon bits) xs.
Proof. rewrite forallb_forall, Forall_forall. intros H x Hx. apply canonb_iff, H, Hx. Qed.

Lemma div_rem_total bits a b :
  0 <= bits -> canon bits a -> canon bits b ->
  (exists q r, UDiv.div_rem a b = Val (q, r)) \/ UDiv.div_rem a b = Panic.
Proof.
  intros Hb Ha Hc. destruct (Z.eq_dec (eval b) 0) as [E|N].
  - right. eapply (PfUDiv.div_rem_zero PfUDiv.DivKernelZero_holds); eassumption.
  - left. rewrite (PfUDiv.div_rem_eq PfC03Closed.DivKernelOK_holds bits a b) by assumption. eauto.
Qed.

Lemma pow_total bits a e :
  0 <= bits -> canon bits a -> canon bits e -> exists r, Pow.pow bits a e = Val r.
Proof.
  intros Hb Ha He. destruct (Z.eq_dec bits 0) as [->|N].
  - exists a. reflexivity.
  - destruct (PfPow.wrapping_pow_spec bits a e) as (r & E & _); [lia | assumption..|]. exists r. exact E.
Qed.

Theorem C20_all c : wf c -> spec c (run c) = true.
Proof.
  unfold wf, run. destruct c; cbn [wfb sides fst snd]; intros Hwf; unpack.
  all: try solve [fwd].
  - (* op_mul *)
    match goal with Ha : canon bits a, Hb : canon bits b |- _ =>
      pose proof Ha as (La & Wa & _); pose proof Hb as (Lb & Wb & _) end.
    destruct (PfMul.wrapping_mul_spec bits a b) as (p & Ep & _); [assumption..|].
    unfold Facade.op_mul, bin_op. rewrite Ep. fwd.
  - (* op_div *)
    apply join_same; [|reflexivity|intros; reflexivity].
    unfold Facade.op_div, bin_op, UDiv.wrapping_div.
    destruct (div_rem_total bits a b) as [(q & r & Edr)|Edr]; [assumption..| |]; rewrite Edr; cbn [obind];
      first [reflexivity | exact I].
  - (* op_rem *)
    apply join_same; [|reflexivity|intros; reflexivity].
    unfold Facade.op_rem, bin_op, UDiv.wrapping_rem.
    destruct (div_rem_total bits a b) as [(q & r & Edr)|Edr]; [assumption..| |]; rewrite Edr; cbn [obind];
      first [reflexivity | exact I].
  - (* op_bitor *)
    unfold op_bit. rewrite (bit_op_any_shape 0 bits) by assumption.
    pose proof (bit_ref_spec 0 bits a b ltac:(assumption) ltac:(assumption) ltac:(assumption)) as R.
    change (bit_fun 0) with Z.lor in R. rewrite R. apply join_same; [reflexivity|reflexivity|intros; reflexivity].
  - (* op_bitand *)
    unfold op_bit. rewrite (bit_op_any_shape 1 bits) by assumption.
    pose proof (bit_ref_spec 1 bits a b ltac:(assumption) ltac:(assumption) ltac:(assumption)) as R.
    change (bit_fun 1) with Z.land in R. rewrite R. apply join_same; [reflexivity|reflexivity|intros; reflexivity].
  - (* op_bitxor *)
    unfold op_bit. rewrite (bit_op_any_shape 2 bits) by assumption.
    pose proof (bit_ref_spec 2 bits a b ltac:(assumption) ltac:(assumption) ltac:(assumption)) as R.
    change (bit_fun 2) with Z.lxor in R. rewrite R. apply join_same; [reflexivity|reflexivity|intros; reflexivity].
  - (* op_shl_uint *)
    unfold Facade.op_shl_uint. rewrite shl_uint_agrees by (first [assumption | lia]).
    change (RunC20.usize_sat k) with (PfFacade.usize_sat k). fwd.
  - (* op_shr_uint *)
    unfold Facade.op_shr_uint. rewrite shr_uint_agrees by (first [assumption | lia]).
    change (RunC20.usize_sat k) with (PfFacade.usize_sat k). fwd.
  - (* it_product *)
    match goal with H : forallb _ xs = true |- _ => apply forallb_canon in H; rename H into Hxs end.
    destruct (PfMul.product_spec bits xs) as (r & E & C & V); [assumption..|].
    destruct (canon_uONE bits) as [C1 E1]; [assumption|].
    destruct (PfMul.fold_mul_spec bits xs (Bits.uONE bits)) as (r' & E' & C' & V'); [assumption..|].
    unfold Facade.it_product. rewrite E, E'.
    assert (Err : r = r').
    { rewrite (uint_of_unique _ _ _ C V), (uint_of_unique _ _ _ C' V'). f_equal.
      rewrite E1, Z.mul_mod_idemp_l by (pose proof (pow2_pos bits ltac:(assumption)); lia).
      f_equal. ring. }
    subst r'. fwd.
  - (* bw_count *)
    destruct (count_values bits a) as (c1&c2&c3&c4&c5&c6&E1&E2&E3&E4&E5&E6&_); [assumption..|].
    unfold Facade.bw_count, wrap_bits. rewrite E3, E4, E5, E6.
    apply join_same; [|reflexivity|intros; reflexivity].
    destruct (k =? 0), (k =? 1), (k =? 2); reflexivity.
  - (* bw_bytes *)
    unfold Facade.bw_bytes, wrap_bits. rewrite to_le_bytes_spec, to_be_bytes_spec by assumption.
    rewrite Z.eqb_refl. apply join_same; [|reflexivity|intros; reflexivity].
    destruct (k =? 0), (k =? 1), (k =? 2); reflexivity.
  - (* bw_try_from_be_slice *)
    unfold Facade.bw_try_from_be_slice, wrap_bits.
    rewrite try_from_be_slice_spec by (auto using bytesb_iff).
    apply join_same; [|reflexivity|intros; reflexivity]. cbn. destruct (_ && _); reflexivity.
  - (* bw_try_from_le_slice *)
    unfold Facade.bw_try_from_le_slice, wrap_bits.
    rewrite try_from_le_slice_spec by (auto using bytesb_iff).
    apply join_same; [|reflexivity|intros; reflexivity]. cbn. destruct (_ && _); reflexivity.
  - (* bw_from_be_bytes *)
    unfold Facade.bw_from_be_bytes, wrap_bits. rewrite from_be_bytes_spec by (auto using bytesb_iff).
    apply join_same; [|reflexivity|intros; reflexivity]. destruct (_ && _); [reflexivity|exact I].
  - (* bw_from_le_bytes *)
    unfold Facade.bw_from_le_bytes, wrap_bits. rewrite from_le_bytes_spec by (auto using bytesb_iff).
    apply join_same; [|reflexivity|intros; reflexivity]. destruct (_ && _); [reflexivity|exact I].
  - (* bw_from_str_radix *)
    match goal with H : textb text = true |- _ => unfold textb in H;
      destruct (Str.utf8_decode text) as [cs|] eqn:Ecs; [clear H|discriminate H] end.
    unfold with_text. rewrite Ecs. cbn [fst snd].
    destruct (PfStr.from_str_radix_spec bits radix cs) as (r & Er & _); [assumption | unfold inW; lia |].
    unfold Facade.bw_from_str_radix, wrap_bits. rewrite Er.
    apply join_same; [|reflexivity|intros; reflexivity].
    destruct r as [v|[c|r'|[|bb|d bb]]]; reflexivity.
  - (* bw_from_str *)
    match goal with H : textb text = true |- _ => unfold textb in H;
      destruct (Str.utf8_decode text) as [cs|] eqn:Ecs; [clear H|discriminate H] end.
    unfold with_text. rewrite Ecs. cbn [fst snd].
    destruct (PfStr.from_str_spec bits cs) as (r & Er & _); [assumption|].
    unfold Facade.bw_from_str, wrap_bits. rewrite Er.
    apply join_same; [|reflexivity|intros; reflexivity].
    destruct r as [v|[c|r'|[|bb|d bb]]]; reflexivity.
  - (* bw_from_limbs *)
    unfold Facade.bw_from_limbs, wrap_bits.
    apply join_same; [apply okside_oU, from_limbs_total|reflexivity|intros; reflexivity].
  - (* bw_index *)
    unfold Facade.bw_index. rewrite bit_spec by (first [assumption | lia]). cbn [obind].
    destruct (if idx <? bits then Z.testbit (eval a) idx else false); fwd.
  - (* bw_bitor *)
    unfold bw_bit. change Z.lor with (bit_fun 0).
    rewrite !(bit_op_any_shape 0 bits _ a b), (bit_op_any_shape 0 bits _ b a) by assumption.
    destruct (bit_fun_props 0) as (_&_&_&Hc). rewrite (Hc (eval b) (eval a)).
    destruct (shape =? 2), (shape =? 3), (shape =? 4); (apply join_same; [reflexivity|reflexivity|intros; reflexivity]).
  - (* bw_bitand *)
    unfold bw_bit. change Z.land with (bit_fun 1).
    rewrite !(bit_op_any_shape 1 bits _ a b), (bit_op_any_shape 1 bits _ b a) by assumption.
    destruct (bit_fun_props 1) as (_&_&_&Hc). rewrite (Hc (eval b) (eval a)).
    destruct (shape =? 2), (shape =? 3), (shape =? 4); (apply join_same; [reflexivity|reflexivity|intros; reflexivity]).
  - (* bw_bitxor *)
    unfold bw_bit. change Z.lxor with (bit_fun 2).
    rewrite !(bit_op_any_shape 2 bits _ a b), (bit_op_any_shape 2 bits _ b a) by assumption.
    destruct (bit_fun_props 2) as (_&_&_&Hc). rewrite (Hc (eval b) (eval a)).
    destruct (shape =? 2), (shape =? 3), (shape =? 4); (apply join_same; [reflexivity|reflexivity|intros; reflexivity]).
  - (* bw_shl *)
    unfold Facade.bw_shl, wrap_bits, Shift.shl_prim. rewrite as_usize_id by lia. fwd.
  - (* bw_shr *)
    unfold Facade.bw_shr, wrap_bits, Shift.shr_prim. rewrite as_usize_id by lia. fwd.
  - (* nt_from_le_bytes *)
    unfold Facade.nt_from_le_bytes. rewrite try_from_le_slice_spec by (auto using bytesb_iff).
    apply join_unwrap_opt; [reflexivity | intros; reflexivity].
  - (* nt_from_be_bytes *)
    unfold Facade.nt_from_be_bytes. rewrite try_from_be_slice_spec by (auto using bytesb_iff).
    apply join_unwrap_opt; [reflexivity | intros; reflexivity].
  - (* nt_checked_div *)
    apply join_same; [|reflexivity|intros; reflexivity].
    unfold Facade.nt_checked_div, UDiv.checked_div, UDiv.op_div_, UDiv.wrapping_div.
    destruct (div_rem_total bits a b) as [(q & r & Edr)|Edr]; [assumption..| |]; rewrite Edr; cbn [obind];
      destruct (UDiv.is_zero bits b); first [reflexivity | exact I].
  - (* nt_checked_rem *)
    apply join_same; [|reflexivity|intros; reflexivity].
    unfold Facade.nt_checked_rem, UDiv.checked_rem, UDiv.op_rem_, UDiv.wrapping_rem.
    destruct (div_rem_total bits a b) as [(q & r & Edr)|Edr]; [assumption..| |]; rewrite Edr; cbn [obind];
      destruct (UDiv.is_zero bits b); first [reflexivity | exact I].
  - (* nt_checked_div_euclid *)
    apply join_same; [|reflexivity|intros; reflexivity].
    unfold Facade.nt_checked_div_euclid, UDiv.checked_div, UDiv.op_div_, UDiv.wrapping_div.
    destruct (div_rem_total bits a b) as [(q & r & Edr)|Edr]; [assumption..| |]; rewrite Edr; cbn [obind];
      destruct (UDiv.is_zero bits b); first [reflexivity | exact I].
  - (* nt_checked_rem_euclid *)
    apply join_same; [|reflexivity|intros; reflexivity].
    unfold Facade.nt_checked_rem_euclid, UDiv.checked_rem, UDiv.op_rem_, UDiv.wrapping_rem.
    destruct (div_rem_total bits a b) as [(q & r & Edr)|Edr]; [assumption..| |]; rewrite Edr; cbn [obind];
      destruct (UDiv.is_zero bits b); first [reflexivity | exact I].
  - (* nt_div_euclid *)
    apply join_same; [|reflexivity|intros; reflexivity].
    unfold Facade.nt_div_euclid, UDiv.wrapping_div.
    destruct (div_rem_total bits a b) as [(q & r & Edr)|Edr]; [assumption..| |]; rewrite Edr; cbn [obind];
      first [reflexivity | exact I].
  - (* nt_rem_euclid *)
    apply join_same; [|reflexivity|intros; reflexivity].
    unfold Facade.nt_rem_euclid, UDiv.wrapping_rem.
    destruct (div_rem_total bits a b) as [(q & r & Edr)|Edr]; [assumption..| |]; rewrite Edr; cbn [obind];
      first [reflexivity | exact I].
  - (* nt_inv *)
    pose proof (PfMul.inv_ring_spec bits a ltac:(assumption) ltac:(assumption)) as S.
    unfold Facade.nt_inv.
    destruct ((0 <? bits) && Z.odd (eval a)); [destruct S as (x & E & _); rewrite E | rewrite S]; fwd.
  - (* nt_mul_add *)
    match goal with Ha : canon bits a, Hb : canon bits b |- _ =>
      pose proof Ha as (La & Wa & _); pose proof Hb as (Lb & Wb & _) end.
    destruct (PfMul.wrapping_mul_spec bits a b) as (p & Ep & Cp & Vp); [assumption..|].
    unfold Facade.nt_mul_add, Facade.op_add, bin_op, Add.wrapping_add. rewrite Ep. cbn [obind].
    rewrite add_eq by assumption. cbn [fst oU omap obind].
    apply join_val; [reflexivity | apply toks_eqb_refl |]. cbn [extra]. unfold U.
    rewrite modp2_spec, Vp by assumption.
    rewrite Z.add_mod_idemp_l by (pose proof (pow2_pos bits ltac:(assumption)); lia). apply toks_eqb_refl.
  - (* nt_wrapping_mul *)
    match goal with Ha : canon bits a, Hb : canon bits b |- _ =>
      pose proof Ha as (La & Wa & _); pose proof Hb as (Lb & Wb & _) end.
    destruct (PfMul.wrapping_mul_spec bits a b) as (p & Ep & _); [assumption..|].
    unfold Facade.nt_wrapping_mul. rewrite Ep. fwd.
  - (* nt_from_str_radix *)
    match goal with H : textb text = true |- _ => unfold textb in H;
      destruct (Str.utf8_decode text) as [cs|] eqn:Ecs; [clear H|discriminate H] end.
    unfold with_text. rewrite Ecs. cbn [fst snd].
    assert (HrB : 0 <= radix < B) by (rewrite B_val; lia).
    destruct (PfStr.from_str_radix_spec bits radix cs) as (r & Er & _); [assumption | exact HrB |].
    unfold Facade.nt_from_str_radix. rewrite !as_usize_id by exact HrB. rewrite Er.
    apply join_same; [|reflexivity|intros; reflexivity].
    destruct r as [v|[c|r'|[|bb|d bb]]]; reflexivity.
  - (* nt_pow *)
    destruct (pow_total bits a e) as (r & Er); [assumption..|].
    unfold Facade.nt_pow. rewrite Er. fwd.
  - (* nt_to_prim *)
    match goal with H : prim128b _ = true |- _ => unfold prim128b in H;
      assert (Hty : ty = 10 \/ ty = 4 \/ ty = 11 \/ ty = 5)
        by (repeat (apply orb_prop in H; destruct H as [H|H]); apply Z.eqb_eq in H; auto) end.
    destruct Hty as [-> |[-> |[-> | ->]]]; cbn [with_prim Conv.prim_of_code fst snd];
      unfold Facade.nt_to_prim; rewrite try_to_prim_spec by (first [assumption | cbn; lia]); cbn [obind];
      (apply join_same; [destruct (_ <=? _); reflexivity | reflexivity | intros; reflexivity]).
  - (* nt_from_prim *)
    match goal with H : prim128b _ = true |- _ => unfold prim128b in H;
      assert (Hty : ty = 10 \/ ty = 4 \/ ty = 11 \/ ty = 5)
        by (repeat (apply orb_prop in H; destruct H as [H|H]); apply Z.eqb_eq in H; auto) end.
    match goal with H : prim_valb _ _ = true |- _ => unfold prim_valb in H; rename H into Hv end.
    destruct Hty as [-> |[-> |[-> | ->]]]; cbn [with_prim Conv.prim_of_code fst snd] in *; unpack;
      unfold Facade.nt_from_prim; rewrite try_from_prim_spec by (first [assumption | cbn; lia | split; assumption]);
      cbn [obind];
      (apply join_same; [destruct (n <? 0); [reflexivity|]; unfold res_of; destruct (_ <? _); reflexivity
                        | reflexivity | intros; reflexivity]).
  - (* nt_numcast *)
    match goal with H : prim_valb _ _ = true |- _ => unfold prim_valb in H; rename H into Hv end.
    destruct (Conv.prim_of_code ty) as [p|] eqn:E; [|discriminate Hv]. unpack.
    unfold with_prim. rewrite E. cbn [fst snd].
    destruct (numcast_agrees bits ty p n) as (o & E1 & E2); [assumption | exact E | assumption | split; assumption |].
    rewrite E1, E2. apply join_same; [destruct o; reflexivity | reflexivity | intros; reflexivity].
  - (* nt_count *)
    destruct (count_values bits a) as (c1&c2&c3&c4&c5&c6&E1&E2&E3&E4&E5&E6&R1&R2&R3&R4&R5&R6); [assumption..|].
    unfold Facade.nt_count. rewrite E1, E2, E3, E4, E5, E6.
    destruct (k =? 0), (k =? 1), (k =? 2), (k =? 3), (k =? 4); cbn [obind]; rewrite as_u32_id by lia; fwd.
  - (* nt_swap_bytes *)
    destruct (swap_bytes_spec bits a) as [S1 S2]; [assumption..|]. cbv zeta in S1, S2. rewrite S1, S2.
    destruct (swapped bits a <? 2 ^ bits) eqn:E; cbn [oU oOpt omap obind opt_toks].
    + apply join_val; [reflexivity | cbn [expected unwraps unwrap_toks]; apply toks_eqb_refl |]. cbn [extra].
      change (RunC20.brev (Bytes.nbytesN bits) (eval a) 0) with (swapped bits a). rewrite E. apply toks_eqb_refl.
    + cbn [join enc]. rewrite spec_val by reflexivity. cbn [expected unwraps unwrap_toks extra].
      change (RunC20.brev (Bytes.nbytesN bits) (eval a) 0) with (swapped bits a). rewrite E. reflexivity.
  - (* nt_to_be *)
    destruct (swap_bytes_spec bits a) as [S1 S2]; [assumption..|]. cbv zeta in S1, S2. rewrite S1, S2.
    destruct (swapped bits a <? 2 ^ bits) eqn:E; cbn [oU oOpt omap obind opt_toks].
    + apply join_val; [reflexivity | cbn [expected unwraps unwrap_toks]; apply toks_eqb_refl |]. cbn [extra].
      change (RunC20.brev (Bytes.nbytesN bits) (eval a) 0) with (swapped bits a). rewrite E. apply toks_eqb_refl.
    + cbn [join enc]. rewrite spec_val by reflexivity. cbn [expected unwraps unwrap_toks extra].
      change (RunC20.brev (Bytes.nbytesN bits) (eval a) 0) with (swapped bits a). rewrite E. reflexivity.
  - (* nt_from_be *)
    destruct (swap_bytes_spec bits a) as [S1 S2]; [assumption..|]. cbv zeta in S1, S2. rewrite S1, S2.
    destruct (swapped bits a <? 2 ^ bits) eqn:E; cbn [oU oOpt omap obind opt_toks].
    + apply join_val; [reflexivity | cbn [expected unwraps unwrap_toks]; apply toks_eqb_refl |]. cbn [extra].
      change (RunC20.brev (Bytes.nbytesN bits) (eval a) 0) with (swapped bits a). rewrite E. apply toks_eqb_refl.
    + cbn [join enc]. rewrite spec_val by reflexivity. cbn [expected unwraps unwrap_toks extra].
      change (RunC20.brev (Bytes.nbytesN bits) (eval a) 0) with (swapped bits a). rewrite E. reflexivity.
  - (* nt_to_le *)
    apply join_val; [reflexivity | cbn [expected unwraps unwrap_toks]; apply toks_eqb_refl | cbn [extra]; apply toks_eqb_refl].
  - (* nt_from_le *)
    apply join_val; [reflexivity | cbn [expected unwraps unwrap_toks]; apply toks_eqb_refl | cbn [extra]; apply toks_eqb_refl].
  - (* nt_pow_u32 *)
    unfold Facade.nt_pow_u32.
    rewrite try_from_prim_spec by (first [assumption | cbn; lia]).
    match goal with |- context [if n <? 0 then _ else _] => destruct (Z.ltb_spec n 0); [lia|] end.
    unfold res_of. destruct (Z.ltb_spec n (2 ^ bits)) as [Hfit|Hbig]; cbn [Conv.from_of obind].
    + destruct (pow_total bits a (uint_of bits n)) as (r & Er);
        [assumption | assumption | apply canon_uint_of_range; [assumption | lia] |].
      rewrite Er. apply join_same; [reflexivity | reflexivity |].
      intros t. cbn [extra]. destruct (Z.leb_spec (2 ^ bits) n); [lia|reflexivity].
    + cbn [oU omap obind join enc]. rewrite spec_val by reflexivity. cbn [expected unwraps extra].
      destruct (Z.leb_spec (2 ^ bits) n); [reflexivity|lia].
  - (* ni_div_floor *)
    apply join_same; [|reflexivity|intros; reflexivity].
    unfold Facade.ni_div_floor, UDiv.wrapping_div.
    destruct (div_rem_total bits a b) as [(q & r & Edr)|Edr]; [assumption..| |]; rewrite Edr; cbn [obind];
      first [reflexivity | exact I].
  - (* ni_mod_floor *)
    apply join_same; [|reflexivity|intros; reflexivity].
    unfold Facade.ni_mod_floor, UDiv.wrapping_rem.
    destruct (div_rem_total bits a b) as [(q & r & Edr)|Edr]; [assumption..| |]; rewrite Edr; cbn [obind];
      first [reflexivity | exact I].
  - (* ni_gcd *)
    unfold Facade.ni_gcd.
    rewrite (PfGcd.gcd_spec PfC12Closed.DivKernelOK_holds PfGcdMatrix.LehmerStepOK_holds bits a b) by assumption.
    fwd.
  - (* ni_lcm *)
    unfold Facade.ni_lcm.
    rewrite (PfGcd.lcm_spec PfC12Closed.DivKernelOK_holds PfGcdMatrix.LehmerStepOK_holds bits a b) by assumption.
    apply join_unwrap_opt; [reflexivity | intros; reflexivity].
  - (* ni_div_ceil *)
    apply join_same; [|reflexivity|intros; reflexivity].
    unfold Facade.ni_div_ceil, UDiv.div_ceil.
    destruct (div_rem_total bits a b) as [(q & r & Edr)|Edr]; [assumption..| |]; rewrite Edr; cbn [obind];
      try destruct (UDiv.is_zero bits r); first [reflexivity | exact I].
  - (* ni_div_rem *)
    apply join_same; [|reflexivity|intros; reflexivity].
    unfold Facade.ni_div_rem.
    destruct (div_rem_total bits a b) as [(q & r & Edr)|Edr]; [assumption..| |]; rewrite Edr; cbn [obind];
      first [reflexivity | exact I].
  - (* ni_div_mod_floor *)
    apply join_same; [|reflexivity|intros; reflexivity].
    unfold Facade.ni_div_mod_floor.
    destruct (div_rem_total bits a b) as [(q & r & Edr)|Edr]; [assumption..| |]; rewrite Edr; cbn [obind];
      first [reflexivity | exact I].
  - (* ni_extended_gcd *)
    destruct (PfGcd.gcd_extended_spec PfC12Closed.DivKernelOK_holds PfGcdMatrix.LehmerStepOK_holds bits a b)
      as (r & Er & _); [assumption..|].
    unfold Facade.ni_extended_gcd. rewrite Er. destruct r as [[[g x] y] sg]. cbn [obind].
    apply join_same; [reflexivity | reflexivity | intros; reflexivity].
  - (* ni_is_multiple_of *)
    unfold Facade.ni_is_multiple_of, UDiv.checked_rem, UDiv.op_rem_, UDiv.wrapping_rem.
    change (UDiv.is_zero bits b) with (limbs_eq b (uZERO bits)). unfold is_zero.
    rewrite !(is_zero_spec bits) by assumption.
    destruct (Z.eqb_spec (eval b) 0) as [E0|N0]; cbn [obind oB omap].
    + apply join_val; [reflexivity | apply toks_eqb_refl |]. cbn [extra].
      rewrite E0, Z.eqb_refl. apply toks_eqb_refl.
    + rewrite (PfUDiv.div_rem_eq PfC03Closed.DivKernelOK_holds bits a b) by assumption.
      cbn [obind snd oB omap].
      assert (Hm : 0 <= eval a mod eval b < 2 ^ bits).
      { match goal with Ha : canon bits a, Hb : canon bits b |- _ =>
          pose proof (canon_range bits a ltac:(assumption) Ha);
          pose proof (canon_range bits b ltac:(assumption) Hb) end.
        pose proof (Z.mod_pos_bound (eval a) (eval b) ltac:(lia)). lia. }
      destruct (PfUDiv.uint_of_ok bits (eval a mod eval b) ltac:(assumption) Hm) as [Cr Er].
      rewrite (is_zero_spec bits _ ltac:(assumption) Cr), Er.
      apply join_val; [reflexivity | apply toks_eqb_refl |]. cbn [extra].
      destruct (Z.eqb_spec (eval b) 0); [contradiction|]. apply toks_eqb_refl.
  - (* ni_is_even *)
    unfold Facade.ni_is_even. rewrite bit0_spec by assumption. cbn [obind oB omap].
    apply join_val; [reflexivity | apply toks_eqb_refl |]. cbn [extra]. rewrite Z.negb_odd. apply toks_eqb_refl.
  - (* ni_is_odd *)
    unfold Facade.ni_is_odd. rewrite bit0_spec by assumption. cbn [obind oB omap].
    apply join_val; [reflexivity | apply toks_eqb_refl | cbn [extra]; apply toks_eqb_refl].
  - (* ni_inc *)
    unfold Facade.ni_inc, Facade.op_add, bin_op. rewrite inc_spec by assumption.
    apply join_val; [reflexivity | apply toks_eqb_refl | apply toks_eqb_refl].
  - (* ni_dec *)
    unfold Facade.ni_dec, Facade.op_sub, bin_op. rewrite dec_spec by assumption.
    apply join_val; [reflexivity | apply toks_eqb_refl | apply toks_eqb_refl].
  - (* ct_bit *)
    destruct (ct_bit_spec bits a idx) as [E1 E2]; [assumption | assumption | lia |].
    rewrite E1, E2. cbn [oB omap obind].
    apply join_val; [reflexivity | apply toks_eqb_refl | cbn [extra]; apply toks_eqb_refl].
  - (* ct_select *)
    unfold ct_assign.
    replace (if shape =? 0 then Facade.ct_select bits a b choice else Facade.ct_select bits a b choice)
      with (Facade.ct_select bits a b choice) by (destruct (shape =? 0); reflexivity).
    rewrite ct_select_spec by assumption.
    apply join_val; [reflexivity | apply toks_eqb_refl | apply toks_eqb_refl].
  - (* ct_eq *)
    match goal with Ha : canon bits a, Hb : canon bits b |- _ =>
      destruct Ha as (La & Wa & _); destruct Hb as (Lb & Wb & _) end.
    destruct (ct_eq_spec a b) as [E1 E2]; [congruence | assumption | assumption |].
    rewrite (limbs_eq_spec a b) by (auto; congruence). rewrite E2.
    apply join_val; [reflexivity | apply toks_eqb_refl | apply toks_eqb_refl].
  - (* ct_gt *)
    match goal with Ha : canon bits a, Hb : canon bits b |- _ =>
      destruct Ha as (La & Wa & _); destruct Hb as (Lb & Wb & _) end.
    destruct (ct_gt_spec a b) as [E1 E2]; [congruence | assumption | assumption |].
    rewrite (ugt_spec a b) by (auto; congruence). rewrite E2.
    apply join_val; [reflexivity | apply toks_eqb_refl | apply toks_eqb_refl].
  - (* ct_lt *)
    match goal with Ha : canon bits a, Hb : canon bits b |- _ =>
      destruct Ha as (La & Wa & _); destruct Hb as (Lb & Wb & _) end.
    destruct (ct_lt_spec a b) as [E1 E2]; [congruence | assumption | assumption |].
    rewrite (ult_spec' a b) by (auto; congruence). rewrite E2.
    apply join_val; [reflexivity | apply toks_eqb_refl | apply toks_eqb_refl].
  - (* ct_negate *)
    rewrite ct_negate_spec by assumption. destruct (wrapping_neg_eq bits a) as [En _]; [assumption..|].
    destruct choice; cbn [oU omap obind].
    + apply join_val; [reflexivity | apply toks_eqb_refl |]. cbn [extra]. unfold U.
      rewrite modp2_spec, En by assumption. apply toks_eqb_refl.
    + apply join_val; [reflexivity | apply toks_eqb_refl |]. cbn [extra]. unfold U.
      rewrite canon_uint_of by assumption. apply toks_eqb_refl.
  - (* zz_zeroize *)
    rewrite (zeroize_spec bits) by assumption. rewrite uZERO_uint_of by assumption.
    apply join_val; [reflexivity | apply toks_eqb_refl | apply toks_eqb_refl].
Qed.


(* what wf means, for two representative constructors *)
Lemma wf_ct_gt bits a b : wf (RunC20.ct_gt bits a b) <-> 0 <= bits /\ canon bits a /\ canon bits b.
Proof.
  unfold wf. cbn [wfb]. rewrite !andb_true_iff, Z.leb_le, !canonb_iff. tauto.
Qed.
Lemma wf_op_mul bits shape a b :
  wf (RunC20.op_mul bits shape a b) <->
  0 <= bits /\ 0 <= shape < 6 /\ canon bits a /\ canon bits b.
Proof.
  unfold wf. cbn [wfb]. unfold shapeb. rewrite !andb_true_iff, !Z.leb_le, Z.ltb_lt, !canonb_iff. tauto.
Qed.
