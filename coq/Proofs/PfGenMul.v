(* Proofs/PfGenMul.v — the translated wrappers of src/mul.rs (overflowing_mul, checked_mul,
   saturating_mul, wrapping_mul) and Uint::apply_mask equal the functions of Model/Mul.v.  The
   limb kernels they call (algorithms::addmul, addmul_n) are the hand-written model functions of
   Model/Limbs.v on both sides: they are outside the translated subset (C15 ties them to the code). *)
From Coq Require Import Lia ZifyBool.
From RV.Model Require Import Base Word Limbs Mul.
From RV.Gen Require Import Prim Scalar.
From RV.Proofs Require Import BaseFacts PfLimbs PfMulN PfGenScalar PfGenAdd.

Lemma g_apply_mask_eq bits l :
  0 <= bits -> nlimbs bits <= B -> length l = nlimbsN bits ->
  g_apply_mask bits (nlimbs bits) l = Val (masked bits l).
Proof.
  intros H0 HB Hl. unfold g_apply_mask, masked, should_mask.
  pose proof (nlimbs_len bits l H0 Hl) as HL.
  destruct (Z.ltb_spec 0 bits) as [Hpos|Hz]; cbn [andb obind]; [|reflexivity].
  pose proof (nlimbs_pos bits Hpos) as Hn.
  rewrite g_mask_eq by assumption. cbn [obind].
  destruct (mask bits =? B - 1) eqn:Em; cbn [negb obind]; [reflexivity|].
  rewrite chk64_ok by lia. cbn [obind].
  assert (Hne : l <> []) by (intros ->; cbn in HL; lia).
  rewrite <- HL, idx_last by assumption. cbn [obind].
  destruct (list_snoc_inv l Hne) as (i & x & ->).
  rewrite last_snoc, map_last_snoc. rewrite app_length. cbn [length].
  replace (Z.of_nat (length i + 1) - 1) with (Z.of_nat (length i)) by lia.
  rewrite upd_app_mid. reflexivity.
Qed.

Lemma Forall_inW_uZERO bits : Forall inW (uZERO bits).
Proof. apply Forall_inW_repeat0. Qed.

Section MulWrappers.
  Variables (bits : Z) (a b : list Z).
  Hypothesis (H0 : 0 <= bits) (HB : nlimbs bits <= B).
  Hypothesis (Ha : length a = nlimbsN bits) (Hb : length b = nlimbsN bits).
  Hypothesis (Wa : Forall inW a) (Wb : Forall inW b).

  Lemma g_overflowing_mul_eq :
    g_overflowing_mul bits (nlimbs bits) a b = Val (overflowing_mul bits a b).
  Proof.
    unfold g_overflowing_mul, overflowing_mul, apply_mask.
    pose proof (addmul_spec (uZERO bits) a b (Forall_inW_uZERO bits) Wa Wb) as S.
    destruct (addmul (uZERO bits) a b) as [r o]. destruct S as (Hlen & _).
    rewrite uZERO_length in Hlen.
    destruct (Z.ltb_spec 0 bits) as [Hpos|Hz]; cbn [obind]; [|reflexivity].
    pose proof (nlimbs_pos bits Hpos) as Hn.
    pose proof (nlimbs_len bits r H0 Hlen) as HL.
    rewrite chk64_ok by lia. cbn [obind].
    assert (Hne : r <> []) by (intros ->; cbn in HL; lia).
    rewrite <- HL, idx_last by assumption. cbn [obind].
    rewrite g_mask_eq by assumption. cbn [obind].
    rewrite HL, g_apply_mask_eq by assumption. reflexivity.
  Qed.

  Lemma g_checked_mul_eq : g_checked_mul bits (nlimbs bits) a b = Val (checked_mul bits a b).
  Proof. unfold g_checked_mul, checked_mul. rewrite g_overflowing_mul_eq. cbn [obind].
         destruct (overflowing_mul bits a b) as [v [|]]; reflexivity. Qed.
  Lemma g_saturating_mul_eq : g_saturating_mul bits (nlimbs bits) a b = Val (saturating_mul bits a b).
  Proof. unfold g_saturating_mul, saturating_mul. rewrite g_overflowing_mul_eq. cbn [obind].
         destruct (overflowing_mul bits a b) as [v [|]]; reflexivity. Qed.

  Lemma g_wrapping_mul_eq : g_wrapping_mul bits (nlimbs bits) a b = wrapping_mul bits a b.
  Proof.
    unfold g_wrapping_mul, wrapping_mul, apply_mask.
    destruct (addmul_n_spec (uZERO bits) a b) as (r & Er & Hlen & _);
      try (rewrite uZERO_length; congruence); try assumption; try apply Forall_inW_uZERO.
    rewrite Er. cbn [obind]. rewrite uZERO_length in Hlen.
    destruct (Z.ltb_spec 0 bits) as [Hpos|Hz]; cbn [obind]; [|reflexivity].
    rewrite g_apply_mask_eq by assumption. reflexivity.
  Qed.
End MulWrappers.
