(* Proofs/PfLimbs.v — characterising lemmas for the limb-slice kernels (Model/Limbs.v). *)
From Coq Require Import ZArith List Bool Lia.
From RV.Model Require Import Base Word Limbs.
From RV.Proofs Require Import BaseFacts.
Import ListNotations.
Local Open Scope Z_scope.

Lemma BB_val : BB = 340282366920938463463374607431768211456. Proof. reflexivity. Qed.
Lemma BB_sq : BB = B * B. Proof. rewrite B_val. reflexivity. Qed.
Global Opaque BB.

(* ---------- u128 split ---------- *)
Lemma lo_hi_split p :
  0 <= p < B * B -> inW (lo p) /\ inW (hi p) /\ lo p + B * hi p = p.
Proof.
  intros H. unfold lo, hi, inW. pose proof B_pos.
  assert (0 <= p / B < B) by (split; [apply Z.div_pos; lia | apply Z.div_lt_upper_bound; lia]).
  rewrite (Z.mod_small (p / B)) by lia.
  pose proof (Z.div_mod p B ltac:(lia)). pose proof (Z.mod_pos_bound p B ltac:(lia)). lia.
Qed.

Lemma words_app a b : Forall inW (a ++ b) <-> Forall inW a /\ Forall inW b.
Proof. apply Forall_app. Qed.

(* ---------- ops.rs ---------- *)
Lemma adc_spec x y c :
  inW x -> inW y -> inW c ->
  let '(r, c') := adc x y c in inW r /\ inW c' /\ r + B * c' = x + y + c.
Proof.
  unfold inW. intros Hx Hy Hc. unfold adc.
  destruct (lo_hi_split (x + y + c)) as (H1 & H2 & H3); [rewrite B_val in *; lia|]. unfold inW in *. tauto.
Qed.

Lemma sbb_spec x y c :
  inW x -> inW y -> inW c ->
  let '(r, c') := sbb x y c in inW r /\ 0 <= c' <= 2 /\ (c <= 1 -> c' <= 1) /\ r - B * c' = x - y - c.
Proof.
  unfold inW, sbb, lo, hi, wrap, wrap128. rewrite BB_val, B_val. intros Hx Hy Hc.
  Z.div_mod_to_equations. lia.
Qed.

(* ---------- add.rs ---------- *)
Lemma adc_n_spec lhs : forall rhs c,
  (length lhs <= length rhs)%nat -> Forall inW lhs -> Forall inW rhs -> inW c ->
  exists r c', adc_n lhs rhs c = Val (r, c') /\ length r = length lhs /\ Forall inW r /\ inW c' /\
    eval r + B ^ Z.of_nat (length lhs) * c' = eval lhs + eval (firstn (length lhs) rhs) + c.
Proof.
  induction lhs as [|x lhs IH]; intros rhs c Hl Hw Hr Hc.
  - exists [], c. cbn [adc_n sbb_n mul_nx1_loop addmul_nx1_loop submul_nx1_loop add_nx1_loop length firstn eval Z.of_nat]. rewrite Z.pow_0_r. unfold inW in *. repeat split; auto; lia.
  - destruct rhs as [|y rhs]; [cbn in Hl; lia|].
    inversion Hw as [|? ? Hx Hw']; inversion Hr as [|? ? Hy Hr']; subst.
    cbn [adc_n]. pose proof (adc_spec x y c Hx Hy Hc) as Ha.
    destruct (adc x y c) as [r c1]. destruct Ha as (Hr1 & Hc1 & He1).
    destruct (IH rhs c1 ltac:(cbn in Hl; lia) Hw' Hr' Hc1) as (rs & c2 & E & Hlen & Hws & Hc2 & He).
    rewrite E. cbn [obind fst snd]. exists (r :: rs), c2.
    cbn [length firstn eval]. rewrite Bn_S.
    split; [reflexivity|]. split; [lia|]. split; [constructor; auto|]. split; [exact Hc2|]. nia.
Qed.

Lemma adc_n_short lhs : forall rhs c, (length rhs < length lhs)%nat -> adc_n lhs rhs c = Panic.
Proof.
  induction lhs as [|x lhs IH]; intros rhs c Hl; [cbn in Hl; lia|].
  destruct rhs as [|y rhs]; [reflexivity|]. cbn [adc_n].
  destruct (adc x y c) as [r c1]. rewrite IH by (cbn in Hl; lia). reflexivity.
Qed.

(* For an empty lhs the incoming borrow is returned as is, so the bound on the outgoing borrow
   is stated relative to the incoming one. *)
Lemma sbb_n_spec lhs : forall rhs c,
  (length lhs <= length rhs)%nat -> Forall inW lhs -> Forall inW rhs -> inW c ->
  exists r c', sbb_n lhs rhs c = Val (r, c') /\ length r = length lhs /\ Forall inW r /\ inW c' /\
    (c <= 1 -> c' <= 1) /\
    eval r - B ^ Z.of_nat (length lhs) * c' = eval lhs - eval (firstn (length lhs) rhs) - c.
Proof.
  induction lhs as [|x lhs IH]; intros rhs c Hl Hw Hr Hc.
  - exists [], c. cbn [adc_n sbb_n mul_nx1_loop addmul_nx1_loop submul_nx1_loop add_nx1_loop length firstn eval Z.of_nat]. rewrite Z.pow_0_r. unfold inW in *. repeat split; auto; lia.
  - destruct rhs as [|y rhs]; [cbn in Hl; lia|].
    inversion Hw as [|? ? Hx Hw']; inversion Hr as [|? ? Hy Hr']; subst.
    cbn [sbb_n]. pose proof (sbb_spec x y c Hx Hy Hc) as Ha.
    destruct (sbb x y c) as [r c1]. destruct Ha as (Hr1 & Hc1 & Hc1' & He1).
    assert (Hc1w : inW c1) by (unfold inW; rewrite B_val; lia).
    destruct (IH rhs c1 ltac:(cbn in Hl; lia) Hw' Hr' Hc1w) as (rs & c2 & E & Hlen & Hws & Hc2 & Hc2' & He).
    rewrite E. cbn [obind fst snd]. exists (r :: rs), c2.
    cbn [length firstn eval]. rewrite Bn_S.
    split; [reflexivity|]. split; [lia|]. split; [constructor; auto|]. split; [exact Hc2|].
    split; [intros; apply Hc2', Hc1'; assumption|]. nia.
Qed.

Lemma sbb_n_short lhs : forall rhs c, (length rhs < length lhs)%nat -> sbb_n lhs rhs c = Panic.
Proof.
  induction lhs as [|x lhs IH]; intros rhs c Hl; [cbn in Hl; lia|].
  destruct rhs as [|y rhs]; [reflexivity|]. cbn [sbb_n].
  destruct (sbb x y c) as [r c1]. rewrite IH by (cbn in Hl; lia). reflexivity.
Qed.

(* ---------- mul.rs: single-word rows ---------- *)
Lemma mul_nx1_loop_spec lhs : forall a c,
  Forall inW lhs -> inW a -> inW c ->
  let '(r, c') := mul_nx1_loop lhs a c in
  length r = length lhs /\ Forall inW r /\ inW c' /\
  eval r + B ^ Z.of_nat (length lhs) * c' = eval lhs * a + c.
Proof.
  induction lhs as [|x lhs IH]; intros a c Hw Ha Hc.
  - cbn [adc_n sbb_n mul_nx1_loop addmul_nx1_loop submul_nx1_loop add_nx1_loop length firstn eval Z.of_nat]. rewrite Z.pow_0_r. unfold inW in *. repeat split; auto; lia.
  - inversion Hw as [|? ? Hx Hw']; subst. cbn [mul_nx1_loop]. unfold muladd.
    destruct (lo_hi_split (x * a + c)) as (H1 & H2 & H3); [unfold inW in *; pose proof B_pos; nia|].
    specialize (IH a (hi (x * a + c)) Hw' Ha H2).
    destruct (mul_nx1_loop lhs a (hi (x * a + c))) as [rs c2]. destruct IH as (Hl & Hws & Hc2 & He).
    cbn [length eval]. rewrite Bn_S.
    split; [lia|]. split; [constructor; auto|]. split; [exact Hc2|]. nia.
Qed.

Lemma addmul_nx1_loop_spec lhs : forall a b c,
  length lhs = length a -> Forall inW lhs -> Forall inW a -> inW b -> inW c ->
  let '(r, c') := addmul_nx1_loop lhs a b c in
  length r = length lhs /\ Forall inW r /\ inW c' /\
  eval r + B ^ Z.of_nat (length lhs) * c' = eval lhs + eval a * b + c.
Proof.
  induction lhs as [|x lhs IH]; intros [|y a] b c Hl Hw Ha Hb Hc; cbn [length] in Hl; try discriminate.
  - cbn [adc_n sbb_n mul_nx1_loop addmul_nx1_loop submul_nx1_loop add_nx1_loop length firstn eval Z.of_nat]. rewrite Z.pow_0_r. unfold inW in *. repeat split; auto; lia.
  - inversion Hw as [|? ? Hx Hw']; inversion Ha as [|? ? Hy Ha']; subst.
    cbn [addmul_nx1_loop]. unfold muladd2.
    destruct (lo_hi_split (y * b + c + x)) as (H1 & H2 & H3); [unfold inW in *; pose proof B_pos; nia|].
    specialize (IH a b (hi (y * b + c + x)) ltac:(lia) Hw' Ha' Hb H2).
    destruct (addmul_nx1_loop lhs a b (hi (y * b + c + x))) as [rs c2]. destruct IH as (Hl' & Hws & Hc2 & He).
    cbn [length eval]. rewrite Bn_S.
    split; [lia|]. split; [constructor; auto|]. split; [exact Hc2|]. nia.
Qed.

Lemma submul_nx1_loop_spec lhs : forall a b c bw,
  length lhs = length a -> Forall inW lhs -> Forall inW a -> inW b -> inW c -> 0 <= bw <= 1 ->
  let '(r, c', bw') := submul_nx1_loop lhs a b c bw in
  length r = length lhs /\ Forall inW r /\ inW c' /\ 0 <= bw' <= 1 /\
  eval r - B ^ Z.of_nat (length lhs) * (c' + bw') = eval lhs - eval a * b - c - bw.
Proof.
  induction lhs as [|x lhs IH]; intros [|y a] b c bw Hl Hw Ha Hb Hc Hbw; cbn [length] in Hl; try discriminate.
  - cbn [adc_n sbb_n mul_nx1_loop addmul_nx1_loop submul_nx1_loop add_nx1_loop length firstn eval Z.of_nat]. rewrite Z.pow_0_r. unfold inW in *. repeat split; auto; lia.
  - inversion Hw as [|? ? Hx Hw']; inversion Ha as [|? ? Hy Ha']; subst.
    cbn [submul_nx1_loop]. unfold muladd.
    destruct (lo_hi_split (y * b + c)) as (H1 & H2 & H3); [unfold inW in *; pose proof B_pos; nia|].
    assert (Hbww : inW bw) by (unfold inW; rewrite B_val; lia).
    pose proof (sbb_spec x (lo (y * b + c)) bw Hx H1 Hbww) as Hs.
    destruct (sbb x (lo (y * b + c)) bw) as [r bo]. destruct Hs as (Hr & Hbo & Hbo' & He1).
    specialize (IH a b (hi (y * b + c)) bo ltac:(lia) Hw' Ha' Hb H2 ltac:(lia)).
    destruct (submul_nx1_loop lhs a b (hi (y * b + c)) bo) as [[rs c2] bw2].
    destruct IH as (Hl' & Hws & Hc2 & Hbw2 & He).
    cbn [length eval]. rewrite Bn_S.
    split; [lia|]. split; [constructor; auto|]. split; [exact Hc2|]. split; [exact Hbw2|]. nia.
Qed.

Lemma submul_nx1_spec lhs a b :
  length lhs = length a -> Forall inW lhs -> Forall inW a -> inW b ->
  exists r bo, submul_nx1 lhs a b = Val (r, bo) /\ length r = length lhs /\ Forall inW r /\ inW bo /\
    eval r - B ^ Z.of_nat (length lhs) * bo = eval lhs - eval a * b.
Proof.
  intros Hl Hw Ha Hb. unfold submul_nx1.
  replace (Nat.eqb (length lhs) (length a)) with true by (symmetry; apply Nat.eqb_eq; exact Hl).
  assert (H0 : inW 0) by (unfold inW; pose proof B_pos; lia).
  pose proof (submul_nx1_loop_spec lhs a b 0 0 Hl Hw Ha Hb H0 ltac:(lia)) as S.
  destruct (submul_nx1_loop lhs a b 0 0) as [[r c] bw]. destruct S as (Hlr & Hwr & Hc & Hbw & He).
  pose proof (eval_bound r Hwr) as Br. pose proof (eval_bound lhs Hw) as Bl.
  pose proof (eval_bound a Ha) as Ba. rewrite Hlr in Br. rewrite <- Hl in Ba.
  pose proof (Bn_pos (length lhs)). unfold inW in *.
  assert (c + bw < B) by nia.
  destruct (Z.ltb_spec (bw + c) B); [|lia].
  exists r, (bw + c). split; [reflexivity|]. split; [exact Hlr|]. split; [exact Hwr|].
  split; [lia|]. replace (bw + c) with (c + bw) by lia. lia.
Qed.

Lemma add_nx1_loop_spec lhs : forall a,
  Forall inW lhs -> inW a ->
  let '(r, c') := add_nx1_loop lhs a in
  length r = length lhs /\ Forall inW r /\ inW c' /\
  eval r + B ^ Z.of_nat (length lhs) * c' = eval lhs + a.
Proof.
  induction lhs as [|x lhs IH]; intros a Hw Ha.
  - cbn [adc_n sbb_n mul_nx1_loop addmul_nx1_loop submul_nx1_loop add_nx1_loop length firstn eval Z.of_nat]. rewrite Z.pow_0_r. unfold inW in *. repeat split; auto; lia.
  - inversion Hw as [|? ? Hx Hw']; subst. cbn [add_nx1_loop].
    destruct (lo_hi_split (x + a)) as (H1 & H2 & H3); [unfold inW in *; pose proof B_pos; nia|].
    destruct (Z.eqb_spec (hi (x + a)) 0) as [E|E].
    + cbn [length eval]. rewrite Bn_S. rewrite E in H3.
      split; [reflexivity|]. split; [constructor; auto|].
      split; [unfold inW; pose proof B_pos; lia|]. lia.
    + specialize (IH (hi (x + a)) Hw' H2).
      destruct (add_nx1_loop lhs (hi (x + a))) as [rs c2]. destruct IH as (Hl' & Hws & Hc2 & He).
      cbn [length eval]. rewrite Bn_S.
    split; [lia|]. split; [constructor; auto|]. split; [exact Hc2|]. nia.
Qed.

Lemma add_nx1_spec lhs a :
  Forall inW lhs -> inW a ->
  let '(r, c') := add_nx1 lhs a in
  length r = length lhs /\ Forall inW r /\ inW c' /\
  eval r + B ^ Z.of_nat (length lhs) * c' = eval lhs + a.
Proof.
  intros Hw Ha. unfold add_nx1. destruct (Z.eqb_spec a 0) as [->|N].
  - split; [reflexivity|]. split; [exact Hw|]. split; [exact Ha|]. lia.
  - apply add_nx1_loop_spec; auto.
Qed.

(* ---------- shift.rs ---------- *)
Lemma lor_disjoint a b s :
  0 <= s -> 0 <= b < 2 ^ s -> Z.lor (a * 2 ^ s) b = a * 2 ^ s + b.
Proof.
  intros Hs Hb.
  assert (Hland : Z.land (a * 2 ^ s) b = 0).
  { apply Z.bits_inj'. intros n Hn. rewrite Z.land_spec, Z.bits_0.
    destruct (Z.lt_ge_cases n s) as [L|G].
    - rewrite Z.mul_pow2_bits_low by lia. reflexivity.
    - destruct (Z.eq_dec b 0) as [->|Nb]; [rewrite Z.bits_0; apply andb_false_r|].
      rewrite (Z.bits_above_log2 b n); [apply andb_false_r | lia |].
      apply Z.log2_lt_pow2; [lia|]. apply Z.lt_le_trans with (2 ^ s); [lia|].
      apply Z.pow_le_mono_r; lia. }
  rewrite <- Z.lxor_lor by exact Hland. symmetry. apply Z.add_nocarry_lxor, Hland.
Qed.

Lemma pow2_split s : 0 <= s <= 64 -> B = 2 ^ (64 - s) * 2 ^ s.
Proof. intros. rewrite B_pow, <- Z.pow_add_r by lia. f_equal. lia. Qed.

Lemma shl64_split x s :
  inW x -> 0 <= s < 64 ->
  shl64 x s = (x mod 2 ^ (64 - s)) * 2 ^ s /\
  shr64 (shr64 x 1) (63 - s) = x / 2 ^ (64 - s) /\
  (x mod 2 ^ (64 - s)) * 2 ^ s + B * (x / 2 ^ (64 - s)) = x * 2 ^ s.
Proof.
  intros Hx Hs. unfold shl64, shr64, inW in *.
  pose proof (pow2_split s ltac:(lia)) as HB.
  assert (P1 : 0 < 2 ^ s) by (apply Z.pow_pos_nonneg; lia).
  assert (P2 : 0 < 2 ^ (64 - s)) by (apply Z.pow_pos_nonneg; lia).
  pose proof (Z.div_mod x (2 ^ (64 - s)) ltac:(lia)) as Hdm.
  pose proof (Z.mod_pos_bound x (2 ^ (64 - s)) P2) as Hmb.
  split; [|split].
  - rewrite HB. symmetry. apply Z.mod_unique with (q := x / 2 ^ (64 - s)); [left; nia | nia].
  - rewrite Z.div_div by lia. f_equal.
    replace (2 ^ 1 * 2 ^ (63 - s)) with (2 ^ (1 + (63 - s))) by (rewrite Z.pow_add_r; lia).
    f_equal. lia.
  - rewrite HB. nia.
Qed.

Lemma shift_left_small_loop_spec l : forall s ov,
  Forall inW l -> 0 <= s < 64 -> 0 <= ov < 2 ^ s ->
  let '(r, o) := shift_left_small_loop l s ov in
  length r = length l /\ Forall inW r /\ 0 <= o < 2 ^ s /\
  eval r + B ^ Z.of_nat (length l) * o = eval l * 2 ^ s + ov.
Proof.
  induction l as [|x l IH]; intros s ov Hw Hs Hov.
  - cbn [shift_left_small_loop length eval Z.of_nat]. rewrite Z.pow_0_r.
    split; [reflexivity|]. split; [constructor|]. split; [exact Hov|]. lia.
  - inversion Hw as [|? ? Hx Hw']; subst. cbn [shift_left_small_loop].
    destruct (shl64_split x s Hx Hs) as (E1 & E2 & E3). rewrite E1, E2.
    rewrite lor_disjoint by lia.
    assert (P1 : 0 < 2 ^ s) by (apply Z.pow_pos_nonneg; lia).
    assert (P2 : 0 < 2 ^ (64 - s)) by (apply Z.pow_pos_nonneg; lia).
    pose proof (Z.mod_pos_bound x (2 ^ (64 - s)) P2) as Hmb.
    pose proof (pow2_split s ltac:(lia)) as HB.
    assert (Hq : 0 <= x / 2 ^ (64 - s) < 2 ^ s).
    { unfold inW in Hx. split; [apply Z.div_pos; lia|]. apply Z.div_lt_upper_bound; lia. }
    specialize (IH s (x / 2 ^ (64 - s)) Hw' Hs Hq).
    destruct (shift_left_small_loop l s (x / 2 ^ (64 - s))) as [rs o].
    destruct IH as (Hl & Hws & Ho & He).
    cbn [length eval]. rewrite Bn_S.
    split; [lia|]. split; [constructor; [unfold inW; nia | exact Hws]|]. split; [exact Ho|]. nia.
Qed.

Lemma shr64_split x s :
  inW x -> 0 <= s < 64 ->
  shr64 x s = x / 2 ^ s /\ 0 <= x / 2 ^ s < 2 ^ (64 - s) /\
  shl64 (shl64 x 1) (63 - s) = (x mod 2 ^ s) * 2 ^ (64 - s).
Proof.
  intros Hx Hs. unfold shl64, shr64, inW in *.
  assert (P1 : 0 < 2 ^ s) by (apply Z.pow_pos_nonneg; lia).
  assert (P2 : 0 < 2 ^ (64 - s)) by (apply Z.pow_pos_nonneg; lia).
  pose proof (pow2_split s ltac:(lia)) as HB.
  pose proof (Z.div_mod x (2 ^ s) ltac:(lia)) as Hdm.
  pose proof (Z.mod_pos_bound x (2 ^ s) P1) as Hmb.
  split; [reflexivity|]. split.
  - split; [apply Z.div_pos; lia|]. apply Z.div_lt_upper_bound; nia.
  - (* ((x*2 mod B) * 2^(63-s)) mod B = (x * 2^(64-s)) mod B = (x mod 2^s) * 2^(64-s) *)
    assert (E : 2 ^ 1 * 2 ^ (63 - s) = 2 ^ (64 - s)).
    { rewrite <- Z.pow_add_r by lia. f_equal. lia. }
    rewrite Z.mul_mod_idemp_l by (pose proof B_pos; lia).
    rewrite <- Z.mul_assoc, E.
    symmetry. apply Z.mod_unique with (q := x / 2 ^ s); [left; nia | nia].
Qed.

(* rl is most-significant-first; h is the value carried in from above (below 2^s) *)
Lemma shift_right_small_loop_spec rl : forall s h,
  Forall inW rl -> 0 <= s < 64 -> 0 <= h < 2 ^ s ->
  let '(rs, o) := shift_right_small_loop rl s (h * 2 ^ (64 - s)) in
  let n := Z.of_nat (length rl) in
  length rs = length rl /\ Forall inW rs /\
  eval (rev rs) = (h * B ^ n + eval (rev rl)) / 2 ^ s /\
  o = ((h * B ^ n + eval (rev rl)) mod 2 ^ s) * 2 ^ (64 - s).
Proof.
  induction rl as [|x rl IH]; intros s h Hw Hs Hh.
  - cbn [shift_right_small_loop length rev eval Z.of_nat]. rewrite Z.pow_0_r, Z.mul_1_r, Z.add_0_r.
    assert (P1 : 0 < 2 ^ s) by (apply Z.pow_pos_nonneg; lia).
    rewrite Z.div_small, Z.mod_small by lia. auto.
  - inversion Hw as [|? ? Hx Hw']; subst. cbn [shift_right_small_loop].
    destruct (shr64_split x s Hx Hs) as (E1 & E2 & E3). rewrite E1, E3.
    assert (P1 : 0 < 2 ^ s) by (apply Z.pow_pos_nonneg; lia).
    assert (P2 : 0 < 2 ^ (64 - s)) by (apply Z.pow_pos_nonneg; lia).
    pose proof (Z.mod_pos_bound x (2 ^ s) P1) as Hmb.
    specialize (IH s (x mod 2 ^ s) Hw' Hs Hmb).
    destruct (shift_right_small_loop rl s (x mod 2 ^ s * 2 ^ (64 - s))) as [rs o].
    destruct IH as (Hl & Hws & He & Ho).
    pose proof (pow2_split s ltac:(lia)) as HB.
    assert (Hv : Z.lor (x / 2 ^ s) (h * 2 ^ (64 - s)) = h * 2 ^ (64 - s) + x / 2 ^ s).
    { rewrite Z.lor_comm. apply lor_disjoint; lia. }
    rewrite Hv. cbn [length rev]. rewrite !eval_app, !rev_length, Hl. cbn [eval].
    rewrite Bn_S. set (Bn := B ^ Z.of_nat (length rl)) in *.
    assert (HBn : 0 < Bn) by apply Bn_pos.
    pose proof (Z.div_mod x (2 ^ s) ltac:(lia)) as Hdm.
    (* numerator = 2^s * Bn * value + (h' * Bn + eval (rev rl)) *)
    assert (Hnum : h * (B * Bn) + (eval (rev rl) + Bn * (x + B * 0))
                   = (x mod 2 ^ s * Bn + eval (rev rl)) + (Bn * (h * 2 ^ (64 - s) + x / 2 ^ s)) * 2 ^ s).
    { rewrite HB. nia. }
    rewrite Hnum.
    split; [lia|]. split.
    { constructor; [|exact Hws]. unfold inW. nia. }
    split.
    + rewrite Z.div_add by lia. rewrite He. ring.
    + rewrite Z.mod_add by lia. exact Ho.
Qed.

Lemma shift_left_small_spec l s :
  Forall inW l -> 0 <= s < 64 ->
  exists r o, shift_left_small l s = Val (r, o) /\ length r = length l /\ Forall inW r /\
    0 <= o < 2 ^ s /\ eval r + B ^ Z.of_nat (length l) * o = eval l * 2 ^ s.
Proof.
  intros Hw Hs. unfold shift_left_small. destruct (Z.ltb_spec s 64); [|lia].
  assert (P1 : 0 < 2 ^ s) by (apply Z.pow_pos_nonneg; lia).
  pose proof (shift_left_small_loop_spec l s 0 Hw Hs ltac:(lia)) as S.
  destruct (shift_left_small_loop l s 0) as [r o]. destruct S as (H1 & H2 & H3 & H4).
  exists r, o. rewrite Z.add_0_r in H4. auto.
Qed.

Lemma shift_right_small_spec l s :
  Forall inW l -> 0 <= s < 64 ->
  exists r o, shift_right_small l s = Val (r, o) /\ length r = length l /\ Forall inW r /\
    eval r = eval l / 2 ^ s /\ o = (eval l mod 2 ^ s) * 2 ^ (64 - s).
Proof.
  intros Hw Hs. unfold shift_right_small. destruct (Z.ltb_spec s 64); [|lia].
  assert (P1 : 0 < 2 ^ s) by (apply Z.pow_pos_nonneg; lia).
  pose proof (shift_right_small_loop_spec (rev l) s 0 ltac:(now apply Forall_rev) Hs ltac:(lia)) as S.
  rewrite Z.mul_0_l in S.
  destruct (shift_right_small_loop (rev l) s 0) as [r o]. destruct S as (H1 & H2 & H3 & H4).
  rewrite rev_involutive, Z.mul_0_l, Z.add_0_l in *.
  exists (rev r), o. rewrite rev_length, H1, rev_length.
  split; [reflexivity|]. split; [reflexivity|]. split; [now apply Forall_rev|]. auto.
Qed.

(* ---------- mul.rs: addmul ---------- *)
Lemma Forall_firstn_skipn {A} (P : A -> Prop) n l :
  Forall P l -> Forall P (firstn n l) /\ Forall P (skipn n l).
Proof. intros H. rewrite <- (firstn_skipn n l) in H. now apply Forall_app in H. Qed.

Lemma eval_firstn_skipn n l :
  eval l = eval (firstn n l) + B ^ Z.of_nat (length (firstn n l)) * eval (skipn n l).
Proof. rewrite <- (firstn_skipn n l) at 1. apply eval_app. Qed.

Definition top_nz (l : list Z) : Prop := l = [] \/ last l 0 <> 0.

Lemma top_nz_tail x l : top_nz (x :: l) -> top_nz l.
Proof.
  intros [H|H]; [discriminate|]. destruct l as [|y l]; [now left|]. right. exact H.
Qed.

Lemma top_nz_lower l :
  l <> [] -> Forall inW l -> last l 0 <> 0 -> B ^ (Z.of_nat (length l) - 1) <= eval l.
Proof.
  intros Hne Hw Hl. destruct (list_snoc_inv l Hne) as (i & x & ->).
  rewrite last_snoc in Hl. apply Forall_app in Hw. destruct Hw as [Hwi Hwx].
  inversion Hwx as [|? ? Hx _]; subst. rewrite eval_app, app_length. cbn [length eval].
  replace (Z.of_nat (length i + 1) - 1) with (Z.of_nat (length i)) by lia.
  pose proof (eval_bound i Hwi). pose proof (Bn_pos (length i)). unfold inW in Hx. nia.
Qed.

Lemma mod_shift_limb x U Bm :
  0 <= x < B -> 0 < Bm -> (x + B * U) mod (B * Bm) = x + B * (U mod Bm).
Proof.
  intros Hx HBm. pose proof B_pos.
  pose proof (Z.div_mod U Bm ltac:(lia)). pose proof (Z.mod_pos_bound U Bm HBm).
  symmetry. apply Z.mod_unique with (q := U / Bm); [left; nia | nia].
Qed.

Lemma leb_shift_limb x U Bm :
  0 <= x < B -> 0 < Bm -> (B * Bm <=? x + B * U) = (Bm <=? U).
Proof.
  intros Hx HBm. pose proof B_pos.
  destruct (Z.leb_spec Bm U); destruct (Z.leb_spec (B * Bm) (x + B * U)); auto; nia.
Qed.

Lemma mod_low_high x U Bp Bm :
  0 <= x < Bp -> 0 < Bm -> (x + Bp * U) mod (Bp * Bm) = x + Bp * (U mod Bm).
Proof.
  intros Hx HBm.
  pose proof (Z.div_mod U Bm ltac:(lia)). pose proof (Z.mod_pos_bound U Bm HBm).
  symmetry. apply Z.mod_unique with (q := U / Bm); [left; nia | nia].
Qed.

Lemma leb_low_high x U Bp Bm :
  0 <= x < Bp -> 0 < Bm -> (Bp * Bm <=? x + Bp * U) = (Bm <=? U).
Proof.
  intros Hx HBm.
  destruct (Z.leb_spec Bm U); destruct (Z.leb_spec (Bp * Bm) (x + Bp * U)); auto; nia.
Qed.

Lemma addmul_rows_spec a bs : forall lhs ov,
  a <> [] -> Forall inW a -> last a 0 <> 0 ->
  Forall inW bs -> top_nz bs -> Forall inW lhs ->
  let '(w, o) := addmul_rows lhs a bs ov in
  let n := Z.of_nat (length lhs) in
  let T := eval lhs + eval a * eval bs in
  length w = length lhs /\ Forall inW w /\ eval w = T mod B ^ n /\ o = ov || (B ^ n <=? T).
Proof.
  intros lhs ov Hane Hwa Hla. revert lhs ov. pose proof B_pos as HBpos.
  pose proof (top_nz_lower a Hane Hwa Hla) as HAlow.
  pose proof (eval_bound a Hwa) as HAb.
  assert (Hla1 : (1 <= length a)%nat) by (destruct a; [congruence | cbn; lia]).
  induction bs as [|b bs IH]; intros lhs ov Hwb Htn Hwl.
  - cbn [addmul_rows eval]. pose proof (eval_bound lhs Hwl) as Hb.
    rewrite Z.mul_0_r, Z.add_0_r, Z.mod_small by lia.
    destruct (Z.leb_spec (B ^ Z.of_nat (length lhs)) (eval lhs)); [lia|].
    rewrite orb_false_r. auto.
  - inversion Hwb as [|? ? Hb Hwb']; subst.
    pose proof (top_nz_tail _ _ Htn) as Htn'.
    assert (Hbs1 : 1 <= eval (b :: bs)).
    { destruct Htn as [?|Hl]; [discriminate|].
      pose proof (top_nz_lower (b :: bs) ltac:(discriminate) Hwb Hl) as L.
      cbn [length] in L. pose proof (Bn_pos (length bs)).
      replace (Z.of_nat (S (length bs)) - 1) with (Z.of_nat (length bs)) in L by lia. lia. }
    pose proof (eval_bound bs Hwb') as HBsb.
    cbn [addmul_rows]. destruct (Nat.leb_spec (length a) (length lhs)) as [Hlen|Hlen].
    + (* the window is at least as long as a *)
      destruct (Forall_firstn_skipn inW (length a) lhs Hwl) as [Hwt Hwr].
      assert (Hlt : length (firstn (length a) lhs) = length a) by (apply firstn_length_le; lia).
      assert (H0 : inW 0) by (unfold inW; pose proof B_pos; lia).
      pose proof (addmul_nx1_loop_spec (firstn (length a) lhs) a b 0 Hlt Hwt Hwa Hb H0) as S1.
      destruct (addmul_nx1_loop (firstn (length a) lhs) a b 0) as [t' carry].
      destruct S1 as (Hl1 & Hw1 & Hc1 & He1).
      pose proof (add_nx1_spec (skipn (length a) lhs) carry Hwr Hc1) as S2.
      destruct (add_nx1 (skipn (length a) lhs) carry) as [r' carry2].
      destruct S2 as (Hl2 & Hw2 & Hc2 & He2).
      pose proof (eval_firstn_skipn (length a) lhs) as Hsplit. rewrite Hlt in *.
      assert (Hlen2 : length (t' ++ r') = length lhs).
      { rewrite app_length, Hl1, Hl2, skipn_length. lia. }
      assert (Hev2 : eval (t' ++ r') + B ^ Z.of_nat (length lhs) * carry2 = eval lhs + eval a * b).
      { rewrite eval_app, Hl1.
        assert (B ^ Z.of_nat (length lhs)
                = B ^ Z.of_nat (length a) * B ^ Z.of_nat (length (skipn (length a) lhs))) as ->.
        { rewrite <- Z.pow_add_r by lia. f_equal. rewrite skipn_length. lia. }
        nia. }
      assert (Hw12 : Forall inW (t' ++ r')) by (apply Forall_app; auto).
      destruct (t' ++ r') as [|x tl] eqn:E.
      { cbn [length] in Hlen2. lia. }
      inversion Hw12 as [|? ? Hx Hwtl]; subst.
      specialize (IH tl (ov || negb (carry2 =? 0)) Hwb' Htn' Hwtl).
      destruct (addmul_rows tl a bs (ov || negb (carry2 =? 0))) as [tl' o].
      destruct IH as (IHl & IHw & IHe & IHo).
      cbn [length eval] in *.
      assert (Hn : Z.of_nat (length lhs) = Z.of_nat (S (length tl))) by lia.
      rewrite Hn in *. rewrite Bn_S in *.
      set (Bm := B ^ Z.of_nat (length tl)) in *. assert (HBm : 0 < Bm) by apply Bn_pos.
      set (U := eval tl + eval a * eval bs) in *.
      pose proof (eval_bound tl Hwtl) as Htlb. fold Bm in Htlb.
      assert (HU : 0 <= U) by (unfold U; nia).
      assert (HT : eval lhs + eval a * (b + B * eval bs) = x + B * U + carry2 * (B * Bm))
        by (unfold U; nia).
      rewrite HT. unfold inW in Hx, Hc2.
      split; [lia|]. split; [constructor; auto|]. split.
      * rewrite IHe. rewrite Z.mod_add by nia. symmetry. apply mod_shift_limb; lia.
      * rewrite IHo. destruct (Z.eqb_spec carry2 0) as [C0|C0].
        -- rewrite C0, Z.mul_0_l, Z.add_0_r, leb_shift_limb by lia. cbn [negb]. now rewrite orb_false_r.
        -- cbn [negb]. rewrite orb_true_r. cbn [orb].
           destruct (Z.leb_spec (B * Bm) (x + B * U + carry2 * (B * Bm))); [now rewrite orb_true_r|].
           assert (1 <= carry2) by lia. assert (0 < B * Bm) by nia. nia.
    + (* the window is shorter than a: overflow *)
      assert (HAbig : B ^ Z.of_nat (length lhs) <= eval a).
      { apply Z.le_trans with (B ^ (Z.of_nat (length a) - 1)); [|exact HAlow].
        apply Z.pow_le_mono_r; [apply B_pos | lia]. }
      assert (HTbig : B ^ Z.of_nat (length lhs) <= eval lhs + eval a * eval (b :: bs)).
      { pose proof (eval_bound lhs Hwl). nia. }
      destruct lhs as [|l0 lhs'].
      * cbn [length eval Z.of_nat] in *. rewrite Z.pow_0_r in *. rewrite Z.mod_1_r.
        destruct (Z.leb_spec 1 (0 + eval a * (b + B * eval bs))); [|lia].
        rewrite orb_true_r. auto.
      * cbv iota. remember (l0 :: lhs') as lhs eqn:El.
        assert (Hlhs1 : (1 <= length lhs)%nat) by (subst lhs; cbn; lia). clear El.
        destruct (Forall_firstn_skipn inW (length lhs) a Hwa) as [Hwaf Hwas].
        assert (Hlf : length (firstn (length lhs) a) = length lhs) by (apply firstn_length_le; lia).
        assert (H0 : inW 0) by (unfold inW; pose proof B_pos; lia).
        pose proof (addmul_nx1_loop_spec lhs (firstn (length lhs) a) b 0 (eq_sym Hlf) Hwl Hwaf Hb H0) as S1.
        destruct (addmul_nx1_loop lhs (firstn (length lhs) a) b 0) as [l' c].
        destruct S1 as (Hl1 & Hw1 & Hc1 & He1).
        pose proof (eval_firstn_skipn (length lhs) a) as Hsplit. rewrite Hlf in Hsplit.
        destruct l' as [|x tl]; [cbn [length] in Hl1; lia|].
        inversion Hw1 as [|? ? Hx Hwtl]; subst x0 l.
        specialize (IH tl true Hwb' Htn' Hwtl).
        destruct (addmul_rows tl a bs true) as [tl' o]. destruct IH as (IHl & IHw & IHe & IHo).
        cbn [length eval] in *.
        assert (Hn : Z.of_nat (length lhs) = Z.of_nat (S (length tl))) by lia.
        rewrite Hn in *. rewrite Bn_S in *.
        set (Bm := B ^ Z.of_nat (length tl)) in *. assert (HBm : 0 < Bm) by apply Bn_pos.
        set (U := eval tl + eval a * eval bs) in *.
        pose proof (eval_bound (skipn (length lhs) a) Hwas) as Hskb.
        split; [lia|]. split; [constructor; auto|]. split.
        -- rewrite IHe. unfold inW in Hx.
           assert (HT : eval lhs + eval a * (b + B * eval bs)
                        = x + B * U + (c + eval (skipn (length lhs) a) * b) * (B * Bm))
             by (unfold U; nia).
           rewrite HT, Z.mod_add by nia. symmetry. apply mod_shift_limb; lia.
        -- rewrite IHo. cbn [orb]. rewrite orb_true_r || idtac.
           destruct (Z.leb_spec (B * Bm) (eval lhs + eval a * (b + B * eval bs))); [|lia].
           now rewrite orb_true_r.
Qed.

(* trimming *)
Lemma trim_leading_spec a : forall lhs pre,
  Forall inW a ->
  let '(lhs1, a1, pre1) := trim_leading lhs a pre in
  exists k pl, lhs = pl ++ lhs1 /\ pre1 = pre ++ pl /\ Forall inW a1 /\
    eval a = B ^ Z.of_nat k * eval a1 /\
    (length pl = k \/ ((length pl < k)%nat /\ lhs1 = [])).
Proof.
  induction a as [|x a IH]; intros lhs pre Hw.
  - cbn [trim_leading]. exists 0%nat, []. rewrite app_nil_r. cbn [app length Z.of_nat eval].
    rewrite Z.pow_0_r. split; [reflexivity|]. split; [reflexivity|]. split; [constructor|].
    split; [lia|]. left. reflexivity.
  - inversion Hw as [|? ? Hx Hw']; subst.
    assert (Hdef : forall l p, x <> 0 ->
              trim_leading l (x :: a) p = (l, x :: a, p)).
    { intros l p N. cbn [trim_leading]. destruct x; try congruence; reflexivity. }
    destruct (Z.eq_dec x 0) as [->|N].
    + cbn [trim_leading]. destruct lhs as [|y lhs].
      * specialize (IH [] pre Hw'). destruct (trim_leading [] a pre) as [[l1 a1] p1].
        destruct IH as (k & pl & E1 & E2 & Hw1 & He & Hk).
        exists (S k), pl. cbn [eval]. rewrite Bn_S.
        split; [exact E1|]. split; [exact E2|]. split; [exact Hw1|]. split; [nia|].
        destruct pl; [|discriminate]. cbn [app] in E1. subst l1. right. cbn. split; [lia|reflexivity].
      * specialize (IH lhs (pre ++ [y]) Hw'). destruct (trim_leading lhs a (pre ++ [y])) as [[l1 a1] p1].
        destruct IH as (k & pl & E1 & E2 & Hw1 & He & Hk).
        exists (S k), (y :: pl). cbn [eval app length]. rewrite Bn_S.
        split; [now rewrite E1|]. split; [now rewrite E2, <- app_assoc|]. split; [exact Hw1|].
        split; [nia|]. destruct Hk as [Hk|[Hk1 Hk2]]; [left; lia | right; split; [lia|exact Hk2]].
    + rewrite Hdef by exact N. exists 0%nat, []. rewrite app_nil_r. cbn [app length Z.of_nat].
      rewrite Z.pow_0_r. split; [reflexivity|]. split; [reflexivity|]. split; [exact Hw|].
      split; [lia|]. left. reflexivity.
Qed.

Lemma trim_trailing_rev_spec ra :
  Forall inW ra ->
  exists j, ra = repeat 0 j ++ trim_trailing_rev ra /\
            (trim_trailing_rev ra = [] \/ hd 0 (trim_trailing_rev ra) <> 0).
Proof.
  induction ra as [|x ra IH]; intros Hw.
  - exists 0%nat. cbn. auto.
  - inversion Hw as [|? ? Hx Hw']; subst. destruct (Z.eq_dec x 0) as [->|N].
    + cbn [trim_trailing_rev]. destruct (IH Hw') as (j & E & H). exists (S j). cbn [repeat app].
      split; [now rewrite <- E | exact H].
    + exists 0%nat. assert (E : trim_trailing_rev (x :: ra) = x :: ra).
      { cbn [trim_trailing_rev]. destruct x; try congruence; reflexivity. }
      rewrite E. cbn. split; [reflexivity | right; exact N].
Qed.

Lemma eval_app_zeros l j : eval (l ++ repeat 0 j) = eval l.
Proof. rewrite eval_app, eval_repeat0. lia. Qed.

Lemma rev_repeat {A} (x : A) n : rev (repeat x n) = repeat x n.
Proof.
  induction n as [|n IH]; [reflexivity|]. cbn [repeat rev]. rewrite IH.
  clear IH. induction n as [|n IH]; [reflexivity|]. cbn [repeat app]. now rewrite IH.
Qed.

Lemma trim_trailing_spec a :
  Forall inW a ->
  Forall inW (trim_trailing a) /\ eval (trim_trailing a) = eval a /\ top_nz (trim_trailing a).
Proof.
  intros Hw. unfold trim_trailing.
  destruct (trim_trailing_rev_spec (rev a) ltac:(now apply Forall_rev)) as (j & E & H).
  set (t := trim_trailing_rev (rev a)) in *.
  assert (Ea : a = rev t ++ repeat 0 j).
  { rewrite <- (rev_involutive a), E, rev_app_distr, rev_repeat. reflexivity. }
  assert (Hwt : Forall inW (rev t)).
  { rewrite Ea in Hw. now apply Forall_app in Hw. }
  split; [exact Hwt|]. split; [rewrite Ea; now rewrite eval_app_zeros|].
  destruct H as [H|H]; [left; now rewrite H|]. right.
  destruct t as [|x t']; [cbn in H; congruence|]. cbn [rev hd] in *. rewrite last_snoc. exact H.
Qed.

Lemma pow_B_add n m : B ^ Z.of_nat (n + m) = B ^ Z.of_nat n * B ^ Z.of_nat m.
Proof. rewrite Nat2Z.inj_add, Z.pow_add_r by lia. reflexivity. Qed.

Theorem addmul_spec lhs a b :
  Forall inW lhs -> Forall inW a -> Forall inW b ->
  let '(l', f) := addmul lhs a b in
  let n := Z.of_nat (length lhs) in
  let T := eval lhs + eval a * eval b in
  length l' = length lhs /\ Forall inW l' /\ eval l' = T mod B ^ n /\ f = (B ^ n <=? T).
Proof.
  intros Hwl Hwa Hwb. unfold addmul. pose proof B_pos as HBpos.
  pose proof (trim_leading_spec a lhs [] Hwa) as S1.
  destruct (trim_leading lhs a []) as [[lhs1 a1] pre1].
  destruct S1 as (ka & pla & El1 & Ep1 & Hwa1 & Hea & Hka). cbn [app] in Ep1. subst pre1.
  destruct (trim_trailing_spec a1 Hwa1) as (Hwa2 & Hea2 & Htna). set (a2 := trim_trailing a1) in *.
  assert (Hwl1 : Forall inW lhs1 /\ Forall inW pla).
  { rewrite El1 in Hwl. apply Forall_app in Hwl. tauto. }
  destruct Hwl1 as [Hwl1 Hwpla].
  pose proof (trim_leading_spec b lhs1 pla Hwb) as S2.
  destruct (trim_leading lhs1 b pla) as [[lhs2 b1] pre2].
  destruct S2 as (kb & plb & El2 & Ep2 & Hwb1 & Heb & Hkb).
  destruct (trim_trailing_spec b1 Hwb1) as (Hwb2 & Heb2 & Htnb). set (b2 := trim_trailing b1) in *.
  assert (Hwl2 : Forall inW lhs2 /\ Forall inW plb).
  { rewrite El2 in Hwl1. apply Forall_app in Hwl1. tauto. }
  destruct Hwl2 as [Hwl2 Hwplb].
  pose proof (eval_bound lhs Hwl) as Hlb.
  pose proof (eval_bound a2 Hwa2) as Ha2b. pose proof (eval_bound b2 Hwb2) as Hb2b.
  (* the product, in terms of the trimmed operands *)
  assert (HP : eval a * eval b = B ^ Z.of_nat (ka + kb) * (eval a2 * eval b2)).
  { rewrite Hea, Heb, Hea2, Heb2, pow_B_add. ring. }
  remember (Z.of_nat (length lhs)) as n eqn:En.
  assert (trivial_case : eval a2 * eval b2 = 0 ->
            length lhs = length lhs /\ Forall inW lhs /\
            eval lhs = (eval lhs + eval a * eval b) mod B ^ n /\
            false = (B ^ n <=? eval lhs + eval a * eval b)).
  { intros Z0. rewrite HP, Z0, Z.mul_0_r, Z.add_0_r, Z.mod_small by (subst n; lia).
    destruct (Z.leb_spec (B ^ n) (eval lhs)); [subst n; lia|]. auto. }
  destruct a2 as [|a20 a2'] eqn:Ea2.
  { apply trivial_case. cbn [eval]. lia. }
  destruct b2 as [|b20 b2'] eqn:Eb2.
  { apply trivial_case. cbn [eval]. lia. }
  rewrite <- Ea2, <- Eb2 in *.
  assert (Ha2ne : a2 <> []) by (rewrite Ea2; discriminate).
  assert (Hb2ne : b2 <> []) by (rewrite Eb2; discriminate).
  assert (Hla2 : last a2 0 <> 0) by (destruct Htna; congruence).
  assert (Hlb2 : last b2 0 <> 0) by (destruct Htnb; congruence).
  pose proof (top_nz_lower a2 Ha2ne Hwa2 Hla2) as Ha2low.
  pose proof (top_nz_lower b2 Hb2ne Hwb2 Hlb2) as Hb2low.
  assert (Ha2pos : 1 <= eval a2).
  { assert (0 < B ^ (Z.of_nat (length a2) - 1)); [|lia].
    apply Z.pow_pos_nonneg; [lia|]. destruct a2; [congruence|cbn [length]; lia]. }
  assert (Hb2pos : 1 <= eval b2).
  { assert (0 < B ^ (Z.of_nat (length b2) - 1)); [|lia].
    apply Z.pow_pos_nonneg; [lia|]. destruct b2; [congruence|cbn [length]; lia]. }
  clear Ea2 Eb2 trivial_case.
  (* lhs = pla ++ plb ++ lhs2 *)
  assert (Elhs : lhs = (pla ++ plb) ++ lhs2) by (rewrite <- app_assoc, <- El2; exact El1).
  subst pre2.
  assert (Hwp : Forall inW (pla ++ plb)) by (apply Forall_app; auto).
  pose proof (eval_bound (pla ++ plb) Hwp) as Hpb.
  pose proof (eval_bound lhs2 Hwl2) as Hl2b.
  assert (Hn : n = Z.of_nat (length (pla ++ plb)) + Z.of_nat (length lhs2)).
  { rewrite En. rewrite Elhs at 1. rewrite app_length. lia. }
  assert (Hevl : eval lhs = eval (pla ++ plb) + B ^ Z.of_nat (length (pla ++ plb)) * eval lhs2).
  { rewrite Elhs at 1. apply eval_app. }
  remember (length (pla ++ plb)) as p eqn:Ep.
  assert (HBp : 0 < B ^ Z.of_nat p) by apply Bn_pos.
  assert (HBk : 0 < B ^ Z.of_nat (ka + kb)) by apply Bn_pos.
  destruct lhs2 as [|l20 lhs2'] eqn:El2'.
  { (* the window is empty: overflow, value unchanged *)
    cbn [eval length] in *. rewrite Z.mul_0_r, Z.add_0_r in Hevl.
    assert (Hpk : (p <= ka + kb)%nat).
    { rewrite Ep, app_length. destruct Hka as [?|[? ?]]; destruct Hkb as [?|[? ?]]; lia. }
    assert (Hdiv : B ^ Z.of_nat (ka + kb) = B ^ Z.of_nat p * B ^ Z.of_nat (ka + kb - p)).
    { rewrite <- pow_B_add. f_equal. f_equal. lia. }
    assert (0 < B ^ Z.of_nat (ka + kb - p)) by apply Bn_pos.
    assert (Hnp : n = Z.of_nat p) by lia. rewrite Hnp in *.
    split; [reflexivity|]. split; [exact Hwl|]. split.
    - rewrite HP, Hdiv.
      replace (eval lhs + B ^ Z.of_nat p * B ^ Z.of_nat (ka + kb - p) * (eval a2 * eval b2))
        with (eval lhs + (B ^ Z.of_nat (ka + kb - p) * (eval a2 * eval b2)) * B ^ Z.of_nat p) by ring.
      rewrite Z.mod_add by lia. symmetry. apply Z.mod_small. exact Hlb.
    - symmetry. apply Z.leb_le. rewrite HP, Hdiv.
      assert (H1 : 1 <= eval a2 * eval b2) by (clear - Ha2pos Hb2pos; nia).
      assert (H2 : 1 <= B ^ Z.of_nat (ka + kb - p) * (eval a2 * eval b2)).
      { match goal with Hq : 0 < B ^ Z.of_nat (ka + kb - p) |- _ => clear - Hq H1 end. nia. }
      rewrite <- Z.mul_assoc.
      remember (B ^ Z.of_nat (ka + kb - p) * (eval a2 * eval b2)) as X eqn:EX.
      clear - H2 HBp Hlb. nia. }
  rewrite <- El2' in *.
  assert (Hl2ne : (1 <= length lhs2)%nat) by (rewrite El2'; cbn; lia). clear El2'.
  (* the window is non-empty, so every trimmed low limb had a window limb: p = ka + kb *)
  assert (Hp : p = (ka + kb)%nat).
  { rewrite Ep, app_length.
    destruct Hkb as [Hkb|[_ Hkb]]; [|subst lhs2; cbn in Hl2ne; lia].
    destruct Hka as [Hka|[_ Hka]]; [lia|].
    subst lhs1. destruct plb; [|discriminate]. destruct lhs2; [cbn in Hl2ne; lia | discriminate]. }
  (* operand order *)
  set (a3 := fst (if Nat.ltb (length a2) (length b2) then (b2, a2) else (a2, b2))).
  set (b3 := snd (if Nat.ltb (length a2) (length b2) then (b2, a2) else (a2, b2))).
  assert (H3 : (a3 = a2 /\ b3 = b2) \/ (a3 = b2 /\ b3 = a2)).
  { unfold a3, b3. destruct (Nat.ltb (length a2) (length b2)); cbn; auto. }
  assert (Hrows :
    let '(w, o) := addmul_rows lhs2 a3 b3 false in
    length w = length lhs2 /\ Forall inW w /\
    eval w = (eval lhs2 + eval a2 * eval b2) mod B ^ Z.of_nat (length lhs2) /\
    o = (B ^ Z.of_nat (length lhs2) <=? eval lhs2 + eval a2 * eval b2)).
  { destruct H3 as [[-> ->]|[-> ->]].
    - pose proof (addmul_rows_spec a2 b2 lhs2 false Ha2ne Hwa2 Hla2 Hwb2 Htnb Hwl2) as R.
      destruct (addmul_rows lhs2 a2 b2 false) as [w o]. cbn [orb] in R. exact R.
    - pose proof (addmul_rows_spec b2 a2 lhs2 false Hb2ne Hwb2 Hlb2 Hwa2 Htna Hwl2) as R.
      destruct (addmul_rows lhs2 b2 a2 false) as [w o]. cbn [orb] in R.
      rewrite (Z.mul_comm (eval b2) (eval a2)) in R. exact R. }
  destruct lhs2 as [|l21 lhs2''] eqn:El2''; [cbn in Hl2ne; lia|]. rewrite <- El2'' in *. clear El2''.
  change (if Nat.ltb (length a2) (length b2) then (b2, a2) else (a2, b2)) with
    (if Nat.ltb (length a2) (length b2) then (b2, a2) else (a2, b2)).
  replace (let '(a4, b4) := if Nat.ltb (length a2) (length b2) then (b2, a2) else (a2, b2) in
           let '(w, o) := addmul_rows lhs2 a4 b4 false in ((pla ++ plb) ++ w, o))
    with (let '(w, o) := addmul_rows lhs2 a3 b3 false in ((pla ++ plb) ++ w, o)).
  2:{ unfold a3, b3. destruct (Nat.ltb (length a2) (length b2)); reflexivity. }
  destruct (addmul_rows lhs2 a3 b3 false) as [w o]. destruct Hrows as (Hlw & Hww & Hew & Ho).
  remember (Z.of_nat (length lhs2)) as m eqn:Em. assert (HBm : 0 < B ^ m) by (subst m; apply Bn_pos).
  remember (eval lhs2 + eval a2 * eval b2) as T2 eqn:ET2.
  assert (HT : eval lhs + eval a * eval b = eval (pla ++ plb) + B ^ Z.of_nat p * T2).
  { rewrite HP, Hevl, <- Hp, ET2. ring. }
  assert (HBn : B ^ n = B ^ Z.of_nat p * B ^ m).
  { rewrite Hn. rewrite Z.pow_add_r by lia. reflexivity. }
  assert (HT2 : 0 <= T2) by (subst T2; clear - Hl2b Ha2pos Hb2pos; nia).
  split; [rewrite Elhs, !app_length; lia|]. split; [apply Forall_app; auto|]. split.
  - rewrite eval_app, <- Ep. rewrite Hew, HT, HBn. symmetry. apply mod_low_high; lia.
  - rewrite Ho, HT, HBn. symmetry. apply leb_low_high; lia.
Qed.
