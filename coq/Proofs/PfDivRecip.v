(* Proofs/PfDivRecip.v — reciprocal_mg10 (MG10 Algorithm 3, 64-bit) is exact:
   recip_v4 d = floor((2^128-1)/d) - 2^64 for every normalised d, i.e. RecipOK holds.

   Structure of the proof (x = d40, per table row i = d9 - 256):
     e1 = 2^60 - v1 x     2^40 e1 = (2^50 - v0 x)^2 + (2^40 - r1) x           (e1_identity)
     e2 = 2^73 - v2 x     2^47 e2 = e1^2 + r2 x                                (e2_identity)
     2e + dl = 2^97 - v2 d <= 2^24 (e2 + v2)                                   (N_bound, et_rel)
     2^65 v3' d = 2^193 - 2^96 dl - 2 e^2 - dl e - r3 d                        (v3_identity)
   where r1, r2, r3 are the truncation remainders and v3' = 2^31 v2 + floor(v2 e / 2^65) is
   the 65-bit value of which the code keeps v3 = v3' - 2^64.  The numeric bounds are
   propagated per table row (row_S1, row_S2, row_S3) and the final inequality
   2^96 + 2 e^2 + e <= 2^65 d is checked for all 256 rows by vm_compute (rows_ok).
   Every Wrapping<u64> operation is shown to be exact or a known reduction (v1_pure, v2_pure,
   v3_pure).  d = 2^64 - 1 (where d63 wraps to 0) is checked by evaluation. *)
From Coq Require Import ZArith List Bool Lia.
From RV.Model Require Import Base Word DivRecip.
From RV.Proofs Require Import BaseFacts PfDivBase.
Import ListNotations.
Local Open Scope Z_scope.

(* ---------- final step ---------- *)
Lemma final_step d v3 :
  2 ^ 63 <= d < B -> 0 <= v3 < B ->
  B * B - d <= (B + v3 + 1) * d < B * B + d ->
  wrap (wrap (v3 - muladd_hi v3 d d) - d) = recip1 d.
Proof.
  intros Hd Hv H. pose proof pow63 as P. pose proof B_pos as HB.
  destruct (recip1_spec d Hd) as [Hq [Hq1 Hq2]].
  set (q := recip1 d) in *.
  assert (Hc : v3 = q \/ v3 = q - 1) by nia.
  unfold muladd_hi, wrap. rewrite Zminus_mod_idemp_l.
  destruct Hc as [-> | ->].
  - assert (E : (q * d + d) / B = B - d).
    { symmetry. apply Z.div_unique with (r := q * d + d - B * (B - d)); nia. }
    rewrite E. replace (q - (B - d) - d) with (q + (-1) * B) by ring.
    rewrite Z.mod_add by lia. apply Z.mod_small. lia.
  - assert (E : ((q - 1) * d + d) / B = B - d - 1).
    { symmetry. apply Z.div_unique with (r := (q - 1) * d + d - B * (B - d - 1)); nia. }
    rewrite E. replace (q - 1 - (B - d - 1) - d) with (q + (-1) * B) by ring.
    rewrite Z.mod_add by lia. apply Z.mod_small. lia.
Qed.
Fixpoint allb (n : nat) (f : nat -> bool) : bool :=
  match n with O => true | S k => f k && allb k f end.
Lemma allb_spec n f : allb n f = true -> forall k, (k < n)%nat -> f k = true.
Proof.
  induction n as [|n IH]; cbn [allb]; intros H k Hk; [lia|].
  apply andb_true_iff in H. destruct H as [H1 H2].
  destruct (Nat.eq_dec k n) as [->|N]; [exact H1 | apply IH; [exact H2 | lia]].
Qed.
Lemma allb_Z f : allb 256 (fun k => f (Z.of_nat k)) = true ->
  forall i, 0 <= i < 256 -> f i = true.
Proof.
  intros H i Hi. pose proof (allb_spec _ _ H (Z.to_nat i) ltac:(lia)) as H1.
  cbv beta in H1. rewrite Z2Nat.id in H1 by lia. exact H1.
Qed.

Definition row_v0 (i : Z) : Z := nth (Z.to_nat i) RECIP_TABLE 0.

Lemma table_ok : forall i, 0 <= i < 256 -> row_v0 i = (2 ^ 19 - 3 * 2 ^ 8) / (256 + i).
Proof.
  intros i Hi. apply Z.eqb_eq.
  revert i Hi. apply allb_Z. vm_compute. reflexivity.
Qed.

Definition row_xlo (i : Z) : Z := (256 + i) * 2 ^ 31.
Definition row_xhi (i : Z) : Z := (256 + i + 1) * 2 ^ 31.
Definition row_A (i : Z) : Z :=
  Z.max (Z.abs (2 ^ 50 - row_v0 i * row_xhi i)) (Z.abs (2 ^ 50 - row_v0 i * row_xlo i)).
Definition row_S1 (i : Z) : Z := row_A i * row_A i + 2 ^ 40 * row_xhi i.
Definition row_S2 (i : Z) : Z := row_S1 i * row_S1 i + 2 ^ 127 * row_xhi i.
Definition row_S3 (i : Z) : Z := 2 ^ 24 * row_S2 i + 2 ^ 185.
Definition row_chk (i : Z) : bool :=
  (1024 <=? row_v0 i) && (row_v0 i <=? 2045) &&
  (row_S1 i * 2 ^ 60 <? 2 ^ 104 * row_xlo i) &&
  (2 ^ 352 + 2 * (row_S3 i * row_S3 i) + 2 ^ 128 * row_S3 i <=? 2 ^ 376 * (256 + i)).

Lemma rows_ok : forall i, 0 <= i < 256 -> row_chk i = true.
Proof. apply allb_Z. vm_compute. reflexivity. Qed.

Lemma rows_ok' i : 0 <= i < 256 ->
  1024 <= row_v0 i <= 2045 /\
  row_S1 i * 2 ^ 60 < 2 ^ 104 * row_xlo i /\
  2 ^ 352 + 2 * (row_S3 i * row_S3 i) + 2 ^ 128 * row_S3 i <= 2 ^ 376 * (256 + i).
Proof.
  intros Hi. pose proof (rows_ok i Hi) as H. unfold row_chk in H.
  rewrite !andb_true_iff, !Z.leb_le, Z.ltb_lt in H. tauto.
Qed.
(* ---------- error identities (pure algebra) ---------- *)
Lemma e1_identity v0 x t1 r1 :
  v0 * v0 * x = 2 ^ 40 * t1 + r1 ->
  2 ^ 40 * (2 ^ 60 - (2 ^ 11 * v0 - t1 - 1) * x)
  = (2 ^ 50 - v0 * x) * (2 ^ 50 - v0 * x) + (2 ^ 40 - r1) * x.
Proof. intros H. replace r1 with (v0 * v0 * x - 2 ^ 40 * t1) by lia. ring. Qed.

Lemma e2_identity v1 x e1 t2 r2 :
  e1 = 2 ^ 60 - v1 * x -> v1 * e1 = 2 ^ 47 * t2 + r2 ->
  2 ^ 47 * (2 ^ 73 - (2 ^ 13 * v1 + t2) * x) = e1 * e1 + r2 * x.
Proof.
  intros H1 H2. replace r2 with (v1 * e1 - 2 ^ 47 * t2) by lia. subst e1. ring.
Qed.

Lemma v3_identity v2 d e dl t3 r3 :
  v2 * d = 2 ^ 97 - 2 * e - dl -> v2 * e = 2 ^ 65 * t3 + r3 ->
  2 ^ 65 * ((2 ^ 31 * v2 + t3) * d) = 2 ^ 193 - 2 ^ 96 * dl - 2 * (e * e) - dl * e - r3 * d.
Proof.
  intros H1 H2.
  replace (2 ^ 65 * ((2 ^ 31 * v2 + t3) * d)) with (2 ^ 96 * (v2 * d) + (2 ^ 65 * t3) * d) by ring.
  replace (2 ^ 65 * t3) with (v2 * e - r3) by lia.
  replace ((v2 * e - r3) * d) with (e * (v2 * d) - r3 * d) by ring.
  rewrite H1. ring.
Qed.

Lemma sq_le_max lo hi u : lo <= u <= hi ->
  u * u <= Z.max (Z.abs lo) (Z.abs hi) * Z.max (Z.abs lo) (Z.abs hi).
Proof. intros H. nia. Qed.

(* ---------- bounds ---------- *)
Lemma e1_bound v0 x t1 r1 lo hi xhi e1 :
  v0 * v0 * x = 2 ^ 40 * t1 + r1 -> 0 <= r1 < 2 ^ 40 -> 0 < x <= xhi ->
  lo <= 2 ^ 50 - v0 * x <= hi ->
  e1 = 2 ^ 60 - (2 ^ 11 * v0 - t1 - 1) * x ->
  0 < e1 /\
  2 ^ 40 * e1 <= Z.max (Z.abs lo) (Z.abs hi) * Z.max (Z.abs lo) (Z.abs hi) + 2 ^ 40 * xhi.
Proof.
  intros H Hr Hx Hu ->. pose proof (e1_identity v0 x t1 r1 H) as I.
  pose proof (sq_le_max lo hi _ Hu) as Q.
  set (u := 2 ^ 50 - v0 * x) in *. set (A := Z.max (Z.abs lo) (Z.abs hi)) in *.
  set (E := 2 ^ 60 - (2 ^ 11 * v0 - t1 - 1) * x) in *.
  assert (0 <= u * u) by nia.
  assert (0 < (2 ^ 40 - r1) * x <= 2 ^ 40 * xhi) by nia.
  split; lia.
Qed.

Lemma e2_bound v1 x e1 t2 r2 S1 xhi e2 :
  e1 = 2 ^ 60 - v1 * x -> v1 * e1 = 2 ^ 47 * t2 + r2 -> 0 <= r2 < 2 ^ 47 ->
  0 < x <= xhi -> 0 < e1 -> 2 ^ 40 * e1 <= S1 ->
  e2 = 2 ^ 73 - (2 ^ 13 * v1 + t2) * x ->
  0 < e2 /\ 2 ^ 127 * e2 <= S1 * S1 + 2 ^ 127 * xhi.
Proof.
  intros H1 H2 Hr Hx He HS ->. pose proof (e2_identity v1 x e1 t2 r2 H1 H2) as I.
  set (E := 2 ^ 73 - (2 ^ 13 * v1 + t2) * x) in *.
  assert (0 < e1 * e1) by nia.
  assert (0 <= r2 * x <= 2 ^ 47 * xhi) by nia.
  assert ((2 ^ 40 * e1) * (2 ^ 40 * e1) <= S1 * S1) by nia.
  split; lia.
Qed.
Lemma N_bound v2 x d e2 S2 N :
  e2 = 2 ^ 73 - v2 * x -> 0 < e2 -> 0 < v2 < 2 ^ 34 ->
  2 ^ 24 * (x - 1) <= d < 2 ^ 24 * x -> 2 ^ 127 * e2 <= S2 ->
  N = 2 ^ 97 - v2 * d ->
  1 <= N /\ 2 ^ 127 * N <= 2 ^ 24 * S2 + 2 ^ 185.
Proof.
  intros -> He Hv Hd HS ->.
  assert (v2 * (2 ^ 24 * (x - 1)) <= v2 * d) by (apply Z.mul_le_mono_nonneg_l; lia).
  assert (v2 * d < v2 * (2 ^ 24 * x)) by (apply Z.mul_lt_mono_pos_l; lia).
  set (p := v2 * d) in *. set (q := v2 * x) in *.
  replace (v2 * (2 ^ 24 * (x - 1))) with (2 ^ 24 * q - 2 ^ 24 * v2) in * by (subst q; ring).
  replace (v2 * (2 ^ 24 * x)) with (2 ^ 24 * q) in * by (subst q; ring).
  split; lia.
Qed.

Lemma v3_bound v2 d e dl t3 r3 S3 d9 :
  v2 * d = 2 ^ 97 - 2 * e - dl -> 0 <= dl <= 1 -> 0 <= e -> 1 <= 2 * e + dl ->
  v2 * e = 2 ^ 65 * t3 + r3 -> 0 <= r3 < 2 ^ 65 ->
  2 ^ 128 * e <= S3 ->
  2 ^ 352 + 2 * (S3 * S3) + 2 ^ 128 * S3 <= 2 ^ 376 * d9 ->
  d9 * 2 ^ 55 <= d -> 0 < d ->
  2 ^ 128 - 2 * d <= (2 ^ 31 * v2 + t3) * d < 2 ^ 128.
Proof.
  intros H1 Hdl He HN H2 Hr HS Hc Hd9 Hd.
  pose proof (v3_identity v2 d e dl t3 r3 H1 H2) as I.
  set (V := (2 ^ 31 * v2 + t3) * d) in *.
  assert (K : 2 ^ 96 + 2 * (e * e) + e <= 2 ^ 65 * d).
  { assert ((2 ^ 128 * e) * (2 ^ 128 * e) <= S3 * S3) by nia.
    assert (2 ^ 256 * (2 ^ 96 + 2 * (e * e) + e) <= 2 ^ 256 * (2 ^ 65 * d)); [|lia].
    replace (2 ^ 256 * (2 ^ 96 + 2 * (e * e) + e))
      with (2 ^ 352 + 2 * ((2 ^ 128 * e) * (2 ^ 128 * e)) + 2 ^ 128 * (2 ^ 128 * e)) by ring.
    lia. }
  assert (0 <= r3 * d <= (2 ^ 65 - 1) * d) by nia.
  assert (0 <= dl * e <= e) by nia.
  assert (0 <= e * e) by nia.
  assert (0 < 2 ^ 96 * dl + 2 * (e * e) + dl * e + r3 * d).
  { destruct (Z.eq_dec e 0) as [->|]; [lia|]. assert (1 <= e * e) by nia. lia. }
  split; lia.
Qed.
Lemma v1_pure v0 x :
  1024 <= v0 <= 2045 -> 0 < x <= 2 ^ 40 ->
  wrap (wrap (shl64 v0 11 - shr64 (wrap (wrap (v0 * v0) * x)) 40) - 1)
  = 2 ^ 11 * v0 - (v0 * v0 * x) / 2 ^ 40 - 1.
Proof.
  intros Hv Hx. unfold shl64, shr64.
  assert (Hvv : 0 <= v0 * v0 <= 2045 * v0) by nia.
  assert (Hp : 0 <= v0 * v0 * x <= (v0 * v0) * 2 ^ 40) by nia.
  rewrite (wrap_small (v0 * v0)) by (rewrite B_val; lia).
  rewrite (wrap_small (v0 * v0 * x)) by (rewrite B_val; lia).
  assert (Ht : 0 <= v0 * v0 * x / 2 ^ 40 <= v0 * v0).
  { split; [apply Z.div_pos; lia|]. apply Z.div_le_upper_bound; lia. }
  rewrite (Z.mod_small (v0 * 2 ^ 11)) by (rewrite B_val; lia).
  rewrite (wrap_small (v0 * 2 ^ 11 - _)) by (rewrite B_val; lia).
  rewrite wrap_small by (rewrite B_val; lia). lia.
Qed.

Lemma v2_pure v1 x e1 :
  e1 = 2 ^ 60 - v1 * x -> 0 <= v1 < 2 ^ 21 -> 0 < e1 -> 0 <= v1 * x -> v1 * e1 < 2 ^ 64 ->
  wrap (shl64 v1 13 + shr64 (wrap (v1 * wrap (2 ^ 60 - wrap (v1 * x)))) 47)
  = 2 ^ 13 * v1 + (v1 * e1) / 2 ^ 47.
Proof.
  intros He Hv He1 Hvx Hve. unfold shl64, shr64.
  rewrite (wrap_small (v1 * x)) by (rewrite B_val; lia).
  rewrite <- He. rewrite (wrap_small e1) by (rewrite B_val; lia).
  assert (0 <= v1 * e1) by nia.
  rewrite (wrap_small (v1 * e1)) by (rewrite B_val; lia).
  assert (Ht : 0 <= v1 * e1 / 2 ^ 47 < 2 ^ 17).
  { split; [apply Z.div_pos; lia|]. apply Z.div_lt_upper_bound; lia. }
  rewrite (Z.mod_small (v1 * 2 ^ 13)) by (rewrite B_val; lia).
  rewrite wrap_small by (rewrite B_val; lia). lia.
Qed.

Lemma land_mask y d0 : 0 <= y < B -> d0 = 0 \/ d0 = 1 ->
  Z.land y (wrap (0 - d0)) = d0 * y.
Proof.
  intros Hy [-> | ->].
  - unfold wrap. rewrite Z.mod_0_l by (pose proof B_pos; lia). rewrite Z.land_0_r. lia.
  - replace (wrap (0 - 1)) with (Z.ones 64) by (unfold wrap; rewrite B_val; reflexivity).
    rewrite Z.land_ones by lia. rewrite <- B_pow. rewrite Z.mod_small by lia. lia.
Qed.

(* recip_v3 as a function of v2 *)
Lemma v3_pure d v2 et :
  2 ^ 63 <= d < B - 1 -> 0 <= v2 < 2 ^ 34 ->
  et = 2 ^ 96 - v2 * ((d + 1) / 2) + (d mod 2) * (v2 / 2) -> 0 <= et < B ->
  wrap (shr64 (mul_hi v2
     (wrap (Z.land (shr64 v2 1) (wrap (0 - Z.land d 1)) - wrap (v2 * shr64 (wrap (d + 1)) 1)))) 1
     + shl64 v2 31)
  = (2 ^ 31 * v2 + (v2 * et) / 2 ^ 65) mod B.
Proof.
  intros Hd Hv Het Hr. unfold shr64, shl64, mul_hi.
  change 1 with (Z.ones 1) at 2. rewrite Z.land_ones by lia. change (2 ^ 1) with 2.
  assert (Hd0 : d mod 2 = 0 \/ d mod 2 = 1) by (pose proof (Z.mod_pos_bound d 2); lia).
  assert (Hh : 0 <= v2 / 2 < B).
  { rewrite B_val. split; [apply Z.div_pos; lia|]. apply Z.div_lt_upper_bound; lia. }
  rewrite (land_mask _ _ Hh Hd0).
  rewrite (wrap_small (d + 1)) by lia.
  assert (E : wrap (d mod 2 * (v2 / 2) - wrap (v2 * ((d + 1) / 2))) = et).
  { unfold wrap. rewrite Zminus_mod_idemp_r.
    replace (d mod 2 * (v2 / 2) - v2 * ((d + 1) / 2)) with (et + (- 2 ^ 32) * B)
      by (rewrite Het, B_val; ring).
    rewrite Z.mod_add by (pose proof B_pos; lia). apply Z.mod_small. exact Hr. }
  rewrite E. unfold wrap. rewrite Zplus_mod_idemp_r.
  rewrite Z.div_div by (pose proof B_pos; lia).
  replace (B * 2) with (2 ^ 65) by (rewrite B_val; reflexivity).
  f_equal. ring.
Qed.

Lemma et_rel d v2 et :
  et = 2 ^ 96 - v2 * ((d + 1) / 2) + (d mod 2) * (v2 / 2) ->
  v2 * d = 2 ^ 97 - 2 * et - (d mod 2) * (v2 mod 2).
Proof.
  intros ->.
  pose proof (Z.div_mod d 2 ltac:(lia)) as Hd. pose proof (Z.mod_pos_bound d 2 ltac:(lia)) as Hdr.
  pose proof (Z.div_mod v2 2 ltac:(lia)) as Hv.
  assert (E : (d + 1) / 2 = d / 2 + d mod 2).
  { symmetry. apply Z.div_unique with (r := 1 - d mod 2); lia. }
  rewrite E. set (a := d / 2) in *. set (b := d mod 2) in *.
  set (c := v2 / 2) in *. set (f := v2 mod 2) in *.
  clearbody a b c f. clear E Hdr. subst d v2. ring.
Qed.

Lemma K_bound e S3 d9 d :
  0 <= e -> 2 ^ 128 * e <= S3 ->
  2 ^ 352 + 2 * (S3 * S3) + 2 ^ 128 * S3 <= 2 ^ 376 * d9 ->
  d9 * 2 ^ 55 <= d ->
  2 ^ 96 + 2 * (e * e) + e <= 2 ^ 65 * d.
Proof.
  intros He HS Hc Hd9.
  assert ((2 ^ 128 * e) * (2 ^ 128 * e) <= S3 * S3) by nia.
  assert (2 ^ 256 * (2 ^ 96 + 2 * (e * e) + e) <= 2 ^ 256 * (2 ^ 65 * d)); [|lia].
  replace (2 ^ 256 * (2 ^ 96 + 2 * (e * e) + e))
    with (2 ^ 352 + 2 * ((2 ^ 128 * e) * (2 ^ 128 * e)) + 2 ^ 128 * (2 ^ 128 * e)) by ring.
  lia.
Qed.

Lemma mul_lt_bound a x A X :
  0 <= a -> 0 < X <= x -> 0 <= A -> a * x < A * X -> a < A.
Proof.
  intros Ha HX HA H. destruct (Z.lt_ge_cases a A) as [L|G]; [exact L|].
  assert (A * X <= a * x) by (apply Z.mul_le_mono_nonneg; lia). lia.
Qed.

Lemma v1_pos v0 x t1 r1 :
  1024 <= v0 <= 2045 -> 0 < x <= 2 ^ 40 -> v0 * v0 * x = 2 ^ 40 * t1 + r1 -> 0 <= r1 ->
  0 < 2 ^ 11 * v0 - t1 - 1.
Proof.
  intros Hv Hx H Hr.
  assert (v0 * v0 * x <= v0 * v0 * 2 ^ 40) by (apply Z.mul_le_mono_nonneg_l; nia).
  assert (v0 * v0 <= 2045 * v0) by (apply Z.mul_le_mono_nonneg_r; lia).
  lia.
Qed.

Lemma bit_prod a b : 0 <= a < 2 -> 0 <= b < 2 -> 0 <= a * b <= 1.
Proof. intros. nia. Qed.

Lemma e_lt_B e d : 0 <= e -> d < 2 ^ 64 -> 2 ^ 96 + 2 * (e * e) + e <= 2 ^ 65 * d -> e < 2 ^ 64.
Proof.
  intros He Hd K. destruct (Z.lt_ge_cases e (2 ^ 64)) as [L|G]; [exact L|].
  assert (2 ^ 64 * 2 ^ 64 <= e * e) by (apply Z.mul_le_mono_nonneg; lia). lia.
Qed.

Lemma ve_bound v1 e1 S1 xlo x :
  0 <= v1 -> 2 ^ 40 * e1 <= S1 -> S1 * 2 ^ 60 < 2 ^ 104 * xlo -> xlo <= x -> v1 * x < 2 ^ 60 ->
  v1 * e1 < 2 ^ 64.
Proof.
  intros Hv HS HS1 Hx Hvx.
  assert (v1 * (2 ^ 40 * e1) <= v1 * S1) by (apply Z.mul_le_mono_nonneg_l; lia).
  assert (v1 * (S1 * 2 ^ 60) <= v1 * (2 ^ 104 * xlo)) by (apply Z.mul_le_mono_nonneg_l; lia).
  assert (v1 * xlo <= v1 * x) by (apply Z.mul_le_mono_nonneg_l; lia).
  set (p := v1 * e1) in *. set (q := v1 * S1) in *. set (s := v1 * xlo) in *.
  replace (v1 * (2 ^ 40 * e1)) with (2 ^ 40 * p) in * by (subst p; ring).
  replace (v1 * (S1 * 2 ^ 60)) with (2 ^ 60 * q) in * by (subst q; ring).
  replace (v1 * (2 ^ 104 * xlo)) with (2 ^ 104 * s) in * by (subst s; ring).
  lia.
Qed.

(* ---------- assembly ---------- *)
Lemma recip_v3_bound d : 2 ^ 63 <= d < B - 1 ->
  exists V, recip_v3 d = V mod B /\ 2 ^ 128 - 2 * d <= V * d < 2 ^ 128.
Proof.
  intros Hd. pose proof B_val as HBv.
  (* digits of d *)
  pose proof (Z.div_mod d (2 ^ 55) ltac:(lia)) as D9. pose proof (Z.mod_pos_bound d (2 ^ 55) ltac:(lia)) as D9r.
  pose proof (Z.div_mod d (2 ^ 24) ltac:(lia)) as D40. pose proof (Z.mod_pos_bound d (2 ^ 24) ltac:(lia)) as D40r.
  set (i := d / 2 ^ 55 - 256).
  assert (Hi : 0 <= i < 256) by (unfold i; lia).
  set (x := 1 + d / 2 ^ 24).
  assert (Hx : row_xlo i < x <= row_xhi i) by (unfold row_xlo, row_xhi, x, i; lia).
  assert (Hdx : 2 ^ 24 * (x - 1) <= d < 2 ^ 24 * x) by (unfold x; lia).
  assert (Hd9 : (256 + i) * 2 ^ 55 <= d) by (unfold i; lia).
  assert (Hxlo : 2 ^ 39 <= row_xlo i) by (unfold row_xlo; lia).
  assert (Hxhi : row_xhi i <= 2 ^ 40) by (unfold row_xhi; lia).
  assert (Hwx : wrap (1 + shr64 d 24) = x) by (unfold shr64; apply wrap_small; unfold x; lia).
  destruct (rows_ok' i Hi) as (Hv0 & HS1 & Hchk).
  assert (Hrv0 : recip_v0 d = row_v0 i) by reflexivity.
  clearbody i x. clear D9 D9r D40 D40r.
  set (v0 := row_v0 i) in *.
  (* v1 *)
  assert (Hv1 : recip_v1 d = 2 ^ 11 * v0 - (v0 * v0 * x) / 2 ^ 40 - 1).
  { unfold recip_v1. cbv zeta. rewrite Hwx, Hrv0. apply v1_pure; lia. }
  pose proof (Z.div_mod (v0 * v0 * x) (2 ^ 40) ltac:(lia)) as T1.
  pose proof (Z.mod_pos_bound (v0 * v0 * x) (2 ^ 40) ltac:(lia)) as R1.
  set (t1 := v0 * v0 * x / 2 ^ 40) in *. set (r1 := (v0 * v0 * x) mod 2 ^ 40) in *.
  set (v1 := recip_v1 d) in *.
  set (e1 := 2 ^ 60 - v1 * x).
  assert (Hu : 2 ^ 50 - v0 * row_xhi i <= 2 ^ 50 - v0 * x <= 2 ^ 50 - v0 * row_xlo i).
  { assert (v0 * row_xlo i <= v0 * x) by (apply Z.mul_le_mono_nonneg_l; lia).
    assert (v0 * x <= v0 * row_xhi i) by (apply Z.mul_le_mono_nonneg_l; lia). lia. }
  destruct (e1_bound v0 x t1 r1 _ _ (row_xhi i) e1 T1 R1 ltac:(lia) Hu ltac:(unfold e1; rewrite Hv1; reflexivity))
    as [He1 HE1].
  change (2 ^ 40 * e1 <= row_S1 i) in HE1.
  assert (Hv1pos : 0 < v1).
  { rewrite Hv1. apply (v1_pos v0 x t1 r1); lia. }
  assert (Hv1x : v1 * x < 2 ^ 60) by (unfold e1 in He1; lia).
  assert (Hv1lt : v1 < 2 ^ 21).
  { apply (mul_lt_bound v1 x (2 ^ 21) (2 ^ 39)); lia. }
  assert (Hve : v1 * e1 < 2 ^ 64).
  { apply (ve_bound v1 e1 (row_S1 i) (row_xlo i) x); lia. }
  (* v2 *)
  assert (Hv2 : recip_v2 d = 2 ^ 13 * v1 + (v1 * e1) / 2 ^ 47).
  { unfold recip_v2. cbv zeta. rewrite Hwx. fold v1.
    apply v2_pure; [reflexivity | lia | lia | apply Z.mul_nonneg_nonneg; lia | exact Hve]. }
  assert (Hve0 : 0 <= v1 * e1) by (apply Z.mul_nonneg_nonneg; lia).
  pose proof (Z.div_mod (v1 * e1) (2 ^ 47) ltac:(lia)) as T2.
  pose proof (Z.mod_pos_bound (v1 * e1) (2 ^ 47) ltac:(lia)) as R2.
  assert (Ht2 : 0 <= v1 * e1 / 2 ^ 47) by (apply Z.div_pos; lia).
  set (t2 := v1 * e1 / 2 ^ 47) in *. set (r2 := (v1 * e1) mod 2 ^ 47) in *.
  set (v2 := recip_v2 d) in *.
  set (e2 := 2 ^ 73 - v2 * x).
  destruct (e2_bound v1 x e1 t2 r2 (row_S1 i) (row_xhi i) e2 eq_refl T2 R2 ltac:(lia) He1 HE1
              ltac:(unfold e2; rewrite Hv2; reflexivity)) as [He2 HE2].
  change (2 ^ 127 * e2 <= row_S2 i) in HE2.
  assert (Hv2r : 0 < v2 < 2 ^ 34).
  { split; [lia|]. apply (mul_lt_bound v2 x (2 ^ 34) (2 ^ 39)); unfold e2 in He2; lia. }
  (* e *)
  set (N := 2 ^ 97 - v2 * d).
  destruct (N_bound v2 x d e2 (row_S2 i) N eq_refl He2 Hv2r Hdx HE2 eq_refl) as [HN1 HN2].
  change (2 ^ 127 * N <= row_S3 i) in HN2.
  set (et := 2 ^ 96 - v2 * ((d + 1) / 2) + (d mod 2) * (v2 / 2)).
  pose proof (et_rel d v2 et eq_refl) as Hrel.
  assert (Hdl : 0 <= d mod 2 * (v2 mod 2) <= 1).
  { apply bit_prod; apply Z.mod_pos_bound; lia. }
  set (dl := d mod 2 * (v2 mod 2)) in *.
  assert (Het0 : 0 <= et) by (unfold N in *; lia).
  assert (HetS : 2 ^ 128 * et <= row_S3 i) by (unfold N in *; lia).
  pose proof (K_bound et (row_S3 i) (256 + i) d Het0 HetS Hchk Hd9) as K.
  assert (HetB : et < B) by (rewrite HBv; apply (e_lt_B et d); lia).
  (* v3 *)
  pose proof (Z.div_mod (v2 * et) (2 ^ 65) ltac:(lia)) as T3.
  pose proof (Z.mod_pos_bound (v2 * et) (2 ^ 65) ltac:(lia)) as R3.
  exists (2 ^ 31 * v2 + (v2 * et) / 2 ^ 65). split.
  - unfold recip_v3. cbv zeta. fold v2. apply v3_pure; try reflexivity; lia.
  - apply (v3_bound v2 d et dl _ _ (row_S3 i) (256 + i) Hrel Hdl Het0 ltac:(unfold N in *; lia) T3 R3 HetS Hchk Hd9 ltac:(lia)).
Qed.

Lemma recip_v4_max : recip_v4 (B - 1) = recip1 (B - 1).
Proof. rewrite B_val. vm_compute. reflexivity. Qed.

Theorem recip_v4_correct : forall d, 2 ^ 63 <= d < B -> recip_v4 d = recip1 d.
Proof.
  intros d Hd. destruct (Z.eq_dec d (B - 1)) as [->|Hne]; [apply recip_v4_max|].
  destruct (recip_v3_bound d ltac:(lia)) as (V & HV & Hlo & Hhi).
  pose proof B_val as HBv.
  assert (HVr : B <= V < 2 * B).
  { rewrite HBv in *. split.
    - destruct (Z.lt_ge_cases V (2 ^ 64)) as [L|G]; [|lia].
      assert (V * d <= (2 ^ 64 - 1) * d) by (apply Z.mul_le_mono_nonneg_r; lia). lia.
    - destruct (Z.lt_ge_cases V (2 * 2 ^ 64)) as [L|G]; [lia|].
      assert (2 * 2 ^ 64 * 2 ^ 63 <= V * d) by (apply Z.mul_le_mono_nonneg; lia). lia. }
  assert (Hv3 : recip_v3 d = V - B).
  { rewrite HV. replace V with ((V - B) + 1 * B) at 1 by ring.
    rewrite Z.mod_add by lia. apply Z.mod_small. lia. }
  unfold recip_v4. cbv zeta. rewrite Hv3.
  apply final_step; [exact Hd | lia |].
  replace (B + (V - B) + 1) with (V + 1) by ring.
  replace ((V + 1) * d) with (V * d + d) by ring.
  replace (B * B) with (2 ^ 128) by (rewrite HBv; reflexivity). lia.
Qed.

Corollary RecipOK_holds : RecipOK.
Proof. exact recip_v4_correct. Qed.

Print Assumptions recip_v4_correct.
