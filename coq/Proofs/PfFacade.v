(* Proofs/PfFacade.v — characterisation of the facade bodies of Model/Facade.v that are more
   than a forward: the subtle impls (ct_eq, ct_gt, ct_lt, conditional_select/assign,
   conditional_negate, bit_ct), swap_bytes, NumCast, the bit-operator shapes, Shl/Shr by a
   Uint amount, inc/dec, is_even/is_odd, zeroize. *)
From Coq Require Import ZArith List Bool Lia.
From RV.Model Require Import Base Word.
From RV.Model Require Add Shift Bits Conv Bytes Facade.
From RV.Proofs Require Import BaseFacts PfAdd PfC01 PfShift PfBits PfConv PfBytes PfC06.
Import ListNotations.
Import Facade.
Local Open Scope Z_scope.

(* ---------- small facts ---------- *)
Lemma as_usize_id n : 0 <= n < B -> as_usize n = n.
Proof. intros H. unfold as_usize. rewrite modp2_spec by lia. rewrite <- B_pow. apply Z.mod_small, H. Qed.

Lemma as_usize_range n : 0 <= as_usize n < B.
Proof. unfold as_usize. rewrite modp2_spec by lia. rewrite <- B_pow. apply Z.mod_pos_bound, B_pos. Qed.

Lemma ones64 : Z.ones 64 = B - 1.
Proof. rewrite B_val. reflexivity. Qed.

Lemma lxor_word a b : inW a -> inW b -> inW (Z.lxor a b).
Proof.
  unfold inW. rewrite B_pow. intros Ha Hb. split; [apply Z.lxor_nonneg; lia|].
  apply bits_bound; [apply Z.lxor_nonneg; lia | lia |].
  intros j Hj. rewrite Z.lxor_spec, (testbit_high a 64 j), (testbit_high b 64 j) by lia. reflexivity.
Qed.
Lemma lor_word a b : inW a -> inW b -> inW (Z.lor a b).
Proof.
  unfold inW. rewrite B_pow. intros Ha Hb. split; [apply Z.lor_nonneg; lia|].
  apply bits_bound; [apply Z.lor_nonneg; lia | lia |].
  intros j Hj. rewrite Z.lor_spec, (testbit_high a 64 j), (testbit_high b 64 j) by lia. reflexivity.
Qed.

(* the top bit of a word *)
Lemma word_top y : inW y -> y / 2 ^ 63 = b2z (Z.testbit y 63).
Proof.
  unfold inW. rewrite B_pow. intros Hy.
  assert (H : 0 <= y / 2 ^ 63 < 2).
  { split; [apply Z.div_pos; lia|]. apply Z.div_lt_upper_bound; lia. }
  rewrite Z.testbit_spec' by lia. rewrite Z.mod_small by lia. unfold b2z.
  destruct (Z.eqb_spec (y / 2 ^ 63) 0) as [->|N]; [reflexivity|].
  replace (y / 2 ^ 63) with 1 by lia. reflexivity.
Qed.
Lemma testbit63_ge y : inW y -> Z.testbit y 63 = (2 ^ 63 <=? y).
Proof.
  intros Hy. pose proof (word_top y Hy) as T. unfold inW in Hy. rewrite B_pow in Hy.
  destruct (Z.leb_spec (2 ^ 63) y) as [G|L].
  - destruct (Z.testbit y 63); [reflexivity|]. cbn [b2z] in T.
    apply Z.div_small_iff in T; lia.
  - destruct (Z.testbit y 63); [|reflexivity]. cbn [b2z] in T.
    rewrite Z.div_small in T by lia. lia.
Qed.

(* ---------- subtle primitives ---------- *)
Lemma ct_eq64_spec a b : inW a -> inW b -> ct_eq64 a b = (a =? b).
Proof.
  intros Ha Hb. unfold ct_eq64. set (x := Z.lxor a b).
  pose proof (lxor_word a b Ha Hb) as Hx. fold x in Hx.
  destruct (Z.eqb_spec a b) as [E|N].
  - subst b. unfold x. rewrite Z.lxor_nilpotent. cbn. reflexivity.
  - assert (Hx0 : x <> 0) by (unfold x; rewrite Z.lxor_eq_0_iff; exact N).
    assert (Hw : wrap (- x) = B - x).
    { unfold wrap, inW in *. rewrite <- (Z.mod_add _ 1) by lia.
      replace (- x + 1 * B) with (B - x) by ring. apply Z.mod_small. lia. }
    rewrite Hw. assert (Hn : inW (B - x)) by (unfold inW in *; lia).
    pose proof (lor_word x (B - x) Hx Hn) as Hl.
    unfold shr64. rewrite (word_top _ Hl), Z.lor_spec, (testbit63_ge x Hx), (testbit63_ge _ Hn).
    unfold inW in *. rewrite B_pow in *.
    destruct (Z.leb_spec (2 ^ 63) x); destruct (Z.leb_spec (2 ^ 63) (2 ^ 64 - x)); cbn; try reflexivity.
    lia.
Qed.

Lemma ct_lt64_spec a b : inW a -> inW b -> ct_lt64 a b = (a <? b).
Proof.
  intros Ha Hb. unfold ct_lt64, ct_gt64. rewrite ct_eq64_spec by auto.
  destruct (Z.ltb_spec b a); destruct (Z.eqb_spec a b); destruct (Z.ltb_spec a b); cbn; try reflexivity; lia.
Qed.

Lemma select64_spec a b ch : inW a -> inW b -> select64 a b ch = if ch then b else a.
Proof.
  intros Ha Hb. unfold select64. destruct ch; cbn [b2z].
  - change (Z.opp 1) with (Z.neg 1).
    assert (Hm : forall z, z = Z.neg 1 -> wrap z = Z.ones 64).
    { intros z ->. rewrite ones64. unfold wrap. rewrite <- (Z.mod_add _ 1) by (pose proof B_pos; lia).
      replace (-1 + 1 * B) with (B - 1) by ring. apply Z.mod_small. pose proof B_pos. lia. }
    rewrite (Hm _ eq_refl), Z.land_comm, Z.land_ones by lia.
    pose proof (lxor_word a b Ha Hb) as Hx. unfold inW in Hx. rewrite B_pow in Hx.
    rewrite Z.mod_small by lia.
    rewrite <- Z.lxor_assoc, Z.lxor_nilpotent, Z.lxor_0_l. reflexivity.
  - unfold wrap. cbn [Z.opp]. rewrite Z.mod_0_l by (pose proof B_pos; lia).
    rewrite Z.land_0_l, Z.lxor_0_r. reflexivity.
Qed.

(* ---------- derived == on limb arrays ---------- *)
Lemma limbs_eq_spec a b :
  length a = length b -> Forall inW a -> Forall inW b -> limbs_eq a b = (eval a =? eval b).
Proof.
  revert b. induction a as [|x a IH]; intros [|y b] Hl Ha Hb; cbn [length] in Hl; try discriminate.
  - reflexivity.
  - inversion Ha as [|? ? Hx Ha']; inversion Hb as [|? ? Hy Hb']; subst.
    unfold limbs_eq in *. cbn [list_eqb eval]. rewrite (IH b) by (auto; lia).
    pose proof (eval_bound a Ha'). pose proof (eval_bound b Hb'). unfold inW in *.
    pose proof B_pos.
    destruct (Z.eqb_spec x y); destruct (Z.eqb_spec (eval a) (eval b));
      destruct (Z.eqb_spec (x + B * eval a) (y + B * eval b)); cbn; try reflexivity; try nia.
Qed.

Lemma limbs_eq_refl a : limbs_eq a a = true.
Proof. unfold limbs_eq. apply list_eqb_refl, Z.eqb_refl. Qed.

(* ---------- ct_eq ---------- *)
Lemma ct_eq_loop_spec a : forall b x,
  length a = length b -> Forall inW a -> Forall inW b ->
  ct_eq_loop a b x = x && limbs_eq a b.
Proof.
  induction a as [|ai a IH]; intros [|bi b] x Hl Ha Hb; cbn [length] in Hl; try discriminate.
  - cbn. now rewrite andb_true_r.
  - inversion Ha as [|? ? Hx Ha']; inversion Hb as [|? ? Hy Hb']; subst.
    cbn [ct_eq_loop]. rewrite IH by (auto; lia). rewrite ct_eq64_spec by auto.
    unfold limbs_eq. cbn [list_eqb]. now rewrite andb_assoc.
Qed.

Theorem ct_eq_spec a b :
  length a = length b -> Forall inW a -> Forall inW b ->
  ct_eq a b = limbs_eq a b /\ ct_eq a b = (eval a =? eval b).
Proof.
  intros Hl Ha Hb. unfold ct_eq. rewrite Hl, Nat.eqb_refl. cbn [negb].
  rewrite ct_eq_loop_spec by auto. cbn [andb]. split; [reflexivity|]. now apply limbs_eq_spec.
Qed.

(* ---------- ct_gt / ct_lt: the equal/greater scan over big-endian limbs ---------- *)
Lemma ct_scan_gt ls : forall rs equal acc,
  length ls = length rs -> Forall inW ls -> Forall inW rs ->
  ct_scan ct_gt64 ls rs equal acc = acc || (equal && (eval (rev rs) <? eval (rev ls))).
Proof.
  induction ls as [|l ls IH]; intros [|r rs] equal acc Hl Hls Hrs; cbn [length] in Hl; try discriminate.
  - cbn. now rewrite andb_false_r, orb_false_r.
  - inversion Hls as [|? ? Hx Hls']; inversion Hrs as [|? ? Hy Hrs']; subst.
    cbn [ct_scan]. rewrite IH by (auto; lia). rewrite ct_eq64_spec by auto. unfold ct_gt64.
    cbn [rev]. rewrite !eval_app, !rev_length. cbn [eval]. rewrite !Z.mul_0_r, !Z.add_0_r.
    replace (length rs) with (length ls) by lia.
    pose proof (eval_bound (rev ls) (Forall_rev Hls')) as B1.
    pose proof (eval_bound (rev rs) (Forall_rev Hrs')) as B2.
    rewrite rev_length in B1, B2. replace (length rs) with (length ls) in B2 by lia.
    set (M := B ^ Z.of_nat (length ls)) in *. unfold inW in *.
    destruct acc; cbn [orb]; [reflexivity|]. destruct equal; cbn [andb]; [|reflexivity].
    destruct (Z.ltb_spec r l); destruct (Z.eqb_spec l r);
      destruct (Z.ltb_spec (eval (rev rs)) (eval (rev ls)));
      destruct (Z.ltb_spec (eval (rev rs) + M * r) (eval (rev ls) + M * l)); cbn; try reflexivity; nia.
Qed.

Lemma ct_scan_lt ls : forall rs equal acc,
  length ls = length rs -> Forall inW ls -> Forall inW rs ->
  ct_scan ct_lt64 ls rs equal acc = acc || (equal && (eval (rev ls) <? eval (rev rs))).
Proof.
  induction ls as [|l ls IH]; intros [|r rs] equal acc Hl Hls Hrs; cbn [length] in Hl; try discriminate.
  - cbn. now rewrite andb_false_r, orb_false_r.
  - inversion Hls as [|? ? Hx Hls']; inversion Hrs as [|? ? Hy Hrs']; subst.
    cbn [ct_scan]. rewrite IH by (auto; lia). rewrite ct_eq64_spec, ct_lt64_spec by auto.
    cbn [rev]. rewrite !eval_app, !rev_length. cbn [eval]. rewrite !Z.mul_0_r, !Z.add_0_r.
    replace (length rs) with (length ls) by lia.
    pose proof (eval_bound (rev ls) (Forall_rev Hls')) as B1.
    pose proof (eval_bound (rev rs) (Forall_rev Hrs')) as B2.
    rewrite rev_length in B1, B2. replace (length rs) with (length ls) in B2 by lia.
    set (M := B ^ Z.of_nat (length ls)) in *. unfold inW in *.
    destruct acc; cbn [orb]; [reflexivity|]. destruct equal; cbn [andb]; [|reflexivity].
    destruct (Z.ltb_spec l r); destruct (Z.eqb_spec l r);
      destruct (Z.ltb_spec (eval (rev ls)) (eval (rev rs)));
      destruct (Z.ltb_spec (eval (rev ls) + M * l) (eval (rev rs) + M * r)); cbn; try reflexivity; nia.
Qed.

Lemma ugt_spec a b :
  length a = length b -> Forall inW a -> Forall inW b -> ugt a b = (eval b <? eval a).
Proof.
  intros Hl Ha Hb. unfold ugt. rewrite limbs_cmp_spec by auto. unfold Z.ltb.
  rewrite (Z.compare_antisym (eval a) (eval b)). destruct (eval a ?= eval b); reflexivity.
Qed.
Lemma ult_spec' a b :
  length a = length b -> Forall inW a -> Forall inW b -> Facade.ult a b = (eval a <? eval b).
Proof.
  intros Hl Ha Hb. unfold Facade.ult. rewrite limbs_cmp_spec by auto. unfold Z.ltb.
  destruct (eval a ?= eval b); reflexivity.
Qed.

Theorem ct_gt_spec a b :
  length a = length b -> Forall inW a -> Forall inW b ->
  ct_gt a b = ugt a b /\ ct_gt a b = (eval b <? eval a).
Proof.
  intros Hl Ha Hb. unfold ct_gt.
  rewrite ct_scan_gt by (rewrite ?rev_length; auto using Forall_rev).
  rewrite !rev_involutive. cbn [orb andb]. split; [|reflexivity]. symmetry. now apply ugt_spec.
Qed.
Theorem ct_lt_spec a b :
  length a = length b -> Forall inW a -> Forall inW b ->
  ct_lt a b = Facade.ult a b /\ ct_lt a b = (eval a <? eval b).
Proof.
  intros Hl Ha Hb. unfold ct_lt.
  rewrite ct_scan_lt by (rewrite ?rev_length; auto using Forall_rev).
  rewrite !rev_involutive. cbn [orb andb]. split; [|reflexivity]. symmetry. now apply ult_spec'.
Qed.

(* ---------- conditional_select / conditional_assign / conditional_negate ---------- *)
Lemma select_zip_spec a : forall b ch,
  length a = length b -> Forall inW a -> Forall inW b ->
  select_zip a b ch = if ch then b else a.
Proof.
  induction a as [|x a IH]; intros [|y b] ch Hl Ha Hb; cbn [length] in Hl; try discriminate.
  - now destruct ch.
  - inversion Ha as [|? ? Hx Ha']; inversion Hb as [|? ? Hy Hb']; subst.
    cbn [select_zip]. rewrite IH, select64_spec by (auto; lia). now destruct ch.
Qed.

Theorem ct_select_spec bits a b ch :
  0 <= bits -> canon bits a -> canon bits b ->
  ct_select bits a b ch = Val (if ch then b else a).
Proof.
  intros Hb Ha Hc. unfold ct_select. pose proof Ha as (La & Wa & _). pose proof Hc as (Lb & Wb & _).
  rewrite select_zip_spec by (auto; congruence).
  assert (E : forall l, length l = nlimbsN bits ->
              firstn (nlimbsN bits) l ++ repeat 0 (nlimbsN bits - length (firstn (nlimbsN bits) l)) = l).
  { intros l Hl. rewrite <- Hl, firstn_all, Nat.sub_diag. cbn. apply app_nil_r. }
  destruct ch; rewrite E by assumption; now apply from_limbs_canon.
Qed.

Lemma canon_uint_of_range bits v : 0 <= bits -> 0 <= v < 2 ^ bits -> canon bits (uint_of bits v).
Proof.
  intros Hb Hv. unfold canon, uint_of. rewrite to_limbs_length. split; [reflexivity|].
  split; [apply to_limbs_inW|]. rewrite eval_to_limbs.
  pose proof (Bn_pos (nlimbsN bits)). pose proof (Z.mod_pos_bound v (B ^ Z.of_nat (nlimbsN bits)) H).
  assert (v mod B ^ Z.of_nat (nlimbsN bits) <= v) by (apply Z.mod_le; lia). lia.
Qed.

Lemma wrapping_neg_eq bits a :
  0 <= bits -> canon bits a ->
  Add.wrapping_neg bits a = uint_of bits ((- eval a) mod 2 ^ bits) /\
  canon bits (Add.wrapping_neg bits a).
Proof.
  intros Hb Ha. unfold Add.wrapping_neg. rewrite neg_eq by auto. cbn [fst]. split; [reflexivity|].
  apply canon_uint_of_range; [exact Hb|]. apply Z.mod_pos_bound. now apply pow2_pos.
Qed.

Theorem ct_negate_spec bits a ch :
  0 <= bits -> canon bits a ->
  ct_negate bits a ch = Val (if ch then Add.wrapping_neg bits a else a).
Proof.
  intros Hb Ha. unfold ct_negate, ct_assign, op_neg.
  destruct (wrapping_neg_eq bits a Hb Ha) as [_ Hn]. now apply ct_select_spec.
Qed.

(* ---------- bit_ct ---------- *)
Lemma land_pow2 x b : 0 <= b -> Z.land x (2 ^ b) = if Z.testbit x b then 2 ^ b else 0.
Proof.
  intros Hb. apply Z.bits_inj'. intros i Hi. rewrite Z.land_spec, Z.pow2_bits_eqb by lia.
  destruct (Z.eqb_spec b i) as [->|N].
  - destruct (Z.testbit x i); [now rewrite Z.pow2_bits_true by lia | now rewrite Z.bits_0].
  - rewrite andb_false_r. destruct (Z.testbit x b); [now rewrite Z.pow2_bits_false by lia | now rewrite Z.bits_0].
Qed.

Theorem ct_bit_spec bits a idx :
  0 <= bits -> canon bits a -> 0 <= idx ->
  ct_bit bits a idx = Val ((idx <? bits) && Z.testbit (eval a) idx) /\
  Bits.bit bits a idx = Val ((idx <? bits) && Z.testbit (eval a) idx).
Proof.
  intros Hb Ha Hi. split.
  - unfold ct_bit. destruct (Z.leb_spec bits idx); destruct (Z.ltb_spec idx bits); try lia; [reflexivity|].
    cbn [andb].
    destruct (limb_index_range bits a idx Hb Ha ltac:(lia)) as [Hk Hm].
    rewrite index_nth by lia. cbn [obind]. rewrite shl64_one by lia.
    pose proof Ha as (_ & Wa & _).
    assert (Hx : inW (nth (Z.to_nat (idx / 64)) a 0)).
    { apply nth_inW; [exact Wa|]. unfold lenZ in Hk. lia. }
    assert (Hp : inW (2 ^ (idx mod 64))).
    { unfold inW. rewrite B_pow. split; [apply Z.pow_nonneg; lia|]. apply Z.pow_lt_mono_r; lia. }
    rewrite ct_eq64_spec; [| |exact Hp].
    2:{ rewrite land_pow2 by lia. destruct (Z.testbit _ _); [exact Hp|]. unfold inW. pose proof B_pos. lia. }
    rewrite land_pow2 by lia. rewrite testbit_eval by (auto; lia).
    destruct (Z.testbit (nth (Z.to_nat (idx / 64)) a 0) (idx mod 64)).
    + now rewrite Z.eqb_refl.
    + destruct (Z.eqb_spec 0 (2 ^ (idx mod 64))) as [E|]; [|reflexivity].
      pose proof (pow2_pos (idx mod 64) ltac:(lia)). lia.
  - rewrite bit_spec by (auto; lia). destruct (Z.ltb_spec idx bits); reflexivity.
Qed.

(* ---------- bit operators: every shape = the limb-wise reference ---------- *)
Lemma op_assign_map2 f a : forall b, length a = length b -> Bits.op_assign f a b = Val (map2 f a b).
Proof.
  induction a as [|x a IH]; intros [|y b] Hl; cbn [length] in Hl; try discriminate.
  - reflexivity.
  - cbn [Bits.op_assign map2]. rewrite IH by lia. reflexivity.
Qed.

Definition bit_fb (k : Z) : bool -> bool -> bool :=
  if k =? 0 then orb else if k =? 1 then andb else xorb.

Lemma bit_fun_props k :
  (forall x y i, Z.testbit (bit_fun k x y) i = bit_fb k (Z.testbit x i) (Z.testbit y i)) /\
  (forall x y, 0 <= x -> 0 <= y -> 0 <= bit_fun k x y) /\ bit_fb k false false = false /\
  (forall x y, bit_fun k x y = bit_fun k y x).
Proof.
  unfold bit_fun, bit_fb. destruct (k =? 0); [|destruct (k =? 1)].
  - repeat split; intros; [apply Z.lor_spec | apply Z.lor_nonneg; lia | apply Z.lor_comm].
  - repeat split; intros; [apply Z.land_spec | apply Z.land_nonneg; lia | apply Z.land_comm].
  - repeat split; intros; [apply Z.lxor_spec | apply Z.lxor_nonneg; lia | apply Z.lxor_comm].
Qed.

Theorem bit_op_any_shape k bits sh a b :
  0 <= bits -> canon bits a -> canon bits b ->
  Bits.bit_op (bit_fun k) sh a b = Val (uint_of bits (bit_fun k (eval a) (eval b))).
Proof.
  intros Hb Ha Hc. destruct (bit_fun_props k) as (H1 & H2 & H3 & H4).
  destruct (bit_op_spec (bit_fun k) (bit_fb k) bits sh a b H1 H2 H3 H4 Hb Ha Hc) as (r & E & C & V).
  rewrite E. f_equal. now apply uint_of_unique.
Qed.

Theorem bit_ref_spec k bits a b :
  0 <= bits -> canon bits a -> canon bits b ->
  Conv.from_limbs bits (map2 (bit_fun k) a b) = Val (uint_of bits (bit_fun k (eval a) (eval b))).
Proof.
  intros Hb Ha Hc. destruct (bit_fun_props k) as (H1 & H2 & H3 & H4).
  destruct (bit_op_spec (bit_fun k) (bit_fb k) bits 0 a b H1 H2 H3 H4 Hb Ha Hc) as (r & E & C & V).
  unfold Bits.bit_op in E. cbn [Z.eqb] in E.
  rewrite op_assign_map2 in E by (destruct Ha as (-> & _); destruct Hc as (-> & _); reflexivity).
  injection E as <-. rewrite from_limbs_canon by assumption. f_equal. now apply uint_of_unique.
Qed.

(* ---------- Shl / Shr by a Uint amount = the inherent shift by the saturated amount ---------- *)
Definition usize_sat (k : list Z) : Z := Z.min (eval k) (B - 1).

Lemma shl_sat bits v k : 0 <= bits < B -> 0 <= k ->
  (v * 2 ^ Z.min k (B - 1)) mod 2 ^ bits = (v * 2 ^ k) mod 2 ^ bits.
Proof.
  intros Hb Hk. destruct (Z.le_gt_cases k (B - 1)); [now rewrite Z.min_l by lia|].
  rewrite Z.min_r by lia. rewrite !shl_all_out by lia. reflexivity.
Qed.

Theorem shl_uint_agrees bits a k :
  0 <= bits < B -> canon bits a -> canon bits k ->
  Shift.shl_uint bits a k = Shift.wrapping_shl bits a (usize_sat k).
Proof.
  intros Hb Ha Hk. rewrite B_pow in Hb.
  destruct (shl_uint_spec bits a k Hb Ha Hk) as [C1 E1].
  pose proof (canon_range bits k ltac:(lia) Hk) as Rk.
  assert (Hs : 0 <= usize_sat k) by (unfold usize_sat; pose proof B_pos; lia).
  destruct (wrapping_shl_spec bits a (usize_sat k) ltac:(lia) Ha Hs) as [C2 E2].
  rewrite (uint_of_unique _ _ _ C1 E1), (uint_of_unique _ _ _ C2 E2). f_equal.
  unfold usize_sat. symmetry. apply shl_sat; [rewrite B_pow|]; lia.
Qed.

Theorem shr_uint_agrees bits a k :
  0 <= bits < B -> canon bits a -> canon bits k ->
  Shift.shr_uint bits a k = Shift.wrapping_shr bits a (usize_sat k).
Proof.
  intros Hb Ha Hk. rewrite B_pow in Hb.
  destruct (shr_uint_spec bits a k Hb Ha Hk) as [C1 E1].
  pose proof (canon_range bits k ltac:(lia) Hk) as Rk.
  pose proof (canon_range bits a ltac:(lia) Ha) as Ra.
  assert (Hs : 0 <= usize_sat k) by (unfold usize_sat; pose proof B_pos; lia).
  destruct (wrapping_shr_spec bits a (usize_sat k) ltac:(lia) Ha Hs) as [C2 E2].
  rewrite (uint_of_unique _ _ _ C1 E1), (uint_of_unique _ _ _ C2 E2). f_equal.
  unfold usize_sat. destruct (Z.le_gt_cases (eval k) (B - 1)); [now rewrite Z.min_l by lia|].
  rewrite Z.min_r by lia.
  destruct (shr_all_out (eval a) bits (eval k) ltac:(rewrite B_pow in *; lia) Ra) as [-> _].
  destruct (shr_all_out (eval a) bits (B - 1) ltac:(rewrite B_pow in *; lia) Ra) as [-> _]. reflexivity.
Qed.

(* ---------- swap_bytes: byte reversal of the BYTES-long representation ---------- *)
(* the executable specification's byte reversal (RunC20.brev), restated here *)
Fixpoint brev (n : nat) (v acc : Z) : Z :=
  match n with
  | O => acc
  | S n' => brev n' (divp2 v 8) (acc * 256 + modp2 v 8)
  end.

Lemma brev_spec n : forall v acc,
  brev n v acc = acc * 256 ^ Z.of_nat n + Bytes.le_value (rev (Bytes.le_digits n v)).
Proof.
  induction n as [|n IH]; intros v acc.
  - cbn. lia.
  - cbn [brev]. rewrite IH, divp2_spec, modp2_spec by lia. change (2 ^ 8) with 256.
    rewrite le_digits_S. cbn [rev]. rewrite le_value_snoc, lenZ_rev. unfold lenZ.
    rewrite le_digits_length, p256_S. ring.
Qed.

Definition swapped (bits : Z) (a : list Z) : Z := brev (Bytes.nbytesN bits) (eval a) 0.

Theorem swap_bytes_spec bits a :
  0 <= bits -> canon bits a ->
  let W := swapped bits a in
  nt_swap_bytes bits a = (if W <? 2 ^ bits then Val (uint_of bits W) else Panic) /\
  Bytes.try_from_le_slice bits (Bytes.to_be_bytes_vec bits a) =
    Val (if W <? 2 ^ bits then Some (uint_of bits W) else None).
Proof.
  intros Hb Ha W.
  assert (HW : W = Bytes.le_value (rev (Bytes.le_digits (Bytes.nbytesN bits) (eval a)))).
  { unfold W, swapped. rewrite brev_spec. lia. }
  assert (Hlen : lenZ (Bytes.le_digits (Bytes.nbytesN bits) (eval a)) = Bytes.nbytes bits).
  { unfold lenZ. rewrite le_digits_length. now apply nbytesN_Z. }
  split.
  - unfold nt_swap_bytes. rewrite to_be_bytes_vec_spec by assumption. rewrite rev_involutive.
    rewrite try_from_be_slice_spec by (first [assumption | apply le_digits_isbyte]).
    rewrite Hlen, Z.leb_refl, <- HW. cbn [andb unwrap_opt obind].
    destruct (W <? 2 ^ bits); reflexivity.
  - rewrite to_be_bytes_vec_spec by assumption.
    rewrite try_from_le_slice_spec by (first [assumption | apply Forall_rev, le_digits_isbyte]).
    rewrite lenZ_rev, Hlen, Z.leb_refl, <- HW. reflexivity.
Qed.

(* ---------- NumCast::from = TryFrom<T> for every primitive integer type ---------- *)
Lemma prim_code_props ty p :
  Conv.prim_of_code ty = Some p -> 1 <= ty ->
  1 <= Conv.pw p /\ (Conv.pw p <= 64 \/ Conv.pw p = 128) /\ Conv.prim_max p < 2 ^ 128.
Proof.
  intros H Hty. destruct ty as [|q|q]; try lia.
  do 4 (try match goal with q : positive |- _ => destruct q as [q|q|] end);
    cbn in H; try discriminate H; injection H as <-; cbn; repeat split; try lia; auto.
Qed.

Theorem numcast_agrees bits ty p n :
  0 <= bits -> Conv.prim_of_code ty = Some p -> 1 <= ty ->
  Conv.prim_min p <= n <= Conv.prim_max p ->
  exists o, nt_numcast bits n = Val o /\
            (do r <- Conv.try_from_prim bits p n; Val (to_res_ok r)) = Val o.
Proof.
  intros Hb Hp Hty Hn. destruct (prim_code_props ty p Hp Hty) as (Hw & Hww & Hmax).
  rewrite try_from_prim_spec by assumption. cbn [obind].
  unfold nt_numcast, prim_to_u128. destruct (Z.ltb_spec n 0).
  - exists None. split; reflexivity.
  - rewrite try_from_u128_spec by lia. cbn [obind]. eexists. split; reflexivity.
Qed.

(* ---------- the counting methods fit a u32 ---------- *)
Lemma as_u32_id n : 0 <= n < 2 ^ 32 -> as_u32 n = n.
Proof. intros H. unfold as_u32. rewrite modp2_spec by lia. now apply Z.mod_small. Qed.

Lemma tz_range bits v : 0 <= bits -> 0 <= v < 2 ^ bits -> 0 <= RunC06.tz bits v <= bits.
Proof.
  intros Hb Hv. unfold RunC06.tz. destruct (Z.eqb_spec v 0); [lia|].
  destruct v as [|p|p]; try lia. cbn [RunC06.val2].
  destruct (pos_ctz_spec p) as (R & T & _). split; [exact R|].
  destruct (Z.le_gt_cases bits (RunC06.pos_ctz p)) as [G|]; [|lia].
  rewrite (testbit_high (Z.pos p) bits) in T by lia. discriminate.
Qed.

Theorem count_values bits a :
  0 <= bits -> canon bits a ->
  exists c1 c2 c3 c4 c5 c6,
    Bits.count_ones a = c1 /\ Bits.count_zeros bits a = Val c2 /\ Bits.leading_zeros bits a = Val c3 /\
    Bits.leading_ones bits a = Val c4 /\ Bits.trailing_zeros bits a = Val c5 /\
    Bits.trailing_ones bits a = Val c6 /\
    0 <= c1 <= bits /\ 0 <= c2 <= bits /\ 0 <= c3 <= bits /\ 0 <= c4 <= bits /\ 0 <= c5 <= bits /\
    0 <= c6 <= bits.
Proof.
  intros Hb Ha. pose proof (canon_range bits a Hb Ha) as Hr. pose proof Ha as (_ & Wa & _).
  pose proof (compl_range (eval a) bits Hr) as Hc. fold (RunC06.compl bits (eval a)) in Hc.
  do 6 eexists.
  split; [reflexivity|]. split; [now apply count_zeros_spec|]. split; [now apply leading_zeros_spec|].
  split; [now apply leading_ones_spec|]. split; [now apply trailing_zeros_spec|].
  split; [now apply trailing_ones_spec|].
  rewrite count_ones_spec by assumption.
  pose proof (popcount_nonneg (eval a)). pose proof (popcount_le (eval a) bits Hr Hb).
  pose proof (bitlen_nonneg (eval a)). pose proof (bitlen_le (eval a) bits Hr Hb).
  pose proof (bitlen_nonneg (RunC06.compl bits (eval a))).
  pose proof (bitlen_le (RunC06.compl bits (eval a)) bits Hc Hb).
  pose proof (tz_range bits (eval a) Hb Hr). pose proof (tz_range bits _ Hb Hc). lia.
Qed.

(* ---------- is_even / is_odd ---------- *)
Lemma bit0_spec bits a : 0 <= bits -> canon bits a -> Bits.bit bits a 0 = Val (Z.odd (eval a)).
Proof.
  intros Hb Ha. rewrite bit_spec by (auto; lia). f_equal.
  destruct (Z.ltb_spec 0 bits).
  - apply Z.bit0_odd.
  - assert (bits = 0) by lia. subst bits. rewrite (canon_zero_width a Ha). reflexivity.
Qed.

(* ---------- Self::ONE, inc, dec ---------- *)
Lemma canon_uONE bits : 0 <= bits -> canon bits (Bits.uONE bits) /\ eval (Bits.uONE bits) = 1 mod 2 ^ bits.
Proof.
  intros Hb. unfold Bits.uONE. destruct (Z.eqb_spec bits 0) as [->|N].
  - destruct (canon_uMAX 0 ltac:(lia)) as [C E]. split; [exact C|]. rewrite E. reflexivity.
  - assert (Hp : 0 < bits) by lia. pose proof (nlimbs_pos bits Hp) as Hn.
    unfold uZERO, zero_limbs. destruct (nlimbsN bits) as [|n] eqn:En.
    { unfold nlimbsN in En. lia. }
    cbn [repeat]. assert (E1 : eval (1 :: repeat 0 n) = 1) by (cbn [eval]; rewrite eval_repeat0; lia).
    assert (H2 : 2 <= 2 ^ bits).
    { change 2 with (2 ^ 1) at 1. apply Z.pow_le_mono_r; lia. }
    split.
    + split; [cbn [length]; rewrite repeat_length; lia|]. split.
      * constructor; [unfold inW; rewrite B_val; lia | apply Forall_inW_repeat0].
      * rewrite E1. lia.
    + rewrite E1, Z.mod_small by lia. reflexivity.
Qed.

Theorem inc_spec bits a :
  0 <= bits -> canon bits a ->
  Add.wrapping_add bits a (Bits.uONE bits) = uint_of bits (modp2 (eval a + 1) bits).
Proof.
  intros Hb Ha. destruct (canon_uONE bits Hb) as [C1 E1].
  unfold Add.wrapping_add. rewrite add_eq by assumption. cbn [fst]. f_equal.
  rewrite modp2_spec, E1 by lia. now rewrite Z.add_mod_idemp_r by (pose proof (pow2_pos bits Hb); lia).
Qed.
Theorem dec_spec bits a :
  0 <= bits -> canon bits a ->
  Add.wrapping_sub bits a (Bits.uONE bits) = uint_of bits (modp2 (eval a - 1) bits).
Proof.
  intros Hb Ha. destruct (canon_uONE bits Hb) as [C1 E1].
  unfold Add.wrapping_sub. rewrite sub_eq by assumption. cbn [fst]. f_equal.
  rewrite modp2_spec, E1 by lia. now rewrite Zminus_mod_idemp_r.
Qed.

(* ---------- zeroize ---------- *)
Lemma zeroize_spec bits a : 0 <= bits -> canon bits a -> zz_zeroize a = uZERO bits.
Proof.
  intros Hb (Hl & _). unfold zz_zeroize, uZERO, zero_limbs. rewrite <- Hl.
  clear. induction a as [|x a IH]; cbn; [reflexivity | now rewrite IH].
Qed.
Lemma uZERO_uint_of bits : 0 <= bits -> uZERO bits = uint_of bits 0.
Proof. intros Hb. destruct (canon_uZERO bits Hb) as [C E]. now apply uint_of_unique. Qed.
