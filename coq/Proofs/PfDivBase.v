(* Proofs/PfDivBase.v — shared vocabulary for the division proofs: double words, the
   reciprocal specification and the hypothesis RecipOK used until reciprocal_mg10 is proved. *)
From Coq Require Import ZArith List Bool Lia.
From RV.Model Require Import Base Word DivRecip.
From RV.Proofs Require Import BaseFacts.
Import ListNotations.
Local Open Scope Z_scope.

Lemma BB_eq : BB = B * B.
Proof. rewrite B_pow. reflexivity. Qed.
Lemma BB_val : BB = 340282366920938463463374607431768211456. Proof. reflexivity. Qed.
Lemma BB_pos : 0 < BB. Proof. rewrite BB_eq. pose proof B_pos. nia. Qed.
Lemma pow63 : 2 ^ 63 * 2 = B. Proof. rewrite B_val. reflexivity. Qed.
Lemma pow127 : 2 ^ 127 = 2 ^ 63 * B. Proof. rewrite B_val. reflexivity. Qed.
Lemma pow63_val : 2 ^ 63 = 9223372036854775808. Proof. reflexivity. Qed.
Lemma pow127_val : 2 ^ 127 = 170141183460469231731687303715884105728. Proof. reflexivity. Qed.

(* the mathematical reciprocals of MG10 *)
Definition recip1 (d : Z) : Z := (B * B - 1) / d - B.
Definition recip2 (d : Z) : Z := (B * B * B - 1) / d - B.

(* Hypothesis carried by the `_partial` results: the table-seeded Newton iteration is exact. *)
Definition RecipOK : Prop := forall d, 2 ^ 63 <= d < B -> recip_v4 d = recip1 d.

Lemma wrap_mod x : wrap x = x mod B. Proof. reflexivity. Qed.
Lemma wrap128_mod x : wrap128 x = x mod (B * B). Proof. unfold wrap128. rewrite BB_eq. reflexivity. Qed.

Lemma wrap_range x : 0 <= wrap x < B.
Proof. unfold wrap. apply Z.mod_pos_bound, B_pos. Qed.
Lemma wrap_small x : 0 <= x < B -> wrap x = x.
Proof. unfold wrap. apply Z.mod_small. Qed.

Lemma hi_lo_128 x : x = hi128 x * B + lo128 x.
Proof. unfold hi128, lo128. pose proof B_pos. rewrite Z.mul_comm. apply Z.div_mod. lia. Qed.
Lemma lo128_range x : 0 <= lo128 x < B.
Proof. unfold lo128. apply Z.mod_pos_bound, B_pos. Qed.
Lemma hi128_range x : 0 <= x < B * B -> 0 <= hi128 x < B.
Proof.
  unfold hi128. intros H. pose proof B_pos. split.
  - apply Z.div_pos; lia.
  - apply Z.div_lt_upper_bound; lia.
Qed.
Lemma hi128_join h l : 0 <= l < B -> hi128 (join h l) = h.
Proof.
  unfold hi128, join. intros H. pose proof B_pos.
  symmetry. apply Z.div_unique with (r := l); lia.
Qed.
Lemma lo128_join h l : 0 <= l < B -> lo128 (join h l) = l.
Proof.
  unfold lo128, join. intros H. pose proof B_pos.
  symmetry. apply Z.mod_unique with (q := h); lia.
Qed.

(* recip1 is a word with the MG10 defining inequality *)
Lemma recip1_spec d : 2 ^ 63 <= d < B ->
  0 <= recip1 d < B /\ (B + recip1 d) * d <= B * B - 1 < (B + recip1 d + 1) * d.
Proof.
  intros Hd. unfold recip1. pose proof pow63 as P. pose proof B_pos.
  assert (Hq : (B * B - 1) = d * ((B * B - 1) / d) + (B * B - 1) mod d) by (apply Z.div_mod; lia).
  assert (Hr : 0 <= (B * B - 1) mod d < d) by (apply Z.mod_pos_bound; lia).
  set (q := (B * B - 1) / d) in *. set (r := (B * B - 1) mod d) in *.
  assert (B <= q) by nia.
  assert (q < 2 * B) by nia.
  split; [lia|]. split; nia.
Qed.

Lemma recip2_spec d : 2 ^ 127 <= d < B * B ->
  0 <= recip2 d < B /\ (B + recip2 d) * d <= B * B * B - 1 < (B + recip2 d + 1) * d.
Proof.
  intros Hd. unfold recip2. rewrite pow127 in Hd. pose proof pow63 as P. pose proof B_pos.
  assert (Hq : (B * B * B - 1) = d * ((B * B * B - 1) / d) + (B * B * B - 1) mod d)
    by (apply Z.div_mod; lia).
  assert (Hr : 0 <= (B * B * B - 1) mod d < d) by (apply Z.mod_pos_bound; lia).
  set (q := (B * B * B - 1) / d) in *. set (r := (B * B * B - 1) mod d) in *.
  assert (B <= q) by nia.
  assert (q < 2 * B) by nia.
  split; [lia|]. split; nia.
Qed.

Lemma reciprocal_mg10_ok (HR : RecipOK) d : 2 ^ 63 <= d < B ->
  reciprocal_mg10 d = Val (recip1 d).
Proof.
  intros Hd. unfold reciprocal_mg10.
  destruct (Z.ltb_spec d (2 ^ 63)); [lia|]. rewrite (HR d Hd). reflexivity.
Qed.
