(* Proofs/PfC12.v — every C12 call: the model's answer meets the executable specification.
   The only hypothesis left is DivKernelOK (contract of algorithms::div, property C14);
   LehmerStepOK is a theorem (PfGcdMatrix.LehmerStepOK_holds). *)
From Coq Require Import ZArith Znumtheory List Bool Lia.
From RV.Model Require Import Base Word Limbs GcdMatrix.
From RV.Model Require Gcd.
From RV.Proofs Require Import BaseFacts PfC01 PfGcdUint PfGcd PfGcdMatrix PfGcdInv PfGcdExact.
From RV.Run Require Import RunC12.
Import ListNotations.
Local Open Scope Z_scope.

Definition is_inv (c : call) : Prop := match c with alg_inv_mod _ _ _ => True | _ => False end.

(* ---------- reflection helpers ---------- *)
Lemma mat_eta m : Mat (m0 m) (m1 m) (m2 m) (m3 m) (m4 m) = m.
Proof. destruct m; reflexivity. Qed.
Lemma as_mat_toks m rest : as_mat (mat_toks m ++ rest) = Some (m, rest).
Proof. unfold mat_toks, as_mat. cbn [app]. now rewrite mat_eta. Qed.
Lemma on_mat_val m rest p :
  wordsP m -> p m rest = true -> on_mat (Val (mat_toks m ++ rest)) p = true.
Proof.
  intros W Hp. unfold on_mat. rewrite as_mat_toks.
  apply mat_words_iff in W. now rewrite W, Hp.
Qed.
Lemma on_mat_val0 m p :
  wordsP m -> p m [] = true -> on_mat (Val (mat_toks m)) p = true.
Proof. intros. rewrite <- (app_nil_r (mat_toks m)). now apply on_mat_val. Qed.

Lemma step_ok_of_good m A Bv : good_step m A Bv -> step_ok m A Bv = true.
Proof.
  unfold good_step, step_ok. destruct (zmap m A Bv) as [C D]. intros (G1 & G2 & G3 & G4 & G5).
  rewrite !andb_true_iff, !Z.leb_le, Z.ltb_lt, Z.eqb_eq. repeat split; auto; lia.
Qed.

Lemma expect_U bits l v : canon bits l -> eval l = v -> expect (Val [TL l]) [U bits v] = true.
Proof.
  intros Hc He. unfold U. rewrite <- (uint_of_unique bits l v Hc He). apply expect_refl.
Qed.

Lemma wordsP_id : wordsP IDENTITY.
Proof. unfold wordsP, inW. cbn. rewrite B_val. lia. Qed.

Lemma list_eqb_refl_Z (l : list Z) : list_eqb Z.eqb l l = true.
Proof. apply list_eqb_refl, Z.eqb_refl. Qed.

(* ---------- the matrix entry points ---------- *)
Lemma m_from_ok bits a b :
  0 <= bits -> canon bits a -> canon bits b -> spec (m_from bits a b) (run (m_from bits a b)) = true.
Proof.
  intros H Ha Hb. cbn [spec run].
  destruct (Z.ltb_spec (eval a) (eval b)) as [Hlt|Hge].
  - unfold from. rewrite (ult_spec bits) by auto.
    destruct (Z.ltb_spec (eval a) (eval b)); [reflexivity | lia].
  - destruct (LehmerStepOK_holds bits a b H Ha Hb Hge) as (m & -> & Wm & Hm). cbn [obind].
    pose proof (canon_range bits a H Ha) as Ra. pose proof (canon_range bits b H Hb) as Rb.
    destruct (Z.eq_dec bits 0) as [->|N].
    + (* width 0 *)
      apply canon_zero_width in Ha, Hb. subst a b. cbn [apply Z.eqb obind fst snd].
      apply on_mat_val; [exact Wm|]. cbn [eval] in *.
      destruct Hm as [->|(Hn & _ & _ & Hg)]; [reflexivity|].
      exfalso. unfold good_step in Hg. destruct (zmap m 0 0) as [C D]. lia.
    + assert (Hpos : 0 < bits) by lia. pose proof (pow2_pos' bits H) as HM.
      destruct Hm as [->|(Hn & Hf & _ & Hg)].
      * assert (Fi : fitsP bits IDENTITY).
        { unfold fitsP. cbn. assert (2 ^ 1 <= 2 ^ bits) by (apply Z.pow_le_mono_r; lia).
          change (2 ^ 1) with 2 in *. lia. }
        destruct (apply_spec bits IDENTITY a b Hpos wordsP_id Fi Ha Hb) as (c & d & -> & Cc & Cd & Ec & Ed).
        cbn [obind fst snd]. apply on_mat_val; [apply wordsP_id|].
        unfold zmap in Ec, Ed. cbn [IDENTITY m0 m1 m2 m3 m4 fst snd] in Ec, Ed.
        assert (c = a) by (apply (canon_eq bits); auto; rewrite Ec; rewrite Z.mod_small; lia).
        assert (d = b) by (apply (canon_eq bits); auto; rewrite Ed; rewrite Z.mod_small; lia).
        subst c d. apply canonb_iff in Ha, Hb. rewrite Ha, Hb.
        change (mat_eqb IDENTITY IDENTITY) with true. cbn [andb]. now rewrite !list_eqb_refl_Z.
      * destruct (apply_spec bits m a b Hpos Wm Hf Ha Hb) as (c & d & -> & Cc & Cd & Ec & Ed).
        cbn [obind fst snd]. apply on_mat_val; [exact Wm|].
        rewrite (mat_eqb_false _ _ Hn). rewrite (step_ok_of_good _ _ _ Hg).
        unfold good_step in Hg. destruct (zmap m (eval a) (eval b)) as [C D]. cbn [fst snd] in *.
        destruct Hg as (G1 & G2 & G3 & G4 & G5).
        rewrite Z.mod_small in Ec, Ed by lia.
        apply canonb_iff in Cc, Cd. rewrite Cc, Cd, Ec, Ed, !Z.eqb_refl. reflexivity.
Qed.

Lemma m_apply_ok bits e0 e1 e2 e3 s a b :
  0 <= bits -> inW e0 -> inW e1 -> inW e2 -> inW e3 -> canon bits a -> canon bits b ->
  spec (m_apply bits e0 e1 e2 e3 s a b) (run (m_apply bits e0 e1 e2 e3 s a b)) = true.
Proof.
  intros H W0 W1 W2 W3 Ha Hb. cbn [spec run]. set (m := Mat e0 e1 e2 e3 s).
  destruct (Z.eqb_spec bits 0) as [->|N].
  - unfold apply. cbn [Z.eqb omap obind fst snd]. apply expect_refl.
  - unfold under. destruct (fits bits m) eqn:F; [|reflexivity].
    apply fits_iff in F.
    destruct (apply_spec bits m a b ltac:(lia) ltac:(unfold wordsP, m; cbn; auto) F Ha Hb)
      as (c & d & -> & Cc & Cd & Ec & Ed).
    cbn [omap obind fst snd]. destruct (zmap m (eval a) (eval b)) as [C D]. cbn [fst snd] in *.
    unfold U. rewrite !modp2_spec by lia.
    rewrite <- (uint_of_unique bits c _ Cc Ec), <- (uint_of_unique bits d _ Cd Ed). apply expect_refl.
Qed.

Lemma m_apply_u128_ok bits e0 e1 e2 e3 s a b :
  spec (m_apply_u128 bits e0 e1 e2 e3 s a b) (run (m_apply_u128 bits e0 e1 e2 e3 s a b)) = true.
Proof.
  cbn [spec run]. rewrite apply_u128_spec. cbn [fst snd].
  destruct (zmap (Mat e0 e1 e2 e3 s) a b) as [C D]. cbn [fst snd].
  rewrite !modp2_spec by lia. change (2 ^ 128) with BB. apply expect_refl.
Qed.

Lemma m_compose_ok bits e0 e1 e2 e3 s f0 f1 f2 f3 t :
  inW e0 -> inW e1 -> inW e2 -> inW e3 -> inW f0 -> inW f1 -> inW f2 -> inW f3 ->
  spec (m_compose bits e0 e1 e2 e3 s f0 f1 f2 f3 t) (run (m_compose bits e0 e1 e2 e3 s f0 f1 f2 f3 t)) = true.
Proof.
  unfold inW. intros. cbn [spec run]. unfold under.
  destruct ((e0 * f0 + e1 * f2 <? B) && (e0 * f1 + e1 * f3 <? B) && (e2 * f0 + e3 * f2 <? B)
            && (e2 * f1 + e3 * f3 <? B)) eqn:E; [|reflexivity].
  rewrite !andb_true_iff, !Z.ltb_lt in E. destruct E as (((E0 & E1) & E2) & E3).
  unfold compose. cbn [m0 m1 m2 m3 m4].
  rewrite !dot_spec by lia. cbn [obind omap]. apply expect_refl.
Qed.

Lemma m_from_u64_ok bits r0 r1 :
  inW r0 -> inW r1 -> spec (m_from_u64 bits r0 r1) (run (m_from_u64 bits r0 r1)) = true.
Proof.
  unfold inW. intros H0 H1. cbn [spec run]. unfold under.
  destruct (Z.leb_spec r1 r0) as [Hle|]; [|reflexivity].
  destruct (Z.eqb_spec r1 0) as [->|N].
  - rewrite from_u64_zero by lia. cbn [omap obind]. apply expect_refl.
  - destruct (from_u64_spec r0 r1 ltac:(lia) ltac:(lia)) as (m & -> & (L0 & L1 & L2 & L3) & _ & Zm).
    cbn [omap obind]. apply on_mat_val0; [unfold wordsP, inW; lia|].
    rewrite Zm, !Z.eqb_refl. reflexivity.
Qed.

Lemma corners_ok m a0 a1 k :
  0 <= k -> ext_good m a0 a1 ->
  forallb (fun xy => step_ok m (a0 * 2 ^ k + fst xy) (a1 * 2 ^ k + snd xy)) (corners k) = true.
Proof.
  intros Hk Hg. pose proof (pow2_pos' k Hk). unfold corners. cbn [forallb fst snd].
  rewrite !andb_true_iff. repeat split; apply step_ok_of_good, Hg; lia.
Qed.

Lemma m_from_u64_prefix_ok bits a0 a1 :
  inW a0 -> inW a1 -> spec (m_from_u64_prefix bits a0 a1) (run (m_from_u64_prefix bits a0 a1)) = true.
Proof.
  unfold inW. intros H0 H1. cbn [spec run]. unfold under.
  destruct ((2 ^ 63 <=? a0) && (a1 <=? a0)) eqn:E; [|reflexivity].
  rewrite andb_true_iff, !Z.leb_le in E. destruct E as [E0 E1].
  destruct (from_u64_prefix_spec a0 a1 ltac:(lia) ltac:(lia)) as (m & -> & Sm & Hm).
  cbn [omap obind]. apply on_mat_val0; [now apply small32_words|]. cbn [nil_toks andb].
  destruct Hm as [->|(Hn & _ & Hg)]; [reflexivity|].
  rewrite (mat_eqb_false _ _ Hn). cbn [orb]. unfold prefix_ok. cbn [forallb].
  rewrite !corners_ok by (auto; lia). reflexivity.
Qed.

Lemma m_from_u128_prefix_ok bits r0 r1 :
  in128 r0 -> in128 r1 ->
  spec (m_from_u128_prefix bits r0 r1) (run (m_from_u128_prefix bits r0 r1)) = true.
Proof.
  unfold in128. intros H0 H1. cbn [spec run]. unfold under.
  destruct ((r1 <=? r0) && (0 <? r0)) eqn:E; [|reflexivity].
  rewrite andb_true_iff, Z.leb_le, Z.ltb_lt in E. destruct E as [E0 E1].
  destruct (from_u128_prefix_spec r0 r1 ltac:(lia) ltac:(lia)) as (m & -> & Sm & Hm).
  cbn [omap obind]. apply on_mat_val0; [now apply small32_words|]. cbn [nil_toks andb].
  destruct Hm as [->|(Hn & _ & Hg & _)]; [reflexivity|].
  rewrite (mat_eqb_false _ _ Hn). cbn [orb]. now apply step_ok_of_good.
Qed.

(* ---------- gcd, lcm, gcd_extended under the division contract ---------- *)
Section WithDiv.
  Hypothesis HD : DivKernelOK.
  Let HL : LehmerStepOK := LehmerStepOK_holds.

  Lemma gcd_ok bits a b :
    0 <= bits -> canon bits a -> canon bits b ->
    spec_gcd bits a b (omap (fun g => [TL g]) (Gcd.gcd bits a b)) = true.
  Proof.
    intros H Ha Hb. rewrite (gcd_spec HD HL) by auto. cbn [omap obind]. apply expect_refl.
  Qed.

  Lemma lcm_ok bits a b :
    0 <= bits -> canon bits a -> canon bits b ->
    spec_lcm bits a b (omap opt_toks (Gcd.lcm bits a b)) = true.
  Proof.
    intros H Ha Hb. rewrite (lcm_spec HD HL) by auto. cbn [omap obind]. unfold spec_lcm.
    destruct ((eval a =? 0) || (eval b =? 0)); [apply expect_refl|]. cbv zeta.
    destruct (eval a * eval b / Z.gcd (eval a) (eval b) <? 2 ^ bits); apply expect_refl.
  Qed.

  Lemma ext_ok bits a b :
    0 <= bits -> canon bits a -> canon bits b ->
    spec_ext bits a b (omap ext_toks (Gcd.gcd_extended bits a b)) = true.
  Proof.
    intros H Ha Hb. destruct (gcd_extended_exact HD bits a b H Ha Hb) as ([[[g x] y] sign] & -> & Hg & Cx & Cy & Hc).
    cbn [omap obind ext_toks spec_ext]. subst g. rewrite list_eqb_refl_Z.
    apply canonb_iff in Cx, Cy. rewrite Cx, Cy. cbn [andb]. cbv zeta.
    rewrite Hc, !Z.eqb_refl. reflexivity.
  Qed.

  Lemma inv_ok bits n m :
    0 <= bits -> canon bits n -> canon bits m ->
    spec_inv bits n m (omap opt_toks (Gcd.inv_mod bits n m)) = true.
  Proof.
    intros H Hn Hm. destruct (inv_mod_spec HD bits n m H Hn Hm) as (o & -> & Ho).
    cbn [omap obind]. unfold spec_inv.
    destruct ((2 <=? eval m) && (Z.gcd (eval n) (eval m) =? 1)).
    - destruct Ho as (x & -> & Cx & Lx & Ex). cbn [opt_toks].
      apply canonb_iff in Cx. rewrite Cx, Ex. cbn [andb].
      destruct (Z.ltb_spec (eval x) (eval m)); [reflexivity | lia].
    - subst o. apply expect_refl.
  Qed.

  (* the full statement, under the division contract only *)
  Theorem C12_all_modulo_kernel c : wf c -> spec c (run c) = true.
  Proof.
    intros Hwf. destruct c; cbn [wf] in Hwf.
    - destruct Hwf as (H & Ha & Hb). now apply gcd_ok.
    - destruct Hwf as (H & Ha & Hb). now apply lcm_ok.
    - destruct Hwf as (H & Ha & Hb). now apply ext_ok.
    - destruct Hwf as (H & Ha & Hb). now apply gcd_ok.
    - destruct Hwf as (H & Ha & Hb). now apply ext_ok.
    - destruct Hwf as (H & Ha & Hb). now apply inv_ok.
    - apply expect_refl.
    - destruct Hwf as (H & Ha & Hb). now apply m_from_ok.
    - destruct Hwf as (H & W0 & W1 & W2 & W3 & Ha & Hb). now apply m_apply_ok.
    - apply m_apply_u128_ok.
    - destruct Hwf as (H & W0 & W1 & W2 & W3 & V0 & V1 & V2 & V3). now apply m_compose_ok.
    - destruct Hwf as (H & W0 & W1). now apply m_from_u64_ok.
    - destruct Hwf as (H & W0 & W1). now apply m_from_u64_prefix_ok.
    - destruct Hwf as (H & W0 & W1). now apply m_from_u128_prefix_ok.
  Qed.

  Theorem C12_all_partial c : ~ is_inv c -> wf c -> spec c (run c) = true.
  Proof.
    intros NI Hwf. destruct c; cbn [wf] in Hwf.
    - destruct Hwf as (H & Ha & Hb). now apply gcd_ok.
    - destruct Hwf as (H & Ha & Hb). now apply lcm_ok.
    - destruct Hwf as (H & Ha & Hb). now apply ext_ok.
    - destruct Hwf as (H & Ha & Hb). now apply gcd_ok.
    - destruct Hwf as (H & Ha & Hb). now apply ext_ok.
    - exfalso. apply NI. exact I.
    - apply expect_refl.
    - destruct Hwf as (H & Ha & Hb). now apply m_from_ok.
    - destruct Hwf as (H & W0 & W1 & W2 & W3 & Ha & Hb). now apply m_apply_ok.
    - apply m_apply_u128_ok.
    - destruct Hwf as (H & W0 & W1 & W2 & W3 & V0 & V1 & V2 & V3). now apply m_compose_ok.
    - destruct Hwf as (H & W0 & W1). now apply m_from_u64_ok.
    - destruct Hwf as (H & W0 & W1). now apply m_from_u64_prefix_ok.
    - destruct Hwf as (H & W0 & W1). now apply m_from_u128_prefix_ok.
  Qed.
End WithDiv.

(* the matrix entry points need no hypothesis at all *)
Definition is_matrix (c : call) : Prop :=
  match c with
  | gcd _ _ _ | lcm _ _ _ | gcd_extended _ _ _ | alg_gcd _ _ _ | alg_gcd_extended _ _ _
  | alg_inv_mod _ _ _ => False
  | _ => True
  end.
Theorem C12_matrix c : is_matrix c -> wf c -> spec c (run c) = true.
Proof.
  intros Hm Hwf. destruct c; cbn [is_matrix] in Hm; try contradiction; cbn [wf] in Hwf.
  - apply expect_refl.
  - destruct Hwf as (H & Ha & Hb). now apply m_from_ok.
  - destruct Hwf as (H & W0 & W1 & W2 & W3 & Ha & Hb). now apply m_apply_ok.
  - apply m_apply_u128_ok.
  - destruct Hwf as (H & W0 & W1 & W2 & W3 & V0 & V1 & V2 & V3). now apply m_compose_ok.
  - destruct Hwf as (H & W0 & W1). now apply m_from_u64_ok.
  - destruct Hwf as (H & W0 & W1). now apply m_from_u64_prefix_ok.
  - destruct Hwf as (H & W0 & W1). now apply m_from_u128_prefix_ok.
Qed.
