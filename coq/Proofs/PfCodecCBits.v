(* Proofs/PfCodecCBits.v — the two bit-shifting loops of the postgres BIT / VARBIT codec:
   to_sql shifts the BYTES big-endian bytes left by `padding` bits (bit_loop),
   from_sql shifts the payload right by `padding` bits in place (unshift_loop). *)
From Coq Require Import ZArith List Bool Lia.
From RV.Model Require Import Base Word.
From RV.Model Require Bytes Conv BaseConv CodecC.
From RV.Spec Require FmtC.
From RV.Proofs Require Import BaseFacts.
From RV.Proofs Require PfBytes PfConv.
From RV.Proofs Require Import PfCodecC.

(* a multiple of 2^k and a number below 2^k have disjoint bits *)
Lemma lor_disjoint k q b : 0 <= k -> 0 <= b < 2 ^ k -> Z.lor (q * 2 ^ k) b = q * 2 ^ k + b.
Proof.
  intros Hk Hb. rewrite <- Z.shiftl_mul_pow2 by lia.
  assert (HL : Z.land (Z.shiftl q k) b = 0).
  { apply Z.bits_inj'. intros n Hn. rewrite Z.land_spec, Z.bits_0.
    destruct (Z.lt_ge_cases n k).
    - rewrite Z.shiftl_spec_low by lia. reflexivity.
    - destruct (Z.eq_dec b 0) as [->|]; [rewrite Z.bits_0; apply andb_false_r|].
      rewrite (Z.bits_above_log2 b n); [apply andb_false_r| lia |].
      apply Z.log2_lt_pow2; [lia|]. assert (2 ^ k <= 2 ^ n) by (apply Z.pow_le_mono_r; lia). lia. }
  rewrite <- Z.lxor_lor, <- Z.add_nocarry_lxor by exact HL. reflexivity.
Qed.

Lemma pow2_8 pad : 0 <= pad <= 8 -> 2 ^ pad * 2 ^ (8 - pad) = 256.
Proof. intros H. rewrite <- Z.pow_add_r by lia. replace (pad + (8 - pad)) with 8 by lia. reflexivity. Qed.

Lemma be_value_cons x l : FmtC.be_value (x :: l) = x * 256 ^ lenZ l + FmtC.be_value l.
Proof.
  unfold FmtC.be_value. cbn [FmtC.be_value_acc]. rewrite !be_value_acc_spec. lia.
Qed.
Lemma be_value_nil : FmtC.be_value [] = 0. Proof. reflexivity. Qed.

(* ---------- to_sql: bit_loop ---------- *)
(* (c << pad) as u8, and c >> (8 - pad) *)
Lemma shl8_split c pad : 0 <= pad < 8 -> 0 <= c < 256 ->
  (c * 2 ^ pad) mod 256 = c * 2 ^ pad - 256 * (c / 2 ^ (8 - pad))
  /\ (c * 2 ^ pad) mod 256 = (c mod 2 ^ (8 - pad)) * 2 ^ pad.
Proof.
  intros Hp Hc. pose proof (pow2_8 pad ltac:(lia)) as H8.
  assert (0 < 2 ^ pad) by (apply Z.pow_pos_nonneg; lia).
  assert (0 < 2 ^ (8 - pad)) by (apply Z.pow_pos_nonneg; lia).
  assert (E : (c * 2 ^ pad) mod 256 = (c mod 2 ^ (8 - pad)) * 2 ^ pad).
  { rewrite <- H8, (Z.mul_comm (2 ^ pad) (2 ^ (8 - pad))). apply Z.mul_mod_distr_r. all: lia. }
  split; [|exact E]. rewrite E.
  assert (Hnz : 2 ^ (8 - pad) <> 0) by lia.
  pose proof (Z.div_mod c (2 ^ (8 - pad)) Hnz) as Hdm.
  pose proof (Z.mod_pos_bound c (2 ^ (8 - pad)) ltac:(lia)).
  set (q := c / 2 ^ (8 - pad)) in *. set (r := c mod 2 ^ (8 - pad)) in *.
  rewrite <- H8. rewrite Hdm at 1. ring.
Qed.

Lemma bit_loop_spec pad : 0 <= pad < 8 -> forall rest c,
  Forall Bytes.isbyte (c :: rest) ->
  exists O, CodecC.bit_loop rest pad ((c * 2 ^ pad) mod 256) = Val O
    /\ lenZ O = 1 + lenZ rest /\ Forall Bytes.isbyte O
    /\ FmtC.be_value O
       = FmtC.be_value (c :: rest) * 2 ^ pad - (c / 2 ^ (8 - pad)) * 256 ^ (1 + lenZ rest).
Proof.
  intros Hp. pose proof (pow2_8 pad ltac:(lia)) as H8.
  assert (Hpp : 0 < 2 ^ pad) by (apply Z.pow_pos_nonneg; lia).
  assert (Hqq : 0 < 2 ^ (8 - pad)) by (apply Z.pow_pos_nonneg; lia).
  induction rest as [|d t IH]; intros c Hby.
  - inversion Hby as [|? ? Hc _]; subst. unfold Bytes.isbyte in Hc.
    exists [(c * 2 ^ pad) mod 256]. cbn [CodecC.bit_loop]. split; [reflexivity|].
    split; [reflexivity|]. split.
    + constructor; [|constructor]. unfold Bytes.isbyte. apply Z.mod_pos_bound. lia.
    + rewrite !be_value_cons, be_value_nil. unfold lenZ. cbn [length Z.of_nat].
      destruct (shl8_split c pad Hp Hc) as [E _]. rewrite E. lia.
  - inversion Hby as [|? ? Hc Hby']; subst. unfold Bytes.isbyte in Hc.
    destruct (IH d Hby') as (O' & HO & HlO & HbO & HvO).
    inversion Hby' as [|? ? Hd _]; subst. unfold Bytes.isbyte in Hd.
    cbn [CodecC.bit_loop].
    set (hi := d / 2 ^ (8 - pad)).
    assert (Hhi : 0 <= hi < 2 ^ pad).
    { unfold hi. split; [apply Z.div_pos; lia|]. apply Z.div_lt_upper_bound; [lia|]. lia. }
    assert (Ehi : (if 0 <? pad then CodecC.shr8 d (8 - pad) else Val 0) = Val hi).
    { destruct (Z.ltb_spec 0 pad).
      - unfold CodecC.shr8. destruct (Z.leb_spec 0 (8 - pad)); [|lia].
        destruct (Z.ltb_spec (8 - pad) 8); [reflexivity|lia].
      - unfold hi. assert (pad = 0) by lia. subst pad. cbn. rewrite Z.div_small by lia. reflexivity. }
    rewrite Ehi. cbn [obind].
    assert (Esh : CodecC.shl8 d pad = Val ((d * 2 ^ pad) mod 256)).
    { unfold CodecC.shl8. destruct (Z.leb_spec 0 pad); [|lia]. destruct (Z.ltb_spec pad 8); [reflexivity|lia]. }
    rewrite Esh. cbn [obind]. rewrite HO. cbn [obind].
    destruct (shl8_split c pad Hp Hc) as [E1 E2].
    assert (Elor : Z.lor ((c * 2 ^ pad) mod 256) hi = (c * 2 ^ pad) mod 256 + hi).
    { rewrite E2. apply lor_disjoint; lia. }
    eexists. split; [reflexivity|]. split.
    { rewrite !PfBytes.lenZ_cons, HlO. lia. }
    split.
    { constructor; [|exact HbO]. rewrite Elor. unfold Bytes.isbyte. rewrite E2.
      pose proof (Z.mod_pos_bound c (2 ^ (8 - pad)) ltac:(lia)). nia. }
    rewrite be_value_cons, HvO, HlO, Elor, E1.
    rewrite (be_value_cons c (d :: t)), !PfBytes.lenZ_cons.
    pose proof (PfBytes.lenZ_nonneg t).
    replace (1 + (1 + lenZ t)) with (1 + (1 + lenZ t - 1) + 1) by lia.
    rewrite (Z.pow_add_r 256 (1 + (1 + lenZ t - 1)) 1) by lia.
    replace (1 + (1 + lenZ t - 1)) with (1 + lenZ t) by lia.
    fold hi. change (256 ^ 1) with 256. ring.
Qed.

(* the whole BIT / VARBIT body: the BYTES big-endian bytes of v, shifted *)
Lemma bit_body_spec bits a :
  0 < bits -> canon bits a ->
  let pad := 8 * Bytes.nbytes bits - bits in
  exists b0 rest, rev (Bytes.as_le_bytes bits a) = b0 :: rest
    /\ exists body, (do shifted <- CodecC.shl8 b0 pad ; CodecC.bit_loop rest pad shifted) = Val body
    /\ body = FmtC.be_bytes (FmtC.SBYTES bits) (Z.shiftl (eval a) pad).
Proof.
  intros Hb Hc pad. pose proof (PfBytes.nbytes_bounds bits ltac:(lia)) as Hnb.
  assert (Hp : 0 <= pad < 8) by (unfold pad; lia).
  assert (Hpp : 0 < 2 ^ pad) by (apply Z.pow_pos_nonneg; lia).
  rewrite PfBytes.as_le_bytes_spec by (try lia; exact Hc).
  set (n := Bytes.nbytesN bits). set (v := eval a).
  assert (HnZ : Z.of_nat n = Bytes.nbytes bits) by (apply PfBytes.nbytesN_Z; lia).
  pose proof (canon_range bits a ltac:(lia) Hc) as Hv. fold v in Hv.
  assert (Hlen : length (rev (Bytes.le_digits n v)) = n) by (rewrite rev_length; apply PfBytes.le_digits_length).
  destruct (rev (Bytes.le_digits n v)) as [|b0 rest] eqn:Er.
  { cbn in Hlen. lia. }
  exists b0, rest. split; [reflexivity|].
  assert (Hby : Forall Bytes.isbyte (b0 :: rest)).
  { rewrite <- Er. apply Forall_rev, PfBytes.le_digits_isbyte. }
  assert (Hval : FmtC.be_value (b0 :: rest) = v).
  { rewrite <- Er, be_value_spec, rev_involutive, PfBytes.le_value_le_digits, HnZ.
    apply Z.mod_small. pose proof (PfBytes.pow_bits_le_bytes bits ltac:(lia)). lia. }
  destruct (bit_loop_spec pad Hp rest b0 Hby) as (O & HO & HlO & HbO & HvO).
  inversion Hby as [|? ? Hb0 _]; subst. unfold Bytes.isbyte in Hb0.
  assert (Esh : CodecC.shl8 b0 pad = Val ((b0 * 2 ^ pad) mod 256)).
  { unfold CodecC.shl8. destruct (Z.leb_spec 0 pad); [|lia]. destruct (Z.ltb_spec pad 8); [reflexivity|lia]. }
  exists O. rewrite Esh. cbn [obind]. split; [exact HO|].
  (* the top byte carries no bit above position 8 - pad *)
  assert (HlenZ : lenZ rest = Bytes.nbytes bits - 1).
  { cbn [length] in Hlen. unfold lenZ. lia. }
  assert (Htop : b0 / 2 ^ (8 - pad) = 0).
  { apply Z.div_small. split; [lia|].
    rewrite be_value_cons in Hval. pose proof (be_value_range rest ltac:(now inversion Hby)) as Hr.
    assert (H256 : 0 < 256 ^ lenZ rest) by (apply Z.pow_pos_nonneg; [lia|rewrite HlenZ; lia]).
    assert (Hbits : 2 ^ bits = 2 ^ (8 - pad) * 256 ^ lenZ rest).
    { rewrite HlenZ. replace 256 with (2 ^ 8) by reflexivity. rewrite <- Z.pow_mul_r, <- Z.pow_add_r by lia.
      f_equal. unfold pad. lia. }
    assert (0 < 2 ^ (8 - pad)) by (apply Z.pow_pos_nonneg; lia). nia. }
  rewrite Htop, Hval in HvO.
  rewrite be_bytes_spec, SBYTES_nbytes. fold n. rewrite <- (rev_involutive O). f_equal.
  replace (Z.to_nat (Bytes.nbytes bits)) with n by (unfold n, Bytes.nbytesN; reflexivity).
  symmetry. apply PfBytes.le_digits_unique.
  - rewrite rev_length. unfold lenZ in HlO. cbn [length] in Hlen. lia.
  - now apply Forall_rev.
  - rewrite <- be_value_spec, HvO, Z.shiftl_mul_pow2 by lia. lia.
Qed.

(* ---------- from_sql: unshift_loop ---------- *)
Section Unshift.
  Variable pad : Z.
  Hypothesis Hp : 0 < pad < 8.

  Definition newbyte (x y : Z) : Z := x / 2 ^ pad + (y mod 2 ^ pad) * 2 ^ (8 - pad).

  (* little-endian view: element j receives the low bits of element j + 1 *)
  Fixpoint shr_le (q : list Z) : list Z :=
    match q with
    | [] => []
    | x :: t => newbyte x (hd 0 t) :: shr_le t
    end.
  (* the same with the most significant element left as it is (the state after the loop) *)
  Fixpoint shr_le' (q : list Z) : list Z :=
    match q with
    | [] => []
    | x :: t => match t with [] => [x] | _ => newbyte x (hd 0 t) :: shr_le' t end
    end.

  Let Hpp : 0 < 2 ^ pad. Proof. apply Z.pow_pos_nonneg; lia. Qed.
  Let Hqq : 0 < 2 ^ (8 - pad). Proof. apply Z.pow_pos_nonneg; lia. Qed.
  Let H8 : 2 ^ pad * 2 ^ (8 - pad) = 256. Proof. apply pow2_8; lia. Qed.

  Lemma newbyte_byte x y : Bytes.isbyte x -> Bytes.isbyte (newbyte x y).
  Proof.
    unfold Bytes.isbyte, newbyte. intros Hx.
    pose proof (Z.mod_pos_bound y (2 ^ pad) Hpp).
    assert (0 <= x / 2 ^ pad < 2 ^ (8 - pad)).
    { split; [apply Z.div_pos; lia|]. apply Z.div_lt_upper_bound; lia. }
    nia.
  Qed.

  Lemma newbyte_model x y : Bytes.isbyte x -> Bytes.isbyte y ->
    (do lo <- CodecC.shr8 x pad ; do j <- Val y ; do s <- Bytes.usub 8 pad ;
     do hi <- CodecC.shl8 j s ; Val (Z.lor lo hi)) = Val (newbyte x y).
  Proof.
    intros Hx Hy. unfold CodecC.shr8, CodecC.shl8, Bytes.usub, Bytes.isbyte in *.
    destruct (Z.leb_spec 0 pad); [|lia]. destruct (Z.ltb_spec pad 8); [|lia]. cbn [andb obind].
    destruct (Z.ltb_spec 8 pad); [lia|]. cbn [obind].
    destruct (Z.leb_spec 0 (8 - pad)); [|lia]. destruct (Z.ltb_spec (8 - pad) 8); [|lia]. cbn [andb obind].
    f_equal. unfold newbyte.
    assert (E : (y * 2 ^ (8 - pad)) mod 256 = (y mod 2 ^ pad) * 2 ^ (8 - pad)).
    { rewrite <- H8. apply Z.mul_mod_distr_r. all: lia. }
    rewrite E, Z.lor_comm, lor_disjoint; [lia|lia|].
    split; [apply Z.div_pos; lia|]. apply Z.div_lt_upper_bound; lia.
  Qed.

  Lemma shr_le_length q : length (shr_le q) = length q.
  Proof. induction q; cbn; congruence. Qed.
  Lemma shr_le_bytes q : Forall Bytes.isbyte q -> Forall Bytes.isbyte (shr_le q).
  Proof. induction 1; cbn [shr_le]; constructor; auto using newbyte_byte. Qed.

  Lemma shr_le_value q : Forall Bytes.isbyte q ->
    Bytes.le_value (shr_le q) = Bytes.le_value q / 2 ^ pad.
  Proof.
    induction 1 as [|x t Hx Ht IH]; [reflexivity|].
    cbn [shr_le Bytes.le_value]. rewrite IH. unfold newbyte, Bytes.isbyte in *.
    set (L := Bytes.le_value t).
    assert (HL : L mod 2 ^ pad = hd 0 t mod 2 ^ pad).
    { unfold L. destruct t as [|h t']; [reflexivity|]. cbn [hd Bytes.le_value].
      rewrite <- H8. rewrite <- Z.mul_assoc, (Z.mul_comm (2 ^ pad)), Z.mod_add by lia. reflexivity. }
    rewrite <- HL.
    replace (x + 256 * L) with (x + (2 ^ (8 - pad) * L) * 2 ^ pad) by (rewrite <- H8; ring).
    rewrite Z.div_add by lia.
    pose proof (Z.div_mod L (2 ^ pad) ltac:(lia)). rewrite <- H8. nia.
  Qed.

  (* shr_le and shr_le' differ in the last element only *)
  Lemma shr_le_snoc q0 : forall p0,
    exists S, shr_le' (q0 ++ [p0]) = S ++ [p0] /\ shr_le (q0 ++ [p0]) = S ++ [p0 / 2 ^ pad].
  Proof.
    induction q0 as [|x t IH]; intros p0.
    - exists []. cbn [app shr_le shr_le' hd]. unfold newbyte. split; [reflexivity|].
      rewrite Z.mod_0_l by lia. f_equal. lia.
    - destruct (IH p0) as (S & E1 & E2). exists (newbyte x (hd 0 (t ++ [p0])) :: S).
      cbn [app shr_le shr_le']. rewrite E1, E2.
      destruct (t ++ [p0]) eqn:Et; [destruct t; discriminate|]. split; reflexivity.
  Qed.

  Lemma unshift_loop_spec : forall k pre x done,
    length pre = k -> Forall Bytes.isbyte (pre ++ [x]) ->
    CodecC.unshift_loop k (pre ++ x :: done) pad = Val (rev (shr_le' (x :: rev pre)) ++ done).
  Proof.
    induction k as [|k IH]; intros pre x done Hl Hby.
    - destruct pre; [|discriminate]. reflexivity.
    - destruct (list_snoc_inv pre) as (pre0 & y & ->); [intros ->; discriminate|].
      rewrite app_length in Hl. cbn [length] in Hl.
      assert (Hl0 : length pre0 = k) by lia.
      cbn [CodecC.unshift_loop].
      assert (Hi : lenZ (pre0 ++ [y]) = Z.of_nat (S k)).
      { unfold lenZ. rewrite app_length. cbn [length]. lia. }
      rewrite (PfBytes.idx_app_mid (pre0 ++ [y]) x done _ Hi).
      cbn [obind].
      assert (Hx : Bytes.isbyte x /\ Bytes.isbyte y /\ Forall Bytes.isbyte (pre0 ++ [y])).
      { apply Forall_app in Hby. destruct Hby as [H1 H2]. inversion H2; subst.
        split; [assumption|]. split; [|assumption]. apply Forall_app in H1. destruct H1 as [_ H1]. now inversion H1. }
      destruct Hx as (Hx & Hy & Hby0).
      assert (Eusub : Bytes.usub (Z.of_nat (S k)) 1 = Val (Z.of_nat k)).
      { unfold Bytes.usub. destruct (Z.ltb_spec (Z.of_nat (S k)) 1); [lia|]. f_equal. lia. }
      assert (Eidx : Bytes.idx ((pre0 ++ [y]) ++ x :: done) (Z.of_nat k) = Val y).
      { rewrite <- app_assoc. cbn [app]. apply PfBytes.idx_app_mid. unfold lenZ. lia. }
      pose proof (newbyte_model x y Hx Hy) as Hnb.
      unfold CodecC.shr8 in *. destruct ((0 <=? pad) && (pad <? 8)) eqn:Eg; [|cbn in Hnb; discriminate].
      cbn [obind] in *. rewrite Eusub. cbn [obind]. rewrite Eidx. cbn [obind].
      destruct (Bytes.usub 8 pad) as [s| | | |] eqn:Es; cbn [obind] in *; try discriminate.
      destruct (CodecC.shl8 y s) as [hi| | | |] eqn:Eh; cbn [obind] in *; try discriminate.
      inversion Hnb as [Hnb']. rewrite Hnb'.
      rewrite (PfBytes.upd_app_mid (pre0 ++ [y]) x done _ (newbyte x y) Hi). cbn [obind].
      rewrite <- app_assoc. cbn [app].
      rewrite (IH pre0 y (newbyte x y :: done) Hl0 Hby0).
      f_equal. rewrite rev_app_distr. cbn [rev app shr_le' hd].
      rewrite <- app_assoc. reflexivity.
  Qed.
End Unshift.

(* the whole "shift padding to the other end" block of from_sql on a payload *)
Lemma unshift_spec pad raw :
  0 <= pad < 8 -> Forall Bytes.isbyte raw -> (0 < pad -> raw <> []) ->
  exists raw',
    (if 0 <? pad then
       do r <- CodecC.unshift_loop (length raw - 1) raw pad ;
       do r0 <- Bytes.idx r 0 ; do r0 <- CodecC.shr8 r0 pad ; Bytes.upd r 0 r0
     else Val raw) = Val raw'
    /\ length raw' = length raw /\ Forall Bytes.isbyte raw'
    /\ FmtC.be_value raw' = FmtC.be_value raw / 2 ^ pad.
Proof.
  intros Hp Hby Hne. destruct (Z.ltb_spec 0 pad) as [Hpos|H0].
  - specialize (Hne Hpos).
    destruct (list_snoc_inv raw Hne) as (pre & x & ->).
    assert (Hpd : 0 < pad < 8) by lia.
    rewrite app_length. cbn [length]. replace (length pre + 1 - 1)%nat with (length pre) by lia.
    pose proof (unshift_loop_spec pad Hpd (length pre) pre x [] eq_refl Hby) as HL.
    rewrite HL. cbn [obind]. rewrite app_nil_r.
    set (q := x :: rev pre).
    assert (Hq : q = rev (pre ++ [x])) by (unfold q; rewrite rev_app_distr; reflexivity).
    assert (Hqb : Forall Bytes.isbyte q) by (rewrite Hq; now apply Forall_rev).
    destruct (list_snoc_inv q ltac:(discriminate)) as (q0 & p0 & Eq).
    destruct (shr_le_snoc pad Hpd q0 p0) as (S & E1 & E2).
    rewrite Eq, E1, rev_app_distr. cbn [rev app].
    unfold Bytes.idx. cbn [Z.ltb Z.to_nat nth_error obind].
    assert (Hp0 : Bytes.isbyte p0).
    { rewrite Eq in Hqb. apply Forall_app in Hqb. destruct Hqb as [_ H]. now inversion H. }
    unfold CodecC.shr8. destruct (Z.leb_spec 0 pad); [|lia]. destruct (Z.ltb_spec pad 8); [|lia].
    cbn [andb obind]. unfold Bytes.upd. rewrite PfBytes.lenZ_cons.
    pose proof (PfBytes.lenZ_nonneg (rev S)).
    destruct (Z.ltb_spec 0 (1 + lenZ (rev S))); [|lia]. cbn [Z.leb andb Z.to_nat Bytes.set_nth].
    assert (Hlen' : length (rev (shr_le pad q)) = (length pre + 1)%nat).
    { rewrite rev_length, shr_le_length, Hq, rev_length, app_length. reflexivity. }
    assert (Hby' : Forall Bytes.isbyte (rev (shr_le pad q))) by (apply Forall_rev, shr_le_bytes; assumption).
    assert (Hval' : FmtC.be_value (rev (shr_le pad q)) = FmtC.be_value (pre ++ [x]) / 2 ^ pad).
    { rewrite be_value_spec, rev_involutive, shr_le_value by assumption.
      rewrite Hq, be_value_spec. reflexivity. }
    exists (rev (shr_le pad q)). split; [|auto].
    rewrite Eq, E2, rev_app_distr. reflexivity.
  - assert (pad = 0) by lia. subst pad. exists raw. split; [reflexivity|].
    split; [reflexivity|]. split; [assumption|]. now rewrite Z.div_1_r.
Qed.
