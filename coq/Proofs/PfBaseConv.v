(* Proofs/PfBaseConv.v — src/base_convert.rs: the digit spigot yields the positional digits;
   from_base_le / from_base_be compute the denoted value or an applicable error. *)
From Coq Require Import ZArith List Bool Lia.
From RV.Model Require Import Base Word Limbs BaseConv.
From RV.Proofs Require Import BaseFacts PfPositional.
From RV.Run Require Import RunC09.
Import ListNotations.
Local Open Scope Z_scope.

(* ================= SpigotLittle::next ================= *)
(* value of a limb list given most significant limb first *)
Definition evalr (rl : list Z) : Z := eval (rev rl).

Lemma evalr_cons x t : evalr (x :: t) = x * B ^ Z.of_nat (length t) + evalr t.
Proof. unfold evalr. cbn [rev]. rewrite eval_app, rev_length. cbn [eval]. ring. Qed.

Lemma evalr_nonneg rl : Forall inW rl -> 0 <= evalr rl.
Proof. intros H. unfold evalr. apply eval_bound. now apply Forall_rev. Qed.

Lemma lor_shift_add a x : 0 <= a -> 0 <= x < B -> Z.lor (a * B) x = a * B + x.
Proof.
  intros Ha Hx. rewrite B_pow in *.
  rewrite <- Z.shiftl_mul_pow2 by lia.
  rewrite <- Z.lxor_lor, <- Z.add_nocarry_lxor; [reflexivity| |].
  - apply Z.bits_inj'. intros n Hn. rewrite Z.land_spec, Z.bits_0.
    destruct (Z.lt_ge_cases n 64).
    + rewrite Z.shiftl_spec_low by lia. reflexivity.
    + rewrite (Z.bits_above_log2 x n); [apply andb_false_r| lia |].
      destruct (Z.eq_dec x 0) as [->|]; [cbn; lia|].
      apply Z.log2_lt_pow2; [lia|]. assert (2 ^ 64 <= 2 ^ n) by (apply Z.pow_le_mono_r; lia). lia.
  - apply Z.bits_inj'. intros n Hn. rewrite Z.land_spec, Z.bits_0.
    destruct (Z.lt_ge_cases n 64).
    + rewrite Z.shiftl_spec_low by lia. reflexivity.
    + rewrite (Z.bits_above_log2 x n); [apply andb_false_r| lia |].
      destruct (Z.eq_dec x 0) as [->|]; [cbn; lia|].
      apply Z.log2_lt_pow2; [lia|]. assert (2 ^ 64 <= 2 ^ n) by (apply Z.pow_le_mono_r; lia). lia.
Qed.

Lemma BB_B2 : BB = B * B. Proof. reflexivity. Qed.

Lemma spigot_loop_spec base : 1 <= base < B ->
  forall rl zero rem, Forall inW rl -> 0 <= zero -> 0 <= rem < base ->
  exists q z r,
    spigot_loop rl base zero rem = Val (q, z, r) /\
    length q = length rl /\ Forall inW q /\ 0 <= r < base /\
    evalr q * base + r = rem * B ^ Z.of_nat (length rl) + evalr rl /\
    (z = 0 <-> zero = 0 /\ evalr rl = 0).
Proof.
  intros Hb. induction rl as [|x t IH]; intros zero rem Hw Hz Hr.
  - exists [], zero, rem. cbn [spigot_loop length].
    split; [reflexivity|]. split; [reflexivity|]. split; [constructor|]. split; [exact Hr|].
    unfold evalr. cbn [rev eval]. change (Z.of_nat 0) with 0. rewrite Z.pow_0_r.
    split; [lia|tauto].
  - inversion Hw as [|? ? Hx Ht]; subst. cbn [spigot_loop].
    destruct (Z.eqb_spec base 0); [lia|].
    assert (Hrem : Z.lor ((rem * B) mod BB) x = rem * B + x).
    { rewrite Z.mod_small; [apply lor_shift_add; [lia|exact Hx]|].
      rewrite BB_B2. unfold inW in Hx. nia. }
    rewrite Hrem. set (R := rem * B + x).
    assert (HR : 0 <= R < base * B) by (unfold R, inW in *; nia).
    assert (Hq : 0 <= R / base < B).
    { split; [apply Z.div_pos; lia|]. apply Z.div_lt_upper_bound; lia. }
    rewrite (Z.mod_small (R / base) B) by exact Hq.
    assert (Hm : 0 <= R mod base < base) by (apply Z.mod_pos_bound; lia).
    assert (Hz' : 0 <= Z.lor zero x) by (apply Z.lor_nonneg; unfold inW in Hx; lia).
    destruct (IH (Z.lor zero x) (R mod base) Ht Hz' Hm)
      as (q & z & r & E & Hlen & Hwq & Hrr & Hval & Hzero).
    rewrite E. cbn [obind]. exists (R / base :: q), z, r.
    split; [reflexivity|]. split; [cbn [length]; lia|]. split; [constructor; auto|].
    split; [exact Hrr|]. split.
    + rewrite !evalr_cons, Hlen. cbn [length]. rewrite Nat2Z.inj_succ, Z.pow_succ_r by lia.
      pose proof (Z.div_mod R base ltac:(lia)) as Hdm. unfold R in *.
      set (P := B ^ Z.of_nat (length t)) in *. nia.
    + rewrite Hzero, Z.lor_eq_0_iff, evalr_cons.
      pose proof (evalr_nonneg t Ht). pose proof (Bn_pos (length t)). unfold inW in Hx.
      split.
      * intros ((Hz0 & Hx0) & He). subst. split; [reflexivity|]. lia.
      * intros (Hz0 & He). assert (x = 0) by nia. subst. rewrite Z.mul_0_l in He. lia.
Qed.

Lemma spigot_next_spec base limbs : 1 <= base < B -> Forall inW limbs ->
  exists l',
    spigot_next base limbs =
      Val (l', if eval limbs =? 0 then None else Some (eval limbs mod base)) /\
    length l' = length limbs /\ Forall inW l' /\ eval l' = eval limbs / base.
Proof.
  intros Hb Hw. unfold spigot_next.
  destruct (spigot_loop_spec base Hb (rev limbs) 0 0 (Forall_rev Hw) ltac:(lia) ltac:(lia))
    as (q & z & r & E & Hlen & Hwq & Hrr & Hval & Hzero).
  rewrite E. cbn [obind]. exists (rev q).
  unfold evalr in *. rewrite rev_involutive in *. rewrite Z.mul_0_l, Z.add_0_l in Hval.
  assert (Hdiv : eval (rev q) = eval limbs / base /\ r = eval limbs mod base).
  { split; [apply Z.div_unique with (r := r) | apply Z.mod_unique with (q := eval (rev q))]; lia. }
  destruct Hdiv as [Hd Hm].
  split.
  - f_equal. f_equal. destruct (Z.eqb_spec z 0) as [Ez|Ez]; destruct (Z.eqb_spec (eval limbs) 0) as [Ev|Ev];
      try reflexivity.
    + exfalso. apply Ev. apply Hzero. exact Ez.
    + exfalso. apply Ez. apply Hzero. auto.
    + rewrite Z.mod_small by lia. now rewrite Hm.
  - rewrite rev_length, Hlen, rev_length. split; [reflexivity|]. split; [now apply Forall_rev|exact Hd].
Qed.

Lemma spigot_collect_spec base : 2 <= base < B ->
  forall f limbs, Forall inW limbs -> eval limbs < 2 ^ Z.of_nat f ->
  spigot_collect (S f) base limbs = Val (digits_le base (eval limbs)).
Proof.
  intros Hb. induction f as [|f IH]; intros limbs Hw Hv.
  - cbn [spigot_collect]. destruct (spigot_next_spec base limbs ltac:(lia) Hw) as (l' & E & _).
    rewrite E. cbn [obind]. pose proof (eval_bound limbs Hw). cbn in Hv.
    assert (eval limbs = 0) as -> by lia. cbn. reflexivity.
  - change (spigot_collect (S (S f)) base limbs) with
      (do r <- spigot_next base limbs ;
       match r with
       | (_, None) => Val []
       | (limbs', Some d) => do ds <- spigot_collect (S f) base limbs' ; Val (d :: ds)
       end).
    destruct (spigot_next_spec base limbs ltac:(lia) Hw) as (l' & E & Hlen & Hw' & Hev).
    rewrite E. cbn [obind]. pose proof (eval_bound limbs Hw) as [Hnn _].
    destruct (Z.eqb_spec (eval limbs) 0) as [E0|N0].
    + rewrite E0. reflexivity.
    + pose proof (div_lt_half base (eval limbs) f ltac:(lia) ltac:(lia)) as Hh.
      rewrite IH by (auto; rewrite Hev; lia). cbn [obind].
      rewrite (digits_le_step base (eval limbs)) by lia. now rewrite Hev.
Qed.

Theorem to_base_le_spec limbs base : Forall inW limbs -> 2 <= base < B ->
  BaseConv.to_base_le limbs base = Val (digits_le base (eval limbs)).
Proof.
  intros Hw Hb. unfold BaseConv.to_base_le. destruct (Z.ltb_spec 1 base); [|lia].
  unfold spigot_fuel. apply spigot_collect_spec; auto.
  pose proof (eval_bound limbs Hw) as [_ H']. rewrite Bn_pow2 in H'.
  replace (Z.of_nat (64 * length limbs)) with (64 * Z.of_nat (length limbs)) by lia. exact H'.
Qed.

Theorem to_base_be_spec limbs base : Forall inW limbs -> 2 <= base < B ->
  BaseConv.to_base_be limbs base = Val (digits_be base (eval limbs)).
Proof.
  intros Hw Hb. unfold BaseConv.to_base_be. destruct (Z.ltb_spec 1 base); [|lia].
  rewrite to_base_le_spec by auto. reflexivity.
Qed.

Lemma to_base_le_panic limbs base : base < 2 -> BaseConv.to_base_le limbs base = Panic.
Proof. intros H. unfold BaseConv.to_base_le. destruct (Z.ltb_spec 1 base); [lia|reflexivity]. Qed.
Lemma to_base_be_panic limbs base : base < 2 -> BaseConv.to_base_be limbs base = Panic.
Proof. intros H. unfold BaseConv.to_base_be. destruct (Z.ltb_spec 1 base); [lia|reflexivity]. Qed.

(* ================= limb kernels used by from_base_le ================= *)
Lemma lo_hi_split p : 0 <= p < B * B -> inW (lo p) /\ inW (hi p) /\ lo p + B * hi p = p.
Proof.
  intros Hp. unfold lo, hi, inW. pose proof B_pos.
  assert (0 <= p / B < B) by (split; [apply Z.div_pos; lia | apply Z.div_lt_upper_bound; lia]).
  rewrite (Z.mod_small (p / B) B) by lia.
  pose proof (Z.mod_pos_bound p B ltac:(lia)). pose proof (Z.div_mod p B ltac:(lia)). lia.
Qed.

Lemma addmul_nx1_loop_spec b : inW b ->
  forall lhs a carry, Forall inW lhs -> Forall inW a -> length lhs = length a -> inW carry ->
  let '(r, c) := addmul_nx1_loop lhs a b carry in
  length r = length lhs /\ Forall inW r /\ inW c /\
  eval r + B ^ Z.of_nat (length lhs) * c = eval lhs + eval a * b + carry.
Proof.
  intros Hb. induction lhs as [|x lhs IH]; intros a carry Hl Ha Hlen Hc.
  - destruct a; [|discriminate]. cbn [addmul_nx1_loop length eval].
    change (Z.of_nat 0) with 0. rewrite Z.pow_0_r. repeat split; auto; unfold inW in *; lia.
  - destruct a as [|y a]; [discriminate|]. cbn [addmul_nx1_loop].
    inversion Hl as [|? ? Hx Hl']; subst. inversion Ha as [|? ? Hy Ha']; subst.
    unfold muladd2. set (p := y * b + carry + x).
    assert (Hp : 0 <= p < B * B) by (unfold p, inW in *; nia).
    destruct (lo_hi_split p Hp) as (Hlo & Hhi & Hsum).
    specialize (IH a (hi p) Hl' Ha' ltac:(cbn in Hlen; lia) Hhi).
    destruct (addmul_nx1_loop lhs a b (hi p)) as [rs c]. destruct IH as (L & W & C & E).
    cbn [length]. split; [lia|]. split; [constructor; auto|]. split; [exact C|].
    rewrite Nat2Z.inj_succ, Z.pow_succ_r by lia. cbn [eval]. subst p.
    set (P := B ^ Z.of_nat (length lhs)) in *.
    transitivity (lo (y * b + carry + x) + B * (eval rs + P * c)); [ring|]. rewrite E.
    replace (lo (y * b + carry + x)) with (y * b + carry + x - B * hi (y * b + carry + x)) by lia.
    ring.
Qed.

Lemma mul_nx1_loop_spec a : inW a ->
  forall lhs carry, Forall inW lhs -> inW carry ->
  let '(r, c) := mul_nx1_loop lhs a carry in
  length r = length lhs /\ Forall inW r /\ inW c /\
  eval r + B ^ Z.of_nat (length lhs) * c = eval lhs * a + carry.
Proof.
  intros Ha. induction lhs as [|x lhs IH]; intros carry Hl Hc.
  - cbn [mul_nx1_loop length eval]. change (Z.of_nat 0) with 0. rewrite Z.pow_0_r.
    repeat split; auto; unfold inW in *; lia.
  - cbn [mul_nx1_loop]. inversion Hl as [|? ? Hx Hl']; subst.
    unfold muladd. set (p := x * a + carry).
    assert (Hp : 0 <= p < B * B) by (unfold p, inW in *; nia).
    destruct (lo_hi_split p Hp) as (Hlo & Hhi & Hsum).
    specialize (IH (hi p) Hl' Hhi).
    destruct (mul_nx1_loop lhs a (hi p)) as [rs c]. destruct IH as (L & W & C & E).
    cbn [length]. split; [lia|]. split; [constructor; auto|]. split; [exact C|].
    rewrite Nat2Z.inj_succ, Z.pow_succ_r by lia. cbn [eval]. subst p.
    set (P := B ^ Z.of_nat (length lhs)) in *.
    transitivity (lo (x * a + carry) + B * (eval rs + P * c)); [ring|]. rewrite E.
    replace (lo (x * a + carry)) with (x * a + carry - B * hi (x * a + carry)) by lia.
    ring.
Qed.

(* the test `overflow != 0 || limbs[LIMBS-1] > MASK` decides  2^BITS <= exact value *)
Lemma ovf_test bits r c N :
  0 < bits -> length r = nlimbsN bits -> Forall inW r -> 0 <= c ->
  eval r + B ^ Z.of_nat (length r) * c = N ->
  (negb (c =? 0) || (mask bits <? last r 0)) = (2 ^ bits <=? N) /\
  ((2 ^ bits <=? N) = false -> canon bits r /\ eval r = N).
Proof.
  intros Hb Hl Hw Hc HN. pose proof (eval_bound r Hw) as Hev.
  assert (Hle : 2 ^ bits <= B ^ Z.of_nat (length r)).
  { rewrite Hl, nlimbsN_Z, B_pow, <- Z.pow_mul_r by (try apply nlimbs_nonneg; lia).
    apply Z.pow_le_mono_r; [lia|]. pose proof (nlimbs_bounds bits Hb). lia. }
  destruct (Z.eqb_spec c 0) as [->|Nc]; cbn [negb orb].
  - rewrite Z.mul_0_r, Z.add_0_r in HN. subst N. rewrite last_gt_mask by auto.
    split; [reflexivity|]. intros Hf. apply Z.leb_gt in Hf.
    split; [|reflexivity]. repeat split; auto.
  - assert (2 ^ bits <= N) by nia. split.
    + symmetry. apply Z.leb_le. lia.
    + intros Hf. apply Z.leb_gt in Hf. lia.
Qed.

(* ================= from_base_be ================= *)
Lemma fbbe_inner_spec base : inW base ->
  forall limbs carry, Forall inW limbs -> inW carry ->
  exists r c, fbbe_inner limbs base carry = Val (r, c) /\
    length r = length limbs /\ Forall inW r /\ inW c /\
    eval r + B ^ Z.of_nat (length limbs) * c = eval limbs * base + carry.
Proof.
  intros Hb. induction limbs as [|x t IH]; intros carry Hw Hc.
  - exists [], carry. cbn [fbbe_inner length eval]. change (Z.of_nat 0) with 0.
    rewrite Z.pow_0_r. repeat split; auto; unfold inW in *; lia.
  - inversion Hw as [|? ? Hx Ht]; subst. cbn [fbbe_inner].
    set (p := carry + x * base).
    assert (Hp : 0 <= p < B * B) by (unfold p, inW in *; nia).
    destruct (Z.leb_spec BB p) as [L|_]; [rewrite BB_B2 in L; lia|].
    destruct (lo_hi_split p Hp) as (Hlo & Hhi & Hsum). unfold lo, hi in *.
    assert (Hpd : 0 <= p / B < B).
    { split; [apply Z.div_pos; pose proof B_pos; lia | apply Z.div_lt_upper_bound; pose proof B_pos; lia]. }
    rewrite (Z.mod_small (p / B) B) in Hhi, Hsum by lia.
    destruct (IH (p / B) Ht Hhi) as (r & c & E & L & W & C & V).
    rewrite E. cbn [obind fst snd]. exists (p mod B :: r), c.
    split; [reflexivity|]. cbn [length]. split; [lia|]. split; [constructor; auto|].
    split; [exact C|]. rewrite Nat2Z.inj_succ, Z.pow_succ_r by lia. cbn [eval].
    subst p. set (P := B ^ Z.of_nat (length t)) in *.
    transitivity ((carry + x * base) mod B + B * (eval r + P * c)); [ring|]. rewrite V.
    replace ((carry + x * base) mod B) with (carry + x * base - B * ((carry + x * base) / B)) by lia.
    ring.
Qed.

(* Horner accumulation *)
Definition horner (base acc : Z) (ds : list Z) : Z :=
  fold_left (fun a d => a * base + d) ds acc.
Lemma horner_cons base acc d t : horner base acc (d :: t) = horner base (acc * base + d) t.
Proof. reflexivity. Qed.
Lemma horner_value base ds : forall acc,
  horner base acc ds = acc * base ^ Z.of_nat (length ds) + value_be base ds.
Proof.
  induction ds as [|d t IH]; intros acc.
  - cbn [horner fold_left length]. change (Z.of_nat 0) with 0. rewrite Z.pow_0_r, value_be_nil. lia.
  - unfold horner in *. cbn [fold_left]. rewrite IH, value_be_cons. cbn [length].
    rewrite Nat2Z.inj_succ, Z.pow_succ_r by lia. ring.
Qed.
Lemma horner_mono base ds : 1 <= base -> Forall (fun d => 0 <= d) ds ->
  forall acc, 0 <= acc -> acc <= horner base acc ds.
Proof.
  intros Hb H. induction H as [|d t Hd Ht IH]; intros acc Ha; [cbn; lia|].
  unfold horner in *. cbn [fold_left]. specialize (IH (acc * base + d) ltac:(nia)). nia.
Qed.

Lemma split_bad_prefix_nonneg base ds : Forall inW ds ->
  Forall (fun d => 0 <= d) (fst (split_bad base ds)).
Proof.
  induction 1 as [|d t Hd Ht IH]; cbn [split_bad]; [constructor|].
  destruct (Z.leb_spec base d); [constructor|].
  destruct (split_bad base t) as [p b]. cbn [fst] in *. constructor; [unfold inW in Hd; lia | exact IH].
Qed.

Lemma split_bad_cons_lt base d t : d < base ->
  split_bad base (d :: t) = (d :: fst (split_bad base t), snd (split_bad base t)).
Proof.
  intros H. cbn [split_bad]. destruct (Z.leb_spec base d); [lia|].
  now destruct (split_bad base t).
Qed.
Lemma split_bad_cons_ge base d t : base <= d -> split_bad base (d :: t) = ([], Some d).
Proof. intros H. cbn [split_bad]. destruct (Z.leb_spec base d); [reflexivity|lia]. Qed.

(* outcome of the conversions, in terms of the specification's split_bad *)
Definition conv_ok (bits base : Z) (ds : list Z) (val : list Z -> Z) (r : res bcerr (list Z)) : Prop :=
  match r with
  | Ok l => split_bad base ds = (ds, None) /\ canon bits l /\ eval l = val ds
  | Err BOverflow => 2 ^ bits <= val (fst (split_bad base ds))
  | Err (BInvalidDigit d b) => snd (split_bad base ds) = Some d /\ b = base
  | Err (BInvalidBase _) => False
  end.

Lemma fbbe_loop_spec bits base : 0 <= bits -> 2 <= base < B ->
  forall ds result, Forall inW ds -> canon bits result ->
  exists r, fbbe_loop bits base ds result = Val r /\
            conv_ok bits base ds (horner base (eval result)) r.
Proof.
  intros Hbits Hb. induction ds as [|d t IH]; intros result Hds Hc.
  - exists (Ok result). cbn. auto.
  - inversion Hds as [|? ? Hd Ht]; subst. cbn [fbbe_loop].
    destruct (Z.leb_spec base d) as [L|L].
    { exists (Err (BInvalidDigit d base)). split; [reflexivity|].
      cbn [conv_ok]. rewrite split_bad_cons_ge by lia. auto. }
    pose proof (split_bad_cons_lt base d t L) as Hsb.
    destruct Hc as (Hlen & Hw & Hlt).
    destruct (fbbe_inner_spec base ltac:(unfold inW; lia) result d Hw Hd)
      as (r & c & E & Lr & Wr & Cr & Vr).
    rewrite E. cbn [obind].
    set (N := eval result * base + d) in *.
    assert (Htest : ((0 <? c) || (negb (Nat.eqb (length r) 0) && (mask bits <? last r 0)))
                    = (2 ^ bits <=? N) /\
                    ((2 ^ bits <=? N) = false -> canon bits r /\ eval r = N)).
    { destruct (Z.eq_dec bits 0) as [->|Nb].
      - assert (nlimbsN 0 = 0%nat) as Hn0 by reflexivity. rewrite Hn0 in Hlen.
        destruct result; [|discriminate]. destruct r; [|discriminate].
        cbn [length eval] in *. change (Z.of_nat 0) with 0 in Vr. rewrite Z.pow_0_r in Vr.
        cbn [Nat.eqb negb andb]. rewrite orb_false_r. change (2 ^ 0) with 1. unfold inW in Cr.
        split.
        + destruct (Z.ltb_spec 0 c); destruct (Z.leb_spec 1 N); try reflexivity; lia.
        + intros Hf. apply Z.leb_gt in Hf. split; [|lia]. repeat split; auto; cbn; lia.
      - assert (Hpos : 0 < bits) by lia.
        assert (Hne : Nat.eqb (length r) 0 = false).
        { apply Nat.eqb_neq. rewrite Lr, Hlen. pose proof (nlimbs_pos bits Hpos).
          pose proof (nlimbsN_Z bits Hbits). lia. }
        rewrite Hne. cbn [negb andb].
        rewrite <- Lr in Vr.
        destruct (ovf_test bits r c N Hpos ltac:(lia) Wr ltac:(unfold inW in Cr; lia) Vr) as [T1 T2].
        split; [|exact T2]. rewrite <- T1. f_equal. unfold inW in Cr.
        destruct (Z.ltb_spec 0 c); destruct (Z.eqb_spec c 0); try reflexivity; lia. }
    destruct Htest as [T1 T2]. rewrite T1.
    pose proof (split_bad_prefix_nonneg base t Ht) as Hnn.
    assert (HN0 : 0 <= N) by (unfold N, inW in *; pose proof (eval_bound result Hw); nia).
    destruct (Z.leb_spec (2 ^ bits) N) as [Lo|Lo].
    + exists (Err BOverflow). split; [reflexivity|]. cbn [conv_ok]. rewrite Hsb. cbn [fst].
      rewrite horner_cons. fold N.
      pose proof (horner_mono base _ ltac:(lia) Hnn N HN0). lia.
    + destruct (T2 eq_refl) as [Hcr Her].
      destruct (IH r Ht Hcr) as (r' & E' & Hok). exists r'. split; [exact E'|].
      rewrite Her in Hok.
      destruct r' as [l|e]; cbn [conv_ok] in *; rewrite Hsb; cbn [fst snd]; rewrite ?horner_cons; fold N.
      * destruct Hok as (S1 & S2 & S3). rewrite S1. cbn [fst snd]. auto.
      * destruct e; cbn [fst snd] in *; auto.
Qed.

Theorem from_base_be_spec bits base ds : 0 <= bits -> inW base -> Forall inW ds ->
  exists r, BaseConv.from_base_be bits base ds = Val r /\
    (base < 2 -> r = Err (BInvalidBase base)) /\
    (2 <= base -> conv_ok bits base ds (value_be base) r).
Proof.
  intros Hbits Hb Hds. unfold BaseConv.from_base_be.
  destruct (Z.ltb_spec base 2) as [L|L].
  - exists (Err (BInvalidBase base)). split; [reflexivity|]. split; [reflexivity|lia].
  - destruct (canon_uZERO bits Hbits) as [Hz Hz0].
    destruct (fbbe_loop_spec bits base Hbits ltac:(unfold inW in Hb; lia) ds (uZERO bits) Hds Hz)
      as (r & E & Hok).
    exists r. split; [exact E|]. split; [lia|]. intros _.
    rewrite Hz0 in Hok.
    assert (Hh : forall l, horner base 0 l = value_be base l).
    { intros l. rewrite horner_value. lia. }
    destruct r as [l|e]; cbn [conv_ok] in *.
    + now rewrite <- Hh.
    + destruct e; auto. now rewrite <- Hh.
Qed.

(* ================= from_base_le ================= *)
Lemma fble_zero_tail_spec base ds : 2 <= base -> Forall inW ds ->
  match fble_zero_tail base ds with
  | None => split_bad base ds = (ds, None) /\ value_le base ds = 0
  | Some BOverflow => 1 <= value_le base (fst (split_bad base ds))
  | Some (BInvalidDigit d b) => snd (split_bad base ds) = Some d /\ b = base
  | Some (BInvalidBase _) => False
  end.
Proof.
  intros Hb H. induction H as [|d t Hd Ht IH]; [cbn; auto|].
  cbn [fble_zero_tail]. destruct (Z.leb_spec base d) as [L|L].
  - rewrite split_bad_cons_ge by lia. auto.
  - rewrite (split_bad_cons_lt base d t L).
    pose proof (split_bad_prefix_nonneg base t Ht) as Hnn.
    pose proof (value_le_nonneg base _ ltac:(lia) Hnn) as Hv.
    destruct (Z.eqb_spec d 0) as [->|Nd]; cbn [negb].
    + destruct (fble_zero_tail base t) as [[| |d' b']|].
      * cbn [fst value_le]. nia.
      * exact IH.
      * cbn [snd]. exact IH.
      * destruct IH as [S1 S2]. rewrite S1. cbn [fst snd value_le]. rewrite S2. split; [reflexivity|lia].
    + cbn [fst value_le]. unfold inW in Hd. nia.
Qed.

Lemma uONE_spec bits : 0 < bits -> canon bits (uONE bits) /\ eval (uONE bits) = 1.
Proof.
  intros Hb. unfold uONE. pose proof (nlimbs_pos bits Hb). pose proof (nlimbsN_Z bits ltac:(lia)).
  destruct (nlimbsN bits) as [|n] eqn:E; [lia|].
  cbn [eval]. rewrite eval_repeat0. split; [|lia].
  unfold canon. rewrite E. cbn [length eval]. rewrite repeat_length, eval_repeat0.
  split; [reflexivity|]. split.
  - constructor; [unfold inW; pose proof B_pos; rewrite B_val; lia | apply Forall_inW_repeat0].
  - assert (2 ^ 1 <= 2 ^ bits) by (apply Z.pow_le_mono_r; lia). lia.
Qed.

Lemma fble_loop_spec bits base : 0 < bits -> 2 <= base < B ->
  forall ds result power, Forall inW ds -> canon bits result -> canon bits power ->
  1 <= eval power ->
  exists r, fble_loop bits base ds result power = Val r /\
    conv_ok bits base ds (fun l => eval result + eval power * value_le base l) r.
Proof.
  intros Hbits Hb. induction ds as [|d t IH]; intros result power Hds Hcr Hcp Hp1.
  - exists (Ok result). cbn [fble_loop conv_ok split_bad value_le]. repeat split; auto; try apply Hcr. lia.
  - inversion Hds as [|? ? Hd Ht]; subst. cbn [fble_loop].
    destruct (Z.leb_spec base d) as [L|L].
    { exists (Err (BInvalidDigit d base)). split; [reflexivity|].
      cbn [conv_ok]. rewrite split_bad_cons_ge by lia. auto. }
    pose proof (split_bad_cons_lt base d t L) as Hsb.
    pose proof (split_bad_prefix_nonneg base t Ht) as Hnn.
    pose proof (value_le_nonneg base _ ltac:(lia) Hnn) as Hvnn.
    destruct Hcr as (Lr & Wr & Vr). destruct Hcp as (Lp & Wp & Vp).
    unfold addmul_nx1. rewrite Lr, Lp, Nat.eqb_refl. cbn [obind].
    pose proof (addmul_nx1_loop_spec d Hd result power 0 Wr Wp ltac:(lia)
                  ltac:(unfold inW; pose proof B_pos; lia)) as A.
    destruct (addmul_nx1_loop result power d 0) as [r ov]. destruct A as (La & Wa & Ca & Ea).
    set (N := eval result + eval power * d) in *.
    rewrite <- La in Ea.
    destruct (ovf_test bits r ov N Hbits ltac:(lia) Wa ltac:(unfold inW in Ca; lia) ltac:(lia))
      as [T1 T2].
    rewrite T1. pose proof (eval_bound result Wr) as [R0 _].
    destruct (Z.leb_spec (2 ^ bits) N) as [Lo|Lo].
    { exists (Err BOverflow). split; [reflexivity|]. cbn [conv_ok]. rewrite Hsb.
      cbn [fst value_le]. unfold N in Lo. unfold inW in Hd. nia. }
    destruct (T2 eq_refl) as [Hcr' Her'].
    unfold mul_nx1.
    pose proof (mul_nx1_loop_spec base ltac:(unfold inW; lia) power 0 Wp
                  ltac:(unfold inW; pose proof B_pos; lia)) as M.
    destruct (mul_nx1_loop power base 0) as [pw ov2]. destruct M as (Lm & Wm & Cm & Em).
    rewrite <- Lm in Em.
    destruct (ovf_test bits pw ov2 (eval power * base) Hbits ltac:(lia) Wm
                ltac:(unfold inW in Cm; lia) ltac:(lia)) as [U1 U2].
    rewrite U1.
    destruct (Z.leb_spec (2 ^ bits) (eval power * base)) as [Po|Po].
    + (* power overflowed: remaining digits must be zero *)
      pose proof (fble_zero_tail_spec base t ltac:(lia) Ht) as Z.
      destruct (fble_zero_tail base t) as [[| |d' b']|].
      * exists (Err BOverflow). split; [reflexivity|]. cbn [conv_ok]. rewrite Hsb.
        cbn [fst value_le]. unfold N in *. unfold inW in Hd. nia.
      * destruct Z.
      * exists (Err (BInvalidDigit d' b')). split; [reflexivity|]. cbn [conv_ok]. rewrite Hsb.
        cbn [snd]. exact Z.
      * destruct Z as [Z1 Z2]. exists (Ok r). split; [reflexivity|]. cbn [conv_ok]. rewrite Hsb, Z1.
        cbn [fst snd value_le]. rewrite Z2. split; [reflexivity|]. split; [exact Hcr'|].
        rewrite Her'. unfold N. ring.
    + destruct (U2 eq_refl) as [Hcp' Hep'].
      destruct (IH r pw Ht Hcr' Hcp' ltac:(nia)) as (r' & E' & Hok).
      exists r'. split; [exact E'|]. rewrite Her', Hep' in Hok.
      destruct r' as [l|e]; cbn [conv_ok] in *; rewrite Hsb; cbn [fst snd value_le].
      * destruct Hok as (S1 & S2 & S3). rewrite S1. cbn [fst snd]. split; [reflexivity|].
        split; [exact S2|]. rewrite S3. unfold N. ring.
      * destruct e; cbn [fst snd] in *; auto. unfold N in Hok. 
        replace (eval result + eval power * (d + base * value_le base (fst (split_bad base t))))
          with (eval result + eval power * d + eval power * base * value_le base (fst (split_bad base t)))
          by ring. exact Hok.
Qed.

Theorem from_base_le_spec bits base ds : 0 <= bits -> inW base -> Forall inW ds ->
  exists r, BaseConv.from_base_le bits base ds = Val r /\
    (base < 2 -> r = Err (BInvalidBase base)) /\
    (2 <= base -> conv_ok bits base ds (value_le base) r).
Proof.
  intros Hbits Hb Hds. unfold BaseConv.from_base_le.
  destruct (Z.ltb_spec base 2) as [L|L].
  - exists (Err (BInvalidBase base)). split; [reflexivity|]. split; [reflexivity|lia].
  - destruct (Z.eqb_spec bits 0) as [->|Nb].
    + pose proof (fble_zero_tail_spec base ds L Hds) as Z.
      destruct (fble_zero_tail base ds) as [[| |d' b']|].
      * exists (Err BOverflow). split; [reflexivity|]. split; [lia|]. intros _. cbn [conv_ok].
        change (2 ^ 0) with 1. exact Z.
      * destruct Z.
      * exists (Err (BInvalidDigit d' b')). split; [reflexivity|]. split; [lia|]. intros _. exact Z.
      * destruct Z as [Z1 Z2]. exists (Ok (uZERO 0)). split; [reflexivity|]. split; [lia|]. intros _.
        cbn [conv_ok]. destruct (canon_uZERO 0 ltac:(lia)) as [C0 E0]. rewrite Z2. auto.
    + assert (Hpos : 0 < bits) by lia.
      destruct (canon_uZERO bits Hbits) as [Hz Hz0]. destruct (uONE_spec bits Hpos) as [Ho Ho1].
      destruct (fble_loop_spec bits base Hpos ltac:(unfold inW in Hb; lia) ds (uZERO bits) (uONE bits)
                  Hds Hz Ho ltac:(lia)) as (r & E & Hok).
      exists r. split; [exact E|]. split; [lia|]. intros _.
      rewrite Hz0, Ho1 in Hok.
      destruct r as [l|e]; cbn [conv_ok] in *.
      * destruct Hok as (S1 & S2 & S3). split; [exact S1|]. split; [exact S2|]. lia.
      * destruct e; auto. lia.
Qed.

(* ================= the executable specification ================= *)
Lemma spec_from_base_holds (le : bool) bits base ds r :
  0 <= bits -> inW base ->
  (base < 2 -> r = Err (BInvalidBase base)) ->
  (2 <= base -> conv_ok bits base ds (fun l => if le then value_le base l else value_be base l) r) ->
  spec_from_base le bits base ds (Val (bres_toks r)) = true.
Proof.
  intros Hbits Hb H1 H2. unfold spec_from_base.
  destruct (Z.ltb_spec base 2) as [L|L].
  - rewrite (H1 L). apply expect_refl.
  - specialize (H2 L). destruct (split_bad base ds) as [pre bad] eqn:E.
    destruct r as [l|[| |d b]]; cbn [conv_ok bres_toks bcerr_toks] in *; try rewrite E in H2;
      cbn [fst snd] in H2.
    + destruct H2 as (S1 & S2 & S3). injection S1 as -> ->. cbn [is_some negb andb].
      assert (Hv : (if le then value_le base ds else value_be base ds) = eval l)
        by (cbn beta in S3; destruct le; symmetry; exact S3).
      rewrite Hv. destruct S2 as (? & ? & Hlt).
      destruct (Z.leb_spec (2 ^ bits) (eval l)); [lia|]. cbn [negb andb].
      unfold U. rewrite canon_uint_of by (repeat split; auto).
      apply list_eqb_refl, Z.eqb_refl.
    + apply Z.leb_le. destruct le; exact H2.
    + destruct H2.
    + destruct H2 as [-> ->]. now rewrite !Z.eqb_refl.
Qed.
