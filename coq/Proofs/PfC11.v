(* Proofs/PfC11.v — every C11 call: the model's answer meets the executable specification. *)
From Coq Require Import ZArith List Bool Lia.
From RV.Model Require Import Base Word Add Redc.
From RV.Proofs Require Import BaseFacts PfAdd PfRedc.
From RV.Proofs Require PfC01.
From RV.Run Require Import RunC11.
Import ListNotations.
Local Open Scope Z_scope.

Lemma forallb_inWb l : Forall inW l -> forallb inWb l = true.
Proof.
  intros H. apply forallb_forall. intros x Hx. apply inWb_iff.
  rewrite Forall_forall in H. auto.
Qed.

Lemma pre_true a b m inv m0 :
  pre a b m inv m0 = true <-> (inv * m0) mod B = B - 1 /\ a < m /\ b < m.
Proof.
  unfold pre. rewrite <- B_pow, !andb_true_iff, Z.eqb_eq, !Z.ltb_lt. tauto.
Qed.

(* ---------- a violated requirement trips the first debug_assert ---------- *)
Lemma mul_redc_bad a b md inv :
  length a = length md -> length b = length md ->
  Forall inW a -> Forall inW b -> Forall inW md ->
  pre (eval a) (eval b) (eval md) inv (hd 0 md) = false ->
  Redc.mul_redc a b md inv = DebugPanic.
Proof.
  intros Hla Hlb Hwa Hwb Hwm Hp. destruct md as [|m0 md']; [reflexivity|].
  cbn [Redc.mul_redc]. cbn [hd] in Hp. rewrite w64_spec, !is_less_spec by auto.
  unfold pre in Hp. rewrite <- B_pow in Hp.
  destruct ((inv * m0) mod B =? B - 1); [|reflexivity].
  destruct (eval a <? eval (m0 :: md')); [|reflexivity].
  destruct (eval b <? eval (m0 :: md')); [discriminate|reflexivity].
Qed.

Lemma square_redc_bad a md inv :
  length a = length md -> Forall inW a -> Forall inW md ->
  pre (eval a) (eval a) (eval md) inv (hd 0 md) = false ->
  Redc.square_redc a md inv = DebugPanic.
Proof.
  intros Hla Hwa Hwm Hp. destruct md as [|m0 md']; [reflexivity|].
  cbn [Redc.square_redc]. cbn [hd] in Hp. rewrite w64_spec, !is_less_spec by auto.
  unfold pre in Hp. rewrite <- B_pow in Hp.
  destruct ((inv * m0) mod B =? B - 1); [|reflexivity].
  destruct (eval a <? eval (m0 :: md')); [discriminate|reflexivity].
Qed.

(* ---------- the contract on a model outcome ---------- *)
Definition post (a b md : list Z) (r : list Z) : Prop :=
  length r = length md /\ Forall inW r /\ 0 <= eval r < eval md /\
  (eval r * B ^ Z.of_nat (length md)) mod eval md = (eval a * eval b) mod eval md.

Lemma good_of_post a b md r :
  post a b md r -> good (length md) (eval a) (eval b) (eval md) (Val [TL r]) = true.
Proof.
  intros (Hl & Hw & Hr & Hc). unfold good.
  rewrite Hl, Nat.eqb_refl, (forallb_inWb r Hw), <- Bn_pow2, Hc, Z.eqb_refl.
  destruct (Z.ltb_spec (eval r) (eval md)); [reflexivity | lia].
Qed.

(* o is the outcome of the slice-level function: either the contract's result or DebugPanic *)
Lemma contract_lift a b md inv o :
  (pre (eval a) (eval b) (eval md) inv (hd 0 md) = true -> exists r, o = Val r /\ post a b md r) ->
  (pre (eval a) (eval b) (eval md) inv (hd 0 md) = false -> o = DebugPanic) ->
  contract a b md inv (lift o) = true.
Proof.
  intros Ht Hf. unfold contract.
  destruct (pre (eval a) (eval b) (eval md) inv (hd 0 md)).
  - destruct (Ht eq_refl) as (r & -> & Hpost). cbn [lift obind]. now apply good_of_post.
  - rewrite (Hf eq_refl). reflexivity.
Qed.

(* Self::from_limbs(result) and debug_assert!(result < modulus) pass on a reduced result *)
Lemma from_limbs_checked_ok bits md r :
  0 < bits -> canon bits md -> length r = length md -> Forall inW r -> eval r < eval md ->
  from_limbs_checked bits md r = Val r.
Proof.
  intros Hb (Hlm & Hwm & Hm) Hl Hw Hr. unfold from_limbs_checked.
  rewrite last_gt_mask by (auto; congruence).
  destruct (Z.leb_spec (2 ^ bits) (eval r)); [lia|]. rewrite andb_false_r.
  rewrite (PfC01.ult_spec bits r md) by (repeat split; auto; try congruence; lia).
  destruct (Z.ltb_spec (eval r) (eval md)); [reflexivity | lia].
Qed.

Theorem C11_all c : wf c -> spec c (run c) = true.
Proof.
  destruct c as [bits a b m inv | bits a m inv | bits a b m inv | bits a m inv];
    cbn [wf spec run].
  - (* Uint::mul_redc *)
    intros (Hb & Ha & Hbb & Hm & Hinv). unfold uint_mul_redc.
    destruct (Z.eqb_spec bits 0) as [-> | Hnz]; [reflexivity|].
    destruct Ha as (Hla & Hwa & Hva); destruct Hbb as (Hlb & Hwb & Hvb).
    pose proof Hm as (Hlm & Hwm & Hvm).
    apply contract_lift.
    + intros Hp. apply pre_true in Hp. destruct Hp as (Hi & Hlta & Hltb).
      destruct (mul_redc_spec a b m inv ltac:(congruence) ltac:(congruence) Hwa Hwb Hwm Hi Hlta Hltb)
        as (r & Hrun & Hl & Hw & Hr & Hc).
      exists r. rewrite Hrun. cbn [obind]. split; [|repeat split; auto; lia].
      apply from_limbs_checked_ok; auto; lia.
    + intros Hp. rewrite mul_redc_bad by (auto; congruence). reflexivity.
  - (* Uint::square_redc *)
    intros (Hb & Ha & Hm & Hinv). unfold uint_square_redc.
    destruct (Z.eqb_spec bits 0) as [-> | Hnz]; [reflexivity|].
    destruct Ha as (Hla & Hwa & Hva). pose proof Hm as (Hlm & Hwm & Hvm).
    apply contract_lift.
    + intros Hp. apply pre_true in Hp. destruct Hp as (Hi & Hlta & _).
      destruct (square_redc_spec a m inv ltac:(congruence) Hwa Hwm Hi Hlta)
        as (r & Hrun & Hl & Hw & Hr & Hc).
      exists r. rewrite Hrun. cbn [obind]. split; [|repeat split; auto; lia].
      apply from_limbs_checked_ok; auto; lia.
    + intros Hp. rewrite square_redc_bad by (auto; congruence). reflexivity.
  - (* algorithms::mul_redc *)
    intros ((Hla & Hwa) & (Hlb & Hwb) & (Hlm & Hwm) & Hinv).
    assert (length a = length m) by lia. assert (length b = length m) by lia.
    apply contract_lift.
    + intros Hp. apply pre_true in Hp. destruct Hp as (Hi & Hlta & Hltb).
      destruct (mul_redc_spec a b m inv ltac:(auto) ltac:(auto) Hwa Hwb Hwm Hi Hlta Hltb)
        as (r & Hrun & Hpost).
      exists r. split; [exact Hrun | exact Hpost].
    + intros Hp. apply mul_redc_bad; auto.
  - (* algorithms::square_redc *)
    intros ((Hla & Hwa) & (Hlm & Hwm) & Hinv).
    assert (length a = length m) by lia.
    apply contract_lift.
    + intros Hp. apply pre_true in Hp. destruct Hp as (Hi & Hlta & _).
      destruct (square_redc_spec a m inv ltac:(auto) Hwa Hwm Hi Hlta) as (r & Hrun & Hpost).
      exists r. split; [exact Hrun | exact Hpost].
    + intros Hp. apply square_redc_bad; auto.
Qed.
