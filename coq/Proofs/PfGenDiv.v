(* Proofs/PfGenDiv.v — the translated wrappers of src/div.rs and Uint::is_zero (src/cmp.rs) equal the
   functions of Model/UDiv.v.  The slice kernel algorithms::div is Model/Div.v div_kernel on both
   sides (outside the translated subset; C14 ties it to the code). *)
From Coq Require Import Lia ZifyBool.
From RV.Model Require Import Base Word Add Div UDiv.
From RV.Gen Require Import Prim Scalar.
From RV.Proofs Require Import BaseFacts PfDiv PfGenScalar PfGenAdd.

Lemma g_is_zero_eq bits limbs a : g_is_zero bits limbs a = is_zero bits a.
Proof. reflexivity. Qed.

Lemma g_div_rem_eq bits limbs a b : g_div_rem bits limbs a b = div_rem a b.
Proof. unfold g_div_rem, div_rem. destruct (div_kernel a b) as [[q r]| | | |]; reflexivity. Qed.

Lemma g_wrapping_div_eq bits limbs a b : g_wrapping_div bits limbs a b = wrapping_div a b.
Proof. unfold g_wrapping_div, wrapping_div. rewrite g_div_rem_eq. reflexivity. Qed.
Lemma g_wrapping_rem_eq bits limbs a b : g_wrapping_rem bits limbs a b = wrapping_rem a b.
Proof. unfold g_wrapping_rem, wrapping_rem. rewrite g_div_rem_eq. reflexivity. Qed.

Lemma g_checked_div_eq bits limbs a b : g_checked_div bits limbs a b = checked_div bits a b.
Proof. unfold g_checked_div, checked_div, op_div_. rewrite g_is_zero_eq, g_wrapping_div_eq. reflexivity. Qed.
Lemma g_checked_rem_eq bits limbs a b : g_checked_rem bits limbs a b = checked_rem bits a b.
Proof. unfold g_checked_rem, checked_rem, op_rem_. rewrite g_is_zero_eq, g_wrapping_rem_eq. reflexivity. Qed.

Lemma uone_length bits : 0 <= bits -> length (uone bits) = nlimbsN bits.
Proof.
  intros H0. unfold uone. destruct (Z.eqb_spec bits 0) as [->|Hnz].
  - reflexivity.
  - pose proof (uZERO_length bits) as HL. destruct (uZERO bits); cbn [length] in *; assumption.
Qed.

Lemma g_div_ceil_eq bits a b :
  0 <= bits -> nlimbs bits <= B -> length a = nlimbsN bits -> length b = nlimbsN bits ->
  Forall inW a -> Forall inW b ->
  g_div_ceil bits (nlimbs bits) a b = div_ceil bits a b.
Proof.
  intros H0 HB Ha Hb Wa Wb. unfold g_div_ceil, div_ceil. rewrite g_div_rem_eq. unfold div_rem.
  destruct (Z.eq_dec (eval b) 0) as [Ez|Enz].
  - rewrite (div_kernel_zero a b Wb Ez). reflexivity.
  - rewrite (div_kernel_val a b Wa Wb Enz). cbn [obind].
    rewrite g_is_zero_eq.
    destruct (is_zero bits (to_limbs (length b) (eval a mod eval b))); cbn [obind]; [reflexivity|].
    rewrite g_wrapping_add_eq; [reflexivity|assumption|assumption| |].
    + rewrite to_limbs_length. assumption.
    + apply uone_length. assumption.
Qed.
