(* Proofs/PfRoot.v — src/root.rs: for every initial guess satisfying RunC13.root_guess_ok the
   Newton iteration returns floor(value^(1/degree)) and stops within the fuel.
   Uint division enters through the hypothesis DivKernelOK (property C14's target statement). *)
From Coq Require Import ZArith List Bool Lia.
From RV.Model Require Import Base Word Add Pow Log Root.
From RV.Model Require Bits Shift Conv Div.
From RV.Proofs Require Import BaseFacts PfAdd PfShift PfBits PfPow PfLog.
From RV.Run Require Import RunC13.
Import ListNotations.
Local Open Scope Z_scope.

(* what C14 is to deliver about algorithms::div *)
Definition DivKernelOK : Prop :=
  forall n d, Forall inW n -> Forall inW d -> eval d <> 0 ->
  exists q r, Div.div_kernel n d = Val (q, r) /\ length q = length n /\ length r = length d /\
              Forall inW q /\ Forall inW r /\
              eval q = eval n / eval d /\ eval r = eval n mod eval d.

(* ================= integer facts ================= *)
Definition floor_root (n d r : Z) : Prop := 0 <= r /\ r ^ d <= n < (r + 1) ^ d.

Lemma pow_le_mono_base a b k : 0 <= a <= b -> 0 <= k -> a ^ k <= b ^ k.
Proof. intros. apply Z.pow_le_mono_l. lia. Qed.

Lemma pow_lt_mono_base a b k : 0 <= a < b -> 0 < k -> a ^ k < b ^ k.
Proof. intros. apply Z.pow_lt_mono_l; lia. Qed.

(* x <= r  <->  x^d <= n *)
Lemma floor_root_le n d r x : floor_root n d r -> 1 <= d -> 0 <= x -> (x <= r <-> x ^ d <= n).
Proof.
  intros (Hr & Hlo & Hhi) Hd Hx. split; intros H.
  - pose proof (pow_le_mono_base x r d ltac:(lia) ltac:(lia)). lia.
  - destruct (Z.le_gt_cases x r) as [|Hgt]; [assumption|].
    pose proof (pow_le_mono_base (r + 1) x d ltac:(lia) ltac:(lia)). lia.
Qed.

Lemma floor_root_unique n d r r' : 1 <= d -> floor_root n d r -> floor_root n d r' -> r = r'.
Proof.
  intros Hd H H'. pose proof H as (Hr & Hlo & Hhi). pose proof H' as (Hr' & Hlo' & Hhi').
  pose proof (proj2 (floor_root_le n d r r' H Hd Hr') Hlo').
  pose proof (proj2 (floor_root_le n d r' r H' Hd Hr) Hlo). lia.
Qed.

(* ---------- iroot ---------- *)
Lemma iroot_loop_spec d n : 1 <= d -> 0 <= n -> forall k r,
  0 <= r -> r ^ d <= n < (r + 2 ^ Z.of_nat k) ^ d ->
  floor_root n d (iroot_loop k d n r).
Proof.
  intros Hd Hn. induction k as [|k IH]; intros r Hr [Hlo Hhi].
  - cbn [iroot_loop]. change (2 ^ Z.of_nat 0) with 1 in Hhi. unfold floor_root. lia.
  - cbn [iroot_loop]. set (c := r + 2 ^ Z.of_nat k).
    assert (H2k : 0 < 2 ^ Z.of_nat k) by (apply Z.pow_pos_nonneg; lia).
    rewrite pow_le_spec by (unfold c; lia).
    assert (Hc2 : c + 2 ^ Z.of_nat k = r + 2 ^ Z.of_nat (S k)).
    { unfold c. rewrite Nat2Z.inj_succ, Z.pow_succ_r by lia. lia. }
    destruct (Z.leb_spec (c ^ d) n) as [Hle|Hgt].
    + apply IH; [unfold c; lia|]. rewrite Hc2. lia.
    + apply IH; [lia|]. fold c. lia.
Qed.

Theorem iroot_spec d n : 1 <= d -> 0 <= n -> floor_root n d (iroot d n).
Proof.
  intros Hd Hn. unfold iroot. apply iroot_loop_spec; auto; [lia|].
  rewrite Z.pow_0_l by lia. split; [lia|]. rewrite Z.add_0_l.
  set (q := Z.log2 n / d).
  assert (Hq : 0 <= q) by (apply Z.div_pos; [apply Z.log2_nonneg | lia]).
  rewrite Z2Nat.id by lia. rewrite <- Z.pow_mul_r by lia.
  destruct (Z.eq_dec n 0) as [->|Nz].
  - apply Z.pow_pos_nonneg; nia.
  - pose proof (Z.log2_spec n ltac:(lia)) as [_ Hl].
    assert (Z.succ (Z.log2 n) <= (q + 1) * d).
    { replace ((q + 1) * d) with (d * q + d) by ring. unfold q.
      pose proof (Z.div_mod (Z.log2 n) d ltac:(lia)).
      pose proof (Z.mod_pos_bound (Z.log2 n) d ltac:(lia)). lia. }
    assert (2 ^ Z.succ (Z.log2 n) <= 2 ^ ((q + 1) * d)) by (apply Z.pow_le_mono_r; lia). lia.
Qed.

(* ---------- the arithmetic-geometric inequality behind Newton's step ---------- *)
Lemma amgm (k : nat) x r : 0 <= x -> 0 <= r ->
  (Z.of_nat k + 1) * r * x ^ Z.of_nat k <= r ^ (Z.of_nat k + 1) + Z.of_nat k * x ^ (Z.of_nat k + 1).
Proof.
  intros Hx Hr. induction k as [|k IH].
  - change (Z.of_nat 0) with 0. replace (0 + 1) with 1 by lia. rewrite Z.pow_0_r, !Z.pow_1_r. lia.
  - rewrite Nat2Z.inj_succ. set (K := Z.of_nat k) in *. assert (HK : 0 <= K) by (unfold K; lia).
    replace (Z.succ K + 1) with (Z.succ (K + 1)) by lia.
    rewrite !Z.pow_succ_r by lia. replace (x ^ (K + 1)) with (x * x ^ K) in *
      by (rewrite Z.pow_add_r, Z.pow_1_r by lia; ring).
    set (X := x ^ K) in *. set (Rk := r ^ (K + 1)) in *.
    assert (HX : 0 <= X) by (apply Z.pow_nonneg; lia).
    assert (H1 : 0 <= r * (Rk + K * (x * X) - (K + 1) * r * X)) by (apply Z.mul_nonneg_nonneg; lia).
    assert (H2 : 0 <= (K + 1) * X * ((x - r) * (x - r))).
    { apply Z.mul_nonneg_nonneg; [apply Z.mul_nonneg_nonneg; lia | apply Z.square_nonneg]. }
    unfold Z.succ. lia.
Qed.

Section Newton.
  Variables n d r : Z.
  Hypothesis Hd : 2 <= d.
  Hypothesis Hn : 0 <= n.
  Hypothesis Hr : floor_root n d r.

  Definition newtonT (x : Z) : Z := n / x ^ (d - 1) + (d - 1) * x.
  Definition newton (x : Z) : Z := newtonT x / d.

  Lemma pow_split x : 0 <= x -> x ^ d = x * x ^ (d - 1).
  Proof. intros. replace d with (Z.succ (d - 1)) at 1 by lia. rewrite Z.pow_succ_r by lia. ring. Qed.

  Lemma newton_ge x : 1 <= x -> r <= newton x.
  Proof.
    intros Hx. destruct Hr as (Hr0 & Hlo & Hhi). unfold newton, newtonT.
    set (P := x ^ (d - 1)). assert (HP : 0 < P) by (apply Z.pow_pos_nonneg; lia).
    pose proof (amgm (Z.to_nat (d - 1)) x r ltac:(lia) Hr0) as A.
    rewrite Z2Nat.id in A by lia. replace (d - 1 + 1) with d in A by lia.
    rewrite (pow_split x) in A by lia. fold P in A.
    (* r^d >= (d r - (d-1) x) P *)
    assert (Hq : d * r - (d - 1) * x <= n / P).
    { apply Z.div_le_lower_bound; [lia|]. nia. }
    apply Z.div_le_lower_bound; lia.
  Qed.

  Lemma newton_lt x : r < x -> newton x < x.
  Proof.
    intros Hx. destruct Hr as (Hr0 & Hlo & Hhi). unfold newton, newtonT.
    set (P := x ^ (d - 1)). assert (HP : 0 < P) by (apply Z.pow_pos_nonneg; lia).
    pose proof (pow_le_mono_base (r + 1) x d ltac:(lia) ltac:(lia)) as Hm.
    rewrite (pow_split x) in Hm by lia. fold P in Hm.
    assert (n / P < x) by (apply Z.div_lt_upper_bound; nia).
    apply Z.div_lt_upper_bound; nia.
  Qed.

  Lemma newton_fix x : 1 <= x -> x <= newton x -> r <= x -> x = r.
  Proof.
    intros Hx Hge Hrx. destruct (Z.eq_dec x r) as [|Nx]; [assumption|].
    pose proof (newton_lt x ltac:(lia)). lia.
  Qed.

  Lemma newtonT_mono lo hi x : 1 <= lo -> lo <= x <= hi ->
    newtonT x <= n / lo ^ (d - 1) + (d - 1) * hi.
  Proof.
    intros Hlo Hx. unfold newtonT.
    assert (0 < lo ^ (d - 1)) by (apply Z.pow_pos_nonneg; lia).
    pose proof (pow_le_mono_base lo x (d - 1) ltac:(lia) ltac:(lia)).
    assert (n / x ^ (d - 1) <= n / lo ^ (d - 1)) by (apply Z.div_le_compat_l; lia).
    nia.
  Qed.
End Newton.

(* ================= Uint-level pieces ================= *)
Section Root.
  Hypothesis HDiv : DivKernelOK.

  Lemma wrapping_div_spec bits a b : 0 <= bits -> canon bits a -> canon bits b -> eval b <> 0 ->
    exists q, wrapping_div a b = Val q /\ canon bits q /\ eval q = eval a / eval b.
  Proof.
    intros Hb Ha Hc Hnz. pose proof (canon_range bits a Hb Ha) as Hra.
    pose proof (canon_range bits b Hb Hc) as Hrb.
    destruct Ha as (Hla & Hwa & _), Hc as (Hlb & Hwb & _).
    destruct (HDiv a b Hwa Hwb Hnz) as (q & r & E & Hlq & _ & Hwq & _ & Eq & _).
    unfold wrapping_div, div_rem. rewrite E. cbn [omap obind fst]. exists q.
    split; [reflexivity|]. split; [|exact Eq].
    unfold canon. split; [congruence|]. split; [exact Hwq|]. rewrite Eq.
    assert (eval a / eval b <= eval a) by (apply Z.div_le_upper_bound; nia). lia.
  Qed.

  Lemma sat_shl1_spec bits x : 0 < bits -> canon bits x ->
    canon bits (Shift.saturating_shl bits x 1) /\
    eval (Shift.saturating_shl bits x 1) = Z.min (2 * eval x) (2 ^ bits - 1).
  Proof.
    intros Hb Hx. pose proof (overflowing_shl_spec bits x 1 ltac:(lia) Hx ltac:(lia)) as S.
    unfold Shift.saturating_shl. destruct (Shift.overflowing_shl bits x 1) as [v f].
    destruct S as (Hc & Ev & Ef). change (2 ^ 1) with 2 in *.
    pose proof (canon_range bits x ltac:(lia) Hx).
    destruct f.
    - symmetry in Ef. apply Z.leb_le in Ef. destruct (canon_uMAX bits ltac:(lia)) as [Hm Em].
      split; [exact Hm|]. rewrite Em. lia.
    - symmetry in Ef. apply Z.leb_gt in Ef. split; [exact Hc|]. rewrite Ev, Z.mod_small by lia. lia.
  Qed.

  Definition root_tail (bits : Z) (deg_m1 : list Z) (degree : Z) (decreasing : bool)
             (result division : list Z) : step_res (bool * list Z) (list Z) :=
    sbind (wrapping_mul bits deg_m1 result) (fun m =>
    let s := wrapping_add bits division m in
    sbind (from_usize bits degree) (fun dg =>
    sbind (wrapping_div s dg) (fun iter =>
    match decreasing, limbs_cmp iter result with
    | _, Eq | true, Gt => Done (Val result)
    | false, Gt => More (false, umin iter (Shift.saturating_shl bits result 1))
    | _, Lt => More (true, iter)
    end))).

  Lemma root_step_unfold bits self deg_m1 degree dec result :
    root_step bits self deg_m1 degree (dec, result) =
    sbind (Pow.checked_pow bits result deg_m1) (fun p =>
    sbind (match p with
           | None => Val (uZERO bits)
           | Some power => wrapping_div self power
           end) (fun division => root_tail bits deg_m1 degree dec result division)).
  Proof. reflexivity. Qed.

  Section Loop.
    Variables (bits : Z) (self deg_m1 : list Z) (d r lo hi : Z).
    Hypothesis Hb : 0 < bits.
    Hypothesis Hself : canon bits self.
    Hypothesis Hdm : canon bits deg_m1.
    Hypothesis Edm : eval deg_m1 = d - 1.
    Hypothesis Hd : 2 <= d < bits.
    Hypothesis HdB : d < B.
    Let n := eval self.
    Hypothesis Hroot : floor_root n d r.
    Hypothesis Hlo : 1 <= lo <= r.
    Hypothesis Hhi : 2 * r <= hi.
    Hypothesis HT : n / lo ^ (d - 1) + (d - 1) * hi < 2 ^ bits.

    Definition root_inv (st : bool * list Z) : Prop :=
      canon bits (snd st) /\ lo <= eval (snd st) <= hi /\ (fst st = true -> r <= eval (snd st)).
    Definition root_post (o : outcome (list Z)) : Prop :=
      exists y, o = Val y /\ canon bits y /\ eval y = r.
    Definition root_mu (st : bool * list Z) : Z :=
      if fst st then eval (snd st) else 2 ^ bits + (2 ^ bits - eval (snd st)).

    Lemma root_tail_ok dec x division :
      root_inv (dec, x) -> canon bits division -> eval division = n / eval x ^ (d - 1) ->
      match root_tail bits deg_m1 d dec x division with
      | Done o => root_post o
      | More st' => root_inv st' /\ 0 <= root_mu st' < root_mu (dec, x)
      end.
    Proof.
      unfold root_inv, root_mu. cbn [fst snd]. intros (Hx & Hxr & Hdec) Hq Eq.
      assert (Hb0 : 0 <= bits) by lia.
      pose proof (canon_range bits self Hb0 Hself) as Hnr. fold n in Hnr.
      pose proof (canon_range bits x Hb0 Hx) as Hxv.
      assert (Hn0 : 0 <= n) by lia.
      assert (Hx1 : 1 <= eval x) by lia.
      pose proof (newtonT_mono n d ltac:(lia) Hn0 lo hi (eval x) ltac:(lia) Hxr) as HTx.
      pose proof (newton_ge n d r ltac:(lia) Hn0 Hroot (eval x) Hx1) as Hge.
      assert (Hlt_fix : r < eval x -> newton n d (eval x) < eval x)
        by (apply (newton_lt n d r); auto; lia).
      unfold newton in *. unfold newtonT in *.
      set (P := eval x ^ (d - 1)) in *.
      assert (HP : 0 < P) by (apply Z.pow_pos_nonneg; lia).
      assert (Hq0 : 0 <= n / P) by (apply Z.div_pos; lia).
      set (T := n / P + (d - 1) * eval x) in *.
      assert (HTlt : T < 2 ^ bits) by lia.
      assert (HT0 : 0 <= T) by (unfold T; nia).
      unfold root_tail.
      destruct (wrapping_mul_spec bits deg_m1 x Hb0 Hdm Hx) as (m & Em & Hm & Evm).
      rewrite Em, sbind_val. cbv zeta. rewrite Edm in Evm.
      rewrite Z.mod_small in Evm by (unfold T in *; nia).
      destruct (PfC01.wrapping_add_canon bits division m Hb0 Hq Hm) as [Hs Evs].
      rewrite Eq, Evm in Evs. fold T in Evs. rewrite Z.mod_small in Evs by lia.
      rewrite from_usize_spec by lia.
      assert (HdM : d < 2 ^ bits) by (pose proof (pow_gt_self bits Hb0); lia).
      destruct (Z.ltb_spec d (2 ^ bits)); [|lia]. rewrite sbind_val.
      destruct (uint_of_small bits d Hb0 ltac:(lia)) as [Hdg Edg].
      destruct (wrapping_div_spec bits (wrapping_add bits division m) (uint_of bits d) Hb0 Hs Hdg
                  ltac:(lia)) as (it & Eit & Hit & Evit).
      rewrite Eit, sbind_val. rewrite Evs, Edg in Evit.
      rewrite (limbs_cmp_eval bits) by auto. rewrite Evit.
      assert (Hit_lt : T / d < 2 ^ bits).
      { assert (T / d <= T) by (apply Z.div_le_upper_bound; nia). lia. }
      destruct (Z.compare_spec (T / d) (eval x)) as [Heq|Hlt|Hgt].
      - (* fixed point *)
        assert (eval x = r).
        { destruct (Z.le_gt_cases (eval x) r) as [Hle|Hgt']; [lia|]. specialize (Hlt_fix Hgt'). lia. }
        destruct dec; exists x; auto.
      - (* converging downwards *)
        assert (Hinv' : canon bits it /\ lo <= eval it <= hi /\ (true = true -> r <= eval it)).
        { rewrite Evit. split; [exact Hit|]. split; [lia|]. intros _. lia. }
        destruct dec; (split; [exact Hinv'|]); cbn [fst snd]; rewrite Evit; lia.
      - (* iter > result *)
        assert (Hxr' : eval x <= r).
        { destruct (Z.le_gt_cases (eval x) r); [assumption|]. specialize (Hlt_fix ltac:(lia)). lia. }
        destruct dec.
        + exists x. split; [reflexivity|]. split; [exact Hx|]. specialize (Hdec eq_refl). lia.
        + destruct (sat_shl1_spec bits x Hb Hx) as [Hsh Esh].
          unfold umin. rewrite (ule_spec bits) by auto. rewrite Evit, Esh.
          destruct (Z.leb_spec (T / d) (Z.min (2 * eval x) (2 ^ bits - 1))) as [Hmin|Hmin].
          * cbn [fst snd]. rewrite Evit. split; [split; [exact Hit|]; split; [lia|discriminate]|]. lia.
          * cbn [fst snd]. rewrite Esh. split; [split; [exact Hsh|]; split; [lia|discriminate]|]. lia.
    Qed.

    Lemma root_step_ok st : root_inv st ->
      match root_step bits self deg_m1 d st with
      | Done o => root_post o
      | More st' => root_inv st' /\ 0 <= root_mu st' < root_mu st
      end.
    Proof.
      destruct st as [dec x]. intros Hinv. pose proof Hinv as (Hx & Hxr & Hdec). cbn [fst snd] in *.
      assert (Hb0 : 0 <= bits) by lia.
      pose proof (canon_range bits self Hb0 Hself) as Hnr. fold n in Hnr.
      pose proof (canon_range bits x Hb0 Hx) as Hxv.
      set (P := eval x ^ (d - 1)).
      assert (HP : 0 < P) by (apply Z.pow_pos_nonneg; lia).
      rewrite root_step_unfold.
      destruct (checked_pow_cases bits x deg_m1 Hb Hx Hdm) as [[Hov E]|(Hlt & pw & E & Hpw & Epw)];
        rewrite Edm in *; rewrite E, sbind_val.
      - (* the power overflows: division = ZERO = n / P *)
        destruct (canon_uZERO bits Hb0) as [Hz Ez]. rewrite sbind_val.
        apply root_tail_ok; auto. rewrite Ez. symmetry. apply Z.div_small. fold P in Hov |- *. lia.
      - destruct (wrapping_div_spec bits self pw Hb0 Hself Hpw ltac:(fold P in Epw; lia))
          as (q & Eq & Hq & Evq).
        rewrite Eq, sbind_val. apply root_tail_ok; auto. rewrite Evq, Epw. reflexivity.
    Qed.

    Lemma root_loop_spec g : canon bits g -> lo <= eval g <= hi ->
      root_post (run_loop (root_fuel bits) (root_step bits self deg_m1 d) (false, g)).
    Proof.
      intros Hg Hgr.
      apply (run_loop_spec (root_step bits self deg_m1 d) root_inv root_post root_mu root_step_ok).
      - unfold root_inv. cbn [fst snd]. split; [exact Hg|]. split; [exact Hgr|discriminate].
      - unfold root_mu, root_fuel. cbn [fst snd].
        rewrite !Nat2Z.inj_succ, Z2Nat.id, !Z.pow_succ_r by lia.
        pose proof (canon_range bits g ltac:(lia) Hg). lia.
    Qed.
  End Loop.

  (* ---------- root ---------- *)
  Lemma root_T_bound_spec n d g : 0 <= n -> 2 <= d -> 1 <= g ->
    let r := iroot d n in
    1 <= r ->
    root_T_bound n d g = n / (Z.min g r) ^ (d - 1) + (d - 1) * Z.max g (2 * r).
  Proof.
    intros Hn Hd Hg r Hr. unfold root_T_bound. fold r.
    set (lo := Z.min g r). assert (Hlo : 1 <= lo) by (unfold lo; lia).
    rewrite powsat_spec by lia.
    assert (HP : 0 < lo ^ (d - 1)) by (apply Z.pow_pos_nonneg; lia).
    f_equal.
    destruct (Z.ltb_spec n (Z.min (lo ^ (d - 1)) (n + 1))) as [H|H].
    - symmetry. apply Z.div_small. lia.
    - rewrite Z.min_l by lia. reflexivity.
  Qed.

  Theorem root_spec bits self degree est :
    0 <= bits -> canon bits self -> 0 <= degree < B ->
    root_guess_ok bits (eval self) degree est = true ->
    if degree <=? 0 then Root.root bits self degree (est_of est) = Panic
    else exists y, Root.root bits self degree (est_of est) = Val y /\ canon bits y /\
                   floor_root (eval self) degree (eval y).
  Proof.
    intros Hb Hself Hdeg Hest. pose proof (canon_range bits self Hb Hself) as Hnr.
    unfold Root.root. destruct (Z.leb_spec degree 0) as [|Hd1]; [reflexivity|].
    rewrite is_zero_spec by auto.
    destruct (Z.eqb_spec (eval self) 0) as [E0|N0].
    { destruct (canon_uZERO bits Hb) as [Hz Ez]. exists (uZERO bits). split; [reflexivity|].
      split; [exact Hz|]. rewrite Ez, E0. unfold floor_root.
      rewrite Z.pow_0_l, Z.pow_1_l by lia. lia. }
    assert (Hpos : 0 < bits).
    { destruct (Z.eq_dec bits 0) as [->|]; [|lia]. apply canon_zero_width in Hself. subst. cbn in N0. lia. }
    destruct (Z.leb_spec bits degree) as [Hbd|Hbd].
    { destruct (uONE_spec bits Hpos) as [Ho Eo]. exists (Bits.uONE bits). split; [reflexivity|].
      split; [exact Ho|]. rewrite Eo. unfold floor_root. rewrite Z.pow_1_l by lia.
      assert (2 ^ bits <= 2 ^ degree) by (apply Z.pow_le_mono_r; lia).
      change (1 + 1) with 2. lia. }
    destruct (Z.eqb_spec degree 1) as [E1|N1].
    { exists self. split; [reflexivity|]. split; [exact Hself|]. subst degree. unfold floor_root.
      rewrite !Z.pow_1_r. lia. }
    (* the Newton iteration *)
    unfold root_guess_ok in Hest.
    destruct (Z.ltb_spec 0 (eval self)); [|lia]. destruct (Z.leb_spec 2 degree); [|lia].
    destruct (Z.ltb_spec degree bits); [|lia]. cbn [andb] in Hest.
    destruct est as [|g [|]]; try discriminate.
    rewrite !andb_true_iff, canonb_iff, Z.leb_le, Z.ltb_lt in Hest. destruct Hest as [[Hg Hg1] HT].
    cbn [est_of].
    pose proof (iroot_spec degree (eval self) ltac:(lia) ltac:(lia)) as Hroot.
    set (r := iroot degree (eval self)) in *.
    assert (Hr1 : 1 <= r).
    { apply (floor_root_le (eval self) degree r 1 Hroot); try lia. rewrite Z.pow_1_l; lia. }
    rewrite root_T_bound_spec in HT by lia. fold r in HT. unfold M in HT.
    assert (HdM : degree - 1 < 2 ^ bits) by (pose proof (pow_gt_self bits Hb); lia).
    rewrite from_usize_spec by lia. destruct (Z.ltb_spec (degree - 1) (2 ^ bits)); [|lia].
    cbn [obind]. destruct (uint_of_small bits (degree - 1) Hb ltac:(lia)) as [Hdm Edm].
    pose proof (root_loop_spec bits self (uint_of bits (degree - 1)) degree r (Z.min (eval g) r)
                  (Z.max (eval g) (2 * r)) Hpos Hself Hdm Edm ltac:(lia) ltac:(lia) Hroot
                  ltac:(lia) ltac:(lia) HT g Hg ltac:(lia)) as (y & Ey & Hy & Evy).
    exists y. rewrite Ey. split; [reflexivity|]. split; [exact Hy|]. rewrite Evy. exact Hroot.
  Qed.
End Root.
