(* Proofs/PfMulN.v — the unrolled equal-length kernels addmul_1..addmul_4 and addmul_n
   (src/algorithms/mul.rs): result = (lhs + a * b) mod B^n, by carry algebra. *)
From Coq Require Import ZArith List Bool Lia.
From RV.Model Require Import Base Word Limbs.
From RV.Proofs Require Import BaseFacts PfLimbs.
Import ListNotations.
Local Open Scope Z_scope.

Lemma inW_0 : inW 0.
Proof. unfold inW. pose proof B_pos. lia. Qed.

(* mac(&mut lhs, a, b, c): (lhs', carry) with lhs' + B * carry = a * b + c + lhs *)
Lemma mac_spec l a b c :
  inW l -> inW a -> inW b -> inW c ->
  let '(r, h) := mac l a b c in inW r /\ inW h /\ r + B * h = a * b + c + l.
Proof.
  unfold mac, muladd2. intros Hl Ha Hb Hc. apply lo_hi_split.
  unfold inW in *. assert (0 <= a * b <= (B - 1) * (B - 1)) by nia. nia.
Qed.

(* r = T mod M from r = T - M * K and the range of r *)
Lemma mod_unique_sub r T M K : 0 <= r < M -> r = T - M * K -> r = T mod M.
Proof. intros Hr He. apply Z.mod_unique with (q := K); [left; exact Hr | lia]. Qed.

Ltac inw := first [assumption | apply inW_0].
Ltac mac_step r h :=
  match goal with
  | |- context [mac ?l ?a ?b ?c] =>
      let H := fresh "H" in
      pose proof (mac_spec l a b c ltac:(inw) ltac:(inw) ltac:(inw) ltac:(inw)) as H;
      destruct (mac l a b c) as [r h];
      let Hr := fresh "W" r in let Hh := fresh "W" h in let He := fresh "E" r in
      destruct H as (Hr & Hh & He); cbv beta iota
  end.
(* turn every carry equation r + B*h = X into a substitution r := X - B*h *)
Ltac carry_subst :=
  repeat match goal with
  | E : ?r + B * ?h = _ |- _ => is_var r; apply Z.add_move_r in E; subst r
  end.
Ltac words := repeat (apply Forall_cons; [assumption|]); apply Forall_nil.
Ltac range_of l :=
  let Hb := fresh "Hb" in
  pose proof (eval_bound l ltac:(words)) as Hb;
  cbn [length eval] in Hb; exact Hb.

Lemma addmul_1_spec l0 a0 b0 :
  inW l0 -> inW a0 -> inW b0 ->
  let r := addmul_1 [l0] [a0] [b0] in
  length r = 1%nat /\ Forall inW r /\
  eval r = (eval [l0] + eval [a0] * eval [b0]) mod B ^ 1.
Proof.
  intros Hl0 Ha0 Hb0. cbv zeta. cbn [addmul_1]. mac_step r0 h0.
  split; [reflexivity|]. split; [words|].
  apply mod_unique_sub with (K := h0); [range_of [r0]|].
  cbn [eval]. carry_subst. ring.
Qed.

Lemma addmul_2_spec l0 l1 a0 a1 b0 b1 :
  inW l0 -> inW l1 -> inW a0 -> inW a1 -> inW b0 -> inW b1 ->
  let r := addmul_2 [l0; l1] [a0; a1] [b0; b1] in
  length r = 2%nat /\ Forall inW r /\
  eval r = (eval [l0; l1] + eval [a0; a1] * eval [b0; b1]) mod B ^ 2.
Proof.
  intros Hl0 Hl1 Ha0 Ha1 Hb0 Hb1. cbv zeta. cbn [addmul_2].
  mac_step r0 c1. mac_step r1 h2. mac_step s1 h3.
  split; [reflexivity|]. split; [words|].
  apply mod_unique_sub with (K := h2 + h3 + a1 * b1); [range_of [r0; s1]|].
  cbn [eval]. carry_subst. ring.
Qed.

Lemma addmul_3_spec l0 l1 l2 a0 a1 a2 b0 b1 b2 :
  inW l0 -> inW l1 -> inW l2 -> inW a0 -> inW a1 -> inW a2 -> inW b0 -> inW b1 -> inW b2 ->
  let r := addmul_3 [l0; l1; l2] [a0; a1; a2] [b0; b1; b2] in
  length r = 3%nat /\ Forall inW r /\
  eval r = (eval [l0; l1; l2] + eval [a0; a1; a2] * eval [b0; b1; b2]) mod B ^ 3.
Proof.
  intros Hl0 Hl1 Hl2 Ha0 Ha1 Ha2 Hb0 Hb1 Hb2. cbv zeta. cbn [addmul_3].
  mac_step r0 c1. mac_step r1 c2. mac_step r2 h3.
  mac_step s1 c4. mac_step s2 h5.
  mac_step t2 h6.
  split; [reflexivity|]. split; [words|].
  apply mod_unique_sub with (K := h3 + h5 + h6 + a1 * b2 + a2 * b1 + B * (a2 * b2));
    [range_of [r0; s1; t2]|].
  cbn [eval]. carry_subst. ring.
Qed.

Lemma addmul_4_spec l0 l1 l2 l3 a0 a1 a2 a3 b0 b1 b2 b3 :
  inW l0 -> inW l1 -> inW l2 -> inW l3 -> inW a0 -> inW a1 -> inW a2 -> inW a3 ->
  inW b0 -> inW b1 -> inW b2 -> inW b3 ->
  let r := addmul_4 [l0; l1; l2; l3] [a0; a1; a2; a3] [b0; b1; b2; b3] in
  length r = 4%nat /\ Forall inW r /\
  eval r = (eval [l0; l1; l2; l3] + eval [a0; a1; a2; a3] * eval [b0; b1; b2; b3]) mod B ^ 4.
Proof.
  intros Hl0 Hl1 Hl2 Hl3 Ha0 Ha1 Ha2 Ha3 Hb0 Hb1 Hb2 Hb3. cbv zeta. cbn [addmul_4].
  mac_step r0 c1. mac_step r1 c2. mac_step r2 c3. mac_step r3 h4.
  mac_step s1 c5. mac_step s2 c6. mac_step s3 h7.
  mac_step t2 c8. mac_step t3 h9.
  mac_step u3 h10.
  split; [reflexivity|]. split; [words|].
  apply mod_unique_sub with
    (K := h4 + h7 + h9 + h10 + a1 * b3 + a2 * b2 + a3 * b1
          + B * (a2 * b3 + a3 * b2) + B * B * (a3 * b3));
    [range_of [r0; s1; t2; u3]|].
  cbn [eval]. carry_subst. ring.
Qed.

(* ---------- addmul_n ---------- *)
Lemma addmul_n_mismatch lhs a b :
  length lhs <> length a \/ length lhs <> length b -> addmul_n lhs a b = Panic.
Proof.
  intros H. unfold addmul_n.
  destruct (Nat.eqb_spec (length lhs) (length a)); destruct (Nat.eqb_spec (length lhs) (length b));
    cbn [negb orb]; try reflexivity. tauto.
Qed.

Theorem addmul_n_spec lhs a b :
  length lhs = length a -> length lhs = length b ->
  Forall inW lhs -> Forall inW a -> Forall inW b ->
  exists r, addmul_n lhs a b = Val r /\ length r = length lhs /\ Forall inW r /\
            eval r = (eval lhs + eval a * eval b) mod B ^ Z.of_nat (length lhs).
Proof.
  intros Hla Hlb Hwl Hwa Hwb. unfold addmul_n.
  rewrite <- Hla, <- Hlb, Nat.eqb_refl. cbn [negb orb].
  destruct lhs as [|l0 [|l1 [|l2 [|l3 [|l4 lhs]]]]].
  - (* 0 limbs *)
    destruct a; [|discriminate]. destruct b; [|discriminate].
    exists []. cbn [length eval Z.of_nat]. rewrite Z.pow_0_r, Z.mod_1_r. auto.
  - destruct a as [|a0 [|]]; try discriminate. destruct b as [|b0 [|]]; try discriminate.
    inversion Hwl; inversion Hwa; inversion Hwb; subst.
    eexists; split; [reflexivity|]. apply addmul_1_spec; assumption.
  - destruct a as [|a0 [|a1 [|]]]; try discriminate. destruct b as [|b0 [|b1 [|]]]; try discriminate.
    repeat match goal with H : Forall inW (_ :: _) |- _ => inversion H; clear H; subst end.
    eexists; split; [reflexivity|]. apply addmul_2_spec; assumption.
  - destruct a as [|a0 [|a1 [|a2 [|]]]]; try discriminate.
    destruct b as [|b0 [|b1 [|b2 [|]]]]; try discriminate.
    repeat match goal with H : Forall inW (_ :: _) |- _ => inversion H; clear H; subst end.
    eexists; split; [reflexivity|]. apply addmul_3_spec; assumption.
  - destruct a as [|a0 [|a1 [|a2 [|a3 [|]]]]]; try discriminate.
    destruct b as [|b0 [|b1 [|b2 [|b3 [|]]]]]; try discriminate.
    repeat match goal with H : Forall inW (_ :: _) |- _ => inversion H; clear H; subst end.
    eexists; split; [reflexivity|]. apply addmul_4_spec; assumption.
  - (* 5 limbs and more: the generic kernel, overflow flag dropped *)
    cbn [length].
    pose proof (addmul_spec (l0 :: l1 :: l2 :: l3 :: l4 :: lhs) a b Hwl Hwa Hwb) as S.
    destruct (addmul (l0 :: l1 :: l2 :: l3 :: l4 :: lhs) a b) as [l' f]. cbv zeta in S.
    destruct S as (S1 & S2 & S3 & _). exists l'. cbn [fst].
    split; [reflexivity|]. split; [exact S1|]. split; [exact S2|]. exact S3.
Qed.
