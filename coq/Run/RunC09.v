(* Run/RunC09.v — calls of property C09 (radix conversion, parsing, formatting), the model's
   answer (run), the executable specification (spec) and the input domain (wf).

   Result tokens.  Ok(uint) = [TL limbs].  Errors:
     BaseConvertError::Overflow            = [TErr 1]
     BaseConvertError::InvalidBase(b)      = [TErr 2; TZ b]
     BaseConvertError::InvalidDigit(d, b)  = [TErr 3; TZ d; TZ b]
     ParseError::InvalidDigit(c)           = [TErr 4; TZ c]          (c = the char's code point)
     ParseError::InvalidRadix(r)           = [TErr 5; TZ r]
     ParseError::BaseConvertError(e)       = TErr 6 :: tokens of e
   Digit iterators = [TL digits] (collected in iteration order); formatted text = [TY utf8].
   Text arguments are UTF-8 byte lists (token Y); run/spec decode them into chars.
   Format spec of `fmt`/`fmt_ref`: t = trait (0 Display, 1 Debug, 2 LowerHex, 3 UpperHex,
   4 Octal, 5 Binary), flags `+`, `#`, `0`, fa = fill/alignment id (see fill_align), hasw/w =
   width. *)
From RV.Model Require Import Base Word Limbs BaseConv Str Fmt.

Inductive call : Type :=
| to_base_le (bits : Z) (a : list Z) (base : Z)
| to_base_be (bits : Z) (a : list Z) (base : Z)
| from_base_le (bits : Z) (base : Z) (ds : list Z)
| from_base_be (bits : Z) (base : Z) (ds : list Z)
| roundtrip_le (bits : Z) (a : list Z) (base : Z)   (* from_base_le(base, a.to_base_le(base)) *)
| roundtrip_be (bits : Z) (a : list Z) (base : Z)
| from_str_radix (bits : Z) (radix : Z) (text : list Z)
| from_str (bits : Z) (text : list Z)
| fmt (bits : Z) (t : Z) (plus alt zero : bool) (fa : Z) (hasw : bool) (w : Z) (a : list Z)
| fmt_ref (bits : Z) (t : Z) (plus alt zero : bool) (fa : Z) (hasw : bool) (w : Z) (a : list Z).
      (* fmt_ref: the same format applied by Rust to the u128 of the same value (BITS <= 128);
         validates the std part of the model, i.e. the reference the property speaks of *)

(* fill/alignment ids of the harness' format table *)
Definition fill_align (fa : Z) : list Z * Z :=
  if fa =? 1 then ([32], 1)            (* `<` *)
  else if fa =? 2 then ([32], 2)       (* `^` *)
  else if fa =? 3 then ([32], 3)       (* `>` *)
  else if fa =? 4 then ([42], 1)       (* `*<` *)
  else if fa =? 5 then ([42], 2)       (* `*^` *)
  else if fa =? 6 then ([42], 3)       (* `*>` *)
  else if fa =? 7 then ([195; 169], 2) (* `é^` *)
  else if fa =? 8 then ([48], 1)       (* `0<` *)
  else ([32], 0).                      (* nothing given *)

Definition mkspec (plus alt zero : bool) (fa : Z) (hasw : bool) (w : Z) : fspec :=
  {| f_plus := plus; f_alt := alt; f_zero := zero;
     f_width := if hasw then Some w else None;
     f_fill := fst (fill_align fa); f_align := snd (fill_align fa) |}.

Definition bcerr_toks (e : bcerr) : list tok :=
  match e with
  | BOverflow => [TErr 1]
  | BInvalidBase b => [TErr 2; TZ b]
  | BInvalidDigit d b => [TErr 3; TZ d; TZ b]
  end.
Definition perr_toks (e : perr) : list tok :=
  match e with
  | PInvalidDigit c => [TErr 4; TZ c]
  | PInvalidRadix r => [TErr 5; TZ r]
  | PBase e => TErr 6 :: bcerr_toks e
  end.
Definition bres_toks (r : res bcerr (list Z)) : list tok :=
  match r with Ok v => [TL v] | Err e => bcerr_toks e end.
Definition pres_toks (r : res perr (list Z)) : list tok :=
  match r with Ok v => [TL v] | Err e => perr_toks e end.

Definition run (c : call) : result :=
  match c with
  | to_base_le bits a base => do ds <- BaseConv.to_base_le a base ; Val [TL ds]
  | to_base_be bits a base => do ds <- BaseConv.to_base_be a base ; Val [TL ds]
  | from_base_le bits base ds => do r <- BaseConv.from_base_le bits base ds ; Val (bres_toks r)
  | from_base_be bits base ds => do r <- BaseConv.from_base_be bits base ds ; Val (bres_toks r)
  | roundtrip_le bits a base =>
      do ds <- BaseConv.to_base_le a base ;
      do r <- BaseConv.from_base_le bits base ds ; Val (bres_toks r)
  | roundtrip_be bits a base =>
      do ds <- BaseConv.to_base_be a base ;
      do r <- BaseConv.from_base_be bits base ds ; Val (bres_toks r)
  | from_str_radix bits radix text =>
      match utf8_decode text with
      | Some cs => do r <- Str.from_str_radix bits cs radix ; Val (pres_toks r)
      | None => Panic          (* not a &str: excluded by wf (the harness rejects it too) *)
      end
  | from_str bits text =>
      match utf8_decode text with
      | Some cs => do r <- Str.from_str bits cs ; Val (pres_toks r)
      | None => Panic
      end
  | fmt bits t plus alt zero fa hasw w a =>
      do s <- Fmt.fmt bits t (mkspec plus alt zero fa hasw w) a ; Val [TY s]
  | fmt_ref bits t plus alt zero fa hasw w a =>
      (* u128's impls: pad_integral(true, prefix, digits of the value) *)
      let b := base_of t in
      Val [TY (std_pad_integral (mkspec plus alt zero fa hasw w) (b_prefix b)
                 (std_u64_digits_loop 128 (b_radix b) (b_upper b) (eval a) []))]
  end.

(* ---------- input domain ---------- *)
Definition fmt_args_ok (t fa w : Z) : Prop := 0 <= t <= 5 /\ 0 <= fa <= 8 /\ 0 <= w.
Definition fmt_args_okb (t fa w : Z) : bool :=
  (0 <=? t) && (t <=? 5) && (0 <=? fa) && (fa <=? 8) && (0 <=? w).

Definition wf (c : call) : Prop :=
  match c with
  | to_base_le bits a base | to_base_be bits a base
  | roundtrip_le bits a base | roundtrip_be bits a base =>
      0 <= bits /\ canon bits a /\ inW base
  | from_base_le bits base ds | from_base_be bits base ds =>
      0 <= bits /\ inW base /\ Forall inW ds
  | from_str_radix bits radix text => 0 <= bits /\ inW radix /\ utf8_decode text <> None
  | from_str bits text => 0 <= bits /\ utf8_decode text <> None
  | fmt bits t _ _ _ fa _ w a => 0 <= bits /\ canon bits a /\ fmt_args_ok t fa w
  | fmt_ref bits t _ _ _ fa _ w a =>
      0 <= bits <= 128 /\ canon bits a /\ fmt_args_ok t fa w
  end.
Definition is_some {A} (o : option A) : bool := match o with Some _ => true | None => false end.
Definition wfb (c : call) : bool :=
  match c with
  | to_base_le bits a base | to_base_be bits a base
  | roundtrip_le bits a base | roundtrip_be bits a base =>
      (0 <=? bits) && canonb bits a && inWb base
  | from_base_le bits base ds | from_base_be bits base ds =>
      (0 <=? bits) && inWb base && forallb inWb ds
  | from_str_radix bits radix text => (0 <=? bits) && inWb radix && is_some (utf8_decode text)
  | from_str bits text => (0 <=? bits) && is_some (utf8_decode text)
  | fmt bits t _ _ _ fa _ w a => (0 <=? bits) && canonb bits a && fmt_args_okb t fa w
  | fmt_ref bits t _ _ _ fa _ w a =>
      (0 <=? bits) && (bits <=? 128) && canonb bits a && fmt_args_okb t fa w
  end.

(* ---------- specification: positional notation on integers ---------- *)
(* digits_le b v: the base-b digits of v, least significant first, no leading zero, [] for 0 *)
Fixpoint digits_le_fuel (n : nat) (b v : Z) : list Z :=
  match n with
  | O => []
  | S n' => if v <=? 0 then [] else v mod b :: digits_le_fuel n' b (v / b)
  end.
Definition digits_le (b v : Z) : list Z := digits_le_fuel (S (Z.to_nat (Z.log2 v))) b v.
Definition digits_be (b v : Z) : list Z := rev (digits_le b v).
(* value of a digit string *)
Fixpoint value_le (b : Z) (ds : list Z) : Z :=
  match ds with [] => 0 | d :: t => d + b * value_le b t end.
Definition value_be (b : Z) (ds : list Z) : Z := value_le b (rev ds).

Definition U (bits v : Z) : list Z := uint_of bits v.

(* the digits before the first offending one (>= base), and that digit *)
Fixpoint split_bad (base : Z) (ds : list Z) : list Z * option Z :=
  match ds with
  | [] => ([], None)
  | d :: t => if base <=? d then ([], Some d)
              else let '(p, b) := split_bad base t in (d :: p, b)
  end.

(* from_base_{le,be}: base < 2 -> InvalidBase(base).  Otherwise Ok(value) iff no digit is
   >= base and the value is < 2^BITS; and whenever an error is returned it must be one that
   applies: InvalidDigit(d, base) for the first offending digit d, Overflow when the digits
   before the first offending one (all of them when there is none) denote a value >= 2^BITS. *)
Definition spec_from_base (le : bool) (bits base : Z) (ds : list Z) (o : result) : bool :=
  if base <? 2 then expect o [TErr 2; TZ base]
  else
    let '(pre, bad) := split_bad base ds in
    let v := if le then value_le base pre else value_be base pre in
    let ovf := 2 ^ bits <=? v in
    match o with
    | Val [TL l] => negb (is_some bad) && negb ovf && list_eqb Z.eqb l (U bits v)
    | Val [TErr 1] => ovf
    | Val [TErr 3; TZ d; TZ b] =>
        match bad with Some d' => (d =? d') && (b =? base) | None => false end
    | _ => false
    end.

(* ---- the documented alphabets of from_str_radix ---- *)
Fixpoint index_of (c : Z) (l : list Z) (i : Z) : option Z :=
  match l with
  | [] => None
  | x :: t => if c =? x then Some i else index_of c t (i + 1)
  end.
Definition lower (c : Z) : Z := if (65 <=? c) && (c <=? 90) then c + 32 else c.
(* "0123456789abcdefghijklmnopqrstuvwxyz" *)
Definition alphabet36 : list Z :=
  [48;49;50;51;52;53;54;55;56;57;
   97;98;99;100;101;102;103;104;105;106;107;108;109;110;111;112;113;114;115;116;117;118;119;
   120;121;122].
(* "ABCDEFGHIJKLMNOPQRSTUVWXYZabcdefghijklmnopqrstuvwxyz0123456789" then 62, 63 *)
Definition alphabet64 : list Z :=
  [65;66;67;68;69;70;71;72;73;74;75;76;77;78;79;80;81;82;83;84;85;86;87;88;89;90;
   97;98;99;100;101;102;103;104;105;106;107;108;109;110;111;112;113;114;115;116;117;118;119;
   120;121;122;
   48;49;50;51;52;53;54;55;56;57].
Inductive sitem : Type := SDigit (d : Z) | SIgnored | SInvalid.
Definition char_item (radix c : Z) : sitem :=
  if radix <=? 36 then
    if c =? 95 then SIgnored                                       (* _ *)
    else match index_of (lower c) alphabet36 0 with Some d => SDigit d | None => SInvalid end
  else
    if (c =? 61) || (c =? 13) || (c =? 10) then SIgnored           (* = CR LF *)
    else if (c =? 43) || (c =? 45) then SDigit 62                  (* + - *)
    else if (c =? 47) || (c =? 44) || (c =? 95) then SDigit 63     (* / , _ *)
    else match index_of c alphabet64 0 with Some d => SDigit d | None => SInvalid end.

(* digits before the first offending char (invalid char, or digit >= radix) and that char:
   inl c = invalid char c, inr d = digit d >= radix *)
Fixpoint split_text (radix : Z) (cs : list Z) : list Z * option (Z + Z) :=
  match cs with
  | [] => ([], None)
  | c :: t =>
      match char_item radix c with
      | SInvalid => ([], Some (inl c))
      | SIgnored => split_text radix t
      | SDigit d => if radix <=? d then ([], Some (inr d))
                    else let '(p, b) := split_text radix t in (d :: p, b)
      end
  end.

Definition spec_parse (bits radix : Z) (cs : list Z) (o : result) : bool :=
  if 64 <? radix then expect o [TErr 5; TZ radix]
  else if radix <? 2 then expect o [TErr 6; TErr 2; TZ radix]
  else
    let '(pre, bad) := split_text radix cs in
    let v := value_be radix pre in
    let ovf := 2 ^ bits <=? v in
    match o with
    | Val [TL l] => negb (is_some bad) && negb ovf && list_eqb Z.eqb l (U bits v)
    | Val [TErr 6; TErr 1] => ovf
    | Val [TErr 6; TErr 3; TZ d; TZ b] =>
        match bad with Some (inr d') => (d =? d') && (b =? radix) | _ => false end
    | Val [TErr 4; TZ c] =>
        match bad with Some (inl c') => c =? c' | _ => false end
    | _ => false
    end.

(* FromStr: 0x/0X -> 16, 0o/0O -> 8, 0b/0B -> 2 (prefix removed), otherwise decimal *)
Definition spec_from_str (bits : Z) (cs : list Z) (o : result) : bool :=
  match cs with
  | 48 :: x :: rest =>
      if (x =? 120) || (x =? 88) then spec_parse bits 16 rest o
      else if (x =? 111) || (x =? 79) then spec_parse bits 8 rest o
      else if (x =? 98) || (x =? 66) then spec_parse bits 2 rest o
      else spec_parse bits 10 cs o
  | _ => spec_parse bits 10 cs o
  end.

(* reference formatting of the number v: what Rust prints for a primitive integer *)
Definition ref_radix (t : Z) : Z :=
  if (t =? 0) || (t =? 1) then 10 else if (t =? 2) || (t =? 3) then 16
  else if t =? 4 then 8 else 2.
Definition ref_prefix (t : Z) : list Z :=
  if (t =? 0) || (t =? 1) then [] else if (t =? 2) || (t =? 3) then [48; 120]
  else if t =? 4 then [48; 111] else [48; 98].
Definition ref_digit_string (t v : Z) : list Z :=
  if v =? 0 then [48]
  else map (digit_char (t =? 3)) (digits_be (ref_radix t) v).
Definition ref_fmt (t : Z) (s : fspec) (v : Z) : list Z :=
  std_pad_integral s (ref_prefix t) (ref_digit_string t v).

Definition spec (c : call) (o : result) : bool :=
  match c with
  | to_base_le bits a base =>
      if base <? 2 then result_eqb o Panic else expect o [TL (digits_le base (eval a))]
  | to_base_be bits a base =>
      if base <? 2 then result_eqb o Panic else expect o [TL (digits_be base (eval a))]
  | from_base_le bits base ds => spec_from_base true bits base ds o
  | from_base_be bits base ds => spec_from_base false bits base ds o
  | roundtrip_le bits a base | roundtrip_be bits a base =>
      if base <? 2 then result_eqb o Panic else expect o [TL a]
  | from_str_radix bits radix text =>
      match utf8_decode text with Some cs => spec_parse bits radix cs o | None => true end
  | from_str bits text =>
      match utf8_decode text with Some cs => spec_from_str bits cs o | None => true end
  | fmt bits t plus alt zero fa hasw w a
  | fmt_ref bits t plus alt zero fa hasw w a =>
      expect o [TY (ref_fmt t (mkspec plus alt zero fa hasw w) (eval a))]
  end.
