(* Run/C01.v — the calls of property C01, the model's answer to each (run),
   the executable mathematical specification (spec) and the input domain (wf). *)
From RV.Model Require Import Base Word Add.

Inductive call : Type :=
| overflowing_add (bits : Z) (a b : list Z)
| overflowing_sub (bits : Z) (a b : list Z)
| overflowing_neg (bits : Z) (a : list Z)
| checked_add (bits : Z) (a b : list Z)
| checked_sub (bits : Z) (a b : list Z)
| checked_neg (bits : Z) (a : list Z)
| saturating_add (bits : Z) (a b : list Z)
| saturating_sub (bits : Z) (a b : list Z)
| wrapping_add (bits : Z) (a b : list Z)
| wrapping_sub (bits : Z) (a b : list Z)
| wrapping_neg (bits : Z) (a : list Z)
| abs_diff (bits : Z) (a b : list Z)
| op_add (bits : Z) (shape : Z) (a b : list Z)   (* the six impl_bin_op! shapes *)
| op_sub (bits : Z) (shape : Z) (a b : list Z)
| op_neg (bits : Z) (shape : Z) (a : list Z)     (* Neg for Uint / &Uint *)
| sum (bits : Z) (shape : Z) (xs : list (list Z)). (* Sum<Self> / Sum<&Self> *)

Definition pair_toks (p : list Z * bool) : list tok := [TL (fst p); TB (snd p)].
Definition opt_toks (o : option (list Z)) : list tok :=
  match o with Some v => [TSome; TL v] | None => [TNone] end.

Definition run (c : call) : result :=
  match c with
  | overflowing_add bits a b => Val (pair_toks (Add.overflowing_add bits a b))
  | overflowing_sub bits a b => Val (pair_toks (Add.overflowing_sub bits a b))
  | overflowing_neg bits a => Val (pair_toks (Add.overflowing_neg bits a))
  | checked_add bits a b => Val (opt_toks (Add.checked_add bits a b))
  | checked_sub bits a b => Val (opt_toks (Add.checked_sub bits a b))
  | checked_neg bits a => Val (opt_toks (Add.checked_neg bits a))
  | saturating_add bits a b => Val [TL (Add.saturating_add bits a b)]
  | saturating_sub bits a b => Val [TL (Add.saturating_sub bits a b)]
  | wrapping_add bits a b => Val [TL (Add.wrapping_add bits a b)]
  | wrapping_sub bits a b => Val [TL (Add.wrapping_sub bits a b)]
  | wrapping_neg bits a => Val [TL (Add.wrapping_neg bits a)]
  | abs_diff bits a b => Val [TL (Add.abs_diff bits a b)]
  | op_add bits _ a b => Val [TL (Add.wrapping_add bits a b)]
  | op_sub bits _ a b => Val [TL (Add.wrapping_sub bits a b)]
  | op_neg bits _ a => Val [TL (Add.wrapping_neg bits a)]
  | sum bits _ xs => Val [TL (Add.usum bits xs)]
  end.

(* ---- input domain: BITS >= 0, operands are values of Uint<BITS, nlimbs(BITS)> ---- *)
Definition wf (c : call) : Prop :=
  match c with
  | overflowing_add bits a b | overflowing_sub bits a b | checked_add bits a b
  | checked_sub bits a b | saturating_add bits a b | saturating_sub bits a b
  | wrapping_add bits a b | wrapping_sub bits a b | abs_diff bits a b
  | op_add bits _ a b | op_sub bits _ a b =>
      0 <= bits /\ canon bits a /\ canon bits b
  | overflowing_neg bits a | checked_neg bits a | wrapping_neg bits a | op_neg bits _ a =>
      0 <= bits /\ canon bits a
  | sum bits _ xs => 0 <= bits /\ Forall (canon bits) xs
  end.
Definition wfb (c : call) : bool :=
  match c with
  | overflowing_add bits a b | overflowing_sub bits a b | checked_add bits a b
  | checked_sub bits a b | saturating_add bits a b | saturating_sub bits a b
  | wrapping_add bits a b | wrapping_sub bits a b | abs_diff bits a b
  | op_add bits _ a b | op_sub bits _ a b =>
      (0 <=? bits) && canonb bits a && canonb bits b
  | overflowing_neg bits a | checked_neg bits a | wrapping_neg bits a | op_neg bits _ a =>
      (0 <=? bits) && canonb bits a
  | sum bits _ xs => (0 <=? bits) && forallb (canonb bits) xs
  end.

(* ---- specification: pure integer arithmetic on the denoted values ---- *)
Definition M (bits : Z) : Z := 2 ^ bits.
Definition U (bits v : Z) : tok := TL (uint_of bits v).       (* the canonical Uint of value v *)
Definition in_range (bits v : Z) : bool := (0 <=? v) && (v <? M bits).

Definition spec_ov (bits v : Z) : list tok := [U bits (modp2 v bits); TB (negb (in_range bits v))].
Definition spec_checked (bits v : Z) : list tok :=
  if in_range bits v then [TSome; U bits v] else [TNone].
Definition spec_sat (bits v : Z) : list tok :=
  [U bits (if v <? 0 then 0 else if M bits <=? v then M bits - 1 else v)].
Definition spec_wrap (bits v : Z) : list tok := [U bits (modp2 v bits)].

Definition spec (c : call) (o : result) : bool :=
  match c with
  | overflowing_add bits a b => expect o (spec_ov bits (eval a + eval b))
  | overflowing_sub bits a b => expect o (spec_ov bits (eval a - eval b))
  | overflowing_neg bits a => expect o (spec_ov bits (- eval a))
  | checked_add bits a b => expect o (spec_checked bits (eval a + eval b))
  | checked_sub bits a b => expect o (spec_checked bits (eval a - eval b))
  | checked_neg bits a => expect o (spec_checked bits (- eval a))
  | saturating_add bits a b => expect o (spec_sat bits (eval a + eval b))
  | saturating_sub bits a b => expect o (spec_sat bits (eval a - eval b))
  | wrapping_add bits a b | op_add bits _ a b => expect o (spec_wrap bits (eval a + eval b))
  | wrapping_sub bits a b | op_sub bits _ a b => expect o (spec_wrap bits (eval a - eval b))
  | wrapping_neg bits a | op_neg bits _ a => expect o (spec_wrap bits (- eval a))
  | abs_diff bits a b => expect o [U bits (Z.abs (eval a - eval b))]
  | sum bits _ xs => expect o (spec_wrap bits (fold_right Z.add 0 (map eval xs)))
  end.
