(* Run/RunC16B.v — C16, group B (SCALE plain + compact, SSZ, borsh, DER): the encoder-side calls,
   the model's answer (run), the input domain (wf) and the executable specification (spec):
   encode a = the reference encoding of eval a (Spec/FmtB.v), decode (encode a) = Ok a with every
   byte consumed, advertised lengths / hints are consistent with the bytes produced, and where the
   codec crate has the same format for u64/u128 its bytes are identical. *)
From RV.Model Require Import Base Word Bytes.
From RV.Model Require Conv CodecB.
From RV.Spec Require FmtB.
Import CodecB.

Inductive call : Type :=
(* parity-scale-codec: impl Encode / MaxEncodedLen / Decode for Uint *)
| scale_encode (bits : Z) (a : list Z)
| scale_size_hint (bits : Z) (a : list Z)
| scale_max_encoded_len (bits : Z) (a : list Z)
| scale_roundtrip (bits : Z) (a : list Z)
(* CompactRefUint / CompactUint / HasCompact *)
| scale_compact_encode (bits : Z) (a : list Z)
| scale_compact_size_hint (bits : Z) (a : list Z)
| scale_compact_roundtrip (bits : Z) (a : list Z)
| scale_compact_prim (bits : Z) (w : Z) (a : list Z)     (* vs Compact<u64> / Compact<u128> *)
(* ethereum_ssz *)
| ssz_encode (bits : Z) (a : list Z)
| ssz_len (bits : Z) (a : list Z)
| ssz_roundtrip (bits : Z) (a : list Z)
| ssz_prim (bits : Z) (w : Z) (a : list Z)               (* vs u64 / u128 at BITS = w *)
(* borsh; shape 0 = Uint, 1 = Bits *)
| borsh_ser (bits : Z) (shape : Z) (a : list Z)
| borsh_roundtrip (bits : Z) (shape : Z) (a : list Z)
| borsh_prim (bits : Z) (w : Z) (a : list Z)
(* der *)
| der_encode (bits : Z) (a : list Z)
| der_value_len (bits : Z) (a : list Z)                  (* value_len, encoded_len *)
| der_roundtrip (bits : Z) (a : list Z)
| der_prim (bits : Z) (w : Z) (a : list Z)               (* vs u64 / u128 ::to_der *)
| der_to_int (bits : Z) (a : list Z)                     (* Int::from(&x).as_bytes() *)
| der_to_uint (bits : Z) (a : list Z)                    (* der::asn1::Uint::from(&x).as_bytes() *)
| der_to_any (bits : Z) (a : list Z).                    (* Any::from(&x).value() *)

Definition err_toks (c : Z) (p : list Z) : list tok := TErr c :: map TZ p.
(* a streaming decoder's answer: value and number of bytes consumed out of `total` *)
Definition dec_toks (total : Z) (r : res (list Z * list Z)) : list tok :=
  match r with
  | Ok (v, rest) => [TL v; TZ (total - lenZ rest)]
  | Err c p => err_toks c p
  end.
(* a whole-input decoder's answer *)
Definition whole_toks (total : Z) (r : res (list Z)) : list tok :=
  match r with
  | Ok v => [TL v; TZ total]
  | Err c p => err_toks c p
  end.
Definition prim_of_w (w : Z) : Conv.prim := if w =? 64 then U64 else U128.
(* ours, then the codec crate's bytes for the equal primitive when there is one *)
Definition vs_toks (ours : list Z) (theirs : option (list Z)) : list tok :=
  match theirs with
  | Some t => [TY ours; TSome; TY t]
  | None => [TY ours; TNone]
  end.
(* uN::try_from(x).ok() *)
Definition try_prim (bits w : Z) (a : list Z) : outcome (option Z) :=
  do r <- Conv.try_to_prim bits (prim_of_w w) a;
  match r with Conv.FOk v => Val (Some v) | _ => Val None end.

Definition run (c : call) : result :=
  match c with
  | scale_encode bits a => do e <- CodecB.scale_encode bits a; Val [TY e]
  | scale_size_hint bits a => Val [TZ (CodecB.scale_size_hint bits)]
  | scale_max_encoded_len bits a => Val [TZ (CodecB.scale_max_encoded_len bits)]
  | scale_roundtrip bits a =>
      do e <- CodecB.scale_encode bits a;
      do r <- CodecB.scale_decode bits e; Val (dec_toks (lenZ e) r)
  | scale_compact_encode bits a => do e <- CodecB.compact_encode bits a; Val [TY e]
  | scale_compact_size_hint bits a => do n <- CodecB.compact_size_hint bits a; Val [TZ n]
  | scale_compact_roundtrip bits a =>
      do e <- CodecB.compact_encode bits a;
      do r <- CodecB.compact_decode bits e; Val (dec_toks (lenZ e) r)
  | scale_compact_prim bits w a =>
      do e <- CodecB.compact_encode bits a;
      do p <- try_prim bits w a;
      (* [3p] Compact<u64/u128>::encode = the format's definition *)
      Val (vs_toks e (option_map FmtB.compact p))
  | ssz_encode bits a => Val [TY (CodecB.ssz_encode bits a)]
  | ssz_len bits a =>
      Val [TZ (CodecB.ssz_len bits); TZ (CodecB.ssz_len bits); TZ (CodecB.ssz_len bits); TB true]
  | ssz_roundtrip bits a =>
      let e := CodecB.ssz_encode bits a in
      do r <- CodecB.ssz_decode bits e; Val (whole_toks (lenZ e) r)
  | ssz_prim bits w a =>
      let e := CodecB.ssz_encode bits a in
      if bits =? w then
        do v <- to_prim bits (prim_of_w w) a;
        Val (vs_toks e (Some (FmtB.fixed_le w v)))           (* [3p] ssz uN: N/8 bytes LE *)
      else Val (vs_toks e None)
  | borsh_ser bits shape a => Val [TY (CodecB.borsh_ser bits a)]
  | borsh_roundtrip bits shape a =>
      let e := CodecB.borsh_ser bits a in
      do r <- CodecB.borsh_de bits e; Val (dec_toks (lenZ e) r)
  | borsh_prim bits w a =>
      let e := CodecB.borsh_ser bits a in
      if bits =? w then
        do v <- to_prim bits (prim_of_w w) a;
        Val (vs_toks e (Some (FmtB.fixed_le w v)))           (* [3p] borsh uN: N/8 bytes LE *)
      else Val (vs_toks e None)
  | der_encode bits a =>
      do r <- CodecB.der_encode bits a;
      match r with Ok e => Val [TY e] | Err c p => Val (err_toks c p) end
  | der_value_len bits a =>
      do r <- CodecB.der_value_len bits a;
      match r with
      | Err c p => Val (err_toks c p)
      | Ok vl =>
          do r2 <- CodecB.der_encoded_len bits a;
          match r2 with Err c p => Val (err_toks c p) | Ok el => Val [TZ vl; TZ el] end
      end
  | der_roundtrip bits a =>
      do r <- CodecB.der_encode bits a;
      match r with
      | Err c p => Val (err_toks c p)
      | Ok e => do r2 <- CodecB.der_decode bits e; Val (whole_toks (lenZ e) r2)
      end
  | der_prim bits w a =>
      do r <- CodecB.der_encode bits a;
      match r with
      | Err c p => Val (err_toks c p)
      | Ok e =>
          do p <- try_prim bits w a;
          Val (vs_toks e (option_map FmtB.der_integer p))     (* [3p] uN::to_der *)
      end
  | der_to_int bits a => do e <- CodecB.der_to_int bits a; Val [TY e]
  | der_to_uint bits a => do e <- CodecB.der_to_uint bits a; Val [TY e]
  | der_to_any bits a => do e <- CodecB.der_to_any bits a; Val [TY e]
  end.

(* ---- input domain: a canonical value of a width >= 0.  The byte-vector length prefix of the
   plain SCALE form needs BYTES to fit the crate's u32 collection length (BITS < 2^32), DER's
   Length type holds at most 2^28 - 1 (BITS < 2^30); w selects u64 / u128. ---- *)
Definition wf (c : call) : Prop :=
  match c with
  | scale_encode bits a | scale_size_hint bits a | scale_max_encoded_len bits a
  | scale_roundtrip bits a => 0 <= bits < 2 ^ 32 /\ canon bits a
  | scale_compact_encode bits a | scale_compact_size_hint bits a | scale_compact_roundtrip bits a
  | ssz_encode bits a | ssz_len bits a | ssz_roundtrip bits a => 0 <= bits /\ canon bits a
  | scale_compact_prim bits w a | ssz_prim bits w a | borsh_prim bits w a =>
      0 <= bits /\ canon bits a /\ (w = 64 \/ w = 128)
  | borsh_ser bits shape a | borsh_roundtrip bits shape a =>
      0 <= bits /\ canon bits a /\ (shape = 0 \/ shape = 1)
  | der_encode bits a | der_value_len bits a | der_roundtrip bits a
  | der_to_int bits a | der_to_uint bits a | der_to_any bits a => 0 <= bits < 2 ^ 30 /\ canon bits a
  | der_prim bits w a => 0 <= bits < 2 ^ 30 /\ canon bits a /\ (w = 64 \/ w = 128)
  end.
Definition wfb (c : call) : bool :=
  match c with
  | scale_encode bits a | scale_size_hint bits a | scale_max_encoded_len bits a
  | scale_roundtrip bits a => (0 <=? bits) && (bits <? 2 ^ 32) && canonb bits a
  | scale_compact_encode bits a | scale_compact_size_hint bits a | scale_compact_roundtrip bits a
  | ssz_encode bits a | ssz_len bits a | ssz_roundtrip bits a => (0 <=? bits) && canonb bits a
  | scale_compact_prim bits w a | ssz_prim bits w a | borsh_prim bits w a =>
      (0 <=? bits) && canonb bits a && ((w =? 64) || (w =? 128))
  | borsh_ser bits shape a | borsh_roundtrip bits shape a =>
      (0 <=? bits) && canonb bits a && ((shape =? 0) || (shape =? 1))
  | der_encode bits a | der_value_len bits a | der_roundtrip bits a
  | der_to_int bits a | der_to_uint bits a | der_to_any bits a =>
      (0 <=? bits) && (bits <? 2 ^ 30) && canonb bits a
  | der_prim bits w a => (0 <=? bits) && (bits <? 2 ^ 30) && canonb bits a && ((w =? 64) || (w =? 128))
  end.

(* ---- specification ---- *)
(* a size hint / upper bound n for the bytes `ref`: n >= length *)
Definition bounds (o : result) (ref : list Z) : bool :=
  match o with
  | Val [TZ n] => lenZ ref <=? n
  | _ => false
  end.
Definition a_number (o : result) : bool :=
  match o with Val [TZ _] => true | _ => false end.
(* our bytes are the reference e; the crate's bytes for the equal primitive (when it has the
   format: `applicable`) are identical *)
Definition spec_vs (applicable : bool) (e : list Z) (o : result) : bool :=
  if applicable then expect o [TY e; TSome; TY e] else expect o [TY e; TNone].
(* compact is defined up to 536 bits; ruint documents a panic for BITS >= 536 *)
Definition compact_or_panic (bits : Z) (o : result) (k : bool) : bool :=
  if FmtB.COMPACT_MAX_BITS <=? bits then result_eqb o Panic else k.

Definition spec (c : call) (o : result) : bool :=
  match c with
  | scale_encode bits a => expect o [TY (FmtB.scale_uint bits (eval a))]
  | scale_size_hint bits a | scale_max_encoded_len bits a =>
      bounds o (FmtB.scale_uint bits (eval a))
  | scale_roundtrip bits a => expect o [TL a; TZ (lenZ (FmtB.scale_uint bits (eval a)))]
  | scale_compact_encode bits a =>
      compact_or_panic bits o (expect o [TY (FmtB.compact (eval a))])
  | scale_compact_size_hint bits a =>
      (* size_hint never panics, at any width; below the limit it covers the bytes produced *)
      if FmtB.COMPACT_MAX_BITS <=? bits then a_number o else bounds o (FmtB.compact (eval a))
  | scale_compact_roundtrip bits a =>
      compact_or_panic bits o (expect o [TL a; TZ (lenZ (FmtB.compact (eval a)))])
  | scale_compact_prim bits w a =>
      compact_or_panic bits o (spec_vs (eval a <? 2 ^ w) (FmtB.compact (eval a)) o)
  | ssz_encode bits a => expect o [TY (FmtB.fixed_le bits (eval a))]
  | ssz_len bits a =>
      let n := lenZ (FmtB.fixed_le bits (eval a)) in expect o [TZ n; TZ n; TZ n; TB true]
  | ssz_roundtrip bits a => expect o [TL a; TZ (lenZ (FmtB.fixed_le bits (eval a)))]
  | ssz_prim bits w a | borsh_prim bits w a => spec_vs (bits =? w) (FmtB.fixed_le bits (eval a)) o
  | borsh_ser bits _ a => expect o [TY (FmtB.fixed_le bits (eval a))]
  | borsh_roundtrip bits _ a => expect o [TL a; TZ (lenZ (FmtB.fixed_le bits (eval a)))]
  | der_encode bits a => expect o [TY (FmtB.der_integer (eval a))]
  | der_value_len bits a =>
      expect o [TZ (lenZ (FmtB.der_content (eval a))); TZ (lenZ (FmtB.der_integer (eval a)))]
  | der_roundtrip bits a => expect o [TL a; TZ (lenZ (FmtB.der_integer (eval a)))]
  | der_prim bits w a => spec_vs (eval a <? 2 ^ w) (FmtB.der_integer (eval a)) o
  | der_to_int bits a | der_to_any bits a => expect o [TY (FmtB.der_content (eval a))]
  | der_to_uint bits a => expect o [TY (if eval a =? 0 then [0] else FmtB.be_min (eval a))]
  end.
