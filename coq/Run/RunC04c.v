(* Run/RunC04c.v — property C04 part (c): rejecting constructors, constants, generators.
   Calls, the model's answer (run), the specification on the denoted integers (spec), wf.

   from_limbs bits l                 Uint::from_limbs(l)                   -> L:limbs | P
   bits_from_limbs bits l            Bits::from_limbs(l).into_inner()      -> L:limbs | P
   {,checked_,wrapping_,overflowing_,saturating_}from_limbs_slice bits s   (as in C07)
   constant bits k                   0 ZERO 1 ONE 2 MIN 3 MAX 4 Uint::default() 5 Bits::ZERO
                                     6 Bits::default() 7 Uint::from(Bits::from(Uint::MAX)) -> L
   rand08 bits shape ws              rand 0.8 over a source yielding the words ws:
                                     0 Standard.sample(rng) 1 rng.gen()   -> L
   rand09 bits shape a ws            rand 0.9: 0 Uint::random_with(rng) 1 a.randomize_with(rng)
                                     2 StandardUniform.sample(rng) 3 rng.random() -> L
   arbitrary bits bytes              Uint::arbitrary(&mut Unstructured::new(bytes)) -> L | E:1
   proptest bits seed arr            seeded TestRunner: the array drawn by any::<[u64; LIMBS]>()
                                     (must be arr) and the Uint drawn by any::<Uint>() -> L:arr L:uint
   quickcheck bits seed size ws      Gen::from_size_and_seed: the words drawn by u64::arbitrary
                                     (must be ws) and Uint::arbitrary      -> L:ws L:uint
   thread_random bits which count    count draws from an unseeded source (0 Uint::random,
                                     1 randomize, 2 rand 0.8 thread_rng().gen(), 3 rand 0.9
                                     rng().random(), 4 quickcheck Gen::new, 5 proptest default
                                     runner with simplify steps): OR of the bits above BITS -> Z
   approx_pow2 bits x b64            Uint::approx_pow2(f64::from_bits(x)); b64 = the observed
                                     `(fract.exp2() * 2^63) as u64` (libm)  -> N | S L:limbs *)
From RV.Model Require Import Base Word Conv Gen.
From RV.Model Require ApproxPow2.

Inductive call : Type :=
| from_limbs (bits : Z) (l : list Z)
| bits_from_limbs (bits : Z) (l : list Z)
| from_limbs_slice (bits : Z) (s : list Z)
| checked_from_limbs_slice (bits : Z) (s : list Z)
| wrapping_from_limbs_slice (bits : Z) (s : list Z)
| overflowing_from_limbs_slice (bits : Z) (s : list Z)
| saturating_from_limbs_slice (bits : Z) (s : list Z)
| constant (bits : Z) (k : Z)
| rand08 (bits : Z) (shape : Z) (ws : list Z)
| rand09 (bits : Z) (shape : Z) (a ws : list Z)
| arbitrary (bits : Z) (bytes : list Z)
| proptest (bits : Z) (seed : Z) (arr : list Z)
| quickcheck (bits : Z) (seed size : Z) (ws : list Z)
| thread_random (bits : Z) (which count : Z)
| approx_pow2 (bits : Z) (x b64 : Z).

Definition run (c : call) : result :=
  match c with
  | from_limbs bits l | bits_from_limbs bits l => do r <- Conv.from_limbs bits l ; Val [TL r]
  | from_limbs_slice bits s => do r <- Conv.from_limbs_slice bits s ; Val [TL r]
  | checked_from_limbs_slice bits s =>
      do r <- Conv.checked_from_limbs_slice bits s ;
      Val (match r with Some v => [TSome; TL v] | None => [TNone] end)
  | wrapping_from_limbs_slice bits s => do r <- Conv.wrapping_from_limbs_slice bits s ; Val [TL r]
  | overflowing_from_limbs_slice bits s =>
      do p <- Conv.overflowing_from_limbs_slice bits s ; Val [TL (fst p); TB (snd p)]
  | saturating_from_limbs_slice bits s =>
      do r <- Conv.saturating_from_limbs_slice bits s ; Val [TL r]
  | constant bits k =>
      if k =? 1 then do r <- cONE bits ; Val [TL r]
      else if (k =? 3) || (k =? 7) then Val [TL (cMAX bits)]
      else do r <- cZERO bits ; Val [TL r]
  | rand08 bits _ ws => Val [TL (rand_fill bits ws)]
  | rand09 bits _ _ ws => Val [TL (rand_fill bits ws)]
  | arbitrary bits bytes => do r <- Gen.arbitrary bits bytes ; Val [TL r]
  | proptest bits _ arr => Val [TL arr; TL (proptest_map bits arr)]
  | quickcheck bits _ _ ws => do r <- quickcheck_arb bits ws ; Val [TL ws; TL r]
  | thread_random bits _ _ => Val [TZ 0]
  | approx_pow2 bits x b64 =>
      do r <- ApproxPow2.approx_pow2 bits x b64 ;
      Val (match r with Some v => [TSome; TL v] | None => [TNone] end)
  end.

Definition isbyte (b : Z) : Prop := 0 <= b < 256.
Definition isbyteb (b : Z) : bool := (0 <=? b) && (b <? 256).

Definition wf (c : call) : Prop :=
  match c with
  | from_limbs bits l | bits_from_limbs bits l =>
      0 <= bits /\ length l = nlimbsN bits /\ Forall inW l
  | from_limbs_slice bits s | checked_from_limbs_slice bits s | wrapping_from_limbs_slice bits s
  | overflowing_from_limbs_slice bits s | saturating_from_limbs_slice bits s =>
      0 <= bits /\ Forall inW s
  | constant bits k => 0 <= bits /\ 0 <= k <= 7
  | rand08 bits _ ws => 0 <= bits /\ Forall inW ws
  | rand09 bits _ a ws => 0 <= bits /\ canon bits a /\ Forall inW ws
  | arbitrary bits bytes => 0 <= bits /\ Forall isbyte bytes
  | proptest bits _ arr => 0 <= bits /\ length arr = nlimbsN bits /\ Forall inW arr
  | quickcheck bits _ _ ws => 0 <= bits /\ length ws = nlimbsN bits /\ Forall inW ws
  | thread_random bits _ _ => 0 <= bits
  | approx_pow2 bits x b64 => 0 <= bits /\ inW x /\ inW b64
  end.
Definition wfb (c : call) : bool :=
  match c with
  | from_limbs bits l | bits_from_limbs bits l =>
      (0 <=? bits) && Nat.eqb (length l) (nlimbsN bits) && forallb inWb l
  | from_limbs_slice bits s | checked_from_limbs_slice bits s | wrapping_from_limbs_slice bits s
  | overflowing_from_limbs_slice bits s | saturating_from_limbs_slice bits s =>
      (0 <=? bits) && forallb inWb s
  | constant bits k => (0 <=? bits) && ((0 <=? k) && (k <=? 7))
  | rand08 bits _ ws => (0 <=? bits) && forallb inWb ws
  | rand09 bits _ a ws => (0 <=? bits) && canonb bits a && forallb inWb ws
  | arbitrary bits bytes => (0 <=? bits) && forallb isbyteb bytes
  | proptest bits _ arr => (0 <=? bits) && Nat.eqb (length arr) (nlimbsN bits) && forallb inWb arr
  | quickcheck bits _ _ ws => (0 <=? bits) && Nat.eqb (length ws) (nlimbsN bits) && forallb inWb ws
  | thread_random bits _ _ => 0 <=? bits
  | approx_pow2 bits x b64 => (0 <=? bits) && inWb x && inWb b64
  end.

(* ---- specification ---- *)
Definition M (bits : Z) : Z := 2 ^ bits.
Definition U (bits v : Z) : tok := TL (uint_of bits v).
(* the integer denoted by the first LIMBS words of a source (missing words are 0) *)
Definition src_value (bits : Z) (ws : list Z) : Z :=
  eval (firstn (nlimbsN bits) (ws ++ repeat 0 (nlimbsN bits))).

Definition spec (c : call) (o : result) : bool :=
  match c with
  | from_limbs bits l | bits_from_limbs bits l =>
      (* accepted unchanged iff the value is in range, otherwise rejected by a panic *)
      if eval l <? M bits then expect o [TL l] else result_eqb o Panic
  | from_limbs_slice bits s =>
      if eval s <? M bits then expect o [U bits (eval s)] else result_eqb o Panic
  | checked_from_limbs_slice bits s =>
      if eval s <? M bits then expect o [TSome; U bits (eval s)] else expect o [TNone]
  | wrapping_from_limbs_slice bits s => expect o [U bits (modp2 (eval s) bits)]
  | overflowing_from_limbs_slice bits s =>
      expect o [U bits (modp2 (eval s) bits); TB (M bits <=? eval s)]
  | saturating_from_limbs_slice bits s =>
      expect o [U bits (if eval s <? M bits then eval s else M bits - 1)]
  | constant bits k =>
      expect o [U bits (if k =? 1 then modp2 1 bits
                        else if (k =? 3) || (k =? 7) then M bits - 1 else 0)]
  | rand08 bits _ ws | rand09 bits _ _ ws => expect o [U bits (modp2 (src_value bits ws) bits)]
  | arbitrary bits _ =>
      match o with Val [TL v] => canonb bits v | _ => false end
  | proptest bits _ arr => expect o [TL arr; U bits (modp2 (eval arr) bits)]
  | quickcheck bits _ _ ws => expect o [TL ws; U bits (modp2 (eval ws) bits)]
  | thread_random bits _ _ => expect o [TZ 0]
  | approx_pow2 bits _ _ =>
      (* whatever the estimate is, a returned value is canonical (and the call never panics) *)
      match o with Val [TNone] => true | Val [TSome; TL v] => canonb bits v | _ => false end
  end.
