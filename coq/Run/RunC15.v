(* Run/RunC15.v — limb-slice kernels (ruint::algorithms): calls, model answers, specification.
   `bits` is unused (always 0): slices carry their own lengths. *)
From RV.Model Require Import Base Word Add Limbs.

Inductive call : Type :=
| addmul (bits : Z) (lhs a b : list Z)
| addmul_n (bits : Z) (lhs a b : list Z)
| mul_nx1 (bits : Z) (lhs : list Z) (a : Z)
| addmul_nx1 (bits : Z) (lhs a : list Z) (b : Z)
| submul_nx1 (bits : Z) (lhs a : list Z) (b : Z)
| add_nx1 (bits : Z) (lhs : list Z) (a : Z)
| adc_n (bits : Z) (lhs rhs : list Z) (carry : Z)
| sbb_n (bits : Z) (lhs rhs : list Z) (borrow : Z)
| shift_left_small (bits : Z) (limbs : list Z) (amount : Z)
| shift_right_small (bits : Z) (limbs : list Z) (amount : Z)
| cmp (bits : Z) (l r : list Z)
| adc (bits : Z) (x y c : Z)
| sbb (bits : Z) (x y c : Z)
| carrying_add (bits : Z) (x y : Z) (c : bool)
| borrowing_sub (bits : Z) (x y : Z) (c : bool).

Definition cmp_tok (c : comparison) : tok :=
  TZ (match c with Lt => 0 | Eq => 1 | Gt => 2 end).
Definition lz (p : list Z * Z) : list tok := [TL (fst p); TZ (snd p)].

Definition run (c : call) : result :=
  match c with
  | addmul _ lhs a b => let '(l, f) := Limbs.addmul lhs a b in Val [TL l; TB f]
  | addmul_n _ lhs a b => do l <- Limbs.addmul_n lhs a b ; Val [TL l]
  | mul_nx1 _ lhs a => Val (lz (Limbs.mul_nx1 lhs a))
  | addmul_nx1 _ lhs a b => do p <- Limbs.addmul_nx1 lhs a b ; Val (lz p)
  | submul_nx1 _ lhs a b => do p <- Limbs.submul_nx1 lhs a b ; Val (lz p)
  | add_nx1 _ lhs a => Val (lz (Limbs.add_nx1 lhs a))
  | adc_n _ lhs rhs carry => do p <- Limbs.adc_n lhs rhs carry ; Val (lz p)
  | sbb_n _ lhs rhs borrow => do p <- Limbs.sbb_n lhs rhs borrow ; Val (lz p)
  | shift_left_small _ l s => do p <- Limbs.shift_left_small l s ; Val (lz p)
  | shift_right_small _ l s => do p <- Limbs.shift_right_small l s ; Val (lz p)
  | cmp _ l r => Val [cmp_tok (limbs_cmp l r)]
  | adc _ x y c => let '(l, h) := Word.adc x y c in Val [TZ l; TZ h]
  | sbb _ x y c => let '(l, h) := Word.sbb x y c in Val [TZ l; TZ h]
  | carrying_add _ x y c => let '(r, f) := Word.carrying_add x y c in Val [TZ r; TB f]
  | borrowing_sub _ x y c => let '(r, f) := Word.borrowing_sub x y c in Val [TZ r; TB f]
  end.

Definition words (l : list Z) : Prop := Forall inW l.
Definition wordsb (l : list Z) : bool := forallb inWb l.

(* Input domain: word lists / words.  Length preconditions that the Rust functions document
   (and check with assume!/assert!) are part of wf only for the debug-checked ones; the
   panicking ones are specified below. *)
Definition wf (c : call) : Prop :=
  match c with
  | addmul _ lhs a b | addmul_n _ lhs a b => words lhs /\ words a /\ words b
  | mul_nx1 _ lhs a | add_nx1 _ lhs a => words lhs /\ inW a
  | addmul_nx1 _ lhs a b | submul_nx1 _ lhs a b =>
      words lhs /\ words a /\ inW b /\ length lhs = length a
  | adc_n _ lhs rhs c | sbb_n _ lhs rhs c => words lhs /\ words rhs /\ inW c
  | shift_left_small _ l s | shift_right_small _ l s => words l /\ 0 <= s < 64
  | cmp _ l r => words l /\ words r
  | adc _ x y c | sbb _ x y c => inW x /\ inW y /\ inW c
  | carrying_add _ x y _ | borrowing_sub _ x y _ => inW x /\ inW y
  end.
Definition wfb (c : call) : bool :=
  match c with
  | addmul _ lhs a b | addmul_n _ lhs a b => wordsb lhs && wordsb a && wordsb b
  | mul_nx1 _ lhs a | add_nx1 _ lhs a => wordsb lhs && inWb a
  | addmul_nx1 _ lhs a b | submul_nx1 _ lhs a b =>
      wordsb lhs && wordsb a && inWb b && Nat.eqb (length lhs) (length a)
  | adc_n _ lhs rhs c | sbb_n _ lhs rhs c => wordsb lhs && wordsb rhs && inWb c
  | shift_left_small _ l s | shift_right_small _ l s => wordsb l && (0 <=? s) && (s <? 64)
  | cmp _ l r => wordsb l && wordsb r
  | adc _ x y c | sbb _ x y c => inWb x && inWb y && inWb c
  | carrying_add _ x y _ | borrowing_sub _ x y _ => inWb x && inWb y
  end.

(* ---- specification: exact integer arithmetic on the denoted values ---- *)
Definition Bn (n : nat) : Z := 2 ^ (64 * Z.of_nat n).
Definition lowp (n : nat) (t : Z) : tok := TL (to_limbs n t).            (* t mod B^n as n limbs *)
Definition highp (n : nat) (t : Z) : Z := divp2 t (64 * Z.of_nat n).     (* floor (t / B^n) *)

Definition spec (c : call) (o : result) : bool :=
  match c with
  | addmul _ lhs a b =>
      let n := length lhs in let t := eval lhs + eval a * eval b in
      expect o [lowp n t; TB (Bn n <=? t)]
  | addmul_n _ lhs a b =>
      let n := length lhs in
      if Nat.eqb n (length a) && Nat.eqb n (length b)
      then expect o [lowp n (eval lhs + eval a * eval b)]
      else result_eqb o Panic
  | mul_nx1 _ lhs a =>
      let n := length lhs in let t := eval lhs * a in expect o [lowp n t; TZ (highp n t)]
  | addmul_nx1 _ lhs a b =>
      let n := length lhs in let t := eval lhs + eval a * b in expect o [lowp n t; TZ (highp n t)]
  | submul_nx1 _ lhs a b =>
      let n := length lhs in let t := eval lhs - eval a * b in expect o [lowp n t; TZ (- highp n t)]
  | add_nx1 _ lhs a =>
      let n := length lhs in let t := eval lhs + a in expect o [lowp n t; TZ (highp n t)]
  | adc_n _ lhs rhs carry =>
      let n := length lhs in
      if Nat.leb n (length rhs)
      then let t := eval lhs + eval (firstn n rhs) + carry in expect o [lowp n t; TZ (highp n t)]
      else result_eqb o Panic
  | sbb_n _ lhs rhs borrow =>
      let n := length lhs in
      if Nat.leb n (length rhs)
      then let t := eval lhs - eval (firstn n rhs) - borrow in expect o [lowp n t; TZ (- highp n t)]
      else result_eqb o Panic
  | shift_left_small _ l s =>
      let n := length l in let t := eval l * 2 ^ s in expect o [lowp n t; TZ (highp n t)]
  | shift_right_small _ l s =>
      (* shifted limbs, and the bits shifted out left-aligned in one word *)
      expect o [lowp (length l) (divp2 (eval l) s); TZ (modp2 (eval l) s * 2 ^ (64 - s) mod 2 ^ 64)]
  | cmp _ l r =>
      let m := Nat.min (length l) (length r) in
      let c1 := Z.compare (eval (firstn m l)) (eval (firstn m r)) in
      expect o [cmp_tok (match c1 with Eq => Nat.compare (length l) (length r) | x => x end)]
  | adc _ x y c => let t := x + y + c in expect o [TZ (modp2 t 64); TZ (divp2 t 64)]
  | sbb _ x y c => let t := x - y - c in expect o [TZ (modp2 t 64); TZ (- divp2 t 64)]
  | carrying_add _ x y c => let t := x + y + b2z c in expect o [TZ (modp2 t 64); TB (2 ^ 64 <=? t)]
  | borrowing_sub _ x y c => let t := x - y - b2z c in expect o [TZ (modp2 t 64); TB (t <? 0)]
  end.
