(* Run/RunC19.v — the calls of property C19 (programs around `uint!`), the model's answer (run),
   the executable specification (spec) and the input domain (wf).

   literal bits entry src   : the program  ENTRY!( src )            in expression position
   tree    bits entry items : the program  ENTRY!{ stringify!( items ) }
     entry 0 = ruint::uint!                       (macro_rules wrapper, path [$crate])
     entry 1 = ruint_macro::uint!                 (path ::ruint)
     entry 2 = ruint_macro::uint_with_path!       (literal: path group `[ruint]` is prepended;
               tree: the first item, if it opens a group, is that path group and stays outside
               stringify!)
   fwd     bits entry src   : the program  fw!( src )  with
                              macro_rules! fw { ($e:expr) => { ENTRY!( $e ) } }, in expression position:
                              the literal reaches the macro inside a None-delimited group
   `bits` (first argument) only labels the case (suffix width or 0); it is not used.
   items: pre-order token list, [0;d] open group (d = 0 ( 1 [ 2 { 3 None-delimited: an
   expression fragment forwarded by macro_rules, invisible in the stringify! output), [1] close, 2::text a
   literal, 3::text any other token.

   Results.  literal: [TZ 0] passed through unchanged | [TZ kind; TZ bits; TZ LIMBS; TL limbs]
   (kind 0 Uint, 1 Bits) | CompileError.   tree: CompileError, or the flat token list of what
   stringify! received: TZ (10+d) open, TZ 20 close, TY text (token passed through),
   TZ (30+kind); TZ bits; TZ LIMBS; TL limbs (after the crate-path tokens) for an expansion,
   TErr 1 for a compile_error!{..} invocation. *)
From RV.Model Require Import Base Macro.

Inductive call : Type :=
| literal (bits : Z) (entry : Z) (src : list Z)
| fwd (bits : Z) (entry : Z) (src : list Z)
| tree (bits : Z) (entry : Z) (items : list (list Z)).

(* ---------- items <-> forests ---------- *)
Inductive item_kind : Type :=
| IOpen (d : Z) | IClose | ILit (t : list Z) | IOther (t : list Z) | IBad.
Definition classify (it : list Z) : item_kind :=
  match it with
  | [] => IBad
  | k :: t =>
      if k =? 0 then match t with [d] => IOpen d | _ => IBad end
      else if k =? 1 then match t with [] => IClose | _ => IBad end
      else if k =? 2 then ILit t
      else if k =? 3 then IOther t
      else IBad
  end.

Fixpoint parse_items (fuel : nat) (items : list (list Z)) : option (list Macro.tree * list (list Z)) :=
  match fuel with
  | O => None
  | S f =>
      match items with
      | [] => Some ([], [])
      | it :: rest =>
          match classify it with
          | IOpen d =>
              match parse_items f rest with
              | Some (inner, c :: rest2) =>
                  match classify c with
                  | IClose =>
                      match parse_items f rest2 with
                      | Some (sibs, rest3) => Some (Group d inner :: sibs, rest3)
                      | None => None
                      end
                  | _ => None
                  end
              | _ => None
              end
          | IClose => Some ([], items)
          | ILit t => match parse_items f rest with
                      | Some (sibs, r) => Some (Lit t :: sibs, r)
                      | None => None
                      end
          | IOther t => match parse_items f rest with
                        | Some (sibs, r) => Some (Other t :: sibs, r)
                        | None => None
                        end
          | IBad => None
          end
      end
  end.

Definition forest_of (items : list (list Z)) : option (list Macro.tree) :=
  match parse_items (S (length items)) items with
  | Some (f, []) => Some f
  | _ => None
  end.

(* what the harness reads back from the stringify! output *)
Fixpoint flat_tree (t : Macro.tree) : list tok :=
  match t with
  | Group d s =>
      if d =? 3 then flat_map flat_tree s
      else TZ (10 + d) :: flat_map flat_tree s ++ [TZ 20]
  | Lit t => [TY t]
  | Other t => [TY t]
  | Constructed bt bits nl limbs => [TZ (30 + base_type_code bt); TZ bits; TZ nl; TL limbs]
  | CompileErr => [TErr 1]
  | Panicked => [TErr 2]
  end.

Definition t_stringify : text := [115; 116; 114; 105; 110; 103; 105; 102; 121].
Definition t_ruint : text := [114; 117; 105; 110; 116].

Definition entry_fn (entry : Z) (stream : list Macro.tree) : outcome (list Macro.tree) :=
  if entry =? 0 then uint_wrapper stream
  else if entry =? 1 then uint stream
  else uint_with_path stream.

(* a panic inside a procedural macro is the compile error "proc macro panicked" *)
Definition observe_literal (o : outcome (list Macro.tree)) : result :=
  match o with
  | Val [Lit _] => Val [TZ 0]
  | Val [Group 3 g] =>
      match rev g with
      | Constructed bt bits nl limbs :: _ => Val [TZ (base_type_code bt); TZ bits; TZ nl; TL limbs]
      | _ => CompileError
      end
  | _ => CompileError
  end.

(* the same through an expression fragment: the output is the None group around the literal *)
Definition observe_fwd (o : outcome (list Macro.tree)) : result :=
  match o with
  | Val [Group 3 inner] => observe_literal (Val inner)
  | _ => CompileError
  end.

Definition observe_tree (o : outcome (list Macro.tree)) : result :=
  match o with
  | Val [Other _; Other _; Group 0 inner] => Val (flat_map flat_tree inner)
  | _ => CompileError
  end.

Definition run (c : call) : result :=
  match c with
  | literal _ entry src =>
      observe_literal
        (entry_fn entry ((if entry =? 2 then [Group 1 [Other t_ruint]] else []) ++ [Lit src]))
  | fwd _ entry src =>
      observe_fwd
        (entry_fn entry ((if entry =? 2 then [Group 1 [Other t_ruint]] else [])
                         ++ [Group 3 [Lit src]]))
  | tree _ entry items =>
      match forest_of items with
      | None => OutOfFuel                      (* ill-formed items: excluded by wf *)
      | Some f =>
          let wrap inner := [Other t_stringify; Other [33]; Group 0 inner] in
          observe_tree
            (entry_fn entry
               (match entry =? 2, f with
                | true, Group d p :: rest => Group d p :: wrap rest
                | _, _ => wrap f
                end))
      end
  end.

(* ================= specification (independent of Model/Macro.v) ================= *)
(* the digit value of a character in positional notation, 0-9 a-z A-Z *)
Definition digit_value (c : Z) : option Z :=
  if (48 <=? c) && (c <=? 57) then Some (c - 48)
  else if (97 <=? c) && (c <=? 122) then Some (c - 87)
  else if (65 <=? c) && (c <=? 90) then Some (c - 55)
  else None.
Definition underscore (c : Z) : bool := c =? 95.

(* every character is `_` or a digit of the base *)
Definition digits_valid (base : Z) (ds : list Z) : bool :=
  forallb (fun c => underscore c ||
                    match digit_value c with Some d => d <? base | None => false end) ds.
(* positional value of the digits, most significant first, underscores skipped *)
Definition positional (base : Z) (ds : list Z) : Z :=
  fold_left (fun acc c => match digit_value c with
                          | Some d => acc * base + d
                          | None => acc
                          end) ds 0.

(* notation: 0x / 0o / 0b prefix, else decimal *)
Definition notation (value : list Z) : Z * list Z :=
  match value with
  | z :: p :: r =>
      if (z =? 48) && (p =? 120) then (16, r)
      else if (z =? 48) && (p =? 111) then (8, r)
      else if (z =? 48) && (p =? 98) then (2, r)
      else (10, value)
  | _ => (10, value)
  end.
Definition is_hex_notation (value : list Z) : bool :=
  match value with z :: p :: _ => (z =? 48) && (p =? 120) | _ => false end.
Definition ends_with_underscore (value : list Z) : bool :=
  match rev value with c :: _ => c =? 95 | [] => false end.

(* a width as written after U / B: decimal digits (what usize::from_str accepts: an optional
   leading '+'), value below 2^64 *)
Definition width_of (w : list Z) : option Z :=
  let ds := match w with c :: r => if c =? 43 then r else w | [] => w end in
  if negb (Nat.eqb (length ds) 0) && forallb (fun c => (48 <=? c) && (c <=? 57)) ds
  then let v := fold_left (fun acc c => acc * 10 + (c - 48)) ds 0 in
       if v <? 2 ^ 64 then Some v else None
  else None.

(* the suffix, recognised from the right: text = value ++ [U|B] ++ width, where width contains
   no further U or B *)
Definition isUB (c : Z) : bool := (c =? 85) || (c =? 66).
Fixpoint until_UB (r : list Z) (acc : list Z) : option (list Z * Z * list Z) :=
  match r with          (* r = reversed text; acc = width text collected so far *)
  | [] => None
  | c :: r' => if isUB c then Some (rev r', c, acc) else until_UB r' (c :: acc)
  end.

Inductive lit_spec : Type :=
| SPass
| SExpand (kind bits : Z) (limbs : list Z)
| SReject.

Definition suffix_of (src : list Z) : option (Z * Z * list Z) :=     (* kind, width, value *)
  match until_UB (rev src) [] with
  | None => None
  | Some (value, c, w) =>
      match width_of w with
      | None => None
      | Some bits =>
          let kind := if c =? 85 then 0 else 1 in
          (* a hexadecimal literal ending in B<digits> without `_` before the B is not ours *)
          if (kind =? 1) && is_hex_notation value && negb (ends_with_underscore value)
          then None
          else Some (kind, bits, value)
      end
  end.

Definition spec_literal (src : list Z) : lit_spec :=
  match suffix_of src with
  | None => SPass
  | Some (kind, bits, value) =>
      let '(base, ds) := notation value in
      let v := positional base ds in
      if digits_valid base ds && (v <? 2 ^ bits) then SExpand kind bits (uint_of bits v)
      else SReject
  end.

(* -- trees, on the flat item list: every literal item is replaced on its own, whatever its
      depth; every other item is unchanged.  The walk keeps the stack of open delimiters only
      because a None-delimited group (d = 3) prints neither its opening nor its closing -- *)
Definition open_toks (d : Z) : list tok := if d =? 3 then [] else [TZ (10 + d)].
Definition close_toks (d : Z) : list tok := if d =? 3 then [] else [TZ 20].

Fixpoint walk (lit : list Z -> list tok) (stack : list Z) (items : list (list Z)) : list tok :=
  match items with
  | [] => []
  | it :: rest =>
      match classify it with
      | IOpen d => open_toks d ++ walk lit (d :: stack) rest
      | IClose => match stack with
                  | d :: st => close_toks d ++ walk lit st rest
                  | [] => TZ 20 :: walk lit [] rest
                  end
      | ILit t => lit t ++ walk lit stack rest
      | IOther t => TY t :: walk lit stack rest
      | IBad => walk lit stack rest
      end
  end.

Definition raw_lit (t : list Z) : list tok := [TY t].
Definition spec_lit (path : list tok) (t : list Z) : list tok :=
  match spec_literal t with
  | SPass => [TY t]
  | SExpand kind bits limbs => path ++ [TZ (30 + kind); TZ bits; TZ (nlimbs bits); TL limbs]
  | SReject => [TErr 1]
  end.
Definition item_rejected (it : list Z) : bool :=
  match classify it with
  | ILit t => match spec_literal t with SReject => true | _ => false end
  | _ => false
  end.

(* the items of the leading group (without its delimiters) and what follows it *)
Fixpoint split_group (depth : nat) (items acc : list (list Z)) : option (list (list Z) * list (list Z)) :=
  match items with
  | [] => None
  | it :: rest =>
      match classify it with
      | IClose => match depth with
                  | O => Some (rev acc, rest)
                  | S d => split_group d rest (it :: acc)
                  end
      | IOpen _ => split_group (S depth) rest (it :: acc)
      | _ => split_group depth rest (it :: acc)
      end
  end.

Definition tok_dollar_crate : list tok := [TY [36; 99; 114; 97; 116; 101]].
Definition tok_default_crate : list tok := [TY [58]; TY [58]; TY [114; 117; 105; 110; 116]].

Definition spec_tree_with (path : list tok) (items : list (list Z)) (o : result) : bool :=
  let expected := walk (spec_lit path) [] items in
  (* a rejected literal must be a compile error: either the compile_error! invocation is
     visible in the stringified output, or the whole expansion failed *)
  expect o expected || (existsb item_rejected items && result_eqb o CompileError).

Definition spec (c : call) (o : result) : bool :=
  match c with
  | literal _ entry src | fwd _ entry src =>
      match spec_literal src with
      | SPass => expect o [TZ 0]
      | SExpand kind bits limbs => expect o [TZ kind; TZ bits; TZ (nlimbs bits); TL limbs]
      | SReject => result_eqb o CompileError
      end
  | tree _ entry items =>
      if entry =? 0 then spec_tree_with tok_dollar_crate items o
      else if entry =? 1 then spec_tree_with tok_default_crate items o
      else match items with
           | it :: rest =>
               match classify it with
               | IOpen _ =>
                   match split_group 0 rest [] with
                   | Some (p, rest') => spec_tree_with (walk raw_lit [] p) rest' o
                   | None => false
                   end
               | _ => result_eqb o CompileError  (* "Expected a group containing the path" *)
               end
           | [] => result_eqb o CompileError
           end
  end.

(* ---------- input domain ---------- *)
Definition byteb (c : Z) : bool := (0 <=? c) && (c <? 256).
(* a recognised width must not overflow `bits + 63` in usize *)
Definition width_ok (src : list Z) : bool :=
  match suffix_of src with
  | Some (_, bits, _) => bits + 63 <? 2 ^ 64
  | None => true
  end.
Definition src_ok (src : list Z) : bool := forallb byteb src && width_ok src.
Definition item_ok (it : list Z) : bool :=
  match classify it with
  | IOpen d => (0 <=? d) && (d <=? 3)
  | IClose => true
  | ILit t => src_ok t
  | IOther t => forallb byteb t
  | IBad => false
  end.
Definition entry_ok (entry : Z) : bool := (0 <=? entry) && (entry <=? 2).

Definition wfb (c : call) : bool :=
  match c with
  | literal _ entry src | fwd _ entry src => entry_ok entry && src_ok src
  | tree _ entry items =>
      entry_ok entry && forallb item_ok items &&
      match forest_of items with Some _ => true | None => false end
  end.
Definition wf (c : call) : Prop := wfb c = true.
