(* Run/RunC04b.v — property C04 part (b): equality, hashing and ordering of Uint values.
   Calls, the model's answer (run), the specification on the denoted integers (spec), wf.

   cmp_ops bits a b ->
     B:(a == b) B:(a != b) B:(a < b) B:(a <= b) B:(a > b) B:(a >= b)
     Z:cmp(a, b) Z:partial_cmp(a, b)        (Less 0, Equal 1, Greater 2, None 3)
     L:min(a, b) L:max(a, b)                 (Ord::min / Ord::max)
     Z:hash(a) Z:hash(b) Z:hash of the array a.as_limbs()   (std DefaultHasher::new())
     B:a.is_zero()
   clamp bits a lo hi -> L:Ord::clamp(a, lo, hi), panics when lo > hi *)
From RV.Model Require Import Base Word Cmp.

Inductive call : Type :=
| cmp_ops (bits : Z) (a b : list Z)
| clamp (bits : Z) (a lo hi : list Z).

Definition run (c : call) : result :=
  match c with
  | cmp_ops bits a b =>
      Val [TB (ueq a b); TB (une a b); TB (ult a b); TB (ule a b); TB (ugt a b); TB (uge a b);
           TZ (ord_code (ucmp a b)); TZ (oord_code (partial_cmp a b));
           TL (umin a b); TL (umax a b);
           TZ (uhash a); TZ (uhash b); TZ (hash_limb_array a);
           TB (is_zero bits a)]
  | clamp bits a lo hi => do r <- uclamp a lo hi ; Val [TL r]
  end.

Definition wf (c : call) : Prop :=
  match c with
  | cmp_ops bits a b => 0 <= bits /\ canon bits a /\ canon bits b
  | clamp bits a lo hi => 0 <= bits /\ canon bits a /\ canon bits lo /\ canon bits hi
  end.
Definition wfb (c : call) : bool :=
  match c with
  | cmp_ops bits a b => (0 <=? bits) && canonb bits a && canonb bits b
  | clamp bits a lo hi => (0 <=? bits) && canonb bits a && canonb bits lo && canonb bits hi
  end.

(* ---- specification: everything follows the integers eval a, eval b ---- *)
Definition U (bits v : Z) : tok := TL (uint_of bits v).
Definition cmp_code (x y : Z) : Z := if x <? y then 0 else if x =? y then 1 else 2.

Definition spec (c : call) (o : result) : bool :=
  match c with
  | cmp_ops bits a b =>
      let x := eval a in let y := eval b in
      match o with
      | Val [TB eq; TB ne; TB lt; TB le; TB gt; TB ge; TZ cm; TZ pc; mn; mx;
             TZ ha; TZ hb; TZ harr; TB iz] =>
          Bool.eqb eq (x =? y) && Bool.eqb ne (negb (x =? y))
          && Bool.eqb lt (x <? y) && Bool.eqb le (x <=? y)
          && Bool.eqb gt (y <? x) && Bool.eqb ge (y <=? x)
          && (cm =? cmp_code x y) && (pc =? cmp_code x y)
          && tok_eqb mn (U bits (Z.min x y)) && tok_eqb mx (U bits (Z.max x y))
          && (if x =? y then ha =? hb else true)       (* equal values hash equally *)
          && Bool.eqb iz (x =? 0)
      | _ => false
      end
  | clamp bits a lo hi =>
      let x := eval a in let l := eval lo in let h := eval hi in
      if l <=? h then expect o [U bits (Z.max l (Z.min x h))]
      else result_eqb o Panic
  end.
