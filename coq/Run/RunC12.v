(* Run/RunC12.v — the calls of property C12 (gcd, lcm, extended gcd, Lehmer matrices), the
   model's answer to each (run), the executable mathematical specification (spec) and the
   input domain (wf).  For the m_* calls on plain words `bits` is only a tag. *)
From RV.Model Require Import Base Word.
From RV.Model Require GcdMatrix Gcd.
Import GcdMatrix.

Inductive call : Type :=
| gcd (bits : Z) (a b : list Z)                 (* Uint::gcd *)
| lcm (bits : Z) (a b : list Z)                 (* Uint::lcm *)
| gcd_extended (bits : Z) (a b : list Z)        (* Uint::gcd_extended *)
| alg_gcd (bits : Z) (a b : list Z)             (* ruint::algorithms::gcd *)
| alg_gcd_extended (bits : Z) (a b : list Z)    (* ruint::algorithms::gcd_extended *)
| alg_inv_mod (bits : Z) (num modulus : list Z) (* ruint::algorithms::inv_mod *)
| m_identity (bits : Z)                         (* LehmerMatrix::IDENTITY *)
| m_from (bits : Z) (a b : list Z)              (* LehmerMatrix::from(a, b), then m.apply(a, b) *)
| m_apply (bits : Z) (e0 e1 e2 e3 : Z) (s : bool) (a b : list Z)
| m_apply_u128 (bits : Z) (e0 e1 e2 e3 : Z) (s : bool) (a b : Z)
| m_compose (bits : Z) (e0 e1 e2 e3 : Z) (s : bool) (f0 f1 f2 f3 : Z) (t : bool)
| m_from_u64 (bits : Z) (r0 r1 : Z)
| m_from_u64_prefix (bits : Z) (a0 a1 : Z)
| m_from_u128_prefix (bits : Z) (r0 r1 : Z).

Definition mat_toks (m : mat) : list tok := [TZ (m0 m); TZ (m1 m); TZ (m2 m); TZ (m3 m); TB (m4 m)].
Definition opt_toks (o : option (list Z)) : list tok :=
  match o with Some v => [TSome; TL v] | None => [TNone] end.
Definition ext_toks (r : list Z * list Z * list Z * bool) : list tok :=
  let '(g, x, y, s) := r in [TL g; TL x; TL y; TB s].

Definition run (c : call) : result :=
  match c with
  | gcd bits a b | alg_gcd bits a b => omap (fun g => [TL g]) (Gcd.gcd bits a b)
  | lcm bits a b => omap opt_toks (Gcd.lcm bits a b)
  | gcd_extended bits a b | alg_gcd_extended bits a b => omap ext_toks (Gcd.gcd_extended bits a b)
  | alg_inv_mod bits n m => omap opt_toks (Gcd.inv_mod bits n m)
  | m_identity _ => Val (mat_toks IDENTITY)
  | m_from bits a b =>
      do m <- from bits a b ;
      do p <- apply bits m a b ;
      Val (mat_toks m ++ [TL (fst p); TL (snd p)])
  | m_apply bits e0 e1 e2 e3 s a b =>
      omap (fun p => [TL (fst p); TL (snd p)]) (apply bits (Mat e0 e1 e2 e3 s) a b)
  | m_apply_u128 _ e0 e1 e2 e3 s a b =>
      let p := apply_u128 (Mat e0 e1 e2 e3 s) a b in Val [TZ (fst p); TZ (snd p)]
  | m_compose _ e0 e1 e2 e3 s f0 f1 f2 f3 t =>
      omap mat_toks (compose (Mat e0 e1 e2 e3 s) (Mat f0 f1 f2 f3 t))
  | m_from_u64 _ r0 r1 => omap mat_toks (from_u64 r0 r1)
  | m_from_u64_prefix _ a0 a1 => omap mat_toks (from_u64_prefix a0 a1)
  | m_from_u128_prefix _ r0 r1 => omap mat_toks (from_u128_prefix r0 r1)
  end.

(* ---- input domain ---- *)
Definition in128 (x : Z) : Prop := 0 <= x < BB.
Definition in128b (x : Z) : bool := (0 <=? x) && (x <? BB).
Definition wf (c : call) : Prop :=
  match c with
  | gcd bits a b | lcm bits a b | gcd_extended bits a b | alg_gcd bits a b
  | alg_gcd_extended bits a b | alg_inv_mod bits a b | m_from bits a b =>
      0 <= bits /\ canon bits a /\ canon bits b
  | m_identity bits => 0 <= bits
  | m_apply bits e0 e1 e2 e3 _ a b =>
      0 <= bits /\ inW e0 /\ inW e1 /\ inW e2 /\ inW e3 /\ canon bits a /\ canon bits b
  | m_apply_u128 bits e0 e1 e2 e3 _ a b =>
      0 <= bits /\ inW e0 /\ inW e1 /\ inW e2 /\ inW e3 /\ in128 a /\ in128 b
  | m_compose bits e0 e1 e2 e3 _ f0 f1 f2 f3 _ =>
      0 <= bits /\ inW e0 /\ inW e1 /\ inW e2 /\ inW e3 /\ inW f0 /\ inW f1 /\ inW f2 /\ inW f3
  | m_from_u64 bits x y | m_from_u64_prefix bits x y => 0 <= bits /\ inW x /\ inW y
  | m_from_u128_prefix bits x y => 0 <= bits /\ in128 x /\ in128 y
  end.
Definition wfb (c : call) : bool :=
  match c with
  | gcd bits a b | lcm bits a b | gcd_extended bits a b | alg_gcd bits a b
  | alg_gcd_extended bits a b | alg_inv_mod bits a b | m_from bits a b =>
      (0 <=? bits) && canonb bits a && canonb bits b
  | m_identity bits => 0 <=? bits
  | m_apply bits e0 e1 e2 e3 _ a b =>
      (0 <=? bits) && inWb e0 && inWb e1 && inWb e2 && inWb e3 && canonb bits a && canonb bits b
  | m_apply_u128 bits e0 e1 e2 e3 _ a b =>
      (0 <=? bits) && inWb e0 && inWb e1 && inWb e2 && inWb e3 && in128b a && in128b b
  | m_compose bits e0 e1 e2 e3 _ f0 f1 f2 f3 _ =>
      (0 <=? bits) && inWb e0 && inWb e1 && inWb e2 && inWb e3
      && inWb f0 && inWb f1 && inWb f2 && inWb f3
  | m_from_u64 bits x y | m_from_u64_prefix bits x y => (0 <=? bits) && inWb x && inWb y
  | m_from_u128_prefix bits x y => (0 <=? bits) && in128b x && in128b y
  end.

(* ---- specification: integers only ---- *)
Definition U (bits v : Z) : tok := TL (uint_of bits v).
Definition under (pre : bool) (o : result) (p : result -> bool) : bool := if pre then p o else true.

(* the integer pair a matrix with implicit signs sends (A, Bv) to *)
Definition zmap (m : mat) (A Bv : Z) : Z * Z :=
  if m4 m then (m0 m * A - m1 m * Bv, m3 m * Bv - m2 m * A)
  else (m1 m * Bv - m0 m * A, m2 m * A - m3 m * Bv).
Definition mat_words (m : mat) : bool := inWb (m0 m) && inWb (m1 m) && inWb (m2 m) && inWb (m3 m).
(* a Lehmer step that is valid for the pair (A, Bv): exact over Z, ordered, strictly smaller
   second component, same gcd *)
Definition step_ok (m : mat) (A Bv : Z) : bool :=
  let '(C, D) := zmap m A Bv in
  (0 <=? D) && (D <=? C) && (D <? Bv) && (Z.gcd C D =? Z.gcd A Bv).
(* validity for the extreme continuations of a pair of leading words by k more bits *)
Definition corners (k : Z) : list (Z * Z) :=
  let M := 2 ^ k - 1 in [(0, 0); (0, M); (M, 0); (M, M)].
Definition prefix_ok (m : mat) (a0 a1 : Z) : bool :=
  forallb (fun k => forallb (fun xy => step_ok m (a0 * 2 ^ k + fst xy) (a1 * 2 ^ k + snd xy))
                            (corners k))
          [0; 1; 64; 1000].

Definition as_mat (t : list tok) : option (mat * list tok) :=
  match t with
  | TZ e0 :: TZ e1 :: TZ e2 :: TZ e3 :: TB s :: rest => Some (Mat e0 e1 e2 e3 s, rest)
  | _ => None
  end.
Definition on_mat (o : result) (p : mat -> list tok -> bool) : bool :=
  match o with
  | Val t => match as_mat t with Some (m, rest) => mat_words m && p m rest | None => false end
  | _ => false
  end.
Definition nil_toks (t : list tok) : bool := match t with [] => true | _ => false end.

Definition spec_gcd (bits : Z) (a b : list Z) (o : result) : bool :=
  expect o [U bits (Z.gcd (eval a) (eval b))].

Definition spec_ext (bits : Z) (a b : list Z) (o : result) : bool :=
  match o with
  | Val [TL g; TL x; TL y; TB sign] =>
      let '(A, Bv, X, Y) := (eval a, eval b, eval x, eval y) in
      let v := if sign then A * X - Bv * Y else Bv * Y - A * X in
      list_eqb Z.eqb g (uint_of bits (Z.gcd A Bv)) && canonb bits x && canonb bits y &&
      (* the property: the Bezout identity modulo 2^BITS *)
      (modp2 v bits =? modp2 (Z.gcd A Bv) bits) &&
      (* stronger (pins the sign flag, which the congruence cannot see): with x, y read as plain
         unsigned integers the identity is exact over Z *)
      (v =? Z.gcd A Bv)
  | _ => false
  end.

Definition spec_lcm (bits : Z) (a b : list Z) (o : result) : bool :=
  let '(A, Bv) := (eval a, eval b) in
  if (A =? 0) || (Bv =? 0) then expect o [TSome; U bits 0]
  else
    let L := A * Bv / Z.gcd A Bv in
    if L <? 2 ^ bits then expect o [TSome; U bits L] else expect o [TNone].

Definition spec_inv (bits : Z) (n m : list Z) (o : result) : bool :=
  let '(N, M) := (eval n, eval m) in
  if (2 <=? M) && (Z.gcd N M =? 1) then
    match o with
    | Val [TSome; TL x] => canonb bits x && (eval x <? M) && ((N * eval x) mod M =? 1)
    | _ => false
    end
  else expect o [TNone].

Definition fits (bits : Z) (m : mat) : bool :=
  (m0 m <? 2 ^ bits) && (m1 m <? 2 ^ bits) && (m2 m <? 2 ^ bits) && (m3 m <? 2 ^ bits).

Definition spec (c : call) (o : result) : bool :=
  match c with
  | gcd bits a b | alg_gcd bits a b => spec_gcd bits a b o
  | lcm bits a b => spec_lcm bits a b o
  | gcd_extended bits a b | alg_gcd_extended bits a b => spec_ext bits a b o
  | alg_inv_mod bits n m => spec_inv bits n m o
  | m_identity _ => expect o [TZ 1; TZ 0; TZ 0; TZ 1; TB true]
  | m_from bits a b =>
      (* documented panic: b > a *)
      if eval a <? eval b then result_eqb o Panic
      else on_mat o (fun m rest =>
        match rest with
        | [TL c; TL d] =>
            canonb bits c && canonb bits d &&
            if mat_eqb m IDENTITY then list_eqb Z.eqb c a && list_eqb Z.eqb d b
            else let '(C, D) := zmap m (eval a) (eval b) in
                 (eval c =? C) && (eval d =? D) && step_ok m (eval a) (eval b)
        | _ => false
        end)
  | m_apply bits e0 e1 e2 e3 s a b =>
      let m := Mat e0 e1 e2 e3 s in
      if bits =? 0 then expect o [TL a; TL b]
      else
        (* entries that are not values of Uint<BITS> are outside the contract (Uint::from panics) *)
        under (fits bits m) o (fun o =>
          let '(C, D) := zmap m (eval a) (eval b) in
          expect o [U bits (modp2 C bits); U bits (modp2 D bits)])
  | m_apply_u128 _ e0 e1 e2 e3 s a b =>
      let '(C, D) := zmap (Mat e0 e1 e2 e3 s) a b in
      expect o [TZ (modp2 C 128); TZ (modp2 D 128)]
  | m_compose _ e0 e1 e2 e3 s f0 f1 f2 f3 t =>
      let '(g0, g1, g2, g3) :=
        (e0 * f0 + e1 * f2, e0 * f1 + e1 * f3, e2 * f0 + e3 * f2, e2 * f1 + e3 * f3) in
      (* u64 overflow is outside the contract (debug: panic, release: wraps) *)
      under ((g0 <? B) && (g1 <? B) && (g2 <? B) && (g3 <? B)) o (fun o =>
        expect o [TZ g0; TZ g1; TZ g2; TZ g3; TB (xorb s (negb t))])
  | m_from_u64 _ r0 r1 =>
      under (r1 <=? r0) o (fun o =>
        if r1 =? 0 then expect o (mat_toks IDENTITY)
        else on_mat o (fun m rest =>
          nil_toks rest &&
          let '(C, D) := zmap m r0 r1 in (C =? Z.gcd r0 r1) && (D =? 0)))
  | m_from_u64_prefix _ a0 a1 =>
      under ((2 ^ 63 <=? a0) && (a1 <=? a0)) o (fun o =>
        on_mat o (fun m rest =>
          nil_toks rest && (mat_eqb m IDENTITY || prefix_ok m a0 a1)))
  | m_from_u128_prefix _ r0 r1 =>
      under ((r1 <=? r0) && (0 <? r0)) o (fun o =>
        on_mat o (fun m rest =>
          nil_toks rest && (mat_eqb m IDENTITY || step_ok m r0 r1)))
  end.
