(* Run/RunC18.v — calls of property C18 (float <-> Uint conversions), the model's answer (run),
   the executable specification on integers / dyadic rationals (spec), the input domain (wf).

   Floats travel as IEEE bit patterns: TZ (to_bits()).
   Result<Uint, ToUintError>:  Ok n -> [TL n];  Err ValueTooLarge(b, w) -> [TErr 1; TZ b; TL w];
   Err ValueNegative(b, w) -> [TErr 2; TZ b; TL w];  Err NotANumber(b) -> [TErr 3; TZ b]. *)
From Coq.Floats Require Import SpecFloat.
From RV.Model Require Import Base Word Add Float.

Inductive call : Type :=
| try_from_f64 (bits : Z) (x : Z)
| try_from_f32 (bits : Z) (x : Z)
| from_f64 (bits : Z) (x : Z)               (* Uint::from: panics on Err *)
| from_f32 (bits : Z) (x : Z)
| saturating_from_f64 (bits : Z) (x : Z)
| saturating_from_f32 (bits : Z) (x : Z)
| wrapping_from_f64 (bits : Z) (x : Z)
| wrapping_from_f32 (bits : Z) (x : Z)
| to_f64 (bits : Z) (shape : Z) (a : list Z)  (* shape 0: From<Uint>, 1: From<&Uint> *)
| to_f32 (bits : Z) (shape : Z) (a : list Z)
| to_f64_pair (bits : Z) (a b : list Z)
| to_f32_pair (bits : Z) (a b : list Z).

Definition res_toks (r : to_uint_result) : list tok :=
  match r with
  | TOk n => [TL n]
  | ValueTooLarge b w => [TErr 1; TZ b; TL w]
  | ValueNegative b w => [TErr 2; TZ b; TL w]
  | NotANumber b => [TErr 3; TZ b]
  end.

Definition run_to (prec emax : Z) (a : list Z) : outcome Z :=
  do f <- to_float prec emax a ; Val (encode prec emax f).

Definition run (c : call) : result :=
  match c with
  | try_from_f64 bits x => do r <- uint_try_from_f64 bits x ; Val (res_toks r)
  | try_from_f32 bits x => do r <- uint_try_from_f32 bits x ; Val (res_toks r)
  | from_f64 bits x => do n <- uint_from (uint_try_from_f64 bits x) ; Val [TL n]
  | from_f32 bits x => do n <- uint_from (uint_try_from_f32 bits x) ; Val [TL n]
  | saturating_from_f64 bits x =>
      do n <- saturating_from bits (uint_try_from_f64 bits x) ; Val [TL n]
  | saturating_from_f32 bits x =>
      do n <- saturating_from bits (uint_try_from_f32 bits x) ; Val [TL n]
  | wrapping_from_f64 bits x => do n <- wrapping_from bits (uint_try_from_f64 bits x) ; Val [TL n]
  | wrapping_from_f32 bits x => do n <- wrapping_from bits (uint_try_from_f32 bits x) ; Val [TL n]
  | to_f64 bits _ a => do r <- run_to 53 1024 a ; Val [TZ r]
  | to_f32 bits _ a => do r <- run_to 24 128 a ; Val [TZ r]
  | to_f64_pair bits a b => do r <- run_to 53 1024 a ; do s <- run_to 53 1024 b ; Val [TZ r; TZ s]
  | to_f32_pair bits a b => do r <- run_to 24 128 a ; do s <- run_to 24 128 b ; Val [TZ r; TZ s]
  end.

(* ---- input domain ---- *)
Definition wf (c : call) : Prop :=
  match c with
  | try_from_f64 bits x | from_f64 bits x | saturating_from_f64 bits x | wrapping_from_f64 bits x =>
      0 <= bits /\ 0 <= x < 2 ^ 64
  | try_from_f32 bits x | from_f32 bits x | saturating_from_f32 bits x | wrapping_from_f32 bits x =>
      0 <= bits /\ 0 <= x < 2 ^ 32
  | to_f64 bits _ a | to_f32 bits _ a => 0 <= bits /\ canon bits a
  | to_f64_pair bits a b | to_f32_pair bits a b => 0 <= bits /\ canon bits a /\ canon bits b
  end.
Definition wfb (c : call) : bool :=
  match c with
  | try_from_f64 bits x | from_f64 bits x | saturating_from_f64 bits x | wrapping_from_f64 bits x =>
      (0 <=? bits) && ((0 <=? x) && (x <? 2 ^ 64))
  | try_from_f32 bits x | from_f32 bits x | saturating_from_f32 bits x | wrapping_from_f32 bits x =>
      (0 <=? bits) && ((0 <=? x) && (x <? 2 ^ 32))
  | to_f64 bits _ a | to_f32 bits _ a => (0 <=? bits) && canonb bits a
  | to_f64_pair bits a b | to_f32_pair bits a b => (0 <=? bits) && canonb bits a && canonb bits b
  end.

(* ---- specification ---- *)
Definition U (bits v : Z) : tok := TL (uint_of bits v).

(* fields of a bit pattern of the format (prec, emax): 1 sign bit, log2(2 emax) exponent bits,
   prec-1 fraction bits *)
Definition fsign (prec emax x : Z) : bool := 2 ^ (prec - 1) * (2 * emax) <=? x.
Definition fexpo (prec emax x : Z) : Z := (x / 2 ^ (prec - 1)) mod (2 * emax).
Definition ffrac (prec x : Z) : Z := x mod 2 ^ (prec - 1).
(* a finite pattern denotes (-1)^sign * m * 2^e *)
Definition fmant (prec emax x : Z) : Z :=
  if fexpo prec emax x =? 0 then ffrac prec x else 2 ^ (prec - 1) + ffrac prec x.
Definition fexp2 (prec emax x : Z) : Z :=
  if fexpo prec emax x =? 0 then 3 - emax - prec else fexpo prec emax x - emax - prec + 2.

(* floor(m * 2^e + 1/2), exactly *)
Definition round_half_up (m e : Z) : Z :=
  if 0 <=? e then m * 2 ^ e else (m + 2 ^ (- e - 1)) / 2 ^ (- e).

Inductive fclass := FNaN | FNeg (n : Z) | FNegInf | FPos (n : Z) | FPosInf.
(* classification of a pattern; n = floor(|f| + 1/2) *)
Definition classify (prec emax x : Z) : fclass :=
  let s := fsign prec emax x in
  if fexpo prec emax x =? 2 * emax - 1 then
    if ffrac prec x =? 0 then (if s then FNegInf else FPosInf) else FNaN
  else
    let n := round_half_up (fmant prec emax x) (fexp2 prec emax x) in
    if s && (0 <? fmant prec emax x) then FNeg n else FPos n.   (* -0.0 is not below zero *)

(* Result of try_from.  The property fixes Ok / the error kind; the payloads are what the code
   yields: BITS and the value wrapped modulo 2^BITS (0 for infinities). *)
Definition spec_try (prec emax bits x : Z) : list tok :=
  match classify prec emax x with
  | FNaN => [TErr 3; TZ bits]
  | FNegInf => [TErr 2; TZ bits; U bits 0]
  | FNeg n => [TErr 2; TZ bits; U bits (modp2 (- n) bits)]
  | FPosInf => [TErr 1; TZ bits; U bits 0]
  | FPos n => if n <? 2 ^ bits then [U bits n] else [TErr 1; TZ bits; U bits (modp2 n bits)]
  end.
Definition spec_from (prec emax bits x : Z) (o : result) : bool :=
  match classify prec emax x with
  | FPos n => if n <? 2 ^ bits then expect o [U bits n] else result_eqb o Panic
  | _ => result_eqb o Panic
  end.
Definition spec_sat (prec emax bits x : Z) : list tok :=
  match classify prec emax x with
  | FPos n => if n <? 2 ^ bits then [U bits n] else [U bits (2 ^ bits - 1)]
  | FPosInf => [U bits (2 ^ bits - 1)]
  | _ => [U bits 0]
  end.
Definition spec_wrap (prec emax bits x : Z) : list tok :=
  match classify prec emax x with
  | FPos n => [U bits (modp2 n bits)]
  | FNeg n => [U bits (modp2 (- n) bits)]
  | _ => [U bits 0]
  end.

(* Uint -> float.  For an integer v >= 0: lower v / upper v are the largest float <= v and the
   smallest float >= v of an unbounded-exponent format with prec significant bits; fenc gives
   the bit pattern of such a value (the +inf pattern from 2^emax on). *)
Definition finf (prec emax : Z) : Z := (2 * emax - 1) * 2 ^ (prec - 1).
Definition fthr (prec emax : Z) : Z := 2 ^ emax - 2 ^ (emax - prec - 1).
Definition lower (prec v : Z) : Z :=
  if v <? 2 ^ prec then v
  else let s := Z.log2 v - (prec - 1) in Z.shiftl (Z.shiftr v s) s.
Definition upper (prec v : Z) : Z :=
  let l := lower prec v in
  if l =? v then v else l + 2 ^ (Z.log2 v - (prec - 1)).
Definition fenc (prec emax x : Z) : Z :=
  if x =? 0 then 0 else
  let k := Z.log2 x in
  if emax <=? k then finf prec emax else
  (k + emax - 1) * 2 ^ (prec - 1)
  + ((if k <? prec - 1 then Z.shiftl x (prec - 1 - k) else Z.shiftr x (k - (prec - 1)))
     - 2 ^ (prec - 1)).
(* r is a neighbour of v (v itself when representable); +inf exactly from the midpoint between
   the largest finite float and 2^emax on *)
Definition spec_to (prec emax v r : Z) : bool :=
  if fthr prec emax <=? v then r =? finf prec emax
  else (r <? finf prec emax)
       && ((r =? fenc prec emax (lower prec v)) || (r =? fenc prec emax (upper prec v))).

(* order of two non-negative, non-NaN patterns by value: value / 2^emin as an integer
   (+inf counts as 2^emax) *)
Definition fscaled (prec emax x : Z) : Z :=
  if fexpo prec emax x =? 0 then ffrac prec x
  else (2 ^ (prec - 1) + ffrac prec x) * 2 ^ (fexpo prec emax x - 1).
Definition fle (prec emax r s : Z) : bool :=
  (0 <=? r) && (r <=? finf prec emax) && (0 <=? s) && (s <=? finf prec emax)
  && (fscaled prec emax r <=? fscaled prec emax s).

Definition spec_pair (prec emax : Z) (a b : list Z) (o : result) : bool :=
  match o with
  | Val [TZ r; TZ s] =>
      spec_to prec emax (eval a) r && spec_to prec emax (eval b) s
      && (if eval a <=? eval b then fle prec emax r s else true)
      && (if eval b <=? eval a then fle prec emax s r else true)
  | _ => false
  end.

Definition spec (c : call) (o : result) : bool :=
  match c with
  | try_from_f64 bits x => expect o (spec_try 53 1024 bits x)
  | try_from_f32 bits x => expect o (spec_try 24 128 bits x)
  | from_f64 bits x => spec_from 53 1024 bits x o
  | from_f32 bits x => spec_from 24 128 bits x o
  | saturating_from_f64 bits x => expect o (spec_sat 53 1024 bits x)
  | saturating_from_f32 bits x => expect o (spec_sat 24 128 bits x)
  | wrapping_from_f64 bits x => expect o (spec_wrap 53 1024 bits x)
  | wrapping_from_f32 bits x => expect o (spec_wrap 24 128 bits x)
  | to_f64 bits _ a =>
      match o with Val [TZ r] => spec_to 53 1024 (eval a) r | _ => false end
  | to_f32 bits _ a =>
      match o with Val [TZ r] => spec_to 24 128 (eval a) r | _ => false end
  | to_f64_pair bits a b => spec_pair 53 1024 a b o
  | to_f32_pair bits a b => spec_pair 24 128 a b o
  end.
