(* Run/RunC13.v — the calls of property C13 (pow family, log family, root), the model's answer
   to each (run), the executable mathematical specification (spec) and the input domain (wf).

   The floating-point estimates of `log` and `root` (libm log2 / exp2) are not modelled; the
   harness computes them with the crate's public functions exactly as the source does and
   passes the outcome as the last argument `est : list (list Z)`:
     []   = the estimate could not be produced (the source panics there),
     [e]  = the Uint the source continues with.
   `wf` states, besides typing, the predicate the correction code needs from the estimate
   (`log_est_ok`, `root_guess_ok`); `wfb` evaluates it on every observed estimate. *)
From RV.Model Require Import Base Word.
From RV.Model Require Pow Log Root.

Inductive call : Type :=
| pow (bits : Z) (a e : list Z)
| wrapping_pow (bits : Z) (a e : list Z)
| overflowing_pow (bits : Z) (a e : list Z)
| checked_pow (bits : Z) (a e : list Z)
| saturating_pow (bits : Z) (a e : list Z)
| log (bits : Z) (v b : list Z) (est : list (list Z))
| checked_log (bits : Z) (v b : list Z) (est : list (list Z))
| log2 (bits : Z) (v : list Z)
| checked_log2 (bits : Z) (v : list Z)
| log10 (bits : Z) (v : list Z) (est : list (list Z))
| checked_log10 (bits : Z) (v : list Z) (est : list (list Z))
| root (bits : Z) (v : list Z) (degree : Z) (est : list (list Z)).

Definition est_of (est : list (list Z)) : option (list Z) :=
  match est with [e] => Some e | _ => None end.

Definition pair_toks (p : list Z * bool) : list tok := [TL (fst p); TB (snd p)].
Definition opt_toks (o : option (list Z)) : list tok :=
  match o with Some v => [TSome; TL v] | None => [TNone] end.
Definition optz_toks (o : option Z) : list tok :=
  match o with Some k => [TSome; TZ k] | None => [TNone] end.
Definition z_toks (k : Z) : list tok := [TZ k].
Definition l_toks (v : list Z) : list tok := [TL v].

Definition run (c : call) : result :=
  match c with
  | pow bits a e => omap l_toks (Pow.pow bits a e)
  | wrapping_pow bits a e => omap l_toks (Pow.wrapping_pow bits a e)
  | overflowing_pow bits a e => omap pair_toks (Pow.overflowing_pow bits a e)
  | checked_pow bits a e => omap opt_toks (Pow.checked_pow bits a e)
  | saturating_pow bits a e => omap l_toks (Pow.saturating_pow bits a e)
  | log bits v b est => omap z_toks (Log.log bits v b (est_of est))
  | checked_log bits v b est => omap optz_toks (Log.checked_log bits v b (est_of est))
  | log2 bits v => omap z_toks (Log.log2 bits v)
  | checked_log2 bits v => omap optz_toks (Log.checked_log2 bits v)
  | log10 bits v est => omap z_toks (Log.log10 bits v (est_of est))
  | checked_log10 bits v est => omap optz_toks (Log.checked_log10 bits v (est_of est))
  | root bits v degree est => omap l_toks (Root.root bits v degree (est_of est))
  end.

(* ================= specification-side integer arithmetic ================= *)
Definition M (bits : Z) : Z := 2 ^ bits.
Definition U (bits v : Z) : tok := TL (uint_of bits v).

(* b^e mod 2^bits by binary exponentiation (PfPow.powmod_spec: = (b ^ e) mod 2 ^ bits) *)
Fixpoint powmod_pos (bits b : Z) (p : positive) : Z :=
  match p with
  | xH => modp2 b bits
  | xO p' => let h := powmod_pos bits b p' in modp2 (h * h) bits
  | xI p' => let h := powmod_pos bits b p' in modp2 (b * modp2 (h * h) bits) bits
  end.
Definition powmod (bits b e : Z) : Z :=
  match e with
  | Z0 => modp2 1 bits
  | Zpos p => powmod_pos bits b p
  | Zneg _ => 0
  end.

(* min (b^e) (m+1) without ever forming a number above (m+1)^2
   (PfPow.powsat_spec: = Z.min (b ^ e) (m + 1) for 0 <= b, 0 <= e, 0 <= m).
   This is how `b^e <= m` is decided for exponents as large as 2^4096. *)
Definition satm (m x : Z) : Z := if m <? x then m + 1 else x.
Fixpoint powsat_pos (m b : Z) (p : positive) : Z :=
  match p with
  | xH => satm m b
  | xO p' => let h := powsat_pos m b p' in if m <? h then m + 1 else satm m (h * h)
  | xI p' => let h := powsat_pos m b p' in
             if m <? h then m + 1 else satm m (b * satm m (h * h))
  end.
Definition powsat (m b e : Z) : Z :=
  match e with
  | Z0 => satm m 1
  | Zpos p => powsat_pos m b p
  | Zneg _ => 0
  end.
(* b^e <= m   and   m < b^e *)
Definition pow_le (b e m : Z) : bool := powsat m b e <=? m.
Definition pow_gt (b e m : Z) : bool := m <? powsat m b e.

(* floor(n^(1/d)) by bisection on the bits of the root (PfRoot.iroot_spec) *)
Fixpoint iroot_loop (k : nat) (d n r : Z) : Z :=
  match k with
  | O => r
  | S k' => let c := r + 2 ^ Z.of_nat k' in
            iroot_loop k' d n (if pow_le c d n then c else r)
  end.
Definition iroot (d n : Z) : Z := iroot_loop (Z.to_nat (Z.log2 n / d + 1)) d n 0.

(* ================= what the correction code needs from the estimates ================= *)
(* log: the first loop decrements ONCE and leaves when base^est overflows, so an estimate
   whose power overflows must be at most one too large.  Nothing else is needed. *)
Definition log_est_ok (bits n b : Z) (est : list (list Z)) : bool :=
  if (3 <=? b) && (b <=? n) then          (* the estimate is used *)
    match est with
    | [e] => canonb bits e &&
             (if pow_gt b (eval e) (M bits - 1) then pow_le b (eval e - 1) n else true)
    | _ => false
    end
  else match est with [] => true | [e] => canonb bits e | _ => false end.

(* root: every intermediate of the Newton iteration must fit BITS bits (the code uses wrapping
   add and mul).  With r the true root, every visited x lies in [min(g,r), max(g,2r)]: *)
Definition root_T_bound (n d g : Z) : Z :=
  let r := iroot d n in
  let lo := Z.min g r in
  let hi := Z.max g (2 * r) in
  let p := powsat n lo (d - 1) in
  (if n <? p then 0 else n / p) + (d - 1) * hi.
Definition root_guess_ok (bits n d : Z) (est : list (list Z)) : bool :=
  if (0 <? n) && (2 <=? d) && (d <? bits) then          (* the guess is used *)
    match est with
    | [g] => canonb bits g && (1 <=? eval g) && (root_T_bound n d (eval g) <? M bits)
    | _ => false
    end
  else match est with [] => true | [g] => canonb bits g | _ => false end.

(* ================= input domain ================= *)
Definition wfb (c : call) : bool :=
  match c with
  | pow bits a e | wrapping_pow bits a e | overflowing_pow bits a e | checked_pow bits a e
  | saturating_pow bits a e => (0 <=? bits) && canonb bits a && canonb bits e
  | log bits v b est | checked_log bits v b est =>
      (0 <=? bits) && (bits <? B) && canonb bits v && canonb bits b &&
      log_est_ok bits (eval v) (eval b) est
  | log2 bits v | checked_log2 bits v => (0 <=? bits) && canonb bits v
  | log10 bits v est | checked_log10 bits v est =>
      (0 <=? bits) && (bits <? B) && canonb bits v &&
      log_est_ok bits (eval v) (if 10 <? M bits then 10 else 0) est
  | root bits v degree est =>
      (0 <=? bits) && canonb bits v && (0 <=? degree) && (degree <? B) &&
      root_guess_ok bits (eval v) degree est
  end.
Definition wf (c : call) : Prop := wfb c = true.

(* ================= specification ================= *)
Definition overflows (bits a e : Z) : bool := (0 <? bits) && pow_gt a e (M bits - 1).

(* k = floor(log_b n): b^k <= n < b^(k+1) *)
Definition is_floor_log (n b k : Z) : bool := (0 <=? k) && pow_le b k n && pow_gt b (k + 1) n.
(* r = floor(n^(1/d)): r^d <= n < (r+1)^d *)
Definition is_floor_root (n d r : Z) : bool := (0 <=? r) && pow_le r d n && pow_gt (r + 1) d n.

Definition spec_log (n b : Z) (o : result) : bool :=
  if (n =? 0) || (b <? 2) then result_eqb o Panic
  else match o with Val [TZ k] => is_floor_log n b k | _ => false end.
Definition spec_checked_log (n b : Z) (o : result) : bool :=
  if (n =? 0) || (b <? 2) then expect o [TNone]
  else match o with Val [TSome; TZ k] => is_floor_log n b k | _ => false end.

Definition spec (c : call) (o : result) : bool :=
  match c with
  | pow bits a e | wrapping_pow bits a e => expect o [U bits (powmod bits (eval a) (eval e))]
  | overflowing_pow bits a e =>
      expect o [U bits (powmod bits (eval a) (eval e)); TB (overflows bits (eval a) (eval e))]
  | checked_pow bits a e =>
      expect o (if overflows bits (eval a) (eval e) then [TNone]
                else [TSome; U bits (powmod bits (eval a) (eval e))])
  | saturating_pow bits a e =>
      expect o [U bits (if overflows bits (eval a) (eval e) then M bits - 1
                        else powmod bits (eval a) (eval e))]
  | log bits v b _ => spec_log (eval v) (eval b) o
  | checked_log bits v b _ => spec_checked_log (eval v) (eval b) o
  | log2 bits v => spec_log (eval v) 2 o
  | checked_log2 bits v => spec_checked_log (eval v) 2 o
  | log10 bits v _ => spec_log (eval v) 10 o
  | checked_log10 bits v _ => spec_checked_log (eval v) 10 o
  | root bits v degree _ =>
      if degree <=? 0 then result_eqb o Panic
      else match o with
           | Val [TL r] => canonb bits r && is_floor_root (eval v) degree (eval r)
           | _ => false
           end
  end.
