(* Run/RunC17B.v — C17, group B: the decoders of the SCALE (plain + compact), SSZ, borsh and DER
   integrations on arbitrary input.  spec: never Panic (except the documented compact panic for
   BITS >= 536); the answer is an error or Ok v with v < 2^BITS the value the input denotes under
   the format (Spec/FmtB.v) and the number of bytes consumed; truncated input and values
   >= 2^BITS are errors; the reference encoding of every v < 2^BITS is accepted; DER accepts
   nothing but the canonical encoding (der_parse = Some v <-> input = der_integer v). *)
From RV.Model Require Import Base Word Bytes.
From RV.Model Require CodecB.
From RV.Spec Require FmtB.
Import CodecB.

Inductive call : Type :=
| scale_decode (bits : Z) (inp : list Z)              (* <Uint as Decode>::decode(&mut &[u8]) *)
| scale_compact_decode (bits : Z) (inp : list Z)      (* CompactUint::decode *)
| ssz_decode (bits : Z) (inp : list Z)                (* from_ssz_bytes *)
| borsh_de (bits : Z) (shape : Z) (inp : list Z)      (* deserialize_reader; 0 = Uint, 1 = Bits *)
| der_decode (bits : Z) (inp : list Z)                (* Uint::from_der *)
| der_from_int (bits : Z) (inp : list Z)              (* Uint::try_from(IntRef / &Int / Int) *)
| der_from_uint (bits : Z) (inp : list Z)             (* Uint::try_from(UintRef / &DerUint / DerUint) *)
| der_from_any (bits : Z) (inp : list Z).             (* Uint::try_from(AnyRef / &Any / Any), INTEGER *)

Definition err_toks (c : Z) (p : list Z) : list tok := TErr c :: map TZ p.
Definition dec_toks (total : Z) (r : res (list Z * list Z)) : list tok :=
  match r with
  | Ok (v, rest) => [TL v; TZ (total - lenZ rest)]
  | Err c p => err_toks c p
  end.
Definition whole_toks (total : Z) (r : res (list Z)) : list tok :=
  match r with
  | Ok v => [TL v; TZ total]
  | Err c p => err_toks c p
  end.
Definition obj_toks (r : res (list Z)) : list tok :=
  match r with
  | Ok v => [TL v]
  | Err c p => err_toks c p
  end.

Definition run (c : call) : result :=
  match c with
  | scale_decode bits inp => do r <- CodecB.scale_decode bits inp; Val (dec_toks (lenZ inp) r)
  | scale_compact_decode bits inp =>
      do r <- CodecB.compact_decode bits inp; Val (dec_toks (lenZ inp) r)
  | ssz_decode bits inp => do r <- CodecB.ssz_decode bits inp; Val (whole_toks (lenZ inp) r)
  | borsh_de bits _ inp => do r <- CodecB.borsh_de bits inp; Val (dec_toks (lenZ inp) r)
  | der_decode bits inp => do r <- CodecB.der_decode bits inp; Val (whole_toks (lenZ inp) r)
  | der_from_int bits inp => do r <- CodecB.der_from_int bits inp; Val (obj_toks r)
  | der_from_uint bits inp => do r <- CodecB.der_from_uint bits inp; Val (obj_toks r)
  | der_from_any bits inp => do r <- CodecB.der_from_any bits inp; Val (obj_toks r)
  end.

(* ---- input domain: any byte string.  (BITS < 2^32 / 2^30 only matter for "the reference
   encoding is accepted": the third-party length types are u32 / 28 bits.) ---- *)
Definition wf (c : call) : Prop :=
  match c with
  | scale_decode bits inp => 0 <= bits < 2 ^ 32 /\ Forall isbyte inp
  | scale_compact_decode bits inp | ssz_decode bits inp | der_from_int bits inp
  | der_from_uint bits inp => 0 <= bits /\ Forall isbyte inp
  | borsh_de bits shape inp => 0 <= bits /\ Forall isbyte inp /\ (shape = 0 \/ shape = 1)
  | der_decode bits inp | der_from_any bits inp => 0 <= bits < 2 ^ 30 /\ Forall isbyte inp
  end.
Definition wfb (c : call) : bool :=
  match c with
  | scale_decode bits inp => (0 <=? bits) && (bits <? 2 ^ 32) && forallb isbyteb inp
  | scale_compact_decode bits inp | ssz_decode bits inp | der_from_int bits inp
  | der_from_uint bits inp => (0 <=? bits) && forallb isbyteb inp
  | borsh_de bits shape inp => (0 <=? bits) && forallb isbyteb inp && ((shape =? 0) || (shape =? 1))
  | der_decode bits inp | der_from_any bits inp => (0 <=? bits) && (bits <? 2 ^ 30) && forallb isbyteb inp
  end.

(* ---- specification ---- *)
Definition is_err (o : result) : bool :=
  match o with
  | Val (TErr _ :: _) => true
  | _ => false
  end.
Definition U (bits v : Z) : tok := TL (uint_of bits v).
(* den = what the input denotes under the format: (value, bytes consumed), None = truncated or
   malformed; canonical = the consumed bytes are the reference encoding of the value.
   Truncated / malformed / out-of-range input must be an error; the reference encoding must be
   accepted; any other accepted input must still yield the denoted value (SCALE's leniency). *)
Definition spec_dec (bits : Z) (den : option (Z * Z)) (canonical : Z -> Z -> bool)
    (ok : Z -> Z -> list tok) (o : result) : bool :=
  match den with
  | None => is_err o
  | Some (v, used) =>
      if v <? 2 ^ bits then
        if canonical v used then expect o (ok v used)
        else is_err o || expect o (ok v used)
      else is_err o
  end.
Definition streamed (bits v used : Z) : list tok := [U bits v; TZ used].
Definition prefix_is (inp ref : list Z) (used : Z) : bool :=
  list_eqb Z.eqb (firstn (Z.to_nat used) inp) ref.
Definition strict (_ _ : Z) : bool := true.

Definition spec (c : call) (o : result) : bool :=
  match c with
  | scale_decode bits inp =>
      spec_dec bits (FmtB.scale_uint_denote inp)
               (fun v used => prefix_is inp (FmtB.scale_uint bits v) used) (streamed bits) o
  | scale_compact_decode bits inp =>
      if FmtB.COMPACT_MAX_BITS <=? bits then result_eqb o Panic
      else spec_dec bits (FmtB.compact_denote inp)
                    (fun v used => prefix_is inp (FmtB.compact v) used) (streamed bits) o
  | ssz_decode bits inp => spec_dec bits (FmtB.ssz_denote bits inp) strict (streamed bits) o
  | borsh_de bits _ inp => spec_dec bits (FmtB.borsh_denote bits inp) strict (streamed bits) o
  (* DER: canonical form enforced — only der_integer v is accepted, and all of it is consumed *)
  | der_decode bits inp =>
      spec_dec bits (option_map (fun v => (v, lenZ inp)) (FmtB.der_parse inp)) strict
               (streamed bits) o
  (* the content octets of an INTEGER object *)
  | der_from_int bits inp | der_from_any bits inp =>
      spec_dec bits (option_map (fun v => (v, 0)) (FmtB.der_parse_content inp)) strict
               (fun v _ => [U bits v]) o
  (* the magnitude octets of an unsigned INTEGER object (the der crate drops leading zeros) *)
  | der_from_uint bits inp =>
      spec_dec bits (match inp with [] => None | _ => Some (FmtB.be_val inp, 0) end) strict
               (fun v _ => [U bits v]) o
  end.
