(* Run/RunC04a.v — property C04 part (a): closure of the canonical values under operation
   histories.  One call: `history bits regs prog` = run the program (flat word list, see
   Model/History.v) on the register file `regs` through the real public API; the result is the raw
   limbs of every register after the run, followed by the status log (one word per instruction).

   The specification is an independent interpreter of the same instruction set on *integers*
   (`zsem`/`zrun`: values, not limbs; written with Z arithmetic and the positional / bit-level
   specification helpers of RunC05/C06/C08/C09/C18) plus: every register of the result is
   canonical and denotes the integer the interpreter computed. *)
From RV.Model Require Import Base Word Opaque History.
From RV.Run Require RunC03 RunC05 RunC06 RunC08 RunC09 RunC13 RunC18.

Inductive call : Type :=
| history (bits : Z) (regs : list (list Z)) (prog : list Z).

Definition run (c : call) : result :=
  match c with
  | history bits regs prog =>
      do st <- run_history bits regs prog ;
      Val (map TL (fst st) ++ [TL (snd st)])
  end.

Definition wf (c : call) : Prop :=
  match c with
  | history bits regs prog => 0 <= bits < 2 ^ 64 /\ Forall (canon bits) regs /\ Forall inW prog
  end.
Definition wfb (c : call) : bool :=
  match c with
  | history bits regs prog =>
      ((0 <=? bits) && (bits <? 2 ^ 64)) && forallb (canonb bits) regs && forallb inWb prog
  end.

(* ================= the integer interpreter ================= *)
Definition M (bits : Z) : Z := 2 ^ bits.
Definition zwf (v : Z) (f : bool) : zres := Val (Some v, b2z f).
Definition zwo (o : option Z) : zres :=
  match o with Some v => Val (Some v, 1) | None => Val (None, 0) end.
(* Result<Uint, ToUintError> for a non-negative source value v *)
Definition z_try (bits v : Z) : zres :=
  if v <? M bits then Val (Some v, 0) else Val (Some (modp2 v bits), 1).
Definition z_from (bits v : Z) : zres := if v <? M bits then zw v else Panic.
Definition z_sat (bits v : Z) : zres := zw (if v <? M bits then v else M bits - 1).
(* float conversions, by the class of the bit pattern (RunC18.classify) *)
Definition z_try_float (prec emax bits x : Z) : zres :=
  match RunC18.classify prec emax x with
  | RunC18.FNaN => Val (None, 3)
  | RunC18.FNegInf => Val (Some 0, 2)
  | RunC18.FNeg n => Val (Some (modp2 (- n) bits), 2)
  | RunC18.FPosInf => Val (Some 0, 1)
  | RunC18.FPos n => if n <? M bits then Val (Some n, 0) else Val (Some (modp2 n bits), 1)
  end.
Definition z_wrap_float (prec emax bits x : Z) : zres :=
  match RunC18.classify prec emax x with
  | RunC18.FPos n => zw (modp2 n bits)
  | RunC18.FNeg n => zw (modp2 (- n) bits)
  | _ => zw 0
  end.
Definition z_sat_float (prec emax bits x : Z) : zres :=
  match RunC18.classify prec emax x with
  | RunC18.FPos n => zw (if n <? M bits then n else M bits - 1)
  | RunC18.FPosInf => zw (M bits - 1)
  | _ => zw 0
  end.
(* byte decoders: value of the byte string, accepted iff not longer than BYTES and in range *)
Definition z_bytes (bits : Z) (v : Z) (n : Z) : option Z :=
  if (n <=? (bits + 7) / 8) && (v <? M bits) then Some v else None.
(* digit strings: Ok iff the base is at least 2, every digit is below it, the value is in range *)
Definition z_digits (bits base v : Z) (ds : list Z) : zres :=
  if base <? 2 then Val (None, 1)
  else if forallb (fun d => d <? base) ds then
    (if M bits <=? v then Val (None, 1) else Val (Some v, 0))
  else Val (None, 1).
Definition z_text (bits radix : Z) (cs : list Z) : zres :=
  if (64 <? radix) || (radix <? 2) then Val (None, 1)
  else
    let '(pre, bad) := RunC09.split_text radix cs in
    match bad with
    | Some _ => Val (None, 1)
    | None => let v := RunC09.value_be radix pre in
              if M bits <=? v then Val (None, 1) else Val (Some v, 0)
    end.

Definition zsem (o : opcode) (bits : Z) (x y z : Z) (imm : list Z) : zres :=
  let s := imm1 imm in
  let u128 := imm1 imm + 2 ^ 64 * imm2 imm in
  let m := M bits in
  match o with
  | OvAdd => zwf (modp2 (x + y) bits) (m <=? x + y)
  | OvSub => zwf (modp2 (x - y) bits) (x <? y)
  | OvNeg => zwf (modp2 (- x) bits) (0 <? x)
  | ChAdd => zwo (if x + y <? m then Some (x + y) else None)
  | ChSub => zwo (if y <=? x then Some (x - y) else None)
  | ChNeg => zwo (if x =? 0 then Some 0 else None)
  | SatAdd => zw (if x + y <? m then x + y else m - 1)
  | SatSub => zw (if y <=? x then x - y else 0)
  | WrAdd => zw (modp2 (x + y) bits)
  | WrSub => zw (modp2 (x - y) bits)
  | WrNeg => zw (modp2 (- x) bits)
  | AbsDiff => zw (Z.abs (x - y))
  | OvShl => zwf (RunC05.shl_val bits x s) (RunC05.shl_lost bits x s)
  | OvShr => zwf (RunC05.shr_val bits x s) (RunC05.shr_lost bits x s)
  | ChShl => zwo (if RunC05.shl_lost bits x s then None else Some (RunC05.shl_val bits x s))
  | ChShr => zwo (if RunC05.shr_lost bits x s then None else Some (RunC05.shr_val bits x s))
  | SatShl => zw (if RunC05.shl_lost bits x s then m - 1 else RunC05.shl_val bits x s)
  | WrShl => zw (RunC05.shl_val bits x s)
  | WrShr => zw (RunC05.shr_val bits x s)
  | AShr => zw (if bits =? 0 then 0 else RunC05.ashr_val bits x s)
  | RotL => zw (if bits =? 0 then 0 else RunC05.rotl_val bits x (s mod bits))
  | RotR => zw (if bits =? 0 then 0
                else let r := s mod bits in divp2 x r + modp2 (Z.shiftl x (bits - r)) bits)
  | ShlUint => zw (RunC05.shl_val bits x y)
  | ShrUint => zw (RunC05.shr_val bits x y)
  | BitAnd => zw (Z.land x y)
  | BitOr => zw (Z.lor x y)
  | BitXor => zw (Z.lxor x y)
  | BitNot => zw (RunC06.compl bits x)
  | SetBit => zw (if s <? bits then (if negb (imm2 imm =? 0) then Z.setbit x s else Z.clearbit x s)
                  else x)
  | RevBits => zw (RunC06.mirror bits x)
  | Npot => match RunC06.spec_npot bits x with Some p => zw p | None => Panic end
  | CNpot => zwo (RunC06.spec_npot bits x)
  | TryFromU64 => z_try bits s
  | FromU64 => z_from bits s
  | WrapFromU64 => zw (modp2 s bits)
  | SatFromU64 => z_sat bits s
  | TryFromU128 => z_try bits u128
  | FromU128 => z_from bits u128
  | WrapFromU128 => zw (modp2 u128 bits)
  | SatFromU128 => z_sat bits u128
  | FromLimbsSlice => z_from bits (eval imm)
  | ChFromLimbsSlice => zwo (if eval imm <? m then Some (eval imm) else None)
  | WrFromLimbsSlice => zw (modp2 (eval imm) bits)
  | OvFromLimbsSlice => zwf (modp2 (eval imm) bits) (m <=? eval imm)
  | SatFromLimbsSlice => z_sat bits (eval imm)
  | FromLimbs => if lenZ imm =? nlimbs bits then z_from bits (eval imm) else Panic
  | TryFromBe =>
      if forallb isbyteb imm then zwo (z_bytes bits (RunC08.be_val imm) (lenZ imm)) else Panic
  | TryFromLe =>
      if forallb isbyteb imm then zwo (z_bytes bits (RunC08.le_val imm) (lenZ imm)) else Panic
  | FromBe =>
      if forallb isbyteb imm then
        match z_bytes bits (RunC08.be_val imm) (lenZ imm) with Some v => zw v | None => Panic end
      else Panic
  | FromLe =>
      if forallb isbyteb imm then
        match z_bytes bits (RunC08.le_val imm) (lenZ imm) with Some v => zw v | None => Panic end
      else Panic
  | ReLe | ReBe | ReLeTrim | ReBeTrim => zw x
  | FromBaseBe => z_digits bits s (RunC09.value_be s (tl imm)) (tl imm)
  | FromBaseLe => z_digits bits s (RunC09.value_le s (tl imm)) (tl imm)
  | FromStrRadix => if forallb ischarb (tl imm) then z_text bits s (tl imm) else Panic
  | ReBase => if s <? 2 then Panic else zw x
  | TryFromF64 => z_try_float 53 1024 bits s
  | WrapFromF64 => z_wrap_float 53 1024 bits s
  | SatFromF64 => z_sat_float 53 1024 bits s
  | TryFromF32 => if s <? 2 ^ 32 then z_try_float 24 128 bits s else Panic
  | WrapFromF32 => if s <? 2 ^ 32 then z_wrap_float 24 128 bits s else Panic
  | SatFromF32 => if s <? 2 ^ 32 then z_sat_float 24 128 bits s else Panic
  | CZero | CMin => zw 0
  | COne => zw (modp2 1 bits)
  | CMax => zw (m - 1)
  | Mov => zw x
  | WrMul => z_wrapping_mul bits x y
  | WrDiv => z_wrapping_div x y
  | WrRem => z_wrapping_rem x y
  | WrPow => zw (RunC13.powmod bits x y)
  | Gcd => z_gcd x y
  | AddMod => z_add_mod x y z
  | MulMod => z_mul_mod x y z
  | PowMod => z_pow_mod bits x y z
  | Root => z_root bits x s
  | MulRedc => z_mul_redc bits x y z s
  | InvRing => zwo (if (0 <? bits) && Z.odd x then Some (zmodinv x m) else None)
  | ChMul => zwo (if x * y <? m then Some (x * y) else None)
  | SatMul => zw (if x * y <? m then x * y else m - 1)
  | OvMul => zwf (modp2 (x * y) bits) (m <=? x * y)
  | DivCeil => if y =? 0 then Panic else zw (RunC03.ceil_div x y)
  | ChDiv => zwo (if y =? 0 then None else Some (x / y))
  | ChRem => zwo (if y =? 0 then None else Some (x mod y))
  | NextMul => if (y =? 0) || (m <=? RunC03.next_mult x y) then Panic else zw (RunC03.next_mult x y)
  | ChNextMul => zwo (if (y =? 0) || (m <=? RunC03.next_mult x y) then None
                      else Some (RunC03.next_mult x y))
  | InvMod => zwo (if (2 <=? y) && (Z.gcd x y =? 1) then Some (zmodinv x y) else None)
  | Lcm => zwo (if (x =? 0) || (y =? 0) then Some 0
                else let l := x * y / Z.gcd x y in if l <? m then Some l else None)
  | GcdExt => zw (Z.gcd x y)
  | ReduceMod => zw (if y =? 0 then 0 else x mod y)
  | SquareRedc => z_mul_redc bits x x z s
  | ChPow => zwo (if RunC13.overflows bits x y then None else Some (RunC13.powmod bits x y))
  | SatPow => zw (if RunC13.overflows bits x y then m - 1 else RunC13.powmod bits x y)
  | OvPow => zwf (RunC13.powmod bits x y) (RunC13.overflows bits x y)
  end.

Definition zstate := (list Z * list Z)%type.       (* register values, status log *)
Definition zget (vals : list Z) (i : Z) : outcome Z :=
  if (i <? 0) || (lenZ vals <=? i) then Panic
  else match nth_error vals (Z.to_nat i) with Some v => Val v | None => Panic end.
Fixpoint zset (vals : list Z) (n : nat) (v : Z) : list Z :=
  match vals, n with
  | [], _ => []
  | _ :: t, O => v :: t
  | x :: t, S n' => x :: zset t n' v
  end.

Definition zstep (bits : Z) (st : zstate) (i : instr) : outcome zstate :=
  let '(vals, log) := st in
  match opcode_of (i_op i) with
  | None => Panic
  | Some o =>
      do x <- zget vals (i_s1 i) ;
      do y <- zget vals (i_s2 i) ;
      do z <- zget vals (i_s3 i) ;
      do _ <- zget vals (i_dst i) ;
      do r <- zsem o bits x y z (i_imm i) ;
      Val (match fst r with
           | Some v => zset vals (Z.to_nat (i_dst i)) v
           | None => vals
           end, log ++ [snd r])
  end.
Fixpoint zrun_instrs (bits : Z) (st : zstate) (is : list instr) : outcome zstate :=
  match is with
  | [] => Val st
  | i :: t => do st' <- zstep bits st i ; zrun_instrs bits st' t
  end.
Definition zrun (bits : Z) (vals : list Z) (prog : list Z) : outcome zstate :=
  match decode (length prog) prog with
  | Some is => zrun_instrs bits (vals, []) is
  | None => Panic
  end.

(* ================= specification ================= *)
(* the observed tokens: one TL per register, then the status log *)
Fixpoint split_regs (toks : list tok) : option (list (list Z) * list Z) :=
  match toks with
  | [TL log] => Some ([], log)
  | TL r :: t => match split_regs t with Some (rs, log) => Some (r :: rs, log) | None => None end
  | _ => None
  end.

Definition spec (c : call) (o : result) : bool :=
  match c with
  | history bits regs prog =>
      match zrun bits (map eval regs) prog with
      | Val (vals, log) =>
          match o with
          | Val toks =>
              match split_regs toks with
              | Some (rs, log') =>
                  forallb (canonb bits) rs                      (* every register is canonical *)
                  && list_eqb Z.eqb (map eval rs) vals          (* and denotes the computed integer *)
                  && list_eqb Z.eqb log' log
              | None => false
              end
          | _ => false
          end
      | Panic => result_eqb o Panic
      | DebugPanic => true         (* mul_redc outside its conditions of use: unconstrained *)
      | _ => false
      end
  end.
