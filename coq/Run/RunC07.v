(* Run/RunC07.v — the calls of property C07 (integer conversions), the model's answer (run),
   the executable mathematical specification (spec) and the input domain (wf).

   Naming: pf_* = primitive -> Uint, pt_* = Uint -> primitive, uu_* = Uint <-> Uint,
   *_from_limbs_slice = the limb-slice constructors.  `ty` is the primitive type code of
   Conv.prim_of_code.  Error codes: 1 = ToUintError::ValueTooLarge(BITS, wrapped),
   2 = ToUintError::ValueNegative(BITS, wrapped), 4 = FromUintError::Overflow(bits, wrapped, max).
   Result tokens: Ok n = [TL n] (Uint) / [TZ v] (integer) / [TB b] (bool);
   Err = [TErr code; TZ bits; payload...]. *)
From RV.Model Require Import Base Word Conv.

Inductive call : Type :=
(* primitive -> Uint *)
| pf_try_from (bits ty x : Z)            (* <Uint as TryFrom<T>>::try_from(x) *)
| pf_uint_try_from (bits ty x : Z)       (* <Uint as UintTryFrom<T>>::uint_try_from(x) *)
| pf_from (bits ty x : Z)                (* Uint::from(x) *)
| pf_wrapping_from (bits ty x : Z)
| pf_saturating_from (bits ty x : Z)
(* Uint<sbits> -> Uint<bits> *)
| uu_uint_try_from (bits sbits : Z) (a : list Z)
| uu_from (bits sbits : Z) (a : list Z)
| uu_wrapping_from (bits sbits : Z) (a : list Z)
| uu_saturating_from (bits sbits : Z) (a : list Z)
| uu_from_uint (bits sbits : Z) (a : list Z)
| uu_checked_from_uint (bits sbits : Z) (a : list Z)
(* Uint<bits> -> primitive *)
| pt_try_from (bits ty shape : Z) (a : list Z)   (* T::try_from(Uint) (0) / T::try_from(&Uint) (1) *)
| pt_uint_try_to (bits ty : Z) (a : list Z)
| pt_to (bits ty : Z) (a : list Z)
| pt_wrapping_to (bits ty : Z) (a : list Z)
| pt_saturating_to (bits ty : Z) (a : list Z)
(* Uint<bits> -> Uint<dbits> *)
| uu_uint_try_to (bits dbits : Z) (a : list Z)
| uu_to (bits dbits : Z) (a : list Z)
| uu_wrapping_to (bits dbits : Z) (a : list Z)
| uu_saturating_to (bits dbits : Z) (a : list Z)
(* limb slices *)
| from_limbs_slice (bits : Z) (s : list Z)
| checked_from_limbs_slice (bits : Z) (s : list Z)
| wrapping_from_limbs_slice (bits : Z) (s : list Z)
| overflowing_from_limbs_slice (bits : Z) (s : list Z)
| saturating_from_limbs_slice (bits : Z) (s : list Z).

(* ---- result printing ---- *)
Definition to_res_toks (r : to_res) : list tok :=
  match r with
  | ROk n => [TL n]
  | RTooLarge b n => [TErr 1; TZ b; TL n]
  | RNegative b n => [TErr 2; TZ b; TL n]
  end.
Definition from_res_toks {T} (f : T -> tok) (r : from_res T) : list tok :=
  match r with
  | FOk v => [f v]
  | FOverflow b w m => [TErr 4; TZ b; f w; f m]
  end.
Definition opt_toks (o : option (list Z)) : list tok :=
  match o with Some v => [TSome; TL v] | None => [TNone] end.

Definition with_prim (ty : Z) (k : prim -> result) : result :=
  match prim_of_code ty with Some p => k p | None => Panic end.

(* Uint -> primitive: bool has its own impl *)
Definition try_to_toks (bits ty : Z) (a : list Z) : outcome (from_res tok) :=
  match prim_of_code ty with
  | None => Panic
  | Some p =>
      if ty =? 0 then
        do r <- Conv.try_to_bool bits a;
        Val (match r with FOk v => FOk (TB v) | FOverflow b w m => FOverflow b (TB w) (TB m) end)
      else
        do r <- Conv.try_to_prim bits p a;
        Val (match r with FOk v => FOk (TZ v) | FOverflow b w m => FOverflow b (TZ w) (TZ m) end)
  end.
Definition id_tok (t : tok) : tok := t.

Definition run (c : call) : result :=
  match c with
  | pf_try_from bits ty x | pf_uint_try_from bits ty x =>
      with_prim ty (fun p => omap to_res_toks (Conv.try_from_prim bits p x))
  | pf_from bits ty x =>
      with_prim ty (fun p => omap (fun n => [TL n]) (from_of (Conv.try_from_prim bits p x)))
  | pf_wrapping_from bits ty x =>
      with_prim ty (fun p => omap (fun n => [TL n]) (wrapping_from_of (Conv.try_from_prim bits p x)))
  | pf_saturating_from bits ty x =>
      with_prim ty (fun p => omap (fun n => [TL n]) (saturating_from_of bits (Conv.try_from_prim bits p x)))
  | uu_uint_try_from bits _ a => omap to_res_toks (Conv.uint_try_from_uint bits a)
  | uu_from bits _ a => omap (fun n => [TL n]) (from_of (Conv.uint_try_from_uint bits a))
  | uu_wrapping_from bits _ a => omap (fun n => [TL n]) (wrapping_from_of (Conv.uint_try_from_uint bits a))
  | uu_saturating_from bits _ a =>
      omap (fun n => [TL n]) (saturating_from_of bits (Conv.uint_try_from_uint bits a))
  | uu_from_uint bits _ a => omap (fun n => [TL n]) (Conv.from_uint bits a)
  | uu_checked_from_uint bits _ a => omap opt_toks (Conv.checked_from_uint bits a)
  | pt_try_from bits ty _ a | pt_uint_try_to bits ty a =>
      omap (from_res_toks id_tok) (try_to_toks bits ty a)
  | pt_to bits ty a => omap (fun t => [t]) (to_of (try_to_toks bits ty a))
  | pt_wrapping_to bits ty a => omap (fun t => [t]) (wrapping_to_of (try_to_toks bits ty a))
  | pt_saturating_to bits ty a => omap (fun t => [t]) (saturating_to_of (try_to_toks bits ty a))
  | uu_uint_try_to _ dbits a => omap (from_res_toks TL) (Conv.uint_try_to_uint dbits a)
  | uu_to _ dbits a => omap (fun n => [TL n]) (to_of (Conv.uint_try_to_uint dbits a))
  | uu_wrapping_to _ dbits a => omap (fun n => [TL n]) (wrapping_to_of (Conv.uint_try_to_uint dbits a))
  | uu_saturating_to _ dbits a => omap (fun n => [TL n]) (saturating_to_of (Conv.uint_try_to_uint dbits a))
  | from_limbs_slice bits s => omap (fun n => [TL n]) (Conv.from_limbs_slice bits s)
  | checked_from_limbs_slice bits s => omap opt_toks (Conv.checked_from_limbs_slice bits s)
  | wrapping_from_limbs_slice bits s => omap (fun n => [TL n]) (Conv.wrapping_from_limbs_slice bits s)
  | overflowing_from_limbs_slice bits s =>
      omap (fun p => [TL (fst p); TB (snd p)]) (Conv.overflowing_from_limbs_slice bits s)
  | saturating_from_limbs_slice bits s => omap (fun n => [TL n]) (Conv.saturating_from_limbs_slice bits s)
  end.

(* ---- input domain: well-typed arguments only ---- *)
Definition prim_ok (ty x : Z) : Prop :=
  exists p, prim_of_code ty = Some p /\ prim_min p <= x <= prim_max p.
Definition prim_okb (ty x : Z) : bool :=
  match prim_of_code ty with
  | Some p => (prim_min p <=? x) && (x <=? prim_max p)
  | None => false
  end.
Definition ty_ok (ty : Z) : Prop := exists p, prim_of_code ty = Some p.
Definition ty_okb (ty : Z) : bool := match prim_of_code ty with Some _ => true | None => false end.

Definition wf (c : call) : Prop :=
  match c with
  | pf_try_from bits ty x | pf_uint_try_from bits ty x | pf_from bits ty x
  | pf_wrapping_from bits ty x | pf_saturating_from bits ty x => 0 <= bits /\ prim_ok ty x
  | uu_uint_try_from bits sbits a | uu_from bits sbits a | uu_wrapping_from bits sbits a
  | uu_saturating_from bits sbits a | uu_from_uint bits sbits a | uu_checked_from_uint bits sbits a =>
      0 <= bits /\ 0 <= sbits /\ canon sbits a
  | pt_try_from bits ty _ a | pt_uint_try_to bits ty a | pt_to bits ty a
  | pt_wrapping_to bits ty a | pt_saturating_to bits ty a => 0 <= bits /\ ty_ok ty /\ canon bits a
  | uu_uint_try_to bits dbits a | uu_to bits dbits a | uu_wrapping_to bits dbits a
  | uu_saturating_to bits dbits a => 0 <= bits /\ 0 <= dbits /\ canon bits a
  | from_limbs_slice bits s | checked_from_limbs_slice bits s | wrapping_from_limbs_slice bits s
  | overflowing_from_limbs_slice bits s | saturating_from_limbs_slice bits s =>
      0 <= bits /\ Forall inW s
  end.
Definition wfb (c : call) : bool :=
  match c with
  | pf_try_from bits ty x | pf_uint_try_from bits ty x | pf_from bits ty x
  | pf_wrapping_from bits ty x | pf_saturating_from bits ty x => (0 <=? bits) && prim_okb ty x
  | uu_uint_try_from bits sbits a | uu_from bits sbits a | uu_wrapping_from bits sbits a
  | uu_saturating_from bits sbits a | uu_from_uint bits sbits a | uu_checked_from_uint bits sbits a =>
      (0 <=? bits) && (0 <=? sbits) && canonb sbits a
  | pt_try_from bits ty _ a | pt_uint_try_to bits ty a | pt_to bits ty a
  | pt_wrapping_to bits ty a | pt_saturating_to bits ty a => (0 <=? bits) && ty_okb ty && canonb bits a
  | uu_uint_try_to bits dbits a | uu_to bits dbits a | uu_wrapping_to bits dbits a
  | uu_saturating_to bits dbits a => (0 <=? bits) && (0 <=? dbits) && canonb bits a
  | from_limbs_slice bits s | checked_from_limbs_slice bits s | wrapping_from_limbs_slice bits s
  | overflowing_from_limbs_slice bits s | saturating_from_limbs_slice bits s =>
      (0 <=? bits) && forallb inWb s
  end.

(* ---- specification: integer arithmetic on the denoted values ---- *)
Definition M (bits : Z) : Z := 2 ^ bits.
Definition U (bits v : Z) : tok := TL (uint_of bits v).     (* the canonical Uint of value v *)

(* source-type facts used by the specification: width and value range only *)
Definition ty_width (ty : Z) : Z :=
  match ty with
  | 0 => 1 | 1 | 7 => 8 | 2 | 8 => 16 | 3 | 9 => 32 | 4 | 6 | 10 | 12 => 64 | _ => 128
  end.
Definition ty_signed (ty : Z) : bool := (7 <=? ty).
Definition ty_max (ty : Z) : Z :=
  if ty_signed ty then 2 ^ (ty_width ty - 1) - 1 else 2 ^ ty_width ty - 1.

(* wrapped payload carried by the error / returned by wrapping_from:
   x mod 2^BITS for too-large values, and for negative values whenever BITS <= source width;
   for a negative value and BITS > width the source is first cast to the unsigned type of the
   same width, i.e. the payload is x mod 2^width (= x + 2^width). *)
Definition wrapped_from (bits ty x : Z) : Z :=
  if (x <? 0) && (ty_width ty <? bits) then modp2 x (ty_width ty) else modp2 x bits.

Definition spec_try_from (bits ty x : Z) : list tok :=
  if x <? 0 then [TErr 2; TZ bits; U bits (wrapped_from bits ty x)]
  else if x <? M bits then [U bits x]
  else [TErr 1; TZ bits; U bits (wrapped_from bits ty x)].
Definition spec_from (bits x : Z) (o : result) : bool :=
  if (0 <=? x) && (x <? M bits) then expect o [U bits x] else result_eqb o Panic.
Definition spec_saturating_from (bits x : Z) : list tok :=
  [U bits (if x <? 0 then 0 else if x <? M bits then x else M bits - 1)].

(* Uint -> Uint<dst> *)
Definition spec_uu_try_from (dst v : Z) : list tok :=
  if v <? M dst then [U dst v] else [TErr 1; TZ dst; U dst (modp2 v dst)].
Definition spec_uu_try_to (dst v : Z) : list tok :=
  if v <? M dst then [U dst v] else [TErr 4; TZ dst; U dst (modp2 v dst); U dst (M dst - 1)].

(* Uint -> primitive: two's complement reading of v mod 2^w *)
Definition twos (ty v : Z) : Z :=
  let r := modp2 v (ty_width ty) in
  if ty_signed ty && (2 ^ (ty_width ty - 1) <=? r) then r - 2 ^ ty_width ty else r.
Definition ptok (ty v : Z) : tok := if ty =? 0 then TB (negb (v =? 0)) else TZ v.
Definition spec_try_to (bits ty v : Z) : list tok :=
  if v <=? ty_max ty then [ptok ty v]
  else [TErr 4; TZ bits; ptok ty (twos ty v); ptok ty (ty_max ty)].
Definition spec_to (ty v : Z) (o : result) : bool :=
  if v <=? ty_max ty then expect o [ptok ty v] else result_eqb o Panic.

Definition spec (c : call) (o : result) : bool :=
  match c with
  | pf_try_from bits ty x | pf_uint_try_from bits ty x => expect o (spec_try_from bits ty x)
  | pf_from bits ty x => spec_from bits x o
  | pf_wrapping_from bits ty x => expect o [U bits (wrapped_from bits ty x)]
  | pf_saturating_from bits ty x => expect o (spec_saturating_from bits x)
  | uu_uint_try_from bits _ a => expect o (spec_uu_try_from bits (eval a))
  | uu_from bits _ a | uu_from_uint bits _ a => spec_from bits (eval a) o
  | uu_wrapping_from bits _ a => expect o [U bits (modp2 (eval a) bits)]
  | uu_saturating_from bits _ a => expect o (spec_saturating_from bits (eval a))
  | uu_checked_from_uint bits _ a =>
      expect o (if eval a <? M bits then [TSome; U bits (eval a)] else [TNone])
  | pt_try_from bits ty _ a | pt_uint_try_to bits ty a => expect o (spec_try_to bits ty (eval a))
  | pt_to _ ty a => spec_to ty (eval a) o
  | pt_wrapping_to _ ty a => expect o [ptok ty (twos ty (eval a))]
  | pt_saturating_to _ ty a => expect o [ptok ty (Z.min (eval a) (ty_max ty))]
  | uu_uint_try_to _ dbits a => expect o (spec_uu_try_to dbits (eval a))
  | uu_to _ dbits a => spec_from dbits (eval a) o
  | uu_wrapping_to _ dbits a => expect o [U dbits (modp2 (eval a) dbits)]
  | uu_saturating_to _ dbits a => expect o (spec_saturating_from dbits (eval a))
  | from_limbs_slice bits s => spec_from bits (eval s) o
  | checked_from_limbs_slice bits s =>
      expect o (if eval s <? M bits then [TSome; U bits (eval s)] else [TNone])
  | wrapping_from_limbs_slice bits s => expect o [U bits (modp2 (eval s) bits)]
  | overflowing_from_limbs_slice bits s =>
      expect o [U bits (modp2 (eval s) bits); TB (M bits <=? eval s)]
  | saturating_from_limbs_slice bits s => expect o (spec_saturating_from bits (eval s))
  end.
