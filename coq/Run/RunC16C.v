(* Run/RunC16C.v — C16, group C (num-bigint, primitive-types, bytemuck, postgres, ark-ff 0.3 /
   0.4): the encoders and the encode/decode round trips; the model's answer (run), the
   executable specification against the reference formats of Spec/FmtC.v (spec), the input
   domain (wf).

   Tokens.  BigUint = [TZ value]; BigInt = [TZ sign; TZ magnitude] (0 NoSign, 1 Plus, 2 Minus).
   Limb arrays of foreign types = [TL limbs]; byte arrays = [TY bytes].
   Result<Uint, ToUintError>: Ok n = [TL n]; ValueTooLarge(b, n) = [TErr 1; TZ b; TL n];
   ValueNegative(b, n) = [TErr 2; TZ b; TL n]; NotANumber(b) = [TErr 3; TZ b].
   to_sql: Ok = [TY bytes written]; Err = [TErr c; TY bytes written] with c = 1 FromUintError,
   2 ToSqlError::Overflow, 3 WrongType, 4 TryFromIntError.
   pg_rt: to_sql failed = [TNone; TErr c]; otherwise TSome :: the tokens of from_sql (RunC17C's).
   ToFieldError::NotInField = [TErr 1].
   `kind`: 0 = by value, 1 = by reference (bigint: 0/1 BigUint, 2/3 BigInt). *)
From RV.Model Require Import Base Word.
From RV.Model Require Bytes Conv BaseConv Str Fmt Float CodecC.
From RV.Spec Require FmtC.
From RV.Run Require RunC09 RunC18.
Import BaseConv(res, Ok, Err).

Inductive call : Type :=
| bigint_to (bits kind : Z) (a : list Z)
| bigint_rt (bits kind : Z) (a : list Z)
| pt_to (bits : Z) (a : list Z)
| pt_rt (bits : Z) (a : list Z)
| pth_to (bits : Z) (a : list Z)
| pth_rt (bits : Z) (a : list Z)
| bm_zeroed (bits : Z)
| bm_bytes_of (bits : Z) (a : list Z)
| bm_cast_to (bits : Z) (a : list Z)
| bm_rt (bits : Z) (a : list Z)
| pg_accepts (bits ty : Z)
| pg_to_sql (bits ty : Z) (a : list Z)
| pg_rt (bits ty : Z) (a : list Z)
| ark03_to (bits kind : Z) (a : list Z)
| ark03_from (bits kind : Z) (l : list Z)
| ark03_rt (bits kind : Z) (a : list Z)
| ark03_fp_try_from (bits fld kind : Z) (a : list Z)
| ark03_fp_into (bits fld kind : Z) (l : list Z)
| ark03_fp_rt (bits fld kind : Z) (a : list Z)
| ark04_to (bits kind : Z) (a : list Z)
| ark04_from (bits kind : Z) (l : list Z)
| ark04_rt (bits kind : Z) (a : list Z)
| ark04_fp_try_from (bits fld kind : Z) (a : list Z)
| ark04_fp_into (bits fld kind : Z) (l : list Z)
| ark04_fp_rt (bits fld kind : Z) (a : list Z).

(* the prime fields of the harness: 0: 2^61 - 1 (1 limb), 1: BN254 base field (4 limbs),
   2: BLS12-381 base field (6 limbs) *)
Definition fmodulus (fld : Z) : Z :=
  if fld =? 0 then 2305843009213693951
  else if fld =? 1 then
    21888242871839275222246405745257275088696311157297823662689037894645226208583
  else 4002409555221667393417789825735904156556882819939007885332058136124031650490837864442687629129015664037894272559787.
Definition flimbs (fld : Z) : Z := if fld =? 0 then 1 else if fld =? 1 then 4 else 6.

Definition uerr_toks (c1 : Z) (e : CodecC.uerr) : list tok :=
  match e with
  | CodecC.UTooLarge b n => [TErr c1; TZ b; TL n]
  | CodecC.UNegative b n => [TErr (c1 + 1); TZ b; TL n]
  | CodecC.UNaN b => [TErr (c1 + 2); TZ b]
  end.
Definition ures_toks (r : res CodecC.uerr (list Z)) : list tok :=
  match r with Ok n => [TL n] | Err e => uerr_toks 1 e end.
Definition tserr_code (e : CodecC.tserr) : Z :=
  match e with
  | CodecC.TSFromUint => 1 | CodecC.TSOverflow => 2 | CodecC.TSWrongType => 3 | CodecC.TSInt => 4
  end.
Definition fserr_toks (e : CodecC.fserr) : list tok :=
  match e with
  | CodecC.FSOverflow => [TErr 1]
  | CodecC.FSParse => [TErr 2]
  | CodecC.FSWrongType => [TErr 3]
  | CodecC.FSSlice => [TErr 4]
  | CodecC.FSUint e => uerr_toks 5 e
  | CodecC.FSInt => [TErr 8]
  | CodecC.FSUtf8 => [TErr 9]
  | CodecC.FSStr e => TErr 10 :: RunC09.perr_toks e
  | CodecC.FSBase e => TErr 11 :: RunC09.bcerr_toks e
  end.
Definition fsres_toks (r : res CodecC.fserr (list Z)) : list tok :=
  match r with Ok n => [TL n] | Err e => fserr_toks e end.

Definition run_bigint_from (bits kind v : Z) : result :=
  do r <- (if kind <? 2 then CodecC.try_from_biguint bits v else CodecC.try_from_bigint bits v) ;
  Val (ures_toks r).

Definition run (c : call) : result :=
  match c with
  | bigint_to bits kind a =>
      if kind <? 2 then Val [TZ (CodecC.to_biguint bits a)]
      else let '(s, m) := CodecC.to_bigint bits a in Val [TZ s; TZ m]
  | bigint_rt bits kind a =>
      if kind <? 2 then run_bigint_from bits kind (CodecC.to_biguint bits a)
      else run_bigint_from bits kind (snd (CodecC.to_bigint bits a))
  | pt_to bits a => Val [TL (CodecC.pt_to a)]
  | pt_rt bits a => do r <- CodecC.pt_from bits (CodecC.pt_to a) ; Val [TL r]
  | pth_to bits a => do r <- CodecC.pth_to bits a ; Val [TY r]
  | pth_rt bits a => do e <- CodecC.pth_to bits a ; do r <- CodecC.pth_from bits e ; Val [TL r]
  | bm_zeroed bits => Val [TL (CodecC.bm_zeroed bits)]
  | bm_bytes_of bits a => Val [TY (CodecC.bm_bytes_of a)]
  | bm_cast_to bits a => Val [TL (CodecC.bm_cast a)]
  | bm_rt bits a =>
      match CodecC.bm_read bits (CodecC.bm_bytes_of a) with
      | Ok r => Val [TL r] | Err _ => Val [TErr 1] end
  | pg_accepts bits ty => Val [TB (CodecC.pg_accepts ty); TB (CodecC.pg_accepts ty)]
  | pg_to_sql bits ty a =>
      do r <- CodecC.pg_to_sql bits ty a ;
      match r with Ok bs => Val [TY bs] | Err e => Val [TErr (tserr_code e); TY []] end
  | pg_rt bits ty a =>
      do r <- CodecC.pg_to_sql bits ty a ;
      match r with
      | Err e => Val [TNone; TErr (tserr_code e)]
      | Ok bs => do d <- CodecC.pg_from_sql bits ty bs ; Val (TSome :: fsres_toks d)
      end
  | ark03_to bits _ a | ark04_to bits _ a => Val [TL (CodecC.ark_to a)]
  | ark03_from bits _ l | ark04_from bits _ l => do r <- CodecC.ark_from bits l ; Val [TL r]
  | ark03_rt bits _ a | ark04_rt bits _ a =>
      do r <- CodecC.ark_from bits (CodecC.ark_to a) ; Val [TL r]
  | ark03_fp_try_from bits fld _ a | ark04_fp_try_from bits fld _ a =>
      match CodecC.ark_fp_try_from (fmodulus fld) a with
      | Ok x => Val [TL (CodecC.fp_into_repr (nlimbsN bits) x)]
      | Err _ => Val [TErr 1]
      end
  | ark03_fp_into bits fld _ l | ark04_fp_into bits fld _ l =>
      (* the harness builds the element with from_repr(l).unwrap() *)
      match CodecC.fp_from_repr (fmodulus fld) l with
      | Some x => do r <- CodecC.ark_fp_into bits x ; Val [TL r]
      | None => Panic
      end
  | ark03_fp_rt bits fld _ a | ark04_fp_rt bits fld _ a =>
      match CodecC.ark_fp_try_from (fmodulus fld) a with
      | Ok x => do r <- CodecC.ark_fp_into bits x ; Val [TL r]
      | Err _ => Val [TErr 1]
      end
  end.

(* ---------- input domain ---------- *)
Definition inb (x : Z) (l : list Z) : bool := existsb (Z.eqb x) l.
Definition pt_widths := [128; 256; 512].
Definition pth_widths := [128; 160; 256; 512].
Definition ark03_widths := [64; 128; 256; 320; 384; 448; 768; 832].
Definition pod_width (bits : Z) : bool := (bits mod 64 =? 0) && (64 <=? bits) && (bits <=? 1024).
Definition ark03_field (bits fld : Z) : bool :=
  ((bits =? 64) && (fld =? 0)) || ((bits =? 256) && (fld =? 1)) || ((bits =? 384) && (fld =? 2)).
Definition ark04_field (bits fld : Z) : bool :=
  (0 <=? fld) && (fld <=? 2) && (nlimbs bits =? flimbs fld).
Definition limbsb (bits : Z) (l : list Z) : bool :=
  Nat.eqb (length l) (nlimbsN bits) && forallb inWb l.

Definition wfb (c : call) : bool :=
  match c with
  | bigint_to bits kind a | bigint_rt bits kind a =>
      (0 <=? bits) && canonb bits a && (0 <=? kind) && (kind <=? 3)
  | pt_to bits a | pt_rt bits a => inb bits pt_widths && canonb bits a
  | pth_to bits a | pth_rt bits a => inb bits pth_widths && canonb bits a
  | bm_zeroed bits => 0 <=? bits
  | bm_bytes_of bits a | bm_cast_to bits a | bm_rt bits a => pod_width bits && canonb bits a
  | pg_accepts bits ty => (0 <=? bits) && (0 <=? ty) && (ty <=? 18)
  | pg_to_sql bits ty a | pg_rt bits ty a =>
      (0 <=? bits) && canonb bits a && (0 <=? ty) && (ty <=? 18)
  | ark03_to bits _ a | ark03_rt bits _ a => inb bits ark03_widths && canonb bits a
  | ark03_from bits _ l => inb bits ark03_widths && limbsb bits l
  | ark03_fp_try_from bits fld _ a | ark03_fp_rt bits fld _ a =>
      ark03_field bits fld && canonb bits a
  | ark03_fp_into bits fld _ l =>
      ark03_field bits fld && limbsb bits l && (eval l <? fmodulus fld)
  | ark04_to bits _ a | ark04_rt bits _ a => (0 <=? bits) && canonb bits a
  | ark04_from bits _ l => (0 <=? bits) && limbsb bits l
  | ark04_fp_try_from bits fld _ a | ark04_fp_rt bits fld _ a =>
      (0 <=? bits) && ark04_field bits fld && canonb bits a
  | ark04_fp_into bits fld _ l =>
      (0 <=? bits) && ark04_field bits fld && limbsb bits l && (eval l <? fmodulus fld)
  end.
Definition wf (c : call) : Prop := wfb c = true.

(* ---------- specification ---------- *)
Definition U (bits v : Z) : tok := TL (uint_of bits v).
Definition is_err (o : result) : bool :=
  match o with Val (TErr _ :: _) => true | _ => false end.
(* a foreign fixed-width value (limb array) converted into Uint<bits>: `From` panics on a value
   that Uint<bits> cannot represent (the crate-wide convention of Uint::from) *)
Definition spec_from_limbs (bits v : Z) (o : result) : bool :=
  if v <? 2 ^ bits then expect o [U bits v] else result_eqb o Panic.

Definition spec (c : call) (o : result) : bool :=
  match c with
  | bigint_to bits kind a =>
      if kind <? 2 then expect o [TZ (eval a)]
      else expect o [TZ (if eval a =? 0 then 0 else 1); TZ (eval a)]
  | bigint_rt bits _ a | pt_rt bits a | pth_rt bits a | bm_rt bits a
  | ark03_rt bits _ a | ark04_rt bits _ a => expect o [TL a]
  | pt_to bits a | bm_cast_to bits a | ark03_to bits _ a | ark04_to bits _ a =>
      expect o [U bits (eval a)]
  | pth_to bits a => expect o [TY (FmtC.be_bytes (FmtC.SBYTES bits) (eval a))]
  | bm_zeroed bits => expect o [U bits 0]
  | bm_bytes_of bits a => expect o [TY (FmtC.le_bytes (8 * FmtC.SLIMBS bits) (eval a))]
  | pg_accepts bits ty => let b := (0 <=? ty) && (ty <=? 16) in expect o [TB b; TB b]
  | pg_to_sql bits ty a =>
      if FmtC.is_float ty then
        match o with Val [TY bs] => FmtC.pg_float_ok ty (eval a) bs | _ => false end
      else
        match FmtC.pg_ref_encode bits ty (eval a) with
        | Some bs => expect o [TY bs]
        | None => match o with Val [TErr _; TY []] => true | _ => false end
        end
  | pg_rt bits ty a =>
      if FmtC.is_float ty then
        match o with Val (TSome :: _) => true | _ => false end
      else
        match FmtC.pg_ref_encode bits ty (eval a) with
        | Some _ => expect o [TSome; TL a]
        | None => match o with Val [TNone; TErr _] => true | _ => false end
        end
  | ark03_from bits _ l | ark04_from bits _ l => spec_from_limbs bits (eval l) o
  | ark03_fp_try_from bits fld _ a | ark04_fp_try_from bits fld _ a =>
      if eval a <? fmodulus fld then expect o [TL (to_limbs (Z.to_nat (FmtC.SLIMBS bits)) (eval a))]
      else expect o [TErr 1]
  | ark03_fp_into bits fld _ l | ark04_fp_into bits fld _ l => spec_from_limbs bits (eval l) o
  | ark03_fp_rt bits fld _ a | ark04_fp_rt bits fld _ a =>
      if eval a <? fmodulus fld then expect o [TL a] else expect o [TErr 1]
  end.
