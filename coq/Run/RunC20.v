(* Run/RunC20.v — the calls of property C20 (every facade next to its inherent method), the
   model's answer (run), the executable specification (spec) and the input domain (wf).

   Result line of a case = <facade tokens> TErr 0 <inherent tokens>; a side that panicked is
   the single token TErr 1.  ParseError codes: 0x14 InvalidDigit(c), 0x15 InvalidRadix(r),
   0x16 BaseConvertError (1 Overflow / 2 InvalidBase b / 3 InvalidDigit d b).

   Every inherent method has a model in /verif: `run` predicts both sides from the operands alone.
   Text arguments are UTF-8 byte lists (token Y); run decodes them into chars (Str.utf8_decode).

   Selector arguments: `shape` = operator impl shape (see Model/Facade.v), `ty` = primitive
   type code, `k` = method selector (documented at each constructor). *)
From RV.Model Require Import Base Word.
From RV.Model Require Add Shift Bits Conv Bytes Mul UDiv Pow Gcd BaseConv Str Facade.
Import Facade.

Inductive call : Type :=
(* --- core::ops on Uint (src/macros.rs impl_bin_op!, src/bits.rs, src/add.rs) --- *)
| op_add (bits shape : Z) (a b : list Z)
| op_sub (bits shape : Z) (a b : list Z)
| op_mul (bits shape : Z) (a b : list Z)
| op_div (bits shape : Z) (a b : list Z)
| op_rem (bits shape : Z) (a b : list Z)
| op_neg (bits shape : Z) (a : list Z)                   (* 0: -x, 1: -&x *)
| op_not (bits shape : Z) (a : list Z)                   (* 0: !x, 1: !&x *)
| op_bitor (bits shape : Z) (a b : list Z)
| op_bitand (bits shape : Z) (a b : list Z)
| op_bitxor (bits shape : Z) (a b : list Z)
| op_shl (bits ty shape : Z) (a : list Z) (n : Z)        (* ty: 0 usize 1 u8 2 u16 3 u32 4 u64 5 isize 6 i8 7 i16 8 i32 9 i64 *)
| op_shr (bits ty shape : Z) (a : list Z) (n : Z)        (* shape: 0 x<<s, 1 x<<&s, 2 x<<=s, 3 x<<=&s *)
| op_shl_uint (bits shape : Z) (a k : list Z)
| op_shr_uint (bits shape : Z) (a k : list Z)
(* --- Sum / Product: shape 0 by value, 1 by reference --- *)
| it_sum (bits shape : Z) (xs : list (list Z))
| it_product (bits shape : Z) (xs : list (list Z))
(* --- ruint::Bits --- *)
| bw_reverse_bits (bits : Z) (a : list Z)
| bw_not (bits shape : Z) (a : list Z)
| bw_count (bits k : Z) (a : list Z)                     (* leading_zeros, leading_ones, trailing_zeros, trailing_ones *)
| bw_bytes (bits k : Z) (a : list Z)                     (* as_le_bytes, to_be_bytes_vec, to_le_bytes::<BYTES>, to_be_bytes::<BYTES> *)
| bw_checked_shl (bits : Z) (a : list Z) (n : Z)
| bw_checked_shr (bits : Z) (a : list Z) (n : Z)
| bw_overflowing_shl (bits : Z) (a : list Z) (n : Z)
| bw_overflowing_shr (bits : Z) (a : list Z) (n : Z)
| bw_wrapping_shl (bits : Z) (a : list Z) (n : Z)
| bw_wrapping_shr (bits : Z) (a : list Z) (n : Z)
| bw_rotate_left (bits : Z) (a : list Z) (n : Z)
| bw_rotate_right (bits : Z) (a : list Z) (n : Z)
| bw_try_from_be_slice (bits : Z) (bs : list Z)
| bw_try_from_le_slice (bits : Z) (bs : list Z)
| bw_from_be_bytes (bits : Z) (bs : list Z)
| bw_from_le_bytes (bits : Z) (bs : list Z)
| bw_from_str_radix (bits radix : Z) (text : list Z)
| bw_from_str (bits : Z) (text : list Z)
| bw_from_limbs (bits : Z) (l : list Z)
| bw_ident (bits k : Z) (a : list Z)                     (* into_inner, as_uint, as_uint_mut, Uint::from, as_limbs, as_limbs_mut, clone *)
| bw_consts (bits : Z)                                   (* LIMBS, BITS, BYTES, ZERO, default() *)
| bw_index (bits : Z) (a : list Z) (idx : Z)
| bw_bitor (bits shape : Z) (a b : list Z)
| bw_bitand (bits shape : Z) (a b : list Z)
| bw_bitxor (bits shape : Z) (a b : list Z)
| bw_shl (bits shape : Z) (a : list Z) (n : Z)           (* 0 w<<=n 1 w<<=&n 2 w<<n 3 &w<<n 4 w<<&n 5 &w<<&n *)
| bw_shr (bits shape : Z) (a : list Z) (n : Z)
| bw_eq (bits : Z) (a b : list Z)
(* --- num-traits --- *)
| nt_const (bits k : Z)                                  (* Zero::zero, One::one, Bounded::min_value, max_value *)
| nt_is_zero (bits : Z) (a : list Z)
| nt_is_one (bits : Z) (a : list Z)
| nt_from_le_bytes (bits : Z) (bs : list Z)
| nt_from_be_bytes (bits : Z) (bs : list Z)
| nt_to_le_bytes (bits : Z) (a : list Z)
| nt_to_be_bytes (bits : Z) (a : list Z)
| nt_checked_add (bits : Z) (a b : list Z)
| nt_checked_sub (bits : Z) (a b : list Z)
| nt_checked_mul (bits : Z) (a b : list Z)
| nt_checked_div (bits : Z) (a b : list Z)
| nt_checked_rem (bits : Z) (a b : list Z)
| nt_checked_div_euclid (bits : Z) (a b : list Z)
| nt_checked_rem_euclid (bits : Z) (a b : list Z)
| nt_checked_neg (bits : Z) (a : list Z)
| nt_checked_shl (bits : Z) (a : list Z) (n : Z)
| nt_checked_shr (bits : Z) (a : list Z) (n : Z)
| nt_div_euclid (bits : Z) (a b : list Z)
| nt_rem_euclid (bits : Z) (a b : list Z)
| nt_inv (bits : Z) (a : list Z)
| nt_mul_add (bits shape : Z) (a b c : list Z)          (* 0 MulAdd, 1 MulAddAssign *)
| nt_saturating_add (bits k : Z) (a b : list Z)          (* 0 Saturating (by value), 1 SaturatingAdd (by reference) *)
| nt_saturating_sub (bits k : Z) (a b : list Z)
| nt_saturating_mul (bits : Z) (a b : list Z)
| nt_wrapping_add (bits : Z) (a b : list Z)
| nt_wrapping_sub (bits : Z) (a b : list Z)
| nt_wrapping_mul (bits : Z) (a b : list Z)
| nt_wrapping_neg (bits : Z) (a : list Z)
| nt_wrapping_shl (bits : Z) (a : list Z) (n : Z)
| nt_wrapping_shr (bits : Z) (a : list Z) (n : Z)
| nt_overflowing_add (bits : Z) (a b : list Z)
| nt_overflowing_sub (bits : Z) (a b : list Z)
| nt_overflowing_mul (bits : Z) (a b : list Z)
| nt_from_str_radix (bits radix : Z) (text : list Z)
| nt_pow (bits : Z) (a e : list Z)
| nt_to_prim (bits ty : Z) (a : list Z)                  (* ty (Conv.prim_of_code): 10 i64, 4 u64, 11 i128, 5 u128 *)
| nt_from_prim (bits ty : Z) (n : Z)
| nt_numcast (bits ty : Z) (n : Z)                       (* ty 1..12: every primitive integer type *)
| nt_count (bits k : Z) (a : list Z)                     (* count_ones, count_zeros, leading_zeros, leading_ones, trailing_zeros, trailing_ones *)
| nt_rotate_left (bits : Z) (a : list Z) (n : Z)
| nt_rotate_right (bits : Z) (a : list Z) (n : Z)
| nt_signed_shl (bits : Z) (a : list Z) (n : Z)
| nt_signed_shr (bits : Z) (a : list Z) (n : Z)
| nt_unsigned_shl (bits : Z) (a : list Z) (n : Z)
| nt_unsigned_shr (bits : Z) (a : list Z) (n : Z)
| nt_swap_bytes (bits : Z) (a : list Z)
| nt_to_be (bits : Z) (a : list Z)
| nt_from_be (bits : Z) (a : list Z)
| nt_to_le (bits : Z) (a : list Z)
| nt_from_le (bits : Z) (a : list Z)
| nt_reverse_bits (bits : Z) (a : list Z)
| nt_pow_u32 (bits : Z) (a : list Z) (n : Z)
(* --- num-integer --- *)
| ni_div_floor (bits : Z) (a b : list Z)
| ni_mod_floor (bits : Z) (a b : list Z)
| ni_gcd (bits : Z) (a b : list Z)
| ni_lcm (bits : Z) (a b : list Z)
| ni_div_ceil (bits : Z) (a b : list Z)
| ni_div_rem (bits : Z) (a b : list Z)
| ni_div_mod_floor (bits : Z) (a b : list Z)
| ni_extended_gcd (bits : Z) (a b : list Z)
| ni_is_multiple_of (bits : Z) (a b : list Z)
| ni_is_even (bits : Z) (a : list Z)
| ni_is_odd (bits : Z) (a : list Z)
| ni_inc (bits : Z) (a : list Z)
| ni_dec (bits : Z) (a : list Z)
(* --- subtle --- *)
| ct_bit (bits : Z) (a : list Z) (idx : Z)
| ct_select (bits shape : Z) (a b : list Z) (choice : bool)   (* 0 conditional_select, 1 conditional_assign *)
| ct_eq (bits : Z) (a b : list Z)
| ct_gt (bits : Z) (a b : list Z)
| ct_lt (bits : Z) (a b : list Z)
| ct_negate (bits : Z) (a : list Z) (choice : bool)
(* --- zeroize: 0 Uint, 1 Bits --- *)
| zz_zeroize (bits k : Z) (a : list Z).

(* ---------- printing the two sides ---------- *)
Definition oU (o : outcome (list Z)) : side := omap (fun v => [TL v]) o.
Definition oOpt (o : outcome (option (list Z))) : side := omap opt_toks o.
Definition oOptZ (o : outcome (option Z)) : side := omap optz_toks o.
Definition oB (o : outcome bool) : side := omap (fun b => [TB b]) o.
Definition oZ (o : outcome Z) : side := omap (fun z => [TZ z]) o.
Definition oY (o : outcome (list Z)) : side := omap (fun v => [TY v]) o.
Definition oPair (o : outcome (list Z * list Z)) : side := omap (fun p => [TL (fst p); TL (snd p)]) o.
Definition oTriple (o : outcome (list Z * list Z * list Z)) : side :=
  omap (fun t => let '(g, x, y) := t in [TL g; TL x; TL y]) o.
(* Result<Uint, ParseError> *)
Definition bcerr_toks (e : BaseConv.bcerr) : list tok :=
  match e with
  | BaseConv.BOverflow => [TZ 1]
  | BaseConv.BInvalidBase b => [TZ 2; TZ b]
  | BaseConv.BInvalidDigit d b => [TZ 3; TZ d; TZ b]
  end.
Definition pres_toks (r : BaseConv.res Str.perr (list Z)) : list tok :=
  match r with
  | BaseConv.Ok v => [TL v]
  | BaseConv.Err (Str.PInvalidDigit c) => [TErr 0x14; TZ c]
  | BaseConv.Err (Str.PInvalidRadix r) => [TErr 0x15; TZ r]
  | BaseConv.Err (Str.PBase e) => TErr 0x16 :: bcerr_toks e
  end.
Definition oP (o : outcome (BaseConv.res Str.perr (list Z))) : side := omap pres_toks o.
(* a &str argument: the chars of the UTF-8 token (wf demands valid UTF-8) *)
Definition with_text (text : list Z) (k : list Z -> side * side) : side * side :=
  match Str.utf8_decode text with Some cs => k cs | None => (DebugPanic, DebugPanic) end.
Definition with_prim (ty : Z) (k : Conv.prim -> side * side) : side * side :=
  match Conv.prim_of_code ty with Some p => k p | None => (DebugPanic, DebugPanic) end.
(* usize::try_from(k).unwrap_or(usize::MAX): the amount the inherent shift is called with *)
Definition usize_sat (k : list Z) : Z := Z.min (eval k) (B - 1).
Definition same (s : side) : side * side := (s, s).

(* (facade side, inherent side); the inherent side is the expression the harness evaluates *)
Definition sides (c : call) : side * side :=
  match c with
  | op_add bits shape a b => (sU (Facade.op_add bits shape a b), sU (Add.wrapping_add bits a b))
  | op_sub bits shape a b => (sU (Facade.op_sub bits shape a b), sU (Add.wrapping_sub bits a b))
  | op_mul bits shape a b => (oU (Facade.op_mul bits shape a b), oU (Mul.wrapping_mul bits a b))
  | op_div bits shape a b => (oU (Facade.op_div shape a b), oU (UDiv.wrapping_div a b))
  | op_rem bits shape a b => (oU (Facade.op_rem shape a b), oU (UDiv.wrapping_rem a b))
  | op_neg bits shape a => (sU (Facade.op_neg bits shape a), sU (Add.wrapping_neg bits a))
  | op_not bits shape a => (sU (Facade.op_not bits shape a), sU (Bits.unot bits a))
  | op_bitor bits shape a b => (oU (Facade.op_bit 0 shape a b), oU (Conv.from_limbs bits (map2 Z.lor a b)))
  | op_bitand bits shape a b => (oU (Facade.op_bit 1 shape a b), oU (Conv.from_limbs bits (map2 Z.land a b)))
  | op_bitxor bits shape a b => (oU (Facade.op_bit 2 shape a b), oU (Conv.from_limbs bits (map2 Z.lxor a b)))
  | op_shl bits ty shape a n =>
      (sU (Facade.op_shl_prim bits ty shape a n), sU (Shift.wrapping_shl bits a (as_usize n)))
  | op_shr bits ty shape a n =>
      (sU (Facade.op_shr_prim bits ty shape a n), sU (Shift.wrapping_shr bits a (as_usize n)))
  | op_shl_uint bits shape a k =>
      (sU (Facade.op_shl_uint bits shape a k), sU (Shift.wrapping_shl bits a (usize_sat k)))
  | op_shr_uint bits shape a k =>
      (sU (Facade.op_shr_uint bits shape a k), sU (Shift.wrapping_shr bits a (usize_sat k)))
  | it_sum bits shape xs =>
      (sU (Facade.it_sum bits shape xs), sU (fold_left (Add.wrapping_add bits) xs (uZERO bits)))
  | it_product bits shape xs =>
      (oU (Facade.it_product bits shape xs), oU (Mul.fold_mul bits xs (Bits.uONE bits)))
  | bw_reverse_bits bits a => (sU (Facade.bw_reverse_bits bits a), sU (Bits.reverse_bits bits a))
  | bw_not bits shape a => (sU (Facade.bw_not bits shape a), sU (Bits.unot bits a))
  | bw_count bits k a =>
      (oZ (Facade.bw_count bits k a),
       oZ (if k =? 0 then Bits.leading_zeros bits a else if k =? 1 then Bits.leading_ones bits a
           else if k =? 2 then Bits.trailing_zeros bits a else Bits.trailing_ones bits a))
  | bw_bytes bits k a =>
      (oY (Facade.bw_bytes bits k a),
       oY (if k =? 0 then Val (Bytes.as_le_bytes bits a)
           else if k =? 1 then Val (Bytes.to_be_bytes_vec bits a)
           else if k =? 2 then Bytes.to_le_bytes bits (Bytes.nbytes bits) a
           else Bytes.to_be_bytes bits (Bytes.nbytes bits) a))
  | bw_checked_shl bits a n => (sOpt (Facade.bw_checked_shl bits a n), sOpt (Shift.checked_shl bits a n))
  | bw_checked_shr bits a n => (sOpt (Facade.bw_checked_shr bits a n), sOpt (Shift.checked_shr bits a n))
  | bw_overflowing_shl bits a n => (sPair (Facade.bw_overflowing_shl bits a n), sPair (Shift.overflowing_shl bits a n))
  | bw_overflowing_shr bits a n => (sPair (Facade.bw_overflowing_shr bits a n), sPair (Shift.overflowing_shr bits a n))
  | bw_wrapping_shl bits a n => (sU (Facade.bw_wrapping_shl bits a n), sU (Shift.wrapping_shl bits a n))
  | bw_wrapping_shr bits a n => (sU (Facade.bw_wrapping_shr bits a n), sU (Shift.wrapping_shr bits a n))
  | bw_rotate_left bits a n => (sU (Facade.bw_rotate_left bits a n), sU (Shift.rotate_left bits a n))
  | bw_rotate_right bits a n => (sU (Facade.bw_rotate_right bits a n), sU (Shift.rotate_right bits a n))
  | bw_try_from_be_slice bits bs => (oOpt (Facade.bw_try_from_be_slice bits bs), oOpt (Bytes.try_from_be_slice bits bs))
  | bw_try_from_le_slice bits bs => (oOpt (Facade.bw_try_from_le_slice bits bs), oOpt (Bytes.try_from_le_slice bits bs))
  | bw_from_be_bytes bits bs => (oU (Facade.bw_from_be_bytes bits bs), oU (Bytes.from_be_bytes bits bs))
  | bw_from_le_bytes bits bs => (oU (Facade.bw_from_le_bytes bits bs), oU (Bytes.from_le_bytes bits bs))
  | bw_from_str_radix bits radix text =>
      with_text text (fun cs =>
        (oP (Facade.bw_from_str_radix bits cs radix), oP (Str.from_str_radix bits cs radix)))
  | bw_from_str bits text =>
      with_text text (fun cs => (oP (Facade.bw_from_str bits cs), oP (Str.from_str bits cs)))
  | bw_from_limbs bits l => (oU (Facade.bw_from_limbs bits l), oU (Conv.from_limbs bits l))
  | bw_ident bits k a => (sU (Facade.bw_ident k a), sU a)
  | bw_consts bits =>
      same (Val [TZ (nlimbs bits); TZ bits; TZ (Bytes.nbytes bits); TL (uZERO bits); TL (uZERO bits)])
  | bw_index bits a idx => (oB (Facade.bw_index bits a idx), oB (Bits.bit bits a idx))
  | bw_bitor bits shape a b => (oU (Facade.bw_bit 0 shape a b), oU (Bits.bit_op Z.lor 0 a b))
  | bw_bitand bits shape a b => (oU (Facade.bw_bit 1 shape a b), oU (Bits.bit_op Z.land 0 a b))
  | bw_bitxor bits shape a b => (oU (Facade.bw_bit 2 shape a b), oU (Bits.bit_op Z.lxor 0 a b))
  | bw_shl bits shape a n => (sU (Facade.bw_shl bits shape a n), sU (Shift.wrapping_shl bits a n))
  | bw_shr bits shape a n => (sU (Facade.bw_shr bits shape a n), sU (Shift.wrapping_shr bits a n))
  | bw_eq bits a b => (sB (Facade.bw_eq a b), sB (limbs_eq a b))
  | nt_const bits k =>
      (sU (Facade.nt_const bits k),
       sU (if k =? 0 then uZERO bits else if k =? 1 then Bits.uONE bits
           else if k =? 2 then uZERO bits else uMAX bits))
  | nt_is_zero bits a => (sB (Facade.nt_is_zero bits a), sB (limbs_eq a (uZERO bits)))
  | nt_is_one bits a => (sB (Facade.nt_is_one bits a), sB (limbs_eq a (Bits.uONE bits)))
  | nt_from_le_bytes bits bs => (oU (Facade.nt_from_le_bytes bits bs), oOpt (Bytes.try_from_le_slice bits bs))
  | nt_from_be_bytes bits bs => (oU (Facade.nt_from_be_bytes bits bs), oOpt (Bytes.try_from_be_slice bits bs))
  | nt_to_le_bytes bits a => (sY (Facade.nt_to_le_bytes bits a), sY (Bytes.to_le_bytes_vec bits a))
  | nt_to_be_bytes bits a => (sY (Facade.nt_to_be_bytes bits a), sY (Bytes.to_be_bytes_vec bits a))
  | nt_checked_add bits a b => (sOpt (Facade.nt_checked_add bits a b), sOpt (Add.checked_add bits a b))
  | nt_checked_sub bits a b => (sOpt (Facade.nt_checked_sub bits a b), sOpt (Add.checked_sub bits a b))
  | nt_checked_mul bits a b => (sOpt (Facade.nt_checked_mul bits a b), sOpt (Mul.checked_mul bits a b))
  | nt_checked_div bits a b => (oOpt (Facade.nt_checked_div bits a b), oOpt (UDiv.checked_div bits a b))
  | nt_checked_rem bits a b => (oOpt (Facade.nt_checked_rem bits a b), oOpt (UDiv.checked_rem bits a b))
  | nt_checked_div_euclid bits a b =>
      (oOpt (Facade.nt_checked_div_euclid bits a b), oOpt (UDiv.checked_div bits a b))
  | nt_checked_rem_euclid bits a b =>
      (oOpt (Facade.nt_checked_rem_euclid bits a b), oOpt (UDiv.checked_rem bits a b))
  | nt_div_euclid bits a b => (oU (Facade.nt_div_euclid a b), oU (UDiv.wrapping_div a b))
  | nt_rem_euclid bits a b => (oU (Facade.nt_rem_euclid a b), oU (UDiv.wrapping_rem a b))
  | nt_inv bits a => (oOpt (Facade.nt_inv bits a), oOpt (Mul.inv_ring bits a))
  | nt_saturating_mul bits a b => (sU (Facade.nt_saturating_mul bits a b), sU (Mul.saturating_mul bits a b))
  | nt_wrapping_mul bits a b => (oU (Facade.nt_wrapping_mul bits a b), oU (Mul.wrapping_mul bits a b))
  | nt_overflowing_mul bits a b =>
      (sPair (Facade.nt_overflowing_mul bits a b), sPair (Mul.overflowing_mul bits a b))
  | nt_from_str_radix bits radix text =>
      with_text text (fun cs =>
        (oP (Facade.nt_from_str_radix bits cs radix), oP (Str.from_str_radix bits cs (as_usize radix))))
  | nt_pow bits a e => (oU (Facade.nt_pow bits a e), oU (Pow.pow bits a e))
  | nt_checked_neg bits a => (sOpt (Facade.nt_checked_neg bits a), sOpt (Add.checked_neg bits a))
  | nt_checked_shl bits a n => (sOpt (Facade.nt_checked_shl bits a n), sOpt (Shift.checked_shl bits a (as_usize n)))
  | nt_checked_shr bits a n => (sOpt (Facade.nt_checked_shr bits a n), sOpt (Shift.checked_shr bits a (as_usize n)))
  | nt_mul_add bits shape a b c =>
      (oU (Facade.nt_mul_add bits shape a b c),
       oU (do p <- Mul.wrapping_mul bits a b; Val (Add.wrapping_add bits p c)))
  | nt_saturating_add bits k a b => (sU (Facade.nt_saturating_add bits k a b), sU (Add.saturating_add bits a b))
  | nt_saturating_sub bits k a b => (sU (Facade.nt_saturating_sub bits k a b), sU (Add.saturating_sub bits a b))
  | nt_wrapping_add bits a b => (sU (Facade.nt_wrapping_add bits a b), sU (Add.wrapping_add bits a b))
  | nt_wrapping_sub bits a b => (sU (Facade.nt_wrapping_sub bits a b), sU (Add.wrapping_sub bits a b))
  | nt_wrapping_neg bits a => (sU (Facade.nt_wrapping_neg bits a), sU (Add.wrapping_neg bits a))
  | nt_wrapping_shl bits a n => (sU (Facade.nt_wrapping_shl bits a n), sU (Shift.wrapping_shl bits a (as_usize n)))
  | nt_wrapping_shr bits a n => (sU (Facade.nt_wrapping_shr bits a n), sU (Shift.wrapping_shr bits a (as_usize n)))
  | nt_overflowing_add bits a b => (sPair (Facade.nt_overflowing_add bits a b), sPair (Add.overflowing_add bits a b))
  | nt_overflowing_sub bits a b => (sPair (Facade.nt_overflowing_sub bits a b), sPair (Add.overflowing_sub bits a b))
  | nt_to_prim bits ty a =>
      with_prim ty (fun p =>
        (oOptZ (Facade.nt_to_prim bits p a),
         oOptZ (do r <- Conv.try_to_prim bits p a; Val (from_res_ok r))))
  | nt_from_prim bits ty n =>
      with_prim ty (fun p =>
        (oOpt (Facade.nt_from_prim bits p n),
         oOpt (do r <- Conv.try_from_prim bits p n; Val (to_res_ok r))))
  | nt_numcast bits ty n =>
      with_prim ty (fun p =>
        (oOpt (Facade.nt_numcast bits n),
         oOpt (do r <- Conv.try_from_prim bits p n; Val (to_res_ok r))))
  | nt_count bits k a =>
      (oZ (Facade.nt_count bits k a),
       oZ (if k =? 0 then Val (Bits.count_ones a) else if k =? 1 then Bits.count_zeros bits a
           else if k =? 2 then Bits.leading_zeros bits a else if k =? 3 then Bits.leading_ones bits a
           else if k =? 4 then Bits.trailing_zeros bits a else Bits.trailing_ones bits a))
  | nt_rotate_left bits a n => (sU (Facade.nt_rotate_left bits a n), sU (Shift.rotate_left bits a (as_usize n)))
  | nt_rotate_right bits a n => (sU (Facade.nt_rotate_right bits a n), sU (Shift.rotate_right bits a (as_usize n)))
  | nt_signed_shl bits a n => (sU (Facade.nt_signed_shl bits a n), sU (Shift.wrapping_shl bits a (as_usize n)))
  | nt_signed_shr bits a n => (sU (Facade.nt_signed_shr bits a n), sU (Shift.arithmetic_shr bits a (as_usize n)))
  | nt_unsigned_shl bits a n => (sU (Facade.nt_unsigned_shl bits a n), sU (Shift.wrapping_shl bits a (as_usize n)))
  | nt_unsigned_shr bits a n => (sU (Facade.nt_unsigned_shr bits a n), sU (Shift.wrapping_shr bits a (as_usize n)))
  | nt_swap_bytes bits a | nt_to_be bits a | nt_from_be bits a =>
      (oU (Facade.nt_swap_bytes bits a), oOpt (Bytes.try_from_le_slice bits (Bytes.to_be_bytes_vec bits a)))
  | nt_to_le bits a | nt_from_le bits a => (oU (Facade.nt_to_le bits a), sOpt (Some a))
  | nt_reverse_bits bits a => (sU (Facade.nt_reverse_bits bits a), sU (Bits.reverse_bits bits a))
  | nt_pow_u32 bits a n =>
      (* harness reference: x.pow(U::from(n)) *)
      (oU (Facade.nt_pow_u32 bits a n),
       oU (do e <- Conv.from_of (Conv.try_from_prim bits Facade.prim_u32 n); Pow.pow bits a e))
  | ni_div_floor bits a b => (oU (Facade.ni_div_floor a b), oU (UDiv.wrapping_div a b))
  | ni_mod_floor bits a b => (oU (Facade.ni_mod_floor a b), oU (UDiv.wrapping_rem a b))
  | ni_gcd bits a b => (oU (Facade.ni_gcd bits a b), oU (Gcd.gcd bits a b))
  | ni_lcm bits a b => (oU (Facade.ni_lcm bits a b), oOpt (Gcd.lcm bits a b))
  | ni_div_ceil bits a b => (oU (Facade.ni_div_ceil bits a b), oU (UDiv.div_ceil bits a b))
  | ni_div_rem bits a b => (oPair (Facade.ni_div_rem a b), oPair (UDiv.div_rem a b))
  | ni_div_mod_floor bits a b => (oPair (Facade.ni_div_mod_floor a b), oPair (UDiv.div_rem a b))
  | ni_extended_gcd bits a b =>
      (oTriple (Facade.ni_extended_gcd bits a b),
       (* let (g, p, q, _sign) = U::gcd_extended(x, y) *)
       oTriple (do r <- Gcd.gcd_extended bits a b; let '(g, x, y, _sign) := r in Val (g, x, y)))
  | ni_is_multiple_of bits a b =>
      (oB (Facade.ni_is_multiple_of bits a b),
       (* match x.checked_rem(y) { Some(r) => r.is_zero(), None => x.is_zero() } *)
       oB (do o <- UDiv.checked_rem bits a b;
           Val (match o with Some r => limbs_eq r (uZERO bits) | None => limbs_eq a (uZERO bits) end)))
  | ni_is_even bits a => (oB (Facade.ni_is_even bits a), oB (do b <- Bits.bit bits a 0; Val (negb b)))
  | ni_is_odd bits a => (oB (Facade.ni_is_odd bits a), oB (Bits.bit bits a 0))
  | ni_inc bits a => (sU (Facade.ni_inc bits a), sU (Add.wrapping_add bits a (Bits.uONE bits)))
  | ni_dec bits a => (sU (Facade.ni_dec bits a), sU (Add.wrapping_sub bits a (Bits.uONE bits)))
  | ct_bit bits a idx => (oB (Facade.ct_bit bits a idx), oB (Bits.bit bits a idx))
  | ct_select bits shape a b choice =>
      (oU (if shape =? 0 then Facade.ct_select bits a b choice else Facade.ct_assign bits a b choice),
       sU (if choice then b else a))
  | ct_eq bits a b => (sB (Facade.ct_eq a b), sB (limbs_eq a b))
  | ct_gt bits a b => (sB (Facade.ct_gt a b), sB (ugt a b))
  | ct_lt bits a b => (sB (Facade.ct_lt a b), sB (ult a b))
  | ct_negate bits a choice =>
      (oU (Facade.ct_negate bits a choice), sU (if choice then Add.wrapping_neg bits a else a))
  | zz_zeroize bits k a => (sU (Facade.zz_zeroize a), sU (uZERO bits))
  end.

(* ---------- run: both sides on one line ---------- *)
Definition SEP : tok := TErr 0.
Definition PANICKED : tok := TErr 1.
Definition enc (s : side) : option (list tok) :=
  match s with Val t => Some t | Panic => Some [PANICKED] | _ => None end.
Definition join (f i : side) : result :=
  match enc f, enc i with
  | Some x, Some y => Val (x ++ SEP :: y)
  | _, _ => DebugPanic        (* a debug-only panic on either side: excluded by the theorem *)
  end.
Definition run (c : call) : result := join (fst (sides c)) (snd (sides c)).

(* ---------- input domain: well-typed arguments ---------- *)
Definition usizeb (n : Z) : bool := (0 <=? n) && (n <? B).
Definition u32b (n : Z) : bool := (0 <=? n) && (n <? 2 ^ 32).
Definition shapeb (s m : Z) : bool := (0 <=? s) && (s <? m).
Definition bytesb (bs : list Z) : bool := forallb Bytes.isbyteb bs.
Definition wordsb (l : list Z) : bool := forallb inWb l.
(* amount types of impl_shift!: (min, max) by type code *)
Definition shift_tyb (ty n : Z) : bool :=
  if ty =? 0 then (0 <=? n) && (n <? B) else if ty =? 1 then (0 <=? n) && (n <? 2 ^ 8)
  else if ty =? 2 then (0 <=? n) && (n <? 2 ^ 16) else if ty =? 3 then (0 <=? n) && (n <? 2 ^ 32)
  else if ty =? 4 then (0 <=? n) && (n <? B) else if ty =? 5 then (- 2 ^ 63 <=? n) && (n <? 2 ^ 63)
  else if ty =? 6 then (- 2 ^ 7 <=? n) && (n <? 2 ^ 7) else if ty =? 7 then (- 2 ^ 15 <=? n) && (n <? 2 ^ 15)
  else if ty =? 8 then (- 2 ^ 31 <=? n) && (n <? 2 ^ 31) else if ty =? 9 then (- 2 ^ 63 <=? n) && (n <? 2 ^ 63)
  else false.
Definition prim_valb (ty n : Z) : bool :=
  match Conv.prim_of_code ty with
  | Some p => (1 <=? ty) && (Conv.prim_min p <=? n) && (n <=? Conv.prim_max p)
  | None => false
  end.
(* a &str: valid UTF-8 *)
Definition textb (text : list Z) : bool :=
  match Str.utf8_decode text with Some _ => true | None => false end.
Definition prim128b (ty : Z) : bool := (ty =? 10) || (ty =? 4) || (ty =? 11) || (ty =? 5).

Definition wfb (c : call) : bool :=
  match c with
  | op_add bits shape a b | op_sub bits shape a b
  | op_bitor bits shape a b | op_bitand bits shape a b | op_bitxor bits shape a b
  | bw_bitor bits shape a b | bw_bitand bits shape a b | bw_bitxor bits shape a b =>
      (0 <=? bits) && shapeb shape 6 && canonb bits a && canonb bits b
  | op_mul bits shape a b | op_div bits shape a b | op_rem bits shape a b =>
      (0 <=? bits) && shapeb shape 6 && canonb bits a && canonb bits b
  | op_neg bits shape a | op_not bits shape a | bw_not bits shape a | zz_zeroize bits shape a =>
      (0 <=? bits) && shapeb shape 2 && canonb bits a
  | op_shl bits ty shape a n | op_shr bits ty shape a n =>
      (0 <=? bits) && shapeb shape 4 && shift_tyb ty n && canonb bits a
  | op_shl_uint bits shape a k | op_shr_uint bits shape a k =>
      (0 <=? bits) && (bits <? B) && shapeb shape 4 && canonb bits a && canonb bits k
  | it_sum bits shape xs => (0 <=? bits) && shapeb shape 2 && forallb (canonb bits) xs
  | it_product bits shape xs =>
      (0 <=? bits) && shapeb shape 2 && forallb (canonb bits) xs
  | bw_reverse_bits bits a | nt_is_zero bits a | nt_is_one bits a | nt_to_le_bytes bits a
  | nt_to_be_bytes bits a | nt_checked_neg bits a | nt_wrapping_neg bits a | nt_swap_bytes bits a
  | nt_to_be bits a | nt_from_be bits a | nt_to_le bits a | nt_from_le bits a
  | nt_reverse_bits bits a | ni_is_even bits a | ni_is_odd bits a | ni_inc bits a | ni_dec bits a =>
      (0 <=? bits) && canonb bits a
  | bw_count bits k a | bw_bytes bits k a => (0 <=? bits) && shapeb k 4 && canonb bits a
  | bw_ident bits k a => (0 <=? bits) && shapeb k 7 && canonb bits a
  | nt_count bits k a => (0 <=? bits) && (bits <? 2 ^ 32) && shapeb k 6 && canonb bits a
  | bw_checked_shl bits a n | bw_checked_shr bits a n | bw_overflowing_shl bits a n
  | bw_overflowing_shr bits a n | bw_wrapping_shl bits a n | bw_wrapping_shr bits a n
  | bw_rotate_left bits a n | bw_rotate_right bits a n | bw_index bits a n | ct_bit bits a n =>
      (0 <=? bits) && canonb bits a && usizeb n
  | bw_shl bits shape a n | bw_shr bits shape a n =>
      (0 <=? bits) && shapeb shape 6 && canonb bits a && usizeb n
  | nt_checked_shl bits a n | nt_checked_shr bits a n | nt_wrapping_shl bits a n
  | nt_wrapping_shr bits a n | nt_rotate_left bits a n | nt_rotate_right bits a n
  | nt_signed_shl bits a n | nt_signed_shr bits a n | nt_unsigned_shl bits a n
  | nt_unsigned_shr bits a n =>
      (0 <=? bits) && canonb bits a && u32b n
  | nt_pow_u32 bits a n => (0 <=? bits) && canonb bits a && u32b n
  | bw_try_from_be_slice bits bs | bw_try_from_le_slice bits bs | bw_from_be_bytes bits bs
  | bw_from_le_bytes bits bs | nt_from_le_bytes bits bs | nt_from_be_bytes bits bs =>
      (0 <=? bits) && bytesb bs
  | bw_from_str_radix bits radix text => (0 <=? bits) && usizeb radix && textb text
  | nt_from_str_radix bits radix text => (0 <=? bits) && u32b radix && textb text
  | bw_from_str bits text => (0 <=? bits) && textb text
  | bw_from_limbs bits l => (0 <=? bits) && Nat.eqb (length l) (nlimbsN bits) && wordsb l
  | bw_consts bits => 0 <=? bits
  | nt_const bits k => (0 <=? bits) && shapeb k 4
  | bw_eq bits a b | nt_checked_add bits a b | nt_checked_sub bits a b | nt_wrapping_add bits a b
  | nt_wrapping_sub bits a b | nt_overflowing_add bits a b | nt_overflowing_sub bits a b
  | ct_eq bits a b | ct_gt bits a b | ct_lt bits a b | ni_is_multiple_of bits a b =>
      (0 <=? bits) && canonb bits a && canonb bits b
  | nt_saturating_add bits k a b | nt_saturating_sub bits k a b =>
      (0 <=? bits) && shapeb k 2 && canonb bits a && canonb bits b
  | nt_checked_mul bits a b | nt_checked_div bits a b | nt_checked_rem bits a b
  | nt_checked_div_euclid bits a b | nt_checked_rem_euclid bits a b
  | nt_div_euclid bits a b | nt_rem_euclid bits a b | nt_saturating_mul bits a b
  | nt_wrapping_mul bits a b | nt_overflowing_mul bits a b | nt_pow bits a b
  | ni_div_floor bits a b | ni_mod_floor bits a b | ni_gcd bits a b
  | ni_lcm bits a b | ni_div_ceil bits a b | ni_div_rem bits a b
  | ni_div_mod_floor bits a b | ni_extended_gcd bits a b =>
      (0 <=? bits) && canonb bits a && canonb bits b
  | nt_inv bits a => (0 <=? bits) && canonb bits a
  | nt_mul_add bits shape a b c =>
      (0 <=? bits) && shapeb shape 2 && canonb bits a && canonb bits b && canonb bits c
  | nt_to_prim bits ty a => (0 <=? bits) && prim128b ty && canonb bits a
  | nt_from_prim bits ty n => (0 <=? bits) && prim128b ty && prim_valb ty n
  | nt_numcast bits ty n => (0 <=? bits) && prim_valb ty n
  | ct_select bits shape a b _ => (0 <=? bits) && shapeb shape 2 && canonb bits a && canonb bits b
  | ct_negate bits a _ => (0 <=? bits) && canonb bits a
  end.
Definition wf (c : call) : Prop := wfb c = true.

(* ---------- specification ---------- *)
(* split the line at the separator *)
Fixpoint split_sep (t : list tok) : option (list tok * list tok) :=
  match t with
  | [] => None
  | TErr 0 :: r => Some ([], r)
  | x :: r => match split_sep r with Some (f, i) => Some (x :: f, i) | None => None end
  end.

(* facades whose signature cannot express the inherent method's None: they unwrap *)
Definition unwraps (c : call) : bool :=
  match c with
  | nt_from_le_bytes _ _ | nt_from_be_bytes _ _ | ni_lcm _ _ _
  | nt_swap_bytes _ _ | nt_to_be _ _ | nt_from_be _ _ | nt_to_le _ _ | nt_from_le _ _ => true
  | _ => false
  end.
Definition unwrap_toks (i : list tok) : list tok :=
  match i with
  | [TNone] => [PANICKED]
  | TSome :: r => r
  | i => i
  end.
Definition expected (c : call) (i : list tok) : list tok := if unwraps c then unwrap_toks i else i.

(* value-level characterisations of the facades that are more than a forward *)
Definition U (bits v : Z) : tok := TL (uint_of bits v).
Definition toks_eqb (a b : list tok) : bool := list_eqb tok_eqb a b.
(* byte reversal of the n-byte little-endian representation of v *)
Fixpoint brev (n : nat) (v acc : Z) : Z :=
  match n with
  | O => acc
  | S n' => brev n' (divp2 v 8) (acc * 256 + modp2 v 8)
  end.
Definition extra (c : call) (f : list tok) : bool :=
  match c with
  | ct_eq bits a b => toks_eqb f [TB (eval a =? eval b)]
  | ct_gt bits a b => toks_eqb f [TB (eval b <? eval a)]
  | ct_lt bits a b => toks_eqb f [TB (eval a <? eval b)]
  | ct_select bits _ a b choice => toks_eqb f [TL (if choice then b else a)]
  | ct_negate bits a choice =>
      toks_eqb f [U bits (if choice then modp2 (- eval a) bits else eval a)]
  | ct_bit bits a idx => toks_eqb f [TB ((idx <? bits) && Z.testbit (eval a) idx)]
  | nt_swap_bytes bits a | nt_to_be bits a | nt_from_be bits a =>
      let v := brev (Bytes.nbytesN bits) (eval a) 0 in
      toks_eqb f (if v <? 2 ^ bits then [U bits v] else [PANICKED])
  | nt_to_le bits a | nt_from_le bits a => toks_eqb f [TL a]
  | ni_is_multiple_of bits a b =>
      toks_eqb f [TB (if eval b =? 0 then eval a =? 0 else eval a mod eval b =? 0)]
  | nt_mul_add bits _ a b c => toks_eqb f [U bits (modp2 (eval a * eval b + eval c) bits)]
  | ni_is_even bits a => toks_eqb f [TB (Z.even (eval a))]
  | ni_is_odd bits a => toks_eqb f [TB (Z.odd (eval a))]
  | ni_inc bits a => toks_eqb f [U bits (modp2 (eval a + 1) bits)]
  | ni_dec bits a => toks_eqb f [U bits (modp2 (eval a - 1) bits)]
  | zz_zeroize bits _ _ => toks_eqb f [U bits 0]
  | nt_pow_u32 bits _ n => if 2 ^ bits <=? n then toks_eqb f [PANICKED] else true
  | _ => true
  end.

Definition spec (c : call) (o : result) : bool :=
  match o with
  | Val t =>
      match split_sep t with
      | Some (f, i) => toks_eqb f (expected c i) && extra c f
      | None => false
      end
  | _ => false
  end.
