(* Run/RunC06.v — the calls of property C06 (bitwise logic, bit access, bit counting),
   the model's answer (run), the executable specification on the BITS-wide binary expansion of
   the denoted value (spec) and the input domain (wf). *)
From RV.Model Require Import Base Word Bits.

Inductive call : Type :=
| op_not (bits : Z) (shape : Z) (a : list Z)       (* 0: Uint::not  1: !a  2: !&a *)
| op_and (bits : Z) (shape : Z) (a b : list Z)     (* six impl_bit_op! shapes *)
| op_or (bits : Z) (shape : Z) (a b : list Z)
| op_xor (bits : Z) (shape : Z) (a b : list Z)
| bit (bits : Z) (a : list Z) (i : Z)
| set_bit (bits : Z) (a : list Z) (i : Z) (v : bool)
| byte (bits : Z) (a : list Z) (i : Z)
| checked_byte (bits : Z) (a : list Z) (i : Z)
| reverse_bits (bits : Z) (a : list Z)
| leading_zeros (bits : Z) (a : list Z)
| leading_ones (bits : Z) (a : list Z)
| trailing_zeros (bits : Z) (a : list Z)
| trailing_ones (bits : Z) (a : list Z)
| count_ones (bits : Z) (a : list Z)
| count_zeros (bits : Z) (a : list Z)
| bit_len (bits : Z) (a : list Z)
| byte_len (bits : Z) (a : list Z)
| most_significant_bits (bits : Z) (a : list Z)
| is_power_of_two (bits : Z) (a : list Z)
| checked_next_power_of_two (bits : Z) (a : list Z)
| next_power_of_two (bits : Z) (a : list Z).

Definition opt_toks (o : option (list Z)) : list tok :=
  match o with Some v => [TSome; TL v] | None => [TNone] end.
Definition optz_toks (o : option Z) : list tok :=
  match o with Some v => [TSome; TZ v] | None => [TNone] end.
Definition vl (o : outcome (list Z)) : result := do v <- o ; Val [TL v].
Definition vz (o : outcome Z) : result := do v <- o ; Val [TZ v].

Definition run (c : call) : result :=
  match c with
  | op_not bits _ a => Val [TL (Bits.unot bits a)]
  | op_and bits sh a b => vl (Bits.bit_op Z.land sh a b)
  | op_or bits sh a b => vl (Bits.bit_op Z.lor sh a b)
  | op_xor bits sh a b => vl (Bits.bit_op Z.lxor sh a b)
  | bit bits a i => do b <- Bits.bit bits a i ; Val [TB b]
  | set_bit bits a i v => vl (Bits.set_bit bits a i v)
  | byte bits a i => vz (Bits.byte bits a i)
  | checked_byte bits a i => do o <- Bits.checked_byte bits a i ; Val (optz_toks o)
  | reverse_bits bits a => Val [TL (Bits.reverse_bits bits a)]
  | leading_zeros bits a => vz (Bits.leading_zeros bits a)
  | leading_ones bits a => vz (Bits.leading_ones bits a)
  | trailing_zeros bits a => vz (Bits.trailing_zeros bits a)
  | trailing_ones bits a => vz (Bits.trailing_ones bits a)
  | count_ones bits a => Val [TZ (Bits.count_ones a)]
  | count_zeros bits a => vz (Bits.count_zeros bits a)
  | bit_len bits a => vz (Bits.bit_len bits a)
  | byte_len bits a => vz (Bits.byte_len bits a)
  | most_significant_bits bits a =>
      do p <- Bits.most_significant_bits a ; Val [TZ (fst p); TZ (snd p)]
  | is_power_of_two bits a => Val [TB (Bits.is_power_of_two a)]
  | checked_next_power_of_two bits a =>
      do o <- Bits.checked_next_power_of_two bits a ; Val (opt_toks o)
  | next_power_of_two bits a => vl (Bits.next_power_of_two bits a)
  end.

(* ---- input domain: BITS >= 0, operands canonical, indices are usize values ---- *)
Definition usize (i : Z) : Prop := 0 <= i < B.
Definition usizeb (i : Z) : bool := (0 <=? i) && (i <? B).

Definition wf (c : call) : Prop :=
  match c with
  | op_and bits _ a b | op_or bits _ a b | op_xor bits _ a b =>
      0 <= bits /\ canon bits a /\ canon bits b
  | bit bits a i | byte bits a i | checked_byte bits a i | set_bit bits a i _ =>
      0 <= bits /\ canon bits a /\ usize i
  | op_not bits _ a | reverse_bits bits a | leading_zeros bits a | leading_ones bits a
  | trailing_zeros bits a | trailing_ones bits a | count_ones bits a | count_zeros bits a
  | bit_len bits a | byte_len bits a | most_significant_bits bits a | is_power_of_two bits a
  | checked_next_power_of_two bits a | next_power_of_two bits a =>
      0 <= bits /\ canon bits a
  end.
Definition wfb (c : call) : bool :=
  match c with
  | op_and bits _ a b | op_or bits _ a b | op_xor bits _ a b =>
      (0 <=? bits) && canonb bits a && canonb bits b
  | bit bits a i | byte bits a i | checked_byte bits a i | set_bit bits a i _ =>
      (0 <=? bits) && canonb bits a && usizeb i
  | op_not bits _ a | reverse_bits bits a | leading_zeros bits a | leading_ones bits a
  | trailing_zeros bits a | trailing_ones bits a | count_ones bits a | count_zeros bits a
  | bit_len bits a | byte_len bits a | most_significant_bits bits a | is_power_of_two bits a
  | checked_next_power_of_two bits a | next_power_of_two bits a =>
      (0 <=? bits) && canonb bits a
  end.

(* ---- specification: integer / Z.testbit facts about v = eval a ---- *)
Definition U (bits v : Z) : tok := TL (uint_of bits v).   (* the canonical Uint of value v *)

(* the BITS-wide complement *)
Definition compl (bits v : Z) : Z := 2 ^ bits - 1 - v.
(* number of significant bits *)
Definition bitlen (v : Z) : Z := if v =? 0 then 0 else Z.log2 v + 1.
(* 2-adic valuation of a positive number; popcount *)
Fixpoint pos_ctz (p : positive) : Z :=
  match p with xO q => 1 + pos_ctz q | _ => 0 end.
Definition val2 (v : Z) : Z := match v with Zpos p => pos_ctz p | _ => 0 end.
Fixpoint pos_popcount (p : positive) : Z :=
  match p with xH => 1 | xO q => pos_popcount q | xI q => 1 + pos_popcount q end.
Definition popcount (v : Z) : Z := match v with Zpos p => pos_popcount p | _ => 0 end.
(* trailing zeros of a BITS-wide value *)
Definition tz (bits v : Z) : Z := if v =? 0 then bits else val2 v.
(* mirror image of the low n bits: bit i of the result = bit n-1-i of x *)
Fixpoint zrev (n : nat) (x acc : Z) : Z :=
  match n with
  | O => acc
  | S n' => zrev n' (Z.div2 x) (Z.double acc + Z.b2z (Z.odd x))
  end.
Definition mirror (bits v : Z) : Z := zrev (Z.to_nat bits) v 0.
Definition is_pow2 (v : Z) : bool := (0 <? v) && (v =? 2 ^ Z.log2 v).
Definition spec_npot (bits v : Z) : option Z :=
  let p := 2 ^ Z.log2_up v in if p <? 2 ^ bits then Some p else None.
Definition spec_byte (bits v i : Z) : option Z :=
  if i <? (bits + 7) / 8 then Some (modp2 (divp2 v (8 * i)) 8) else None.

Definition spec (c : call) (o : result) : bool :=
  match c with
  | op_not bits _ a => expect o [U bits (compl bits (eval a))]
  | op_and bits _ a b => expect o [U bits (Z.land (eval a) (eval b))]
  | op_or bits _ a b => expect o [U bits (Z.lor (eval a) (eval b))]
  | op_xor bits _ a b => expect o [U bits (Z.lxor (eval a) (eval b))]
  | bit bits a i => expect o [TB (if i <? bits then Z.testbit (eval a) i else false)]
  | set_bit bits a i v =>
      expect o [U bits (if i <? bits
                        then (if v then Z.setbit (eval a) i else Z.clearbit (eval a) i)
                        else eval a)]
  | byte bits a i =>
      match spec_byte bits (eval a) i with
      | Some y => expect o [TZ y]
      | None => result_eqb o Panic
      end
  | checked_byte bits a i =>
      match spec_byte bits (eval a) i with
      | Some y => expect o [TSome; TZ y]
      | None => expect o [TNone]
      end
  | reverse_bits bits a => expect o [U bits (mirror bits (eval a))]
  | leading_zeros bits a => expect o [TZ (bits - bitlen (eval a))]
  | leading_ones bits a => expect o [TZ (bits - bitlen (compl bits (eval a)))]
  | trailing_zeros bits a => expect o [TZ (tz bits (eval a))]
  | trailing_ones bits a => expect o [TZ (tz bits (compl bits (eval a)))]
  | count_ones bits a => expect o [TZ (popcount (eval a))]
  | count_zeros bits a => expect o [TZ (bits - popcount (eval a))]
  | bit_len bits a => expect o [TZ (bitlen (eval a))]
  | byte_len bits a => expect o [TZ ((bitlen (eval a) + 7) / 8)]
  | most_significant_bits bits a =>
      let e := Z.max 0 (bitlen (eval a) - 64) in
      expect o [TZ (divp2 (eval a) e); TZ e]
  | is_power_of_two bits a => expect o [TB (is_pow2 (eval a))]
  | checked_next_power_of_two bits a =>
      match spec_npot bits (eval a) with
      | Some p => expect o [TSome; U bits p]
      | None => expect o [TNone]
      end
  | next_power_of_two bits a =>
      match spec_npot bits (eval a) with
      | Some p => expect o [U bits p]
      | None => result_eqb o Panic
      end
  end.
