(* Run/RunC04d.v — property C04 part (d): probe programs at (BITS, LIMBS) pairs.
   ctor bits limbs cid variant: the program `fn main(){ let _x = <constructor cid at
   Uint<bits, limbs>>; println!("VALUE") }`; outcome CE (rejected by rustc) / P (panics) /
   S (a value was obtained). *)
From RV.Model Require Import Base Ctor CtorTable.

Inductive call : Type :=
| ctor (bits : Z) (limbs : Z) (cid : Z) (variant : Z).

Definition run (c : call) : result :=
  match c with
  | ctor bits limbs cid variant =>
      match ctor_of_code cid with
      | Some k => ctor_outcome mentions_limbs runtime_check k bits limbs variant
      | None => Panic
      end
  end.

(* a known constructor; well-formed control pairs only with the benign arguments (variant 0) *)
Definition wf (c : call) : Prop :=
  match c with
  | ctor bits limbs cid variant =>
      0 <= bits /\ 0 <= limbs /\ ctor_of_code cid <> None /\ 0 <= variant /\
      (limbs = nlimbs bits -> variant = 0)
  end.
Definition wfb (c : call) : bool :=
  match c with
  | ctor bits limbs cid variant =>
      (0 <=? bits) && (0 <=? limbs)
      && match ctor_of_code cid with Some _ => true | None => false end
      && (0 <=? variant) && (negb (limbs =? nlimbs bits) || (variant =? 0))
  end.

(* at an ill-formed pair no value is obtained: compile error or panic;
   at a well-formed pair the probe (benign arguments) obtains one — this validates the probe *)
Definition spec (c : call) (o : result) : bool :=
  match c with
  | ctor bits limbs cid variant =>
      if limbs =? nlimbs bits then expect o [TSome]
      else match o with
           | CompileError | Panic => true
           | _ => false
           end
  end.
