(* Run/RunC17C.v — C17, group C: the decoders (TryFrom<BigUint>/<BigInt>, From<primitive-types>,
   bytemuck reads, postgres FromSql::from_sql for every column type); the model's answer (run),
   the executable specification (spec: error, or exactly the integer the input denotes under
   the reference format of Spec/FmtC.v), the input domain (wf).

   Tokens.  Result<Uint, ToUintError> as in RunC16C.  from_sql: Ok n = [TL n]; errors:
   [TErr 1] FromSqlError::Overflow, [TErr 2] FromSqlError::ParseError, [TErr 3] WrongType,
   [TErr 4] TryFromSliceError, [TErr 5; TZ b; TL n] ToUintError::ValueTooLarge,
   [TErr 6; TZ b; TL n] ValueNegative, [TErr 7; TZ b] NotANumber, [TErr 8] TryFromIntError,
   [TErr 9] Utf8Error, TErr 10 :: ruint::ParseError (C09 codes), TErr 11 :: BaseConvertError.
   bytemuck PodCastError::SizeMismatch = [TErr 1]. *)
From RV.Model Require Import Base Word.
From RV.Model Require Bytes Conv BaseConv Str Fmt Float CodecC.
From RV.Spec Require FmtC.
From RV.Run Require RunC09 RunC18 RunC16C.
Import BaseConv(res, Ok, Err).

Inductive call : Type :=
| bigint_from (bits kind : Z) (v : Z)      (* kind 0/1: BigUint by value / ref, 2/3: BigInt *)
| pt_from (bits : Z) (l : list Z)
| pth_from (bits : Z) (bytes : list Z)
| bm_read (bits : Z) (bytes : list Z)
| bm_cast_from (bits : Z) (l : list Z)
| pg_from_sql (bits ty : Z) (raw : list Z).

Definition run (c : call) : result :=
  match c with
  | bigint_from bits kind v => RunC16C.run_bigint_from bits kind v
  | pt_from bits l => do r <- CodecC.pt_from bits l ; Val [TL r]
  | pth_from bits bytes => do r <- CodecC.pth_from bits bytes ; Val [TL r]
  | bm_read bits bytes =>
      match CodecC.bm_read bits bytes with Ok r => Val [TL r] | Err _ => Val [TErr 1] end
  | bm_cast_from bits l => Val [TL (CodecC.bm_cast l)]
  | pg_from_sql bits ty raw =>
      do r <- CodecC.pg_from_sql bits ty raw ; Val (RunC16C.fsres_toks r)
  end.

(* ---------- input domain ---------- *)
Definition bytesb (bs : list Z) : bool := forallb Bytes.isbyteb bs.
Definition wfb (c : call) : bool :=
  match c with
  | bigint_from bits kind v =>
      (0 <=? bits) && (0 <=? kind) && (kind <=? 3) && ((2 <=? kind) || (0 <=? v))
  | pt_from bits l => RunC16C.inb bits RunC16C.pt_widths && RunC16C.limbsb bits l
  | pth_from bits bytes =>
      RunC16C.inb bits RunC16C.pth_widths && bytesb bytes && (lenZ bytes =? bits / 8)
  | bm_read bits bytes => RunC16C.pod_width bits && bytesb bytes
  | bm_cast_from bits l => RunC16C.pod_width bits && RunC16C.limbsb bits l
  | pg_from_sql bits ty raw => (0 <=? bits) && (0 <=? ty) && (ty <=? 18) && bytesb raw
  end.
Definition wf (c : call) : Prop := wfb c = true.

(* ---------- specification ---------- *)
Definition U (bits v : Z) : tok := TL (uint_of bits v).
Definition is_err (o : result) : bool :=
  match o with Val (TErr _ :: _) => true | _ => false end.
(* the input denotes d (None: nothing / rejected): Ok exactly that value when it is < 2^bits,
   an error otherwise; never a panic *)
Definition spec_value (bits : Z) (d : option Z) (o : result) : bool :=
  match d with
  | Some v => if v <? 2 ^ bits then expect o [U bits v] else is_err o
  | None => is_err o
  end.
(* text: C09's specification of FromStr on the chars (value, or an applicable error) *)
Definition spec_text (bits : Z) (cs : list Z) (o : result) : bool :=
  match o with
  | Val [TL l] => RunC09.spec_from_str bits cs (Val [TL l])
  | Val (TErr 10 :: e) => RunC09.spec_from_str bits cs (Val e)
  | _ => false
  end.
Definition spec_utf8 (bits : Z) (raw : list Z) (quoted : bool) (o : result) : bool :=
  match Str.utf8_decode raw with
  | Some cs => spec_text bits (if quoted then FmtC.unquote cs else cs) o
  | None => is_err o
  end.

Definition spec_pg (bits ty : Z) (raw : list Z) (o : result) : bool :=
  if ty =? FmtC.BOOL then
    spec_value bits (match raw with [0] => Some 0 | [1] => Some 1 | _ => None end) o
  else if ty =? FmtC.INT2 then spec_value bits (FmtC.int_denotes 16 true raw) o
  else if ty =? FmtC.INT4 then spec_value bits (FmtC.int_denotes 32 true raw) o
  else if ty =? FmtC.OID then spec_value bits (FmtC.int_denotes 32 false raw) o
  else if ty =? FmtC.INT8 then spec_value bits (FmtC.int_denotes 64 true raw) o
  else if ty =? FmtC.FLOAT4 then spec_value bits (FmtC.float_denotes 24 128 4 raw) o
  else if ty =? FmtC.FLOAT8 then spec_value bits (FmtC.float_denotes 53 1024 8 raw) o
  else if ty =? FmtC.MONEY then spec_value bits (FmtC.money_denotes raw) o
  else if ty =? FmtC.BYTEA then spec_value bits (FmtC.bytea_denotes bits raw) o
  else if (ty =? FmtC.BIT) || (ty =? FmtC.VARBIT) then spec_value bits (FmtC.bit_denotes bits raw) o
  else if FmtC.is_text ty then spec_utf8 bits raw false o
  else if ty =? FmtC.JSON then spec_utf8 bits raw true o
  else if ty =? FmtC.JSONB then
    match raw with
    | 1 :: rest => spec_utf8 bits rest true o
    | _ => is_err o
    end
  else if ty =? FmtC.NUMERIC then spec_value bits (FmtC.numeric_denotes bits raw) o
  else is_err o.

Definition spec (c : call) (o : result) : bool :=
  match c with
  | bigint_from bits kind v =>
      if v <? 0 then expect o [TErr 2; TZ bits; U bits (modp2 (- v) bits)]
      else if v <? 2 ^ bits then expect o [U bits v]
      else expect o [TErr 1; TZ bits; U bits (modp2 v bits)]
  | pt_from bits l | bm_cast_from bits l => expect o [U bits (eval l)]
  | pth_from bits bytes => expect o [U bits (FmtC.be_value bytes)]
  | bm_read bits bytes =>
      if lenZ bytes =? 8 * FmtC.SLIMBS bits then expect o [U bits (FmtC.le_value bytes)]
      else expect o [TErr 1]
  | pg_from_sql bits ty raw => spec_pg bits ty raw o
  end.
