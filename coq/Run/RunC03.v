(* Run/RunC03.v — the calls of property C03 (Euclidean division through every Uint surface,
   div_ceil, (checked_)next_multiple_of), the model's answer (run), the executable integer
   specification (spec) and the input domain (wf). *)
From RV.Model Require Import Base Word UDiv.

Inductive call : Type :=
| div_rem (bits : Z) (a b : list Z)
| wrapping_div (bits : Z) (a b : list Z)
| wrapping_rem (bits : Z) (a b : list Z)
| checked_div (bits : Z) (a b : list Z)
| checked_rem (bits : Z) (a b : list Z)
| div_ceil (bits : Z) (a b : list Z)
| op_div (bits : Z) (shape : Z) (a b : list Z)   (* the six impl_bin_op! shapes of `/`, `/=` *)
| op_rem (bits : Z) (shape : Z) (a b : list Z)   (* the six impl_bin_op! shapes of `%`, `%=` *)
| checked_next_multiple_of (bits : Z) (a b : list Z)
| next_multiple_of (bits : Z) (a b : list Z).

Definition opt_toks (o : option (list Z)) : list tok :=
  match o with Some v => [TSome; TL v] | None => [TNone] end.

Definition run (c : call) : result :=
  match c with
  | div_rem _ a b => do p <- UDiv.div_rem a b ; Val [TL (fst p); TL (snd p)]
  | wrapping_div _ a b => do q <- UDiv.wrapping_div a b ; Val [TL q]
  | wrapping_rem _ a b => do r <- UDiv.wrapping_rem a b ; Val [TL r]
  | checked_div bits a b => do o <- UDiv.checked_div bits a b ; Val (opt_toks o)
  | checked_rem bits a b => do o <- UDiv.checked_rem bits a b ; Val (opt_toks o)
  | div_ceil bits a b => do q <- UDiv.div_ceil bits a b ; Val [TL q]
  | op_div _ _ a b => do q <- UDiv.op_div_ a b ; Val [TL q]
  | op_rem _ _ a b => do r <- UDiv.op_rem_ a b ; Val [TL r]
  | checked_next_multiple_of bits a b =>
      do o <- UDiv.checked_next_multiple_of bits a b ; Val (opt_toks o)
  | next_multiple_of bits a b => do v <- UDiv.next_multiple_of bits a b ; Val [TL v]
  end.

(* ---- input domain: BITS >= 0, operands are values of Uint<BITS, nlimbs(BITS)>.
   A zero divisor is inside the domain: its outcome (panic / None) is part of spec. ---- *)
Definition args (c : call) : Z * list Z * list Z :=
  match c with
  | div_rem bits a b | wrapping_div bits a b | wrapping_rem bits a b | checked_div bits a b
  | checked_rem bits a b | div_ceil bits a b | op_div bits _ a b | op_rem bits _ a b
  | checked_next_multiple_of bits a b | next_multiple_of bits a b => (bits, a, b)
  end.
Definition wf (c : call) : Prop :=
  let '(bits, a, b) := args c in 0 <= bits /\ canon bits a /\ canon bits b.
Definition wfb (c : call) : bool :=
  let '(bits, a, b) := args c in (0 <=? bits) && canonb bits a && canonb bits b.

(* ---- specification: integer arithmetic on the denoted values ---- *)
Definition U (bits v : Z) : tok := TL (uint_of bits v).       (* the canonical Uint of value v *)
(* the least multiple of d (> 0) that is >= n (>= 0):  d * ceil(n / d) *)
Definition ceil_div (n d : Z) : Z := (n + d - 1) / d.
Definition next_mult (n d : Z) : Z := d * ceil_div n d.

Definition spec (c : call) (o : result) : bool :=
  let '(bits, a, b) := args c in
  let n := eval a in
  let d := eval b in
  match c with
  | div_rem _ _ _ =>
      if d =? 0 then result_eqb o Panic else expect o [U bits (n / d); U bits (n mod d)]
  | wrapping_div _ _ _ | op_div _ _ _ _ =>
      if d =? 0 then result_eqb o Panic else expect o [U bits (n / d)]
  | wrapping_rem _ _ _ | op_rem _ _ _ _ =>
      if d =? 0 then result_eqb o Panic else expect o [U bits (n mod d)]
  | checked_div _ _ _ =>
      if d =? 0 then expect o [TNone] else expect o [TSome; U bits (n / d)]
  | checked_rem _ _ _ =>
      if d =? 0 then expect o [TNone] else expect o [TSome; U bits (n mod d)]
  | div_ceil _ _ _ =>
      if d =? 0 then result_eqb o Panic else expect o [U bits (ceil_div n d)]
  | checked_next_multiple_of _ _ _ =>
      if (d =? 0) || (2 ^ bits <=? next_mult n d) then expect o [TNone]
      else expect o [TSome; U bits (next_mult n d)]
  | next_multiple_of _ _ _ =>
      if (d =? 0) || (2 ^ bits <=? next_mult n d) then result_eqb o Panic
      else expect o [U bits (next_mult n d)]
  end.
