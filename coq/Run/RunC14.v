(* Run/RunC14.v — the calls of property C14 (limb-slice division kernels), the model's answer
   to each (run), the executable mathematical specification (spec) and the input domain (wf).
   `bits` is a tag (the width the slices would come from); the kernels do not depend on it. *)
From RV.Model Require Import Base Word.
From RV.Model Require DivRecip DivSmall DivKnuth Div DivRef.

Inductive call : Type :=
| div (bits : Z) (n d : list Z)
| div_nxm (bits : Z) (n d : list Z)
| div_nxm_normalized (bits : Z) (n d : list Z)
| div_nx1 (bits : Z) (n : list Z) (d : Z)
| div_nx1_normalized (bits : Z) (n : list Z) (d : Z)
| div_nx2 (bits : Z) (n : list Z) (d : Z)              (* d : u128 *)
| div_nx2_normalized (bits : Z) (n : list Z) (d : Z)   (* d : u128 *)
| div_2x1 (bits : Z) (u d v : Z)                       (* u : u128 *)
| div_3x2 (bits : Z) (u21 u0 d v : Z)                  (* u21, d : u128 *)
| reciprocal (bits : Z) (d : Z)
| reciprocal_2 (bits : Z) (d : Z)                      (* d : u128 *)
(* the reference kernels (machine `/` and `%` on u128 instead of a reciprocal) *)
| div_2x1_ref (bits : Z) (u d : Z)                     (* u : u128 *)
| div_3x2_ref (bits : Z) (n21 n0 d : Z)                (* n21, d : u128 *)
| reciprocal_ref (bits : Z) (d : Z).

Definition toks_ll (p : list Z * list Z) : list tok := [TL (fst p); TL (snd p)].
Definition toks_lz (p : list Z * Z) : list tok := [TL (fst p); TZ (snd p)].
Definition toks_zz (p : Z * Z) : list tok := [TZ (fst p); TZ (snd p)].

Definition run (c : call) : result :=
  match c with
  | div _ n d => omap toks_ll (Div.div_kernel n d)
  | div_nxm _ n d => omap toks_ll (DivKnuth.div_nxm n d)
  | div_nxm_normalized _ n d => omap (fun l => [TL l]) (DivKnuth.div_nxm_normalized n d)
  | div_nx1 _ n d => omap toks_lz (DivSmall.div_nx1 n d)
  | div_nx1_normalized _ n d => omap toks_lz (DivSmall.div_nx1_normalized n d)
  | div_nx2 _ n d => omap toks_lz (DivSmall.div_nx2 n d)
  | div_nx2_normalized _ n d => omap toks_lz (DivSmall.div_nx2_normalized n d)
  | div_2x1 _ u d v => omap toks_zz (DivSmall.div_2x1_mg10 u d v)
  | div_3x2 _ u21 u0 d v => omap toks_zz (DivSmall.div_3x2_mg10 u21 u0 d v)
  | reciprocal _ d => omap (fun v => [TZ v]) (DivRecip.reciprocal_mg10 d)
  | reciprocal_2 _ d => omap (fun v => [TZ v]) (DivRecip.reciprocal_2_mg10 d)
  | div_2x1_ref _ u d => omap toks_zz (DivRef.div_2x1_ref u d)
  | div_3x2_ref _ n21 n0 d => omap (fun q => [TZ q]) (DivRef.div_3x2_ref n21 n0 d)
  | reciprocal_ref _ d => omap (fun v => [TZ v]) (DivRef.reciprocal_ref d)
  end.

(* ---- documented preconditions (doc comments / debug_asserts of each function) ---- *)
Definition in128 (x : Z) : Prop := 0 <= x < BB.
Definition in128b (x : Z) : bool := (0 <=? x) && (x <? BB).
Definition lastz (l : list Z) : Z := last l 0.
Definition BBB : Z := 2 ^ 192.

(* div_nxm: divisor >= 3 limbs, numerator at least as long, top divisor limb non-zero *)
Definition pre_nxm (n d : list Z) : bool :=
  Nat.leb 3 (length d) && Nat.leb (length d) (length n) && negb (lastz d =? 0).
(* div_nxm_normalized: both >= 2 limbs, numerator longer than the divisor, highest bit of the
   divisor set, the highest divisor.len() limbs of the numerator below the divisor *)
Definition pre_nxm_norm (n d : list Z) : bool :=
  Nat.leb 2 (length d) && Nat.ltb (length d) (length n) && (2 ^ 63 <=? lastz d) &&
  (eval (skipn (length n - length d) n) <? eval d).
Definition pre_nx (n : list Z) : bool :=
  negb (Nat.eqb (length n) 0) && negb (lastz n =? 0).

(* ---- input domain: words are words ---- *)
Definition wf (c : call) : Prop :=
  match c with
  | div bits n d | div_nxm bits n d | div_nxm_normalized bits n d =>
      0 <= bits /\ Forall inW n /\ Forall inW d
  | div_nx1 bits n d | div_nx1_normalized bits n d => 0 <= bits /\ Forall inW n /\ inW d
  | div_nx2 bits n d | div_nx2_normalized bits n d => 0 <= bits /\ Forall inW n /\ in128 d
  | div_2x1 bits u d v => 0 <= bits /\ in128 u /\ inW d /\ inW v
  | div_3x2 bits u21 u0 d v => 0 <= bits /\ in128 u21 /\ inW u0 /\ in128 d /\ inW v
  | reciprocal bits d => 0 <= bits /\ inW d
  | reciprocal_2 bits d => 0 <= bits /\ in128 d
  | div_2x1_ref bits u d => 0 <= bits /\ in128 u /\ inW d
  | div_3x2_ref bits n21 n0 d => 0 <= bits /\ in128 n21 /\ inW n0 /\ in128 d
  | reciprocal_ref bits d => 0 <= bits /\ inW d
  end.
Definition wfb (c : call) : bool :=
  match c with
  | div bits n d | div_nxm bits n d | div_nxm_normalized bits n d =>
      (0 <=? bits) && forallb inWb n && forallb inWb d
  | div_nx1 bits n d | div_nx1_normalized bits n d => (0 <=? bits) && forallb inWb n && inWb d
  | div_nx2 bits n d | div_nx2_normalized bits n d => (0 <=? bits) && forallb inWb n && in128b d
  | div_2x1 bits u d v => (0 <=? bits) && in128b u && inWb d && inWb v
  | div_3x2 bits u21 u0 d v => (0 <=? bits) && in128b u21 && inWb u0 && in128b d && inWb v
  | reciprocal bits d => (0 <=? bits) && inWb d
  | reciprocal_2 bits d => (0 <=? bits) && in128b d
  | div_2x1_ref bits u d => (0 <=? bits) && in128b u && inWb d
  | div_3x2_ref bits n21 n0 d => (0 <=? bits) && in128b n21 && inWb n0 && in128b d
  | reciprocal_ref bits d => (0 <=? bits) && inWb d
  end.

(* ---- specification: integer quotient and remainder of the denoted values ---- *)
Definition L (len : nat) (v : Z) : list Z := to_limbs len v.
(* contract that only binds when the documented precondition holds; otherwise the function
   "may panic" and in a release build its result is unspecified *)
Definition under (pre : bool) (o : result) (t : list tok) : bool :=
  if pre then expect o t else true.

Definition spec (c : call) (o : result) : bool :=
  match c with
  | div _ n d =>
      if eval d =? 0 then result_eqb o Panic
      else expect o [TL (L (length n) (eval n / eval d)); TL (L (length d) (eval n mod eval d))]
  | div_nxm _ n d =>
      under (pre_nxm n d) o
        [TL (L (length n) (eval n / eval d)); TL (L (length d) (eval n mod eval d))]
  | div_nxm_normalized _ n d =>
      (* remainder in numerator[..len d], quotient in numerator[len d..] *)
      under (pre_nxm_norm n d) o
        [TL (L (length d) (eval n mod eval d) ++ L (length n - length d) (eval n / eval d))]
  | div_nx1 _ n d =>
      under (negb (d =? 0) && pre_nx n) o [TL (L (length n) (eval n / d)); TZ (eval n mod d)]
  | div_nx1_normalized _ n d =>
      under (2 ^ 63 <=? d) o [TL (L (length n) (eval n / d)); TZ (eval n mod d)]
  | div_nx2 _ n d =>
      under ((B <=? d) && pre_nx n) o [TL (L (length n) (eval n / d)); TZ (eval n mod d)]
  | div_nx2_normalized _ n d =>
      under (2 ^ 127 <=? d) o [TL (L (length n) (eval n / d)); TZ (eval n mod d)]
  | div_2x1 _ u d v =>
      under ((2 ^ 63 <=? d) && (u / B <? d) && (v =? (BB - 1) / d - B)) o
        [TZ (u / d); TZ (u mod d)]
  | div_3x2 _ u21 u0 d v =>
      under ((2 ^ 127 <=? d) && (u21 <? d) && (v =? (BBB - 1) / d - B)) o
        [TZ ((u21 * B + u0) / d); TZ ((u21 * B + u0) mod d)]
  | reciprocal _ d => under (2 ^ 63 <=? d) o [TZ ((BB - 1) / d - B)]
  | reciprocal_2 _ d => under (2 ^ 127 <=? d) o [TZ ((BBB - 1) / d - B)]
  | div_2x1_ref _ u d =>
      under ((2 ^ 63 <=? d) && (u / B <? d)) o [TZ (u / d); TZ (u mod d)]
  | div_3x2_ref _ n21 n0 d =>
      under ((2 ^ 127 <=? d) && (n21 <? d)) o [TZ ((n21 * B + n0) / d)]
  | reciprocal_ref _ d => under (2 ^ 63 <=? d) o [TZ ((BB - 1) / d - B)]
  end.
