(* Run/RunC17A.v — property C17, group A: the decoders of rlp, alloy-rlp, fastrlp 0.3/0.4,
   serde_json and bincode on arbitrary (untrusted) input bytes / text.

   Result tokens.  Ok(v) = [TL v]; alloy-rlp / fastrlp: [TL v; TZ bytes consumed].
   Err(e) = [TErr code]: rlp = CodecA.rlpderr_code, alloy-rlp / fastrlp = CodecA.rlperr_code,
   serde_json / bincode / serde value deserializers = 1. *)
From RV.Model Require Import Base Word Bytes BaseConv CodecA.
From RV.Spec Require Import FmtA.

Inductive call : Type :=
| rlp_decode (bits : Z) (inp : list Z)          (* <Uint as rlp::Decodable>::decode(&Rlp::new(inp)) *)
| bits_rlp_decode (bits : Z) (inp : list Z)     (* <Bits as rlp::Decodable>::decode *)
| alloy_rlp_decode (bits : Z) (inp : list Z)
| fastrlp03_decode (bits : Z) (inp : list Z)
| fastrlp04_decode (bits : Z) (inp : list Z)
| serde_json_de (bits : Z) (text : list Z)      (* serde_json::from_slice::<Uint> *)
| bincode_de (bits : Z) (inp : list Z)          (* bincode::deserialize::<Uint> *)
| serde_value_u64 (bits : Z) (n : Z)            (* Uint::deserialize(U64Deserializer) -> visit_u64 *)
| serde_value_u128 (bits : Z) (n : Z).          (* -> visit_u128 *)

Definition rlpd_toks (r : res rlpderr (list Z)) : list tok :=
  match r with Ok v => [TL v] | Err e => [TErr (rlpderr_code e)] end.
Definition arlp_toks (r : res rlperr (list Z * Z)) : list tok :=
  match r with Ok (v, n) => [TL v; TZ n] | Err e => [TErr (rlperr_code e)] end.
Definition serde_toks (r : option (list Z)) : list tok :=
  match r with Some v => [TL v] | None => [TErr 1] end.

Definition run (c : call) : result :=
  match c with
  | rlp_decode bits inp => do r <- CodecA.rlp_decode bits inp; Val (rlpd_toks r)
  | bits_rlp_decode bits inp => do r <- CodecA.bits_rlp_decode bits inp; Val (rlpd_toks r)
  | alloy_rlp_decode bits inp => do r <- CodecA.alloy_rlp_decode bits inp; Val (arlp_toks r)
  | fastrlp03_decode bits inp | fastrlp04_decode bits inp =>
      do r <- CodecA.fastrlp_decode bits inp; Val (arlp_toks r)
  | serde_json_de bits text => do r <- CodecA.serde_json_de bits text; Val (serde_toks r)
  | bincode_de bits inp => do r <- CodecA.bincode_de bits inp; Val (serde_toks r)
  | serde_value_u64 bits n => do r <- CodecA.visit_u64 bits n; Val (serde_toks r)
  | serde_value_u128 bits n => do r <- CodecA.visit_u128 bits n; Val (serde_toks r)
  end.

(* input domain: any width (BITS is a usize); any byte string / any u64 / any u128 *)
Definition okbits (bits : Z) : Prop := 0 <= bits < 2 ^ 64.
Definition okbitsb (bits : Z) : bool := (0 <=? bits) && (bits <? 2 ^ 64).
Definition wf (c : call) : Prop :=
  match c with
  | rlp_decode bits inp | bits_rlp_decode bits inp | alloy_rlp_decode bits inp
  | fastrlp03_decode bits inp | fastrlp04_decode bits inp | serde_json_de bits inp
  | bincode_de bits inp => okbits bits /\ Forall isbyte inp
  | serde_value_u64 bits n => okbits bits /\ 0 <= n < 2 ^ 64
  | serde_value_u128 bits n => okbits bits /\ 0 <= n < 2 ^ 128
  end.
Definition wfb (c : call) : bool :=
  match c with
  | rlp_decode bits inp | bits_rlp_decode bits inp | alloy_rlp_decode bits inp
  | fastrlp03_decode bits inp | fastrlp04_decode bits inp | serde_json_de bits inp
  | bincode_de bits inp => okbitsb bits && forallb isbyteb inp
  | serde_value_u64 bits n => okbitsb bits && (0 <=? n) && (n <? 2 ^ 64)
  | serde_value_u128 bits n => okbitsb bits && (0 <=? n) && (n <? 2 ^ 128)
  end.

(* ---- specification ----
   Every decoder: the outcome is Ok or Err (never a panic);
     Ok(v)  => v is canonical (eval v < 2^BITS, right limb count) and the input denotes eval v
               under the format's grammar (Spec/FmtA.v);
     Err    => the input is not the reference encoding of a value < 2^BITS (so rejecting it loses
               nothing: with C16 the decoder accepts exactly what the encoder produces, plus
               whatever leniency the first clause permits).
   Canonical-form enforcing decoders (alloy-rlp, fastrlp): Ok(v) consuming n bytes => the first
   n input bytes ARE the reference encoding of eval v (re-encoding gives the bytes consumed). *)
Definition bytes_eqb := list_eqb Z.eqb.

(* the input starts with the reference RLP encoding of a value that fits *)
Definition rlp_ref_fits (bits : Z) (inp : list Z) : bool :=
  match rlp_uint_prefix inp with Some (v, _) => v <? 2 ^ bits | None => false end.

Definition spec_rlp_strict (bits : Z) (inp : list Z) (o : result) : bool :=
  match o with
  | Val [TL l; TZ n] =>
      canonb bits l && (0 <=? n) && (n <=? lenZ inp)
      && bytes_eqb (firstn (Z.to_nat n) inp) (rlp_uint (eval l))
  | Val [TErr _] => negb (rlp_ref_fits bits inp)
  | _ => false
  end.

Definition spec_rlp_lax (bits : Z) (inp : list Z) (o : result) : bool :=
  match o with
  | Val [TL l] =>
      canonb bits l &&
      match rlp_str_item inp with Some (p, _) => be_val p =? eval l | None => false end
  | Val [TErr _] => negb (rlp_ref_fits bits inp)
  | _ => false
  end.

(* Bits<BITS>: a byte string of exactly BYTES bytes *)
Definition spec_rlp_bits (bits : Z) (inp : list Z) (o : result) : bool :=
  match o with
  | Val [TL l] =>
      canonb bits l &&
      match rlp_str_item inp with
      | Some (p, _) => (lenZ p =? SBYTES bits) && (be_val p =? eval l)
      | None => false
      end
  | Val [TErr _] =>
      match rlp_str_item inp with
      | Some (p, _) => negb ((lenZ p =? SBYTES bits) && (be_val p <? 2 ^ bits)
                             && prefixb (rlp_string p) inp)
      | None => true
      end
  | _ => false
  end.

Definition spec_json (bits : Z) (text : list Z) (o : result) : bool :=
  match o with
  | Val [TL l] =>
      canonb bits l &&
      match json_read text with
      | JStr cs => match lenient_number cs with Some v => v =? eval l | None => false end
      | JU64 n => n =? eval l
      | _ => false
      end
  | Val [TErr _] =>
      match json_read text with
      | JStr cs =>
          match lenient_number cs with
          | Some v => negb ((v <? 2 ^ bits) && bytes_eqb text (json_quantity v))
          | None => true
          end
      | _ => true
      end
  | _ => false
  end.

Definition spec_bincode (bits : Z) (inp : list Z) (o : result) : bool :=
  match o with
  | Val [TL l] => canonb bits l && prefixb (bincode_uint bits (eval l)) inp
  | Val [TErr _] =>
      let v := be_val (firstn (Z.to_nat (SBYTES bits)) (skipn 8 inp)) in
      negb ((v <? 2 ^ bits) && prefixb (bincode_uint bits v) inp)
  | _ => false
  end.

Definition spec_prim (bits n : Z) (o : result) : bool :=
  if n <? 2 ^ bits then expect o [TL (uint_of bits n)]
  else match o with Val [TErr _] => true | _ => false end.

Definition spec (c : call) (o : result) : bool :=
  match c with
  | rlp_decode bits inp => spec_rlp_lax bits inp o
  | bits_rlp_decode bits inp => spec_rlp_bits bits inp o
  | alloy_rlp_decode bits inp | fastrlp03_decode bits inp | fastrlp04_decode bits inp =>
      spec_rlp_strict bits inp o
  | serde_json_de bits text => spec_json bits text o
  | bincode_de bits inp => spec_bincode bits inp o
  | serde_value_u64 bits n | serde_value_u128 bits n => spec_prim bits n o
  end.
