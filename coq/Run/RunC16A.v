(* Run/RunC16A.v — property C16, group A (serde_json, bincode, rlp, alloy-rlp, fastrlp 0.3/0.4):
   encoders, length()/size hints and decode-after-encode round trips.

   Result tokens.  Encoded bytes / JSON text = TY.  `*_encode` of the RLP crates:
     [TY bytes; P64; P128] where P64 (P128) = TY (the crate's own encoding of the value as
     u64 (u128)) when the value fits, TNone otherwise.
   `*_length` = [TZ length(); TZ MaxEncodedLenAssoc::LEN].  `bincode_ser` = [TY bytes; TZ serialized_size].
   Round trips: Ok(v) = [TL v] (alloy-rlp / fastrlp: [TL v; TZ bytes consumed]), Err(e) = [TErr code]
   with the code tables of Model/CodecA.v (rlperr_code, rlpderr_code; serde: 1). *)
From RV.Model Require Import Base Word Bytes BaseConv CodecA.
From RV.Spec Require Import FmtA.

Inductive call : Type :=
| rlp_encode (bits : Z) (a : list Z)
| rlp_roundtrip (bits : Z) (a : list Z)
| bits_rlp_encode (bits : Z) (a : list Z)
| bits_rlp_roundtrip (bits : Z) (a : list Z)
| alloy_rlp_encode (bits : Z) (a : list Z)
| alloy_rlp_length (bits : Z) (a : list Z)
| alloy_rlp_roundtrip (bits : Z) (a : list Z)
| fastrlp03_encode (bits : Z) (a : list Z)
| fastrlp03_length (bits : Z) (a : list Z)
| fastrlp03_roundtrip (bits : Z) (a : list Z)
| fastrlp04_encode (bits : Z) (a : list Z)
| fastrlp04_length (bits : Z) (a : list Z)
| fastrlp04_roundtrip (bits : Z) (a : list Z)
| serde_json_ser (bits : Z) (a : list Z)
| serde_json_roundtrip (bits : Z) (a : list Z)
| bits_serde_json_ser (bits : Z) (a : list Z)
| bits_serde_json_roundtrip (bits : Z) (a : list Z)
| bincode_ser (bits : Z) (a : list Z)
| bincode_roundtrip (bits : Z) (a : list Z)
| bits_bincode_ser (bits : Z) (a : list Z)
| bits_bincode_roundtrip (bits : Z) (a : list Z).

(* the crate's encoding of the equal primitive, when the value fits w bits *)
Definition prim_tok (w : Z) (a : list Z) : tok :=
  if eval a <? 2 ^ w then TY (tp_rlp_prim (eval a)) else TNone.

Definition rlpd_toks (r : res rlpderr (list Z)) : list tok :=
  match r with Ok v => [TL v] | Err e => [TErr (rlpderr_code e)] end.
Definition arlp_toks (r : res rlperr (list Z * Z)) : list tok :=
  match r with Ok (v, n) => [TL v; TZ n] | Err e => [TErr (rlperr_code e)] end.
Definition serde_toks (r : option (list Z)) : list tok :=
  match r with Some v => [TL v] | None => [TErr 1] end.

Definition run_arlp_encode (bits : Z) (a : list Z) : result :=
  do e <- arlp_encode bits a; Val [TY e; prim_tok 64 a; prim_tok 128 a].
Definition run_arlp_length (bits : Z) (a : list Z) : result :=
  do n <- arlp_length bits a; Val [TZ n; TZ (arlp_max_len bits)].

Definition run (c : call) : result :=
  match c with
  | rlp_encode bits a =>
      do e <- CodecA.rlp_encode bits a; Val [TY e; prim_tok 64 a; prim_tok 128 a]
  | rlp_roundtrip bits a =>
      do e <- CodecA.rlp_encode bits a; do r <- CodecA.rlp_decode bits e; Val (rlpd_toks r)
  | bits_rlp_encode bits a => Val [TY (CodecA.bits_rlp_encode bits a)]
  | bits_rlp_roundtrip bits a =>
      do r <- CodecA.bits_rlp_decode bits (CodecA.bits_rlp_encode bits a); Val (rlpd_toks r)
  | alloy_rlp_encode bits a | fastrlp03_encode bits a | fastrlp04_encode bits a =>
      run_arlp_encode bits a
  | alloy_rlp_length bits a | fastrlp03_length bits a | fastrlp04_length bits a =>
      run_arlp_length bits a
  | alloy_rlp_roundtrip bits a =>
      do e <- arlp_encode bits a; do r <- CodecA.alloy_rlp_decode bits e; Val (arlp_toks r)
  | fastrlp03_roundtrip bits a | fastrlp04_roundtrip bits a =>
      do e <- arlp_encode bits a; do r <- CodecA.fastrlp_decode bits e; Val (arlp_toks r)
  | serde_json_ser bits a => do s <- CodecA.serde_json_ser bits a; Val [TY s]
  | serde_json_roundtrip bits a =>
      do s <- CodecA.serde_json_ser bits a; do r <- CodecA.serde_json_de bits s; Val (serde_toks r)
  | bits_serde_json_ser bits a => Val [TY (CodecA.bits_serde_json_ser bits a)]
  | bits_serde_json_roundtrip bits a =>
      do r <- CodecA.serde_json_de bits (CodecA.bits_serde_json_ser bits a); Val (serde_toks r)
  | bincode_ser bits a =>
      let e := CodecA.bincode_ser bits a in Val [TY e; TZ (lenZ e)]
  | bits_bincode_ser bits a => Val [TY (CodecA.bincode_ser bits a)]
  | bincode_roundtrip bits a | bits_bincode_roundtrip bits a =>
      do r <- CodecA.bincode_de bits (CodecA.bincode_ser bits a); Val (serde_toks r)
  end.

Definition arg (c : call) : Z * list Z :=
  match c with
  | rlp_encode b a | rlp_roundtrip b a | bits_rlp_encode b a | bits_rlp_roundtrip b a
  | alloy_rlp_encode b a | alloy_rlp_length b a | alloy_rlp_roundtrip b a
  | fastrlp03_encode b a | fastrlp03_length b a | fastrlp03_roundtrip b a
  | fastrlp04_encode b a | fastrlp04_length b a | fastrlp04_roundtrip b a
  | serde_json_ser b a | serde_json_roundtrip b a | bits_serde_json_ser b a
  | bits_serde_json_roundtrip b a | bincode_ser b a | bincode_roundtrip b a
  | bits_bincode_ser b a | bits_bincode_roundtrip b a => (b, a)
  end.

(* input domain: any width (BITS is a usize), any canonical value *)
Definition wf (c : call) : Prop := let '(bits, a) := arg c in 0 <= bits < 2 ^ 64 /\ canon bits a.
Definition wfb (c : call) : bool :=
  let '(bits, a) := arg c in (0 <=? bits) && (bits <? 2 ^ 64) && canonb bits a.

(* ---- specification: the reference encodings of Spec/FmtA.v on the value eval a ---- *)
Definition ref_prim (w v : Z) : tok := if v <? 2 ^ w then TY (rlp_uint v) else TNone.
(* length of the longest encoding of the type: that of 2^BITS - 1 *)
Definition max_len (bits : Z) : Z := lenZ (rlp_uint (2 ^ bits - 1)).

Definition spec (c : call) (o : result) : bool :=
  let '(bits, a) := arg c in
  let v := eval a in
  match c with
  | rlp_encode _ _ | alloy_rlp_encode _ _ | fastrlp03_encode _ _ | fastrlp04_encode _ _ =>
      (* minimal big-endian RLP string; identical to the crate's u64 / u128 encodings *)
      expect o [TY (rlp_uint v); ref_prim 64 v; ref_prim 128 v]
  | alloy_rlp_length _ _ | fastrlp03_length _ _ | fastrlp04_length _ _ =>
      (* length() = number of bytes produced; LEN bounds every encoding of the type *)
      match o with
      | Val [TZ n; TZ m] => (n =? lenZ (rlp_uint v)) && (max_len bits <=? m)
      | _ => false
      end
  | bits_rlp_encode _ _ => expect o [TY (rlp_string (be_fixed (SBYTES bits) v))]
  | rlp_roundtrip _ _ | bits_rlp_roundtrip _ _ => expect o [TL a]
  | alloy_rlp_roundtrip _ _ | fastrlp03_roundtrip _ _ | fastrlp04_roundtrip _ _ =>
      expect o [TL a; TZ (lenZ (rlp_uint v))]
  | serde_json_ser _ _ => expect o [TY (json_quantity v)]
  | bits_serde_json_ser _ _ =>
      expect o [TY (json_string (if bits =? 0 then quantity 0
                                 else hex_data (be_fixed (SBYTES bits) v)))]
  | bincode_ser _ _ =>
      expect o [TY (bincode_uint bits v); TZ (8 + SBYTES bits)]
  | bits_bincode_ser _ _ => expect o [TY (bincode_uint bits v)]
  | serde_json_roundtrip _ _ | bits_serde_json_roundtrip _ _
  | bincode_roundtrip _ _ | bits_bincode_roundtrip _ _ => expect o [TL a]
  end.
