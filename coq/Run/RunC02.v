(* Run/RunC02.v — the calls of property C02 (multiplication), the model's answer (run),
   the executable mathematical specification (spec) and the input domain (wf).

   widening_mul carries the three free const-generic parameters of the Rust call:
   BITS_RHS, BITS_RES, LIMBS_RES (LIMBS_RHS is fixed by the type of the argument). *)
From RV.Model Require Import Base Word Limbs Mul.

Inductive call : Type :=
| overflowing_mul (bits : Z) (a b : list Z)
| checked_mul (bits : Z) (a b : list Z)
| saturating_mul (bits : Z) (a b : list Z)
| wrapping_mul (bits : Z) (a b : list Z)
| op_mul (bits : Z) (shape : Z) (a b : list Z)            (* the six impl_bin_op! shapes *)
| widening_mul (bits : Z) (bits_rhs bits_res limbs_res : Z) (a b : list Z)
| inv_ring (bits : Z) (a : list Z)
| product (bits : Z) (shape : Z) (xs : list (list Z)).     (* Product<Self> / Product<&Self> *)

Definition pair_toks (p : list Z * bool) : list tok := [TL (fst p); TB (snd p)].
Definition opt_toks (o : option (list Z)) : list tok :=
  match o with Some v => [TSome; TL v] | None => [TNone] end.

Definition run (c : call) : result :=
  match c with
  | overflowing_mul bits a b => Val (pair_toks (Mul.overflowing_mul bits a b))
  | checked_mul bits a b => Val (opt_toks (Mul.checked_mul bits a b))
  | saturating_mul bits a b => Val [TL (Mul.saturating_mul bits a b)]
  | wrapping_mul bits a b | op_mul bits _ a b =>
      do r <- Mul.wrapping_mul bits a b ; Val [TL r]
  | widening_mul bits br bres lres a b =>
      do r <- Mul.widening_mul bits br bres lres a b ; Val [TL r]
  | inv_ring bits a => do r <- Mul.inv_ring bits a ; Val (opt_toks r)
  | product bits _ xs => do r <- Mul.product bits xs ; Val [TL r]
  end.

(* ---- input domain: widths >= 0, operands are values of their Uint types ---- *)
Definition wf (c : call) : Prop :=
  match c with
  | overflowing_mul bits a b | checked_mul bits a b | saturating_mul bits a b
  | wrapping_mul bits a b | op_mul bits _ a b =>
      0 <= bits /\ canon bits a /\ canon bits b
  | widening_mul bits br bres lres a b =>
      0 <= bits /\ 0 <= br /\ 0 <= bres /\ 0 <= lres /\ canon bits a /\ canon br b
  | inv_ring bits a => 0 <= bits /\ canon bits a
  | product bits _ xs => 0 <= bits /\ Forall (canon bits) xs
  end.
Definition wfb (c : call) : bool :=
  match c with
  | overflowing_mul bits a b | checked_mul bits a b | saturating_mul bits a b
  | wrapping_mul bits a b | op_mul bits _ a b =>
      (0 <=? bits) && canonb bits a && canonb bits b
  | widening_mul bits br bres lres a b =>
      (0 <=? bits) && (0 <=? br) && (0 <=? bres) && (0 <=? lres) && canonb bits a && canonb br b
  | inv_ring bits a => (0 <=? bits) && canonb bits a
  | product bits _ xs => (0 <=? bits) && forallb (canonb bits) xs
  end.

(* ---- specification: pure integer arithmetic on the denoted values ---- *)
Definition U (bits v : Z) : tok := TL (uint_of bits v).       (* the canonical Uint of value v *)
Definition ovf (bits v : Z) : bool := 2 ^ bits <=? v.          (* v does not fit BITS bits *)

Definition no_value (o : result) : bool :=                     (* rejected: panic or compile error *)
  match o with Panic | CompileError => true | _ => false end.

Definition spec (c : call) (o : result) : bool :=
  match c with
  | overflowing_mul bits a b =>
      let p := eval a * eval b in expect o [U bits (modp2 p bits); TB (ovf bits p)]
  | checked_mul bits a b =>
      let p := eval a * eval b in
      expect o (if ovf bits p then [TNone] else [TSome; U bits p])
  | saturating_mul bits a b =>
      let p := eval a * eval b in
      expect o [U bits (if ovf bits p then 2 ^ bits - 1 else p)]
  | wrapping_mul bits a b | op_mul bits _ a b =>
      expect o [U bits (modp2 (eval a * eval b) bits)]
  | widening_mul bits br bres lres a b =>
      (* the full product, as the canonical value of Uint<BITS + BITS_RHS>; wrong const
         parameters never yield a value *)
      if (bres =? bits + br) && (lres =? nlimbs bres)
      then expect o [U (bits + br) (eval a * eval b)]
      else no_value o
  | inv_ring bits a =>
      if (0 <? bits) && Z.odd (eval a) then
        match o with
        | Val [TSome; TL x] => canonb bits x && (modp2 (eval a * eval x) bits =? 1)
        | _ => false
        end
      else expect o [TNone]
  | product bits _ xs =>
      expect o [U bits (modp2 (fold_right Z.mul 1 (map eval xs)) bits)]
  end.
