(* Run/Check.v — evaluation of a corpus of (case id, call, observed implementation result)
   inside the kernel's VM: for every case, does the model agree with the implementation and
   does the implementation's answer satisfy the executable specification? *)
From RV.Model Require Import Base.

(* profile: true = debug build (debug_assert!, overflow checks on) *)
Definition agree (debug : bool) (model impl : result) : bool :=
  match model with
  | DebugPanic => if debug then result_eqb impl Panic else true
  | CompileError => result_eqb impl CompileError
  | m => result_eqb m impl
  end.

Record verdict := { v_id : Z; v_wf : bool; v_agree : bool; v_spec : bool; v_modelspec : bool }.

Section Corpus.
  Context {call : Type}.
  Variable run : call -> result.
  Variable spec : call -> result -> bool.
  Variable wfb : call -> bool.

  Definition judge (debug : bool) (c : Z * call * result) : verdict :=
    let '(id, cl, impl) := c in
    let m := run cl in
    {| v_id := id; v_wf := wfb cl; v_agree := agree debug m impl;
       v_spec := spec cl impl; v_modelspec := spec cl m |}.

  Definition bad (v : verdict) : bool :=
    negb (v_wf v && v_agree v && v_spec v && v_modelspec v).

  Definition bad_cases (debug : bool) (cs : list (Z * call * result))
    : list (Z * bool * bool * bool * bool) :=
    map (fun v => (v_id v, v_wf v, v_agree v, v_spec v, v_modelspec v))
        (filter bad (map (judge debug) cs)).
End Corpus.
