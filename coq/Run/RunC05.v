(* Run/RunC05.v — the calls of property C05 (shifts and rotations), the model's answer (run),
   the executable mathematical specification (spec) and the input domain (wf). *)
From RV.Model Require Import Base Word Shift.

(* amount types of impl_shift!: 0 usize, 1 u8, 2 u16, 3 u32, 4 u64, 5 isize, 6 i8, 7 i16,
   8 i32, 9 i64; shape: 0 `x << s`, 1 `x << &s`, 2 `x <<= s`, 3 `x <<= &s`. *)
Inductive call : Type :=
| overflowing_shl (bits : Z) (a : list Z) (s : Z)
| checked_shl (bits : Z) (a : list Z) (s : Z)
| saturating_shl (bits : Z) (a : list Z) (s : Z)
| wrapping_shl (bits : Z) (a : list Z) (s : Z)
| overflowing_shr (bits : Z) (a : list Z) (s : Z)
| checked_shr (bits : Z) (a : list Z) (s : Z)
| wrapping_shr (bits : Z) (a : list Z) (s : Z)
| arithmetic_shr (bits : Z) (a : list Z) (s : Z)
| rotate_left (bits : Z) (a : list Z) (s : Z)
| rotate_right (bits : Z) (a : list Z) (s : Z)
| op_shl (bits : Z) (ty shape : Z) (a : list Z) (s : Z)
| op_shr (bits : Z) (ty shape : Z) (a : list Z) (s : Z)
| shl_uint (bits : Z) (a k : list Z)                   (* Shl<Self> *)
| shr_uint (bits : Z) (a k : list Z)                   (* Shr<Self> *)
| op_shl_uint (bits : Z) (shape : Z) (a k : list Z)    (* Shl<Self>, Shl<&Self>, ShlAssign<Self>, ShlAssign<&Self> *)
| op_shr_uint (bits : Z) (shape : Z) (a k : list Z).

Definition pair_toks (p : list Z * bool) : list tok := [TL (fst p); TB (snd p)].
Definition opt_toks (o : option (list Z)) : list tok :=
  match o with Some v => [TSome; TL v] | None => [TNone] end.

Definition run (c : call) : result :=
  match c with
  | overflowing_shl bits a s => Val (pair_toks (Shift.overflowing_shl bits a s))
  | checked_shl bits a s => Val (opt_toks (Shift.checked_shl bits a s))
  | saturating_shl bits a s => Val [TL (Shift.saturating_shl bits a s)]
  | wrapping_shl bits a s => Val [TL (Shift.wrapping_shl bits a s)]
  | overflowing_shr bits a s => Val (pair_toks (Shift.overflowing_shr bits a s))
  | checked_shr bits a s => Val (opt_toks (Shift.checked_shr bits a s))
  | wrapping_shr bits a s => Val [TL (Shift.wrapping_shr bits a s)]
  | arithmetic_shr bits a s => Val [TL (Shift.arithmetic_shr bits a s)]
  | rotate_left bits a s => Val [TL (Shift.rotate_left bits a s)]
  | rotate_right bits a s => Val [TL (Shift.rotate_right bits a s)]
  | op_shl bits _ _ a s => Val [TL (Shift.shl_prim bits a s)]     (* rhs as usize = s *)
  | op_shr bits _ _ a s => Val [TL (Shift.shr_prim bits a s)]
  | shl_uint bits a k | op_shl_uint bits _ a k => Val [TL (Shift.shl_uint bits a k)]
  | shr_uint bits a k | op_shr_uint bits _ a k => Val [TL (Shift.shr_uint bits a k)]
  end.

(* largest non-negative value of the amount type *)
Definition amt_max (ty : Z) : Z :=
  match ty with
  | 0 => 2 ^ 64 - 1 | 1 => 2 ^ 8 - 1 | 2 => 2 ^ 16 - 1 | 3 => 2 ^ 32 - 1 | 4 => 2 ^ 64 - 1
  | 5 => 2 ^ 63 - 1 | 6 => 2 ^ 7 - 1 | 7 => 2 ^ 15 - 1 | 8 => 2 ^ 31 - 1 | _ => 2 ^ 63 - 1
  end.

(* ---- input domain: BITS >= 0, canonical operands, a non-negative amount of its type ---- *)
Definition wf (c : call) : Prop :=
  match c with
  | overflowing_shl bits a s | checked_shl bits a s | saturating_shl bits a s
  | wrapping_shl bits a s | overflowing_shr bits a s | checked_shr bits a s
  | wrapping_shr bits a s | arithmetic_shr bits a s | rotate_left bits a s
  | rotate_right bits a s =>
      0 <= bits /\ canon bits a /\ 0 <= s < 2 ^ 64
  | op_shl bits ty _ a s | op_shr bits ty _ a s =>
      0 <= bits /\ canon bits a /\ 0 <= ty <= 9 /\ 0 <= s <= amt_max ty
  | shl_uint bits a k | shr_uint bits a k | op_shl_uint bits _ a k | op_shr_uint bits _ a k =>
      0 <= bits < 2 ^ 64 /\ canon bits a /\ canon bits k      (* BITS is a usize *)
  end.
Definition wfb (c : call) : bool :=
  match c with
  | overflowing_shl bits a s | checked_shl bits a s | saturating_shl bits a s
  | wrapping_shl bits a s | overflowing_shr bits a s | checked_shr bits a s
  | wrapping_shr bits a s | arithmetic_shr bits a s | rotate_left bits a s
  | rotate_right bits a s =>
      (0 <=? bits) && canonb bits a && ((0 <=? s) && (s <? 2 ^ 64))
  | op_shl bits ty _ a s | op_shr bits ty _ a s =>
      (0 <=? bits) && canonb bits a && ((0 <=? ty) && (ty <=? 9)) && ((0 <=? s) && (s <=? amt_max ty))
  | shl_uint bits a k | shr_uint bits a k | op_shl_uint bits _ a k | op_shr_uint bits _ a k =>
      ((0 <=? bits) && (bits <? 2 ^ 64)) && canonb bits a && canonb bits k
  end.

(* ---- specification: pure integer arithmetic on the denoted values ----
   With M = 2^bits, v in [0, M), s >= 0:
     shl value (v * 2^s) mod M, lost bits  <->  M <= v * 2^s;
     shr value v / 2^s,         lost bits  <->  v mod 2^s <> 0.
   Amounts reach 2^64 - 1 (and any magnitude for Uint amounts), so 2^s cannot be formed: for
   s >= bits the four quantities are 0, v<>0, 0, v<>0 (every bit of v < 2^bits leaves). The
   helpers below take that shortcut; PfC05.{shl_val,shl_lost,shr_val,shr_lost,ashr_val}_math
   prove them equal to the plain formulas, and Properties/C05.v pins those equations. *)
Definition U (bits v : Z) : tok := TL (uint_of bits v).       (* the canonical Uint of value v *)
Definition pow2 (k : Z) : Z := Z.shiftl 1 k.

Definition shl_val (bits v s : Z) : Z := if bits <=? s then 0 else modp2 (Z.shiftl v s) bits.
Definition shl_lost (bits v s : Z) : bool :=
  if bits <=? s then negb (v =? 0) else pow2 bits <=? Z.shiftl v s.
Definition shr_val (bits v s : Z) : Z := if bits <=? s then 0 else divp2 v s.
Definition shr_lost (bits v s : Z) : bool :=
  if bits <=? s then negb (v =? 0) else negb (modp2 v s =? 0).
(* arithmetic shift: floor((v - M) / 2^s) mod M when bit bits-1 is set ((v-M)/2^s = -1 for s >= bits) *)
Definition ashr_val (bits v s : Z) : Z :=
  if Z.testbit v (bits - 1) then modp2 (divp2 (v - pow2 bits) (Z.min s bits)) bits
  else shr_val bits v s.
(* rotation by r' in [0, bits) *)
Definition rotl_val (bits v r : Z) : Z := modp2 (Z.shiftl v r) bits + divp2 v (bits - r).

Definition spec_ov (bits val : Z) (lost : bool) : list tok := [U bits val; TB lost].
Definition spec_checked (bits val : Z) (lost : bool) : list tok :=
  if lost then [TNone] else [TSome; U bits val].

Definition spec (c : call) (o : result) : bool :=
  match c with
  | overflowing_shl bits a s => expect o (spec_ov bits (shl_val bits (eval a) s) (shl_lost bits (eval a) s))
  | checked_shl bits a s => expect o (spec_checked bits (shl_val bits (eval a) s) (shl_lost bits (eval a) s))
  | saturating_shl bits a s =>
      expect o [U bits (if shl_lost bits (eval a) s then pow2 bits - 1 else shl_val bits (eval a) s)]
  | wrapping_shl bits a s | op_shl bits _ _ a s => expect o [U bits (shl_val bits (eval a) s)]
  | overflowing_shr bits a s => expect o (spec_ov bits (shr_val bits (eval a) s) (shr_lost bits (eval a) s))
  | checked_shr bits a s => expect o (spec_checked bits (shr_val bits (eval a) s) (shr_lost bits (eval a) s))
  | wrapping_shr bits a s | op_shr bits _ _ a s => expect o [U bits (shr_val bits (eval a) s)]
  | arithmetic_shr bits a s => expect o [U bits (if bits =? 0 then 0 else ashr_val bits (eval a) s)]
  | rotate_left bits a s =>
      expect o [U bits (if bits =? 0 then 0 else rotl_val bits (eval a) (s mod bits))]
  | rotate_right bits a s =>
      expect o [U bits (if bits =? 0 then 0
                        else let r := s mod bits in divp2 (eval a) r + modp2 (Z.shiftl (eval a) (bits - r)) bits)]
  | shl_uint bits a k | op_shl_uint bits _ a k => expect o [U bits (shl_val bits (eval a) (eval k))]
  | shr_uint bits a k | op_shr_uint bits _ a k => expect o [U bits (shr_val bits (eval a) (eval k))]
  end.
