(* Run/RunC08.v — the calls of property C08 (byte encodings), the model's answer (run),
   the executable positional specification (spec) and the input domain (wf). *)
From RV.Model Require Import Base Word Bytes.

Inductive call : Type :=
| nbytes (bits : Z)                               (* ruint::nbytes(BITS), Uint::BYTES *)
| as_le_slice (bits : Z) (a : list Z)
| as_le_bytes (bits : Z) (a : list Z)
| as_le_bytes_trimmed (bits : Z) (a : list Z)
| to_le_bytes (bits : Z) (n : Z) (a : list Z)     (* to_le_bytes::<n>() *)
| to_be_bytes (bits : Z) (n : Z) (a : list Z)
| to_le_bytes_vec (bits : Z) (a : list Z)
| to_le_bytes_trimmed_vec (bits : Z) (a : list Z)
| to_be_bytes_vec (bits : Z) (a : list Z)
| to_be_bytes_trimmed_vec (bits : Z) (a : list Z)
| copy_le_bytes_to (bits : Z) (a : list Z) (buf : list Z)
| checked_copy_le_bytes_to (bits : Z) (a : list Z) (buf : list Z)
| copy_be_bytes_to (bits : Z) (a : list Z) (buf : list Z)
| checked_copy_be_bytes_to (bits : Z) (a : list Z) (buf : list Z)
| from_be_bytes (bits : Z) (bytes : list Z)       (* from_be_bytes::<len>(bytes) *)
| from_le_bytes (bits : Z) (bytes : list Z)
| from_be_slice (bits : Z) (bytes : list Z)
| from_le_slice (bits : Z) (bytes : list Z)
| try_from_be_slice (bits : Z) (bytes : list Z)
| try_from_le_slice (bits : Z) (bytes : list Z)
(* decode(encode(a)); shape 0: try_from_le_slice(as_le_bytes) 1: try_from_le_slice(as_le_bytes_trimmed)
   2: try_from_be_slice(to_be_bytes_vec) 3: try_from_be_slice(to_be_bytes_trimmed_vec)
   4: from_le_bytes(to_le_bytes::<BYTES>()) 5: from_be_bytes(to_be_bytes::<BYTES>()) *)
| roundtrip (bits : Z) (shape : Z) (a : list Z).

Definition opt_toks (o : option (list Z)) : list tok :=
  match o with Some v => [TSome; TL v] | None => [TNone] end.
Definition copy_toks (r : Z * list Z) : list tok := [TZ (fst r); TY (snd r)].
Definition ccopy_toks (r : option Z * list Z) : list tok :=
  match fst r with Some n => [TSome; TZ n; TY (snd r)] | None => [TNone; TY (snd r)] end.

Definition run (c : call) : result :=
  match c with
  | nbytes bits => Val [TZ (Bytes.nbytes bits); TZ (Bytes.nbytes bits)]
  | as_le_slice bits a => Val [TY (Bytes.as_le_slice bits a)]
  | as_le_bytes bits a => Val [TY (Bytes.as_le_bytes bits a)]
  | as_le_bytes_trimmed bits a => do r <- Bytes.as_le_bytes_trimmed bits a; Val [TY r]
  | to_le_bytes bits n a => do r <- Bytes.to_le_bytes bits n a; Val [TY r]
  | to_be_bytes bits n a => do r <- Bytes.to_be_bytes bits n a; Val [TY r]
  | to_le_bytes_vec bits a => Val [TY (Bytes.to_le_bytes_vec bits a)]
  | to_le_bytes_trimmed_vec bits a => do r <- Bytes.to_le_bytes_trimmed_vec bits a; Val [TY r]
  | to_be_bytes_vec bits a => Val [TY (Bytes.to_be_bytes_vec bits a)]
  | to_be_bytes_trimmed_vec bits a => do r <- Bytes.to_be_bytes_trimmed_vec bits a; Val [TY r]
  | copy_le_bytes_to bits a buf => do r <- Bytes.copy_le_bytes_to bits a buf; Val (copy_toks r)
  | checked_copy_le_bytes_to bits a buf =>
      do r <- Bytes.checked_copy_le_bytes_to bits a buf; Val (ccopy_toks r)
  | copy_be_bytes_to bits a buf => do r <- Bytes.copy_be_bytes_to bits a buf; Val (copy_toks r)
  | checked_copy_be_bytes_to bits a buf =>
      do r <- Bytes.checked_copy_be_bytes_to bits a buf; Val (ccopy_toks r)
  | from_be_bytes bits bs => do r <- Bytes.from_be_bytes bits bs; Val [TL r]
  | from_le_bytes bits bs => do r <- Bytes.from_le_bytes bits bs; Val [TL r]
  | from_be_slice bits bs => do r <- Bytes.from_be_slice bits bs; Val [TL r]
  | from_le_slice bits bs => do r <- Bytes.from_le_slice bits bs; Val [TL r]
  | try_from_be_slice bits bs => do r <- Bytes.try_from_be_slice bits bs; Val (opt_toks r)
  | try_from_le_slice bits bs => do r <- Bytes.try_from_le_slice bits bs; Val (opt_toks r)
  | roundtrip bits shape a =>
      if shape =? 0 then
        do r <- Bytes.try_from_le_slice bits (Bytes.as_le_bytes bits a); Val (opt_toks r)
      else if shape =? 1 then
        do e <- Bytes.as_le_bytes_trimmed bits a;
        do r <- Bytes.try_from_le_slice bits e; Val (opt_toks r)
      else if shape =? 2 then
        do r <- Bytes.try_from_be_slice bits (Bytes.to_be_bytes_vec bits a); Val (opt_toks r)
      else if shape =? 3 then
        do e <- Bytes.to_be_bytes_trimmed_vec bits a;
        do r <- Bytes.try_from_be_slice bits e; Val (opt_toks r)
      else if shape =? 4 then
        do e <- Bytes.to_le_bytes bits (Bytes.nbytes bits) a;
        do r <- Bytes.from_le_bytes bits e; Val [TSome; TL r]
      else
        do e <- Bytes.to_be_bytes bits (Bytes.nbytes bits) a;
        do r <- Bytes.from_be_bytes bits e; Val [TSome; TL r]
  end.

(* ---- input domain: BITS >= 0, canonical operand, bytes are u8, N is a usize ---- *)
Definition wf (c : call) : Prop :=
  match c with
  | nbytes bits => 0 <= bits
  | as_le_slice bits a | as_le_bytes bits a | as_le_bytes_trimmed bits a
  | to_le_bytes_vec bits a | to_le_bytes_trimmed_vec bits a
  | to_be_bytes_vec bits a | to_be_bytes_trimmed_vec bits a => 0 <= bits /\ canon bits a
  | to_le_bytes bits n a | to_be_bytes bits n a => 0 <= bits /\ 0 <= n /\ canon bits a
  | copy_le_bytes_to bits a buf | checked_copy_le_bytes_to bits a buf
  | copy_be_bytes_to bits a buf | checked_copy_be_bytes_to bits a buf =>
      0 <= bits /\ canon bits a /\ Forall isbyte buf
  | from_be_bytes bits bs | from_le_bytes bits bs | from_be_slice bits bs
  | from_le_slice bits bs | try_from_be_slice bits bs | try_from_le_slice bits bs =>
      0 <= bits /\ Forall isbyte bs
  | roundtrip bits shape a => 0 <= bits /\ canon bits a
  end.
Definition wfb (c : call) : bool :=
  match c with
  | nbytes bits => 0 <=? bits
  | as_le_slice bits a | as_le_bytes bits a | as_le_bytes_trimmed bits a
  | to_le_bytes_vec bits a | to_le_bytes_trimmed_vec bits a
  | to_be_bytes_vec bits a | to_be_bytes_trimmed_vec bits a => (0 <=? bits) && canonb bits a
  | to_le_bytes bits n a | to_be_bytes bits n a => (0 <=? bits) && (0 <=? n) && canonb bits a
  | copy_le_bytes_to bits a buf | checked_copy_le_bytes_to bits a buf
  | copy_be_bytes_to bits a buf | checked_copy_be_bytes_to bits a buf =>
      (0 <=? bits) && canonb bits a && forallb isbyteb buf
  | from_be_bytes bits bs | from_le_bytes bits bs | from_be_slice bits bs
  | from_le_slice bits bs | try_from_be_slice bits bs | try_from_le_slice bits bs =>
      (0 <=? bits) && forallb isbyteb bs
  | roundtrip bits shape a => (0 <=? bits) && canonb bits a
  end.

(* ---- specification: positional base-256 notation of the denoted value ---- *)
(* BYTES: the least n with 8 n >= BITS *)
Definition SBYTES (bits : Z) : Z := bits / 8 + (if bits mod 8 =? 0 then 0 else 1).
(* digit i of v in base 256: (v / 256^i) mod 256 *)
Definition digit (v : Z) (i : nat) : Z := modp2 (divp2 v (8 * Z.of_nat i)) 8.
(* the n low base-256 digits of v, least significant first / most significant first *)
Definition le_bytes (v : Z) (n : Z) : list Z := map (digit v) (seq 0 (Z.to_nat n)).
Definition be_bytes (v : Z) (n : Z) : list Z := rev (le_bytes v n).
(* number of base-256 digits of v (0 for v = 0) *)
Definition ndigits (v : Z) : Z := if v =? 0 then 0 else Z.log2 v / 8 + 1.
(* sum of b_i * 256^(i0 + i) *)
Fixpoint pos_value (i : Z) (bs : list Z) : Z :=
  match bs with
  | [] => 0
  | b :: t => Z.shiftl b (8 * i) + pos_value (i + 1) t
  end.
Definition le_val (bs : list Z) : Z := pos_value 0 bs.
Definition be_val (bs : list Z) : Z := pos_value 0 (rev bs).

Definition U (bits v : Z) : tok := TL (uint_of bits v).
(* decoding a byte string that denotes v *)
Definition fits (bits : Z) (bs : list Z) (v : Z) : bool :=
  (lenZ bs <=? SBYTES bits) && (v <? 2 ^ bits).
Definition spec_try (bits : Z) (bs : list Z) (v : Z) (o : result) : bool :=
  if fits bits bs v then expect o [TSome; U bits v] else expect o [TNone].
Definition spec_from (bits : Z) (bs : list Z) (v : Z) (o : result) : bool :=
  if fits bits bs v then expect o [U bits v] else result_eqb o Panic.
(* copying enc (the BYTES encoded bytes) over the front of buf *)
Definition spec_copy (bits : Z) (enc buf : list Z) (o : result) : bool :=
  if lenZ buf <? SBYTES bits then result_eqb o Panic
  else expect o [TZ (SBYTES bits); TY (enc ++ skipn (Z.to_nat (SBYTES bits)) buf)].
Definition spec_ccopy (bits : Z) (enc buf : list Z) (o : result) : bool :=
  if lenZ buf <? SBYTES bits then expect o [TNone; TY buf]
  else expect o [TSome; TZ (SBYTES bits); TY (enc ++ skipn (Z.to_nat (SBYTES bits)) buf)].

Definition spec (c : call) (o : result) : bool :=
  match c with
  | nbytes bits => expect o [TZ (SBYTES bits); TZ (SBYTES bits)]
  | as_le_slice bits a | as_le_bytes bits a | to_le_bytes_vec bits a =>
      expect o [TY (le_bytes (eval a) (SBYTES bits))]
  | to_be_bytes_vec bits a => expect o [TY (be_bytes (eval a) (SBYTES bits))]
  | as_le_bytes_trimmed bits a | to_le_bytes_trimmed_vec bits a =>
      expect o [TY (le_bytes (eval a) (ndigits (eval a)))]
  | to_be_bytes_trimmed_vec bits a => expect o [TY (be_bytes (eval a) (ndigits (eval a)))]
  | to_le_bytes bits n a =>
      if n =? SBYTES bits then expect o [TY (le_bytes (eval a) (SBYTES bits))]
      else result_eqb o Panic
  | to_be_bytes bits n a =>
      if n =? SBYTES bits then expect o [TY (be_bytes (eval a) (SBYTES bits))]
      else result_eqb o Panic
  | copy_le_bytes_to bits a buf => spec_copy bits (le_bytes (eval a) (SBYTES bits)) buf o
  | copy_be_bytes_to bits a buf => spec_copy bits (be_bytes (eval a) (SBYTES bits)) buf o
  | checked_copy_le_bytes_to bits a buf => spec_ccopy bits (le_bytes (eval a) (SBYTES bits)) buf o
  | checked_copy_be_bytes_to bits a buf => spec_ccopy bits (be_bytes (eval a) (SBYTES bits)) buf o
  | try_from_be_slice bits bs => spec_try bits bs (be_val bs) o
  | try_from_le_slice bits bs => spec_try bits bs (le_val bs) o
  | from_be_slice bits bs => spec_from bits bs (be_val bs) o
  | from_le_slice bits bs => spec_from bits bs (le_val bs) o
  | from_be_bytes bits bs =>
      if lenZ bs =? SBYTES bits then spec_from bits bs (be_val bs) o else result_eqb o Panic
  | from_le_bytes bits bs =>
      if lenZ bs =? SBYTES bits then spec_from bits bs (le_val bs) o else result_eqb o Panic
  | roundtrip bits _ a => expect o [TSome; TL a]
  end.
