(* Run/RunC11.v — the calls of property C11 (Montgomery multiplication / squaring), the model's
   answer (run), the executable specification (spec) and the input domain (wf).

   mul_redc / square_redc          : Uint::<BITS, LIMBS>::mul_redc / square_redc
   alg_mul_redc / alg_square_redc  : ruint::algorithms::{mul_redc, square_redc}::<N>, bits = 64*N

   Contract (spec): if inv * m[0] = -1 (mod 2^64), a < m and b < m (so m is odd), the call
   returns N in-range limbs of a value r with 0 <= r < m and r * 2^(64N) = a * b (mod m).
   The three preconditions are debug_assert!ed by the code: when one fails the model answers
   DebugPanic (debug build panics, release build unconstrained) and spec accepts any outcome
   other than OutOfFuel / CompileError.  BITS = 0: the wrappers return ZERO. *)
From RV.Model Require Import Base Word Add Redc.

Inductive call : Type :=
| mul_redc (bits : Z) (a b m : list Z) (inv : Z)
| square_redc (bits : Z) (a m : list Z) (inv : Z)
| alg_mul_redc (bits : Z) (a b m : list Z) (inv : Z)
| alg_square_redc (bits : Z) (a m : list Z) (inv : Z).

Definition lift (o : outcome (list Z)) : result := do r <- o ; Val [TL r].

Definition run (c : call) : result :=
  match c with
  | mul_redc bits a b m inv => lift (Redc.uint_mul_redc bits a b m inv)
  | square_redc bits a m inv => lift (Redc.uint_square_redc bits a m inv)
  | alg_mul_redc _ a b m inv => lift (Redc.mul_redc a b m inv)
  | alg_square_redc _ a m inv => lift (Redc.square_redc a m inv)
  end.

(* ---- input domain: well-typed arguments only ---- *)
Definition arr (bits : Z) (l : list Z) : Prop :=       (* a [u64; N] with bits = 64 * N *)
  bits = 64 * Z.of_nat (length l) /\ Forall inW l.
Definition arrb (bits : Z) (l : list Z) : bool :=
  (bits =? 64 * Z.of_nat (length l)) && forallb inWb l.

Definition wf (c : call) : Prop :=
  match c with
  | mul_redc bits a b m inv => 0 <= bits /\ canon bits a /\ canon bits b /\ canon bits m /\ inW inv
  | square_redc bits a m inv => 0 <= bits /\ canon bits a /\ canon bits m /\ inW inv
  | alg_mul_redc bits a b m inv => arr bits a /\ arr bits b /\ arr bits m /\ inW inv
  | alg_square_redc bits a m inv => arr bits a /\ arr bits m /\ inW inv
  end.
Definition wfb (c : call) : bool :=
  match c with
  | mul_redc bits a b m inv =>
      (0 <=? bits) && canonb bits a && canonb bits b && canonb bits m && inWb inv
  | square_redc bits a m inv => (0 <=? bits) && canonb bits a && canonb bits m && inWb inv
  | alg_mul_redc bits a b m inv => arrb bits a && arrb bits b && arrb bits m && inWb inv
  | alg_square_redc bits a m inv => arrb bits a && arrb bits m && inWb inv
  end.

(* ---- specification: integer arithmetic on the denoted values ---- *)
(* the documented requirements: inv = -m^-1 mod 2^64 (read off limb 0), a < m, b < m *)
Definition pre (a b m inv : Z) (m0 : Z) : bool :=
  ((inv * m0) mod 2 ^ 64 =? 2 ^ 64 - 1) && (a <? m) && (b <? m).

(* r is N words, 0 <= r < m, r * 2^(64 N) = a * b  (mod m) *)
Definition good (n : nat) (a b m : Z) (o : result) : bool :=
  match o with
  | Val [TL r] =>
      Nat.eqb (length r) n && forallb inWb r && (eval r <? m) &&
      ((eval r * 2 ^ (64 * Z.of_nat n)) mod m =? (a * b) mod m)
  | _ => false
  end.

(* a violated debug-asserted requirement: nothing is promised beyond termination *)
Definition lenient (o : result) : bool :=
  match o with OutOfFuel | CompileError => false | _ => true end.

Definition contract (a b m : list Z) (inv : Z) (o : result) : bool :=
  if pre (eval a) (eval b) (eval m) inv (hd 0 m)
  then good (length m) (eval a) (eval b) (eval m) o
  else lenient o.

Definition spec (c : call) (o : result) : bool :=
  match c with
  | mul_redc bits a b m inv =>
      if bits =? 0 then expect o [TL []] else contract a b m inv o
  | square_redc bits a m inv =>
      if bits =? 0 then expect o [TL []] else contract a a m inv o
  | alg_mul_redc _ a b m inv => contract a b m inv o
  | alg_square_redc _ a m inv => contract a a m inv o
  end.
