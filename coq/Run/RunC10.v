(* Run/RunC10.v — the calls of property C10 (modular arithmetic), the model's answer (run),
   the executable integer specification (spec) and the input domain (wf). *)
From RV.Model Require Import Base Word Modular.
From RV.Model Require Gcd.

Inductive call : Type :=
| reduce_mod (bits : Z) (a m : list Z)
| add_mod (bits : Z) (a b m : list Z)
| mul_mod (bits : Z) (a b m : list Z)
| pow_mod (bits : Z) (a e m : list Z)
| inv_mod (bits : Z) (a m : list Z).

Definition uint_res (o : outcome (list Z)) : result := omap (fun v => [TL v]) o.

Definition opt_res (o : outcome (option (list Z))) : result :=
  omap (fun v => match v with Some x => [TSome; TL x] | None => [TNone] end) o.

Definition run (c : call) : result :=
  match c with
  | reduce_mod bits a m => uint_res (Modular.reduce_mod bits a m)
  | add_mod bits a b m => uint_res (Modular.add_mod bits a b m)
  | mul_mod bits a b m => uint_res (Modular.mul_mod bits a b m)
  | pow_mod bits a e m => uint_res (Modular.pow_mod bits a e m)
  (* Uint::inv_mod = algorithms::inv_mod, modelled by the gcd topic (C12): Model/Gcd.v *)
  | inv_mod bits a m => opt_res (Gcd.inv_mod bits a m)
  end.

(* ---- input domain: BITS >= 0, every operand is a value of Uint<BITS, nlimbs(BITS)>;
        operands need not be reduced, the modulus may be 0 ---- *)
Definition wf (c : call) : Prop :=
  match c with
  | reduce_mod bits a m | inv_mod bits a m => 0 <= bits /\ canon bits a /\ canon bits m
  | add_mod bits a b m | mul_mod bits a b m | pow_mod bits a b m =>
      0 <= bits /\ canon bits a /\ canon bits b /\ canon bits m
  end.
Definition wfb (c : call) : bool :=
  match c with
  | reduce_mod bits a m | inv_mod bits a m => (0 <=? bits) && canonb bits a && canonb bits m
  | add_mod bits a b m | mul_mod bits a b m | pow_mod bits a b m =>
      (0 <=? bits) && canonb bits a && canonb bits b && canonb bits m
  end.

(* ---- specification: integer arithmetic on the denoted values ---- *)
Definition U (bits v : Z) : tok := TL (uint_of bits v).       (* the canonical Uint of value v *)

(* v mod m with the crate's convention "zero when the modulus is zero" *)
Definition zmod (v m : Z) : Z := if m =? 0 then 0 else v mod m.

(* a^e mod m by square-and-multiply over the binary digits of e, on Z
   (PfModular.powmod_spec: powmod a e m = a ^ e mod m for e >= 0, m > 0). *)
Fixpoint powmod_pos (a : Z) (e : positive) (m : Z) : Z :=
  match e with
  | xH => a mod m
  | xO e' => let t := powmod_pos a e' m in (t * t) mod m
  | xI e' => let t := powmod_pos a e' m in ((t * t) mod m * a) mod m
  end.
Definition powmod (a e m : Z) : Z :=
  match e with
  | Z0 => 1 mod m
  | Zpos p => powmod_pos a p m
  | Zneg _ => 0
  end.

(* inv_mod: Some(x) with x canonical, x < m and a * x = 1 (mod m) -- which determines x --
   exactly when m >= 2 and gcd(a, m) = 1; None otherwise; never a panic. *)
Definition invertible (a m : Z) : bool := (2 <=? m) && (Z.gcd a m =? 1).
Definition spec_inv (bits a m : Z) (o : result) : bool :=
  match o with
  | Val [TSome; TL x] =>
      invertible a m && canonb bits x && (eval x <? m) && ((a * eval x) mod m =? 1)
  | Val [TNone] => negb (invertible a m)
  | _ => false
  end.

Definition spec (c : call) (o : result) : bool :=
  match c with
  | reduce_mod bits a m => expect o [U bits (zmod (eval a) (eval m))]
  | add_mod bits a b m => expect o [U bits (zmod (eval a + eval b) (eval m))]
  | mul_mod bits a b m => expect o [U bits (zmod (eval a * eval b) (eval m))]
  | pow_mod bits a e m =>
      expect o [U bits (if eval m =? 0 then 0 else powmod (eval a) (eval e) (eval m))]
  | inv_mod bits a m => spec_inv bits (eval a) (eval m) o
  end.
