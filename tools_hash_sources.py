#!/usr/bin/env python3
"""Records the normalised hash of every /repo source file named by a property's anchors.
Run after every deliberate change of /repo (fix commits, hooks). ./check compares against it:
a changed anchored file never raises an alarm, it only multiplies the case budget."""
import json, os, sys
here = os.path.dirname(os.path.abspath(__file__))
sys.path.insert(0, here)
from vlib import common as C
files = set()
for l in open(os.path.join(here, "properties.jsonl")):
    files.update(json.loads(l)["anchors"]["files"])
out = {f: C.source_hash(os.path.join(C.REPO, f)) for f in sorted(files)}
json.dump(out, open(os.path.join(here, "vlib", "source_hashes.json"), "w"), indent=1)
print(len(out), "files hashed")
