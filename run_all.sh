#!/bin/sh
# Runs every claimed check once (tier from $1, default quick) and prints one summary line each.
cd "$(dirname "$0")"
TIER=${1:-quick}
rc=0
for id in $(python3 -c "import json; print(' '.join(c['property_id'] for c in json.load(open('MANIFEST.json'))['checks']))"); do
  out=$(./check $id --tier $TIER 2>&1 | grep -E "^(VIOLATION|KNOWN-FINDING|$id tier)" )
  echo "$out"
  echo "$out" | grep -q "^VIOLATION" && rc=1
done
exit $rc
