// C01: add / sub / neg through every public surface.
use ruint::Uint;
use vharness::*;

fn run<const BITS: usize, const LIMBS: usize>(f: &str, a: &[&str]) -> String {
    type U<const B: usize, const L: usize> = Uint<B, L>;
    let u = |i: usize| uint::<BITS, LIMBS>(a[i]);
    match f {
        "overflowing_add" => out_pair(u(0).overflowing_add(u(1))),
        "overflowing_sub" => out_pair(u(0).overflowing_sub(u(1))),
        "overflowing_neg" => out_pair(u(0).overflowing_neg()),
        "checked_add" => out_opt(u(0).checked_add(u(1))),
        "checked_sub" => out_opt(u(0).checked_sub(u(1))),
        "checked_neg" => out_opt(u(0).checked_neg()),
        "saturating_add" => out_uint(&u(0).saturating_add(u(1))),
        "saturating_sub" => out_uint(&u(0).saturating_sub(u(1))),
        "wrapping_add" => out_uint(&u(0).wrapping_add(u(1))),
        "wrapping_sub" => out_uint(&u(0).wrapping_sub(u(1))),
        "wrapping_neg" => out_uint(&u(0).wrapping_neg()),
        "abs_diff" => out_uint(&u(0).abs_diff(u(1))),
        "op_add" | "op_sub" => {
            let add = f == "op_add";
            let (x, y) = (u(1), u(2));
            let r: U<BITS, LIMBS> = match (z64(a[0]), add) {
                (0, true) => x + y,
                (1, true) => x + &y,
                (2, true) => &x + y,
                (3, true) => &x + &y,
                (4, true) => { let mut t = x; t += y; t }
                (5, true) => { let mut t = x; t += &y; t }
                (0, false) => x - y,
                (1, false) => x - &y,
                (2, false) => &x - y,
                (3, false) => &x - &y,
                (4, false) => { let mut t = x; t -= y; t }
                (5, false) => { let mut t = x; t -= &y; t }
                _ => return "X bad-shape".into(),
            };
            out_uint(&r)
        }
        "op_neg" => {
            let x = u(1);
            let r = match z64(a[0]) { 0 => -x, 1 => -&x, _ => return "X bad-shape".into() };
            out_uint(&r)
        }
        "sum" => {
            let xs: Vec<U<BITS, LIMBS>> = limbs_list(a[1])
                .into_iter()
                .map(|v| U::from_limbs(v.try_into().expect("wrong limb count")))
                .collect();
            let r: U<BITS, LIMBS> = match z64(a[0]) {
                0 => xs.iter().copied().sum(),
                1 => xs.iter().sum(),
                _ => return "X bad-shape".into(),
            };
            out_uint(&r)
        }
        _ => format!("X unknown-fn {f}"),
    }
}

fn main() {
    serve(|f, bits, a| with_bits!(bits, run(f, a)));
}
