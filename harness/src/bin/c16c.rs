// C16 / C17, group C: num-bigint, primitive-types, bytemuck, postgres, ark-ff 0.3 / 0.4.
// One bin for both parts (RunC16C: encoders and round trips, RunC17C: decoders).
#![allow(non_local_definitions)]
extern crate ark_ff_04 as ark_ff; // `derive(MontConfig)` expands to `ark_ff::` paths
use bytes::BytesMut;
use num_bigint::{BigInt, BigUint, Sign};
use postgres_types::{FromSql, ToSql, Type, WrongType};
use ruint::support::postgres::{FromSqlError, ToSqlError};
use ruint::{FromUintError, ParseError, BaseConvertError, ToUintError, Uint};
use std::error::Error;
use vharness::*;

mod a3 {
    pub use ark_ff_03::biginteger::*;
    pub use ark_ff_03::fields::models::*;
    pub use ark_ff_03::{FftParameters, FpParameters, PrimeField};
}
mod a4 {
    pub use ark_ff_04::biginteger::BigInt;
    pub use ark_ff_04::fields::models::{Fp, MontBackend, MontConfig};
    pub use ark_ff_04::PrimeField;
}

// ---- prime fields used to exercise the Fp conversions (third-party side) ----
// fld 0: p = 2^61 - 1 (1 limb); fld 1: BN254 base field (4 limbs); fld 2: BLS12-381 base field (6 limbs)

pub struct P61Params;
impl a3::Fp64Parameters for P61Params {}
impl a3::FftParameters for P61Params {
    type BigInt = a3::BigInteger64;
    const TWO_ADICITY: u32 = 1;
    const TWO_ADIC_ROOT_OF_UNITY: a3::BigInteger64 = a3::BigInteger64([0x8]);
}
impl a3::FpParameters for P61Params {
    const MODULUS: a3::BigInteger64 = a3::BigInteger64([0x1fffffffffffffff]);
    const MODULUS_BITS: u32 = 61;
    const CAPACITY: u32 = 60;
    const REPR_SHAVE_BITS: u32 = 3;
    const R: a3::BigInteger64 = a3::BigInteger64([0x8]);
    const R2: a3::BigInteger64 = a3::BigInteger64([0x40]);
    const INV: u64 = 0x2000000000000001;
    const GENERATOR: a3::BigInteger64 = a3::BigInteger64([0x8]);
    const MODULUS_MINUS_ONE_DIV_TWO: a3::BigInteger64 = a3::BigInteger64([0xfffffffffffffff]);
    const T: a3::BigInteger64 = a3::BigInteger64([0xfffffffffffffff]);
    const T_MINUS_ONE_DIV_TWO: a3::BigInteger64 = a3::BigInteger64([0x7ffffffffffffff]);
}
// modulus P61 0x1fffffffffffffff 2305843009213693951

pub struct BnParams;
impl a3::Fp256Parameters for BnParams {}
impl a3::FftParameters for BnParams {
    type BigInt = a3::BigInteger256;
    const TWO_ADICITY: u32 = 1;
    const TWO_ADIC_ROOT_OF_UNITY: a3::BigInteger256 = a3::BigInteger256([0xd35d438dc58f0d9d, 0xa78eb28f5c70b3d, 0x666ea36f7879462c, 0xe0a77c19a07df2f]);
}
impl a3::FpParameters for BnParams {
    const MODULUS: a3::BigInteger256 = a3::BigInteger256([0x3c208c16d87cfd47, 0x97816a916871ca8d, 0xb85045b68181585d, 0x30644e72e131a029]);
    const MODULUS_BITS: u32 = 254;
    const CAPACITY: u32 = 253;
    const REPR_SHAVE_BITS: u32 = 2;
    const R: a3::BigInteger256 = a3::BigInteger256([0xd35d438dc58f0d9d, 0xa78eb28f5c70b3d, 0x666ea36f7879462c, 0xe0a77c19a07df2f]);
    const R2: a3::BigInteger256 = a3::BigInteger256([0xf32cfc5b538afa89, 0xb5e71911d44501fb, 0x47ab1eff0a417ff6, 0x6d89f71cab8351f]);
    const INV: u64 = 0x87d20782e4866389;
    const GENERATOR: a3::BigInteger256 = a3::BigInteger256([0xd35d438dc58f0d9d, 0xa78eb28f5c70b3d, 0x666ea36f7879462c, 0xe0a77c19a07df2f]);
    const MODULUS_MINUS_ONE_DIV_TWO: a3::BigInteger256 = a3::BigInteger256([0x9e10460b6c3e7ea3, 0xcbc0b548b438e546, 0xdc2822db40c0ac2e, 0x183227397098d014]);
    const T: a3::BigInteger256 = a3::BigInteger256([0x9e10460b6c3e7ea3, 0xcbc0b548b438e546, 0xdc2822db40c0ac2e, 0x183227397098d014]);
    const T_MINUS_ONE_DIV_TWO: a3::BigInteger256 = a3::BigInteger256([0x4f082305b61f3f51, 0x65e05aa45a1c72a3, 0x6e14116da0605617, 0xc19139cb84c680a]);
}
// modulus Bn 0x30644e72e131a029b85045b68181585d97816a916871ca8d3c208c16d87cfd47 21888242871839275222246405745257275088696311157297823662689037894645226208583

pub struct BlsParams;
impl a3::Fp384Parameters for BlsParams {}
impl a3::FftParameters for BlsParams {
    type BigInt = a3::BigInteger384;
    const TWO_ADICITY: u32 = 1;
    const TWO_ADIC_ROOT_OF_UNITY: a3::BigInteger384 = a3::BigInteger384([0x760900000002fffd, 0xebf4000bc40c0002, 0x5f48985753c758ba, 0x77ce585370525745, 0x5c071a97a256ec6d, 0x15f65ec3fa80e493]);
}
impl a3::FpParameters for BlsParams {
    const MODULUS: a3::BigInteger384 = a3::BigInteger384([0xb9feffffffffaaab, 0x1eabfffeb153ffff, 0x6730d2a0f6b0f624, 0x64774b84f38512bf, 0x4b1ba7b6434bacd7, 0x1a0111ea397fe69a]);
    const MODULUS_BITS: u32 = 381;
    const CAPACITY: u32 = 380;
    const REPR_SHAVE_BITS: u32 = 3;
    const R: a3::BigInteger384 = a3::BigInteger384([0x760900000002fffd, 0xebf4000bc40c0002, 0x5f48985753c758ba, 0x77ce585370525745, 0x5c071a97a256ec6d, 0x15f65ec3fa80e493]);
    const R2: a3::BigInteger384 = a3::BigInteger384([0xf4df1f341c341746, 0xa76e6a609d104f1, 0x8de5476c4c95b6d5, 0x67eb88a9939d83c0, 0x9a793e85b519952d, 0x11988fe592cae3aa]);
    const INV: u64 = 0x89f3fffcfffcfffd;
    const GENERATOR: a3::BigInteger384 = a3::BigInteger384([0x760900000002fffd, 0xebf4000bc40c0002, 0x5f48985753c758ba, 0x77ce585370525745, 0x5c071a97a256ec6d, 0x15f65ec3fa80e493]);
    const MODULUS_MINUS_ONE_DIV_TWO: a3::BigInteger384 = a3::BigInteger384([0xdcff7fffffffd555, 0xf55ffff58a9ffff, 0xb39869507b587b12, 0xb23ba5c279c2895f, 0x258dd3db21a5d66b, 0xd0088f51cbff34d]);
    const T: a3::BigInteger384 = a3::BigInteger384([0xdcff7fffffffd555, 0xf55ffff58a9ffff, 0xb39869507b587b12, 0xb23ba5c279c2895f, 0x258dd3db21a5d66b, 0xd0088f51cbff34d]);
    const T_MINUS_ONE_DIV_TWO: a3::BigInteger384 = a3::BigInteger384([0xee7fbfffffffeaaa, 0x7aaffffac54ffff, 0xd9cc34a83dac3d89, 0xd91dd2e13ce144af, 0x92c6e9ed90d2eb35, 0x680447a8e5ff9a6]);
}
// modulus Bls 0x1a0111ea397fe69a4b1ba7b6434bacd764774b84f38512bf6730d2a0f6b0f6241eabfffeb153ffffb9feffffffffaaab 4002409555221667393417789825735904156556882819939007885332058136124031650490837864442687629129015664037894272559787

#[derive(a4::MontConfig)]
#[modulus = "2305843009213693951"]
#[generator = "37"]
pub struct P61Config;
#[derive(a4::MontConfig)]
#[modulus = "21888242871839275222246405745257275088696311157297823662689037894645226208583"]
#[generator = "3"]
pub struct BnConfig;
#[derive(a4::MontConfig)]
#[modulus = "4002409555221667393417789825735904156556882819939007885332058136124031650490837864442687629129015664037894272559787"]
#[generator = "2"]
pub struct BlsConfig;

type BoxErr = Box<dyn Error + Sync + Send>;

fn pg_type(code: u64) -> Option<Type> {
    Some(match code {
        0 => Type::BOOL,
        1 => Type::INT2,
        2 => Type::INT4,
        3 => Type::OID,
        4 => Type::INT8,
        5 => Type::FLOAT4,
        6 => Type::FLOAT8,
        7 => Type::MONEY,
        8 => Type::BYTEA,
        9 => Type::BIT,
        10 => Type::VARBIT,
        11 => Type::CHAR,
        12 => Type::TEXT,
        13 => Type::VARCHAR,
        14 => Type::JSON,
        15 => Type::JSONB,
        16 => Type::NUMERIC,
        17 => Type::TIMESTAMP, // not accepted
        18 => Type::UUID,      // not accepted
        _ => return None,
    })
}

/// to_sql error codes: 1 FromUintError<_> (value does not fit the integer type), 2 ToSqlError::Overflow,
/// 3 WrongType, 4 TryFromIntError
fn to_sql_err(e: &BoxErr) -> String {
    let c = if e.is::<FromUintError<bool>>()
        || e.is::<FromUintError<i16>>()
        || e.is::<FromUintError<i32>>()
        || e.is::<FromUintError<u32>>()
        || e.is::<FromUintError<i64>>()
    {
        1
    } else if e.is::<ToSqlError>() {
        2
    } else if e.is::<WrongType>() {
        3
    } else if e.is::<std::num::TryFromIntError>() {
        4
    } else {
        return format!("X unknown-to_sql-error {e:?}");
    };
    format!("E:{c}")
}

fn bc_err(e: &BaseConvertError) -> String {
    match e {
        BaseConvertError::Overflow => "E:1".into(),
        BaseConvertError::InvalidBase(b) => format!("E:2 Z:{b:x}"),
        BaseConvertError::InvalidDigit(d, b) => format!("E:3 Z:{d:x} Z:{b:x}"),
    }
}

/// from_sql error codes: 1 FromSqlError::Overflow, 2 FromSqlError::ParseError, 3 WrongType,
/// 4 TryFromSliceError, 5/6/7 ToUintError::{ValueTooLarge, ValueNegative, NotANumber} (+ BITS, wrapped),
/// 8 TryFromIntError, 9 Utf8Error, 10 ruint::ParseError (+ the C09 codes 4/5/6..), 11 BaseConvertError (+ C09 codes)
fn from_sql_err<const BITS: usize, const LIMBS: usize>(e: &BoxErr) -> String {
    if let Some(e) = e.downcast_ref::<FromSqlError>() {
        return match e {
            FromSqlError::Overflow => "E:1".into(),
            FromSqlError::ParseError(_) => "E:2".into(),
        };
    }
    if e.is::<WrongType>() {
        return "E:3".into();
    }
    if e.is::<std::array::TryFromSliceError>() {
        return "E:4".into();
    }
    if let Some(e) = e.downcast_ref::<ToUintError<Uint<BITS, LIMBS>>>() {
        return match e {
            ToUintError::ValueTooLarge(b, n) => format!("E:5 Z:{b:x} {}", out_uint(n)),
            ToUintError::ValueNegative(b, n) => format!("E:6 Z:{b:x} {}", out_uint(n)),
            ToUintError::NotANumber(b) => format!("E:7 Z:{b:x}"),
        };
    }
    if e.is::<std::num::TryFromIntError>() {
        return "E:8".into();
    }
    if e.is::<std::str::Utf8Error>() {
        return "E:9".into();
    }
    if let Some(e) = e.downcast_ref::<ParseError>() {
        return match e {
            ParseError::InvalidDigit(c) => format!("E:a E:4 Z:{:x}", *c as u32),
            ParseError::InvalidRadix(r) => format!("E:a E:5 Z:{r:x}"),
            ParseError::BaseConvertError(b) => format!("E:a E:6 {}", bc_err(b)),
        };
    }
    if let Some(e) = e.downcast_ref::<BaseConvertError>() {
        return format!("E:b {}", bc_err(e));
    }
    format!("X unknown-from_sql-error {e:?}")
}

fn pg_from<const BITS: usize, const LIMBS: usize>(ty: &Type, raw: &[u8]) -> String {
    match <Uint<BITS, LIMBS> as FromSql>::from_sql(ty, raw) {
        Ok(v) => out_uint(&v),
        Err(e) => from_sql_err::<BITS, LIMBS>(&e),
    }
}

/// `Z:[-]hex` of arbitrary size
fn bigint_arg(tok: &str) -> BigInt {
    let s = tok.strip_prefix("Z:").expect("Z token");
    BigInt::parse_bytes(s.as_bytes(), 16).expect("bad big hex")
}
fn out_to_uint<const BITS: usize, const LIMBS: usize>(
    r: Result<Uint<BITS, LIMBS>, ToUintError<Uint<BITS, LIMBS>>>,
) -> String {
    match r {
        Ok(n) => out_uint(&n),
        Err(ToUintError::ValueTooLarge(b, n)) => format!("E:1 Z:{b:x} {}", out_uint(&n)),
        Err(ToUintError::ValueNegative(b, n)) => format!("E:2 Z:{b:x} {}", out_uint(&n)),
        Err(ToUintError::NotANumber(b)) => format!("E:3 Z:{b:x}"),
    }
}
fn sign_code(s: Sign) -> u32 {
    match s {
        Sign::NoSign => 0,
        Sign::Plus => 1,
        Sign::Minus => 2,
    }
}
fn limb_arr<const LIMBS: usize>(tok: &str) -> [u64; LIMBS] {
    limbs(tok).try_into().expect("wrong limb count")
}

// ---------- calls available at every width ----------
fn run<const BITS: usize, const LIMBS: usize>(f: &str, a: &[&str]) -> String {
    type U<const B: usize, const L: usize> = Uint<B, L>;
    match f {
        // ---- num-bigint ----
        "bigint_to" => {
            let x: U<BITS, LIMBS> = uint(a[1]);
            match z64(a[0]) {
                0 => format!("Z:{:x}", BigUint::from(x)),
                1 => format!("Z:{:x}", BigUint::from(&x)),
                2 | 3 => {
                    let b = if z64(a[0]) == 2 { BigInt::from(x) } else { BigInt::from(&x) };
                    format!("Z:{:x} Z:{:x}", sign_code(b.sign()), b.magnitude())
                }
                _ => "X bad-kind".into(),
            }
        }
        "bigint_from" => {
            let v = bigint_arg(a[1]);
            match z64(a[0]) {
                0 => out_to_uint(U::<BITS, LIMBS>::try_from(v.to_biguint().expect("negative BigUint"))),
                1 => out_to_uint(U::<BITS, LIMBS>::try_from(&v.to_biguint().expect("negative BigUint"))),
                2 => out_to_uint(U::<BITS, LIMBS>::try_from(v)),
                3 => out_to_uint(U::<BITS, LIMBS>::try_from(&v)),
                _ => "X bad-kind".into(),
            }
        }
        "bigint_rt" => {
            let x: U<BITS, LIMBS> = uint(a[1]);
            match z64(a[0]) {
                0 => out_to_uint(U::<BITS, LIMBS>::try_from(BigUint::from(x))),
                1 => out_to_uint(U::<BITS, LIMBS>::try_from(&BigUint::from(&x))),
                2 => out_to_uint(U::<BITS, LIMBS>::try_from(BigInt::from(x))),
                3 => out_to_uint(U::<BITS, LIMBS>::try_from(&BigInt::from(&x))),
                _ => "X bad-kind".into(),
            }
        }
        // ---- bytemuck: Zeroable at every width ----
        "bm_zeroed" => out_uint(&<U<BITS, LIMBS> as bytemuck::Zeroable>::zeroed()),
        // ---- postgres ----
        "pg_accepts" => {
            let Some(ty) = pg_type(z64(a[0])) else { return "X bad-type".into() };
            format!(
                "{} {}",
                out_bool(<U<BITS, LIMBS> as ToSql>::accepts(&ty)),
                out_bool(<U<BITS, LIMBS> as FromSql>::accepts(&ty))
            )
        }
        "pg_to_sql" => {
            let Some(ty) = pg_type(z64(a[0])) else { return "X bad-type".into() };
            let x: U<BITS, LIMBS> = uint(a[1]);
            let mut out = BytesMut::new();
            match x.to_sql(&ty, &mut out) {
                Ok(postgres_types::IsNull::No) => out_bytes(&out),
                Ok(postgres_types::IsNull::Yes) => "X is-null".into(),
                Err(e) => format!("{} {}", to_sql_err(&e), out_bytes(&out)),
            }
        }
        "pg_from_sql" => {
            let Some(ty) = pg_type(z64(a[0])) else { return "X bad-type".into() };
            pg_from::<BITS, LIMBS>(&ty, &bytes(a[1]))
        }
        "pg_rt" => {
            let Some(ty) = pg_type(z64(a[0])) else { return "X bad-type".into() };
            let x: U<BITS, LIMBS> = uint(a[1]);
            let mut out = BytesMut::new();
            match x.to_sql(&ty, &mut out) {
                Ok(_) => format!("S {}", pg_from::<BITS, LIMBS>(&ty, &out)),
                Err(e) => format!("N {}", to_sql_err(&e)),
            }
        }
        // ---- ark-ff 0.4: BigInt<LIMBS> <-> Uint<BITS, LIMBS> for every BITS ----
        "ark04_to" => {
            let x: U<BITS, LIMBS> = uint(a[1]);
            let b: a4::BigInt<LIMBS> = if z64(a[0]) == 0 { x.into() } else { (&x).into() };
            out_limbs(&b.0)
        }
        "ark04_from" => {
            let b = a4::BigInt::<LIMBS>::new(limb_arr::<LIMBS>(a[1]));
            let x: U<BITS, LIMBS> = if z64(a[0]) == 0 { b.into() } else { (&b).into() };
            out_uint(&x)
        }
        "ark04_rt" => {
            let x: U<BITS, LIMBS> = uint(a[1]);
            let b: a4::BigInt<LIMBS> = if z64(a[0]) == 0 { x.into() } else { (&x).into() };
            let y: U<BITS, LIMBS> = if z64(a[0]) == 0 { b.into() } else { (&b).into() };
            out_uint(&y)
        }
        _ => fixed(f, BITS, a),
    }
}

// ark-ff 0.4 field conversions, generic in BITS for a field of LIMBS limbs
fn ark04_fp<C: a4::MontConfig<LIMBS>, const BITS: usize, const LIMBS: usize>(f: &str, a: &[&str]) -> String {
    type F<C, const L: usize> = a4::Fp<a4::MontBackend<C, L>, L>;
    use a4::PrimeField;
    let kind = z64(a[1]);
    match f {
        "ark04_fp_try_from" | "ark04_fp_rt" => {
            let x: Uint<BITS, LIMBS> = uint(a[2]);
            let r: Result<F<C, LIMBS>, ruint::ToFieldError> =
                if kind == 0 { F::<C, LIMBS>::try_from(x) } else { F::<C, LIMBS>::try_from(&x) };
            match r {
                Err(ruint::ToFieldError::NotInField) => "E:1".into(),
                Ok(fp) if f == "ark04_fp_try_from" => out_limbs(&fp.into_bigint().0),
                Ok(fp) => {
                    let y: Uint<BITS, LIMBS> = if kind == 0 { fp.into() } else { (&fp).into() };
                    out_uint(&y)
                }
            }
        }
        "ark04_fp_into" => {
            let Some(fp) = F::<C, LIMBS>::from_bigint(a4::BigInt::new(limb_arr::<LIMBS>(a[2]))) else {
                return "X not-a-field-element".into();
            };
            let y: Uint<BITS, LIMBS> = if kind == 0 { fp.into() } else { (&fp).into() };
            out_uint(&y)
        }
        _ => format!("X unknown-fn {f}"),
    }
}

macro_rules! ark03_int {
    ($f:expr, $a:expr, $ty:ty, $bits:literal, $limbs:literal) => {{
        let kind = z64($a[0]);
        match $f {
            "ark03_to" => {
                let x: Uint<$bits, $limbs> = uint($a[1]);
                let b: $ty = if kind == 0 { x.into() } else { (&x).into() };
                out_limbs(&b.0)
            }
            "ark03_from" => {
                let b = <$ty>::new(limb_arr::<$limbs>($a[1]));
                let x: Uint<$bits, $limbs> = if kind == 0 { b.into() } else { (&b).into() };
                out_uint(&x)
            }
            _ => {
                let x: Uint<$bits, $limbs> = uint($a[1]);
                let b: $ty = if kind == 0 { x.into() } else { (&x).into() };
                let y: Uint<$bits, $limbs> = if kind == 0 { b.into() } else { (&b).into() };
                out_uint(&y)
            }
        }
    }};
}
macro_rules! ark03_fp {
    ($f:expr, $a:expr, $fp:ty, $big:ty, $bits:literal, $limbs:literal) => {{
        use a3::PrimeField;
        let kind = z64($a[1]);
        match $f {
            "ark03_fp_try_from" | "ark03_fp_rt" => {
                let x: Uint<$bits, $limbs> = uint($a[2]);
                let r: Result<$fp, ruint::ToFieldError> =
                    if kind == 0 { <$fp>::try_from(x) } else { <$fp>::try_from(&x) };
                match r {
                    Err(ruint::ToFieldError::NotInField) => "E:1".into(),
                    Ok(fp) if $f == "ark03_fp_try_from" => out_limbs(&fp.into_repr().0),
                    Ok(fp) => {
                        let y: Uint<$bits, $limbs> = if kind == 0 { fp.into() } else { (&fp).into() };
                        out_uint(&y)
                    }
                }
            }
            "ark03_fp_into" => match <$fp>::from_repr(<$big>::new(limb_arr::<$limbs>($a[2]))) {
                None => "X not-a-field-element".to_string(),
                Some(fp) => {
                    let y: Uint<$bits, $limbs> = if kind == 0 { fp.into() } else { (&fp).into() };
                    out_uint(&y)
                }
            },
            _ => format!("X unknown-fn {}", $f),
        }
    }};
}
macro_rules! pt_int {
    ($f:expr, $a:expr, $theirs:ty, $bits:literal, $limbs:literal) => {{
        match $f {
            "pt_to" => {
                let x: Uint<$bits, $limbs> = uint($a[0]);
                let t: $theirs = x.into();
                out_limbs(&t.0)
            }
            "pt_from" => {
                let t = <$theirs>::default();
                let mut t = t;
                t.0 = limb_arr::<$limbs>($a[0]);
                let x: Uint<$bits, $limbs> = t.into();
                out_uint(&x)
            }
            _ => {
                let x: Uint<$bits, $limbs> = uint($a[0]);
                let t: $theirs = x.into();
                let y: Uint<$bits, $limbs> = t.into();
                out_uint(&y)
            }
        }
    }};
}
macro_rules! pt_hash {
    ($f:expr, $a:expr, $theirs:ty, $bits:literal, $limbs:literal, $bytes:literal) => {{
        type Ours = ruint::Bits<$bits, $limbs>;
        match $f {
            "pth_to" => {
                let x: Ours = uint::<$bits, $limbs>($a[0]).into();
                let t: $theirs = x.into();
                out_bytes(&t.0)
            }
            "pth_from" => {
                let v: [u8; $bytes] = bytes($a[0]).try_into().expect("wrong hash length");
                let x: Ours = <$theirs>::from(v).into();
                out_uint(x.as_uint())
            }
            _ => {
                let x: Ours = uint::<$bits, $limbs>($a[0]).into();
                let t: $theirs = x.into();
                let y: Ours = t.into();
                out_uint(y.as_uint())
            }
        }
    }};
}
macro_rules! bm {
    ($f:expr, $a:expr, $bits:literal, $limbs:literal) => {{
        type U = Uint<$bits, $limbs>;
        match $f {
            "bm_bytes_of" => out_bytes(bytemuck::bytes_of(&uint::<$bits, $limbs>($a[0]))),
            "bm_read" => match bytemuck::try_pod_read_unaligned::<U>(&bytes($a[0])) {
                Ok(x) => out_uint(&x),
                Err(bytemuck::PodCastError::SizeMismatch) => "E:1".to_string(),
                Err(e) => format!("X pod-cast-error {e:?}"),
            },
            "bm_cast_to" => out_limbs(&bytemuck::cast::<U, [u64; $limbs]>(uint::<$bits, $limbs>($a[0]))),
            "bm_cast_from" => out_uint(&bytemuck::cast::<[u64; $limbs], U>(limb_arr::<$limbs>($a[0]))),
            _ => {
                let x = uint::<$bits, $limbs>($a[0]);
                match bytemuck::try_pod_read_unaligned::<U>(bytemuck::bytes_of(&x)) {
                    Ok(y) => out_uint(&y),
                    Err(_) => "E:1".to_string(),
                }
            }
        }
    }};
}

// ---------- calls that exist at particular widths only ----------
fn fixed(f: &str, bits: usize, a: &[&str]) -> String {
    use primitive_types as pt;
    match f {
        "pt_to" | "pt_from" | "pt_rt" => match bits {
            128 => pt_int!(f, a, pt::U128, 128, 2),
            256 => pt_int!(f, a, pt::U256, 256, 4),
            512 => pt_int!(f, a, pt::U512, 512, 8),
            _ => "X unsupported-width".into(),
        },
        "pth_to" | "pth_from" | "pth_rt" => match bits {
            128 => pt_hash!(f, a, pt::H128, 128, 2, 16),
            160 => pt_hash!(f, a, pt::H160, 160, 3, 20),
            256 => pt_hash!(f, a, pt::H256, 256, 4, 32),
            512 => pt_hash!(f, a, pt::H512, 512, 8, 64),
            _ => "X unsupported-width".into(),
        },
        "bm_bytes_of" | "bm_read" | "bm_cast_to" | "bm_cast_from" | "bm_rt" => match bits {
            64 => bm!(f, a, 64, 1),
            128 => bm!(f, a, 128, 2),
            192 => bm!(f, a, 192, 3),
            256 => bm!(f, a, 256, 4),
            320 => bm!(f, a, 320, 5),
            384 => bm!(f, a, 384, 6),
            448 => bm!(f, a, 448, 7),
            512 => bm!(f, a, 512, 8),
            576 => bm!(f, a, 576, 9),
            640 => bm!(f, a, 640, 10),
            704 => bm!(f, a, 704, 11),
            768 => bm!(f, a, 768, 12),
            832 => bm!(f, a, 832, 13),
            896 => bm!(f, a, 896, 14),
            960 => bm!(f, a, 960, 15),
            1024 => bm!(f, a, 1024, 16),
            _ => "X unsupported-width".into(),
        },
        "ark03_to" | "ark03_from" | "ark03_rt" => match bits {
            64 => ark03_int!(f, a, a3::BigInteger64, 64, 1),
            128 => ark03_int!(f, a, a3::BigInteger128, 128, 2),
            256 => ark03_int!(f, a, a3::BigInteger256, 256, 4),
            320 => ark03_int!(f, a, a3::BigInteger320, 320, 5),
            384 => ark03_int!(f, a, a3::BigInteger384, 384, 6),
            448 => ark03_int!(f, a, a3::BigInteger448, 448, 7),
            768 => ark03_int!(f, a, a3::BigInteger768, 768, 12),
            832 => ark03_int!(f, a, a3::BigInteger832, 832, 13),
            _ => "X unsupported-width".into(),
        },
        "ark03_fp_try_from" | "ark03_fp_into" | "ark03_fp_rt" => match (bits, z64(a[0])) {
            (64, 0) => ark03_fp!(f, a, a3::Fp64<P61Params>, a3::BigInteger64, 64, 1),
            (256, 1) => ark03_fp!(f, a, a3::Fp256<BnParams>, a3::BigInteger256, 256, 4),
            (384, 2) => ark03_fp!(f, a, a3::Fp384<BlsParams>, a3::BigInteger384, 384, 6),
            _ => "X unsupported-width-or-field".into(),
        },
        "ark04_fp_try_from" | "ark04_fp_into" | "ark04_fp_rt" => {
            macro_rules! go {
                ($cfg:ty, $limbs:literal; $($b:literal),*) => {
                    match bits { $( $b => ark04_fp::<$cfg, $b, $limbs>(f, a), )* _ => "X unsupported-width".into() }
                };
            }
            match z64(a[0]) {
                0 => go!(P61Config, 1; 1, 2, 3, 5, 7, 8, 9, 16, 31, 33, 60, 63, 64),
                1 => go!(BnConfig, 4; 250, 255, 256),
                2 => go!(BlsConfig, 6; 384),
                _ => "X unsupported-field".into(),
            }
        }
        _ => format!("X unknown-fn {f}"),
    }
}

fn main() {
    serve(|f, bits, a| {
        if WIDTHS.contains(&bits) {
            with_bits!(bits, run(f, a))
        } else {
            fixed(f, bits, a)
        }
    });
}
