// C16 / C17, group A: serde (serde_json, bincode), rlp, alloy-rlp, fastrlp 0.3 / 0.4 through
// the trait impls of src/support/{serde,rlp,alloy_rlp,fastrlp_03,fastrlp_04}.rs.
// Serves both Run/RunC16A.v (encoders, round trips) and Run/RunC17A.v (decoders on raw input).
// Build with --features codecs_a.
use ruint::{Bits, Uint};
use serde::de::IntoDeserializer;
use serde::Deserialize;
use vharness::*;

/// The value as a primitive when it fits (built from the limbs, not through ruint's conversions).
fn low_u128(l: &[u64]) -> Option<u128> {
    if l.iter().skip(2).any(|&x| x != 0) {
        return None;
    }
    let lo = l.first().copied().unwrap_or(0) as u128;
    let hi = l.get(1).copied().unwrap_or(0) as u128;
    Some(lo | (hi << 64))
}
fn low_u64(l: &[u64]) -> Option<u64> {
    low_u128(l).and_then(|v| u64::try_from(v).ok())
}
fn opt_bytes(o: Option<Vec<u8>>) -> String {
    match o {
        Some(b) => out_bytes(&b),
        None => "N".into(),
    }
}
fn err(code: u32) -> String {
    format!("E:{code:x}")
}

fn rlp_code(e: &rlp::DecoderError) -> u32 {
    use rlp::DecoderError::*;
    match e {
        RlpIsTooBig => 1,
        RlpIsTooShort => 2,
        RlpExpectedToBeList => 3,
        RlpExpectedToBeData => 4,
        RlpIncorrectListLen => 5,
        RlpDataLenWithZeroPrefix => 6,
        RlpListLenWithZeroPrefix => 7,
        RlpInvalidIndirection => 8,
        RlpInconsistentLengthAndData => 9,
        RlpInvalidLength => 10,
        Custom(_) => 11,
    }
}
fn alloy_code(e: &alloy_rlp::Error) -> u32 {
    use alloy_rlp::Error::*;
    match e {
        Overflow => 1,
        LeadingZero => 2,
        InputTooShort => 3,
        NonCanonicalSingleByte => 4,
        NonCanonicalSize => 5,
        UnexpectedLength => 6,
        UnexpectedString => 7,
        UnexpectedList => 8,
        ListLengthMismatch { .. } => 9,
        Custom(_) => 10,
    }
}
macro_rules! fast_code {
    ($name:ident, $krate:ident) => {
        fn $name(e: &$krate::DecodeError) -> u32 {
            use $krate::DecodeError::*;
            match e {
                Overflow => 1,
                LeadingZero => 2,
                InputTooShort { .. } => 3,
                NonCanonicalSingleByte => 4,
                NonCanonicalSize => 5,
                UnexpectedLength => 6,
                UnexpectedString => 7,
                UnexpectedList => 8,
                ListLengthMismatch { .. } => 9,
                Custom(_) => 10,
            }
        }
    };
}
fast_code!(f03_code, fastrlp_03);
fast_code!(f04_code, fastrlp_04);

/// encode / length / decode for the three `Header`-based crates (same trait shapes).
macro_rules! strict_rlp {
    ($krate:ident, $code:ident, $op:expr, $x:expr, $inp:expr, $BITS:ident, $LIMBS:ident) => {{
        type U<const B: usize, const L: usize> = Uint<B, L>;
        let enc = |x: &U<$BITS, $LIMBS>| {
            let mut out: Vec<u8> = Vec::new();
            $krate::Encodable::encode(x, &mut out);
            out
        };
        let dec = |inp: &[u8]| {
            let mut buf = inp;
            match <U<$BITS, $LIMBS> as $krate::Decodable>::decode(&mut buf) {
                Ok(v) => format!("{} {}", out_uint(&v), out_z((inp.len() - buf.len()) as u128)),
                Err(e) => err($code(&e)),
            }
        };
        match $op {
            "encode" => {
                let x = $x;
                let p64 = low_u64(x.as_limbs()).map(|v| {
                    let mut o: Vec<u8> = Vec::new();
                    $krate::Encodable::encode(&v, &mut o);
                    o
                });
                let p128 = low_u128(x.as_limbs()).map(|v| {
                    let mut o: Vec<u8> = Vec::new();
                    $krate::Encodable::encode(&v, &mut o);
                    o
                });
                format!("{} {} {}", out_bytes(&enc(&x)), opt_bytes(p64), opt_bytes(p128))
            }
            "length" => {
                let x = $x;
                format!(
                    "{} {}",
                    out_z($krate::Encodable::length(&x) as u128),
                    out_z(<U<$BITS, $LIMBS> as $krate::MaxEncodedLenAssoc>::LEN as u128)
                )
            }
            "roundtrip" => dec(&enc(&$x)),
            "decode" => dec(&$inp),
            _ => "X unknown-op".into(),
        }
    }};
}

fn out_res<const BITS: usize, const LIMBS: usize, E>(
    r: Result<Uint<BITS, LIMBS>, E>,
    code: impl Fn(&E) -> u32,
) -> String {
    match r {
        Ok(v) => out_uint(&v),
        Err(e) => err(code(&e)),
    }
}

fn run<const BITS: usize, const LIMBS: usize>(f: &str, a: &[&str]) -> String {
    type U<const B: usize, const L: usize> = Uint<B, L>;
    type Bt<const B: usize, const L: usize> = Bits<B, L>;
    let u = || uint::<BITS, LIMBS>(a[0]);
    let y = || bytes(a[0]);
    if let Some(op) = f.strip_prefix("alloy_rlp_") {
        return strict_rlp!(alloy_rlp, alloy_code, op, u(), y(), BITS, LIMBS);
    }
    if let Some(op) = f.strip_prefix("fastrlp03_") {
        return strict_rlp!(fastrlp_03, f03_code, op, u(), y(), BITS, LIMBS);
    }
    if let Some(op) = f.strip_prefix("fastrlp04_") {
        return strict_rlp!(fastrlp_04, f04_code, op, u(), y(), BITS, LIMBS);
    }
    match f {
        // ---- rlp 0.5
        "rlp_encode" => {
            let x = u();
            let enc = rlp::Encodable::rlp_bytes(&x).to_vec();
            let p64 = low_u64(x.as_limbs()).map(|v| rlp::Encodable::rlp_bytes(&v).to_vec());
            let p128 = low_u128(x.as_limbs()).map(|v| rlp::Encodable::rlp_bytes(&v).to_vec());
            format!("{} {} {}", out_bytes(&enc), opt_bytes(p64), opt_bytes(p128))
        }
        "rlp_roundtrip" => {
            let enc = rlp::Encodable::rlp_bytes(&u()).to_vec();
            out_res(<U<BITS, LIMBS> as rlp::Decodable>::decode(&rlp::Rlp::new(&enc)), rlp_code)
        }
        "rlp_decode" => {
            let inp = y();
            out_res(<U<BITS, LIMBS> as rlp::Decodable>::decode(&rlp::Rlp::new(&inp)), rlp_code)
        }
        "bits_rlp_encode" => {
            let x = Bt::<BITS, LIMBS>::from(u());
            out_bytes(&rlp::Encodable::rlp_bytes(&x))
        }
        "bits_rlp_roundtrip" => {
            let enc = rlp::Encodable::rlp_bytes(&Bt::<BITS, LIMBS>::from(u())).to_vec();
            let r = <Bt<BITS, LIMBS> as rlp::Decodable>::decode(&rlp::Rlp::new(&enc));
            out_res(r.map(|b| *b.as_uint()), rlp_code)
        }
        "bits_rlp_decode" => {
            let inp = y();
            let r = <Bt<BITS, LIMBS> as rlp::Decodable>::decode(&rlp::Rlp::new(&inp));
            out_res(r.map(|b| *b.as_uint()), rlp_code)
        }
        // ---- serde: serde_json (human readable), bincode (binary)
        "serde_json_ser" => out_bytes(serde_json::to_string(&u()).unwrap().as_bytes()),
        "serde_json_roundtrip" => {
            let s = serde_json::to_string(&u()).unwrap();
            out_res(serde_json::from_str::<U<BITS, LIMBS>>(&s), |_| 1)
        }
        "serde_json_de" => out_res(serde_json::from_slice::<U<BITS, LIMBS>>(&y()), |_| 1),
        "bits_serde_json_ser" => {
            out_bytes(serde_json::to_string(&Bt::<BITS, LIMBS>::from(u())).unwrap().as_bytes())
        }
        "bits_serde_json_roundtrip" => {
            let s = serde_json::to_string(&Bt::<BITS, LIMBS>::from(u())).unwrap();
            out_res(serde_json::from_str::<Bt<BITS, LIMBS>>(&s).map(|b| *b.as_uint()), |_| 1)
        }
        "bincode_ser" => {
            let x = u();
            format!(
                "{} {}",
                out_bytes(&bincode::serialize(&x).unwrap()),
                out_z(bincode::serialized_size(&x).unwrap() as u128)
            )
        }
        "bincode_roundtrip" => {
            let enc = bincode::serialize(&u()).unwrap();
            out_res(bincode::deserialize::<U<BITS, LIMBS>>(&enc), |_| 1)
        }
        "bincode_de" => out_res(bincode::deserialize::<U<BITS, LIMBS>>(&y()), |_| 1),
        "bits_bincode_ser" => out_bytes(&bincode::serialize(&Bt::<BITS, LIMBS>::from(u())).unwrap()),
        "bits_bincode_roundtrip" => {
            let enc = bincode::serialize(&Bt::<BITS, LIMBS>::from(u())).unwrap();
            out_res(bincode::deserialize::<Bt<BITS, LIMBS>>(&enc).map(|b| *b.as_uint()), |_| 1)
        }
        // the visitor's integer entry points, through serde's own value deserializers
        "serde_value_u64" => {
            let d: serde::de::value::U64Deserializer<serde::de::value::Error> =
                z64(a[0]).into_deserializer();
            out_res(U::<BITS, LIMBS>::deserialize(d), |_| 1)
        }
        "serde_value_u128" => {
            let d: serde::de::value::U128Deserializer<serde::de::value::Error> =
                z128(a[0]).into_deserializer();
            out_res(U::<BITS, LIMBS>::deserialize(d), |_| 1)
        }
        _ => format!("X unknown-fn {f}"),
    }
}

fn main() {
    serve(|f, bits, a| with_bits!(bits, run(f, a)));
}
