// C18: float <-> Uint conversions through every public surface.
// Floats travel as IEEE bit patterns (`Z:<to_bits() in hex>`).
use ruint::{ToUintError, Uint};
use vharness::*;

fn out_res<const BITS: usize, const LIMBS: usize>(
    r: Result<Uint<BITS, LIMBS>, ToUintError<Uint<BITS, LIMBS>>>,
) -> String {
    match r {
        Ok(n) => out_uint(&n),
        Err(ToUintError::ValueTooLarge(b, w)) => format!("E:1 {} {}", out_z(b as u128), out_uint(&w)),
        Err(ToUintError::ValueNegative(b, w)) => format!("E:2 {} {}", out_z(b as u128), out_uint(&w)),
        Err(ToUintError::NotANumber(b)) => format!("E:3 {}", out_z(b as u128)),
    }
}

fn run<const BITS: usize, const LIMBS: usize>(f: &str, a: &[&str]) -> String {
    type U<const B: usize, const L: usize> = Uint<B, L>;
    let d = |i: usize| f64::from_bits(z64(a[i]));
    let s = |i: usize| f32::from_bits(u32::try_from(z64(a[i])).expect("f32 pattern"));
    let u = |i: usize| uint::<BITS, LIMBS>(a[i]);
    let o64 = |x: f64| out_z(x.to_bits() as u128);
    let o32 = |x: f32| out_z(x.to_bits() as u128);
    match f {
        "try_from_f64" => out_res(U::<BITS, LIMBS>::try_from(d(0))),
        "try_from_f32" => out_res(U::<BITS, LIMBS>::try_from(s(0))),
        "from_f64" => out_uint(&U::<BITS, LIMBS>::from(d(0))),
        "from_f32" => out_uint(&U::<BITS, LIMBS>::from(s(0))),
        "saturating_from_f64" => out_uint(&U::<BITS, LIMBS>::saturating_from(d(0))),
        "saturating_from_f32" => out_uint(&U::<BITS, LIMBS>::saturating_from(s(0))),
        "wrapping_from_f64" => out_uint(&U::<BITS, LIMBS>::wrapping_from(d(0))),
        "wrapping_from_f32" => out_uint(&U::<BITS, LIMBS>::wrapping_from(s(0))),
        "to_f64" => {
            let x = u(1);
            match z64(a[0]) {
                0 => o64(f64::from(x)),
                1 => o64(f64::from(&x)),
                _ => "X bad-shape".into(),
            }
        }
        "to_f32" => {
            let x = u(1);
            match z64(a[0]) {
                0 => o32(f32::from(x)),
                1 => o32(f32::from(&x)),
                _ => "X bad-shape".into(),
            }
        }
        "to_f64_pair" => format!("{} {}", o64(f64::from(&u(0))), o64(f64::from(&u(1)))),
        "to_f32_pair" => format!("{} {}", o32(f32::from(&u(0))), o32(f32::from(&u(1)))),
        _ => format!("X unknown-fn {f}"),
    }
}

fn main() {
    serve(|f, bits, a| with_bits!(bits, run(f, a)));
}
