// C10: modular arithmetic through the public methods of Uint.
use ruint::Uint;
use vharness::*;

fn run<const BITS: usize, const LIMBS: usize>(f: &str, a: &[&str]) -> String {
    let u = |i: usize| uint::<BITS, LIMBS>(a[i]);
    match f {
        "reduce_mod" => out_uint(&u(0).reduce_mod(u(1))),
        "add_mod" => out_uint(&u(0).add_mod(u(1), u(2))),
        "mul_mod" => out_uint(&u(0).mul_mod(u(1), u(2))),
        "pow_mod" => out_uint(&u(0).pow_mod(u(1), u(2))),
        "inv_mod" => out_opt(u(0).inv_mod(u(1))),
        _ => format!("X unknown-fn {f}"),
    }
}

fn main() {
    serve(|f, bits, a| with_bits!(bits, run(f, a)));
}
