// C07: integer conversions (src/from.rs integer part, limb-slice constructors of src/lib.rs)
// through every public surface. Case lines:
//   pf_*  bits Z:ty Z:x          primitive -> Uint<bits>
//   uu_*from* bits Z:sbits L:a   Uint<sbits> -> Uint<bits>
//   pt_try_from bits Z:ty Z:shape L:a ; pt_* bits Z:ty L:a   Uint<bits> -> primitive
//   uu_*to bits Z:dbits L:a      Uint<bits> -> Uint<dbits>
//   *_from_limbs_slice bits L:s
// ty: 0 bool, 1 u8, 2 u16, 3 u32, 4 u64, 5 u128, 6 usize, 7 i8, 8 i16, 9 i32, 10 i64, 11 i128,
// 12 isize. Errors: E:1 ValueTooLarge, E:2 ValueNegative, E:3 NotANumber, E:4 Overflow.
#![allow(deprecated)]
use ruint::{FromUintError, ToUintError, Uint, UintTryFrom, UintTryTo};
use std::fmt::Debug;
use vharness::*;

fn zsigned(tok: &str) -> Option<(bool, u128)> {
    let s = tok.strip_prefix("Z:")?;
    match s.strip_prefix('-') {
        Some(m) => Some((true, u128::from_str_radix(m, 16).ok()?)),
        None => Some((false, u128::from_str_radix(s, 16).ok()?)),
    }
}

trait Prim: Copy {
    fn mk(neg: bool, mag: u128) -> Option<Self>;
    fn show(self) -> String;
}
impl Prim for bool {
    fn mk(neg: bool, mag: u128) -> Option<Self> {
        if neg || mag > 1 { None } else { Some(mag == 1) }
    }
    fn show(self) -> String {
        out_bool(self)
    }
}
macro_rules! prim_u { ($($t:ty)*) => {$(
    impl Prim for $t {
        fn mk(neg: bool, mag: u128) -> Option<Self> {
            if neg { None } else { <$t>::try_from(mag).ok() }
        }
        fn show(self) -> String { format!("Z:{:x}", self) }
    }
)*}}
prim_u!(u8 u16 u32 u64 u128 usize);
macro_rules! prim_i { ($($t:ty)*) => {$(
    impl Prim for $t {
        fn mk(neg: bool, mag: u128) -> Option<Self> {
            let v: i128 = if neg {
                if mag > (1u128 << 127) { return None; }
                (mag as i128).wrapping_neg()
            } else {
                i128::try_from(mag).ok()?
            };
            <$t>::try_from(v).ok()
        }
        fn show(self) -> String {
            if self < 0 { format!("Z:-{:x}", self.unsigned_abs()) } else { format!("Z:{:x}", self) }
        }
    }
)*}}
prim_i!(i8 i16 i32 i64 i128 isize);

fn show_to<const B: usize, const L: usize>(
    r: Result<Uint<B, L>, ToUintError<Uint<B, L>>>,
) -> String {
    match r {
        Ok(n) => out_uint(&n),
        Err(ToUintError::ValueTooLarge(b, n)) => format!("E:1 Z:{:x} {}", b, out_uint(&n)),
        Err(ToUintError::ValueNegative(b, n)) => format!("E:2 Z:{:x} {}", b, out_uint(&n)),
        Err(ToUintError::NotANumber(b)) => format!("E:3 Z:{:x}", b),
    }
}
fn show_from<T: Prim>(r: Result<T, FromUintError<T>>) -> String {
    match r {
        Ok(v) => v.show(),
        Err(FromUintError::Overflow(b, w, m)) => format!("E:4 Z:{:x} {} {}", b, w.show(), m.show()),
    }
}

// primitive -> Uint
fn pf<T: Prim, const B: usize, const L: usize>(f: &str, neg: bool, mag: u128) -> String
where
    Uint<B, L>: TryFrom<T, Error = ToUintError<Uint<B, L>>> + UintTryFrom<T>,
{
    let Some(x) = T::mk(neg, mag) else { return "X bad-arg".into() };
    match f {
        "pf_try_from" => show_to(<Uint<B, L> as TryFrom<T>>::try_from(x)),
        "pf_uint_try_from" => show_to(<Uint<B, L> as UintTryFrom<T>>::uint_try_from(x)),
        "pf_from" => out_uint(&Uint::<B, L>::from(x)),
        "pf_wrapping_from" => out_uint(&Uint::<B, L>::wrapping_from(x)),
        "pf_saturating_from" => out_uint(&Uint::<B, L>::saturating_from(x)),
        _ => format!("X unknown-fn {f}"),
    }
}

// Uint -> primitive
fn pt<T: Prim + Debug, const B: usize, const L: usize>(f: &str, shape: u64, u: Uint<B, L>) -> String
where
    T: TryFrom<Uint<B, L>, Error = FromUintError<T>>
        + for<'a> TryFrom<&'a Uint<B, L>, Error = FromUintError<T>>,
    Uint<B, L>: UintTryTo<T>,
{
    match f {
        "pt_try_from" => match shape {
            0 => show_from(<T as TryFrom<Uint<B, L>>>::try_from(u)),
            1 => show_from(<T as TryFrom<&Uint<B, L>>>::try_from(&u)),
            _ => "X bad-shape".into(),
        },
        "pt_uint_try_to" => show_from(<Uint<B, L> as UintTryTo<T>>::uint_try_to(&u)),
        "pt_to" => u.to::<T>().show(),
        "pt_wrapping_to" => u.wrapping_to::<T>().show(),
        "pt_saturating_to" => u.saturating_to::<T>().show(),
        _ => format!("X unknown-fn {f}"),
    }
}

macro_rules! with_ty {
    ($ty:expr, $f:ident, $B:ident, $L:ident, $args:tt) => {
        match $ty {
            0 => $f::<bool, $B, $L> $args,
            1 => $f::<u8, $B, $L> $args,
            2 => $f::<u16, $B, $L> $args,
            3 => $f::<u32, $B, $L> $args,
            4 => $f::<u64, $B, $L> $args,
            5 => $f::<u128, $B, $L> $args,
            6 => $f::<usize, $B, $L> $args,
            7 => $f::<i8, $B, $L> $args,
            8 => $f::<i16, $B, $L> $args,
            9 => $f::<i32, $B, $L> $args,
            10 => $f::<i64, $B, $L> $args,
            11 => $f::<i128, $B, $L> $args,
            12 => $f::<isize, $B, $L> $args,
            _ => "X bad-type".to_string(),
        }
    };
}

// Uint <-> Uint: second width from a fixed grid
macro_rules! with_other {
    ($o:expr, $f:ident, $B:ident, $L:ident, $args:tt) => {
        with_other!(@m $o, $f, $B, $L, $args; 0 0, 1 1, 7 1, 8 1, 63 1, 64 1, 65 2, 128 2, 129 3, 256 4)
    };
    (@m $o:expr, $f:ident, $B:ident, $L:ident, $args:tt; $($b:literal $l:literal),*) => {
        match $o {
            $( $b => $f::<$B, $L, $b, $l> $args, )*
            _ => "X unsupported-other-width".to_string(),
        }
    };
}

fn uu<const B: usize, const L: usize, const O: usize, const OL: usize>(f: &str, a: &str) -> String {
    match f {
        "uu_uint_try_from" => {
            show_to(<Uint<B, L> as UintTryFrom<Uint<O, OL>>>::uint_try_from(uint::<O, OL>(a)))
        }
        "uu_from" => out_uint(&Uint::<B, L>::from(uint::<O, OL>(a))),
        "uu_wrapping_from" => out_uint(&Uint::<B, L>::wrapping_from(uint::<O, OL>(a))),
        "uu_saturating_from" => out_uint(&Uint::<B, L>::saturating_from(uint::<O, OL>(a))),
        "uu_from_uint" => out_uint(&Uint::<B, L>::from_uint(uint::<O, OL>(a))),
        "uu_checked_from_uint" => out_opt(Uint::<B, L>::checked_from_uint(uint::<O, OL>(a))),
        "uu_uint_try_to" => {
            let s = uint::<B, L>(a);
            match <Uint<B, L> as UintTryTo<Uint<O, OL>>>::uint_try_to(&s) {
                Ok(n) => out_uint(&n),
                Err(FromUintError::Overflow(b, w, m)) => {
                    format!("E:4 Z:{:x} {} {}", b, out_uint(&w), out_uint(&m))
                }
            }
        }
        "uu_to" => out_uint(&uint::<B, L>(a).to::<Uint<O, OL>>()),
        "uu_wrapping_to" => out_uint(&uint::<B, L>(a).wrapping_to::<Uint<O, OL>>()),
        "uu_saturating_to" => out_uint(&uint::<B, L>(a).saturating_to::<Uint<O, OL>>()),
        _ => format!("X unknown-fn {f}"),
    }
}

fn run<const BITS: usize, const LIMBS: usize>(f: &str, a: &[&str]) -> String {
    type U<const B: usize, const L: usize> = Uint<B, L>;
    if f.starts_with("pf_") {
        let ty = z64(a[0]);
        let Some((neg, mag)) = zsigned(a[1]) else { return "X bad-scalar".into() };
        return with_ty!(ty, pf, BITS, LIMBS, (f, neg, mag));
    }
    if f.starts_with("pt_") {
        let ty = z64(a[0]);
        let (shape, u) = if f == "pt_try_from" {
            (z64(a[1]), uint::<BITS, LIMBS>(a[2]))
        } else {
            (0, uint::<BITS, LIMBS>(a[1]))
        };
        return with_ty!(ty, pt, BITS, LIMBS, (f, shape, u));
    }
    if f.starts_with("uu_") {
        let o = zusize(a[0]);
        return with_other!(o, uu, BITS, LIMBS, (f, a[1]));
    }
    let s = limbs(a[0]);
    match f {
        "from_limbs_slice" => out_uint(&U::<BITS, LIMBS>::from_limbs_slice(&s)),
        "checked_from_limbs_slice" => out_opt(U::<BITS, LIMBS>::checked_from_limbs_slice(&s)),
        "wrapping_from_limbs_slice" => out_uint(&U::<BITS, LIMBS>::wrapping_from_limbs_slice(&s)),
        "overflowing_from_limbs_slice" => out_pair(U::<BITS, LIMBS>::overflowing_from_limbs_slice(&s)),
        "saturating_from_limbs_slice" => out_uint(&U::<BITS, LIMBS>::saturating_from_limbs_slice(&s)),
        _ => format!("X unknown-fn {f}"),
    }
}

fn main() {
    serve(|f, bits, a| with_bits!(bits, run(f, a)));
}
