// C14: limb-slice division kernels, called through the public paths
// `ruint::algorithms::div` and `ruint::algorithms::div::*`.  `bits` is only a tag.
use ruint::algorithms::div as d;
use vharness::*;

fn lz(q: &[u64], r: u128) -> String {
    format!("{} {}", out_limbs(q), out_z(r))
}

fn run(f: &str, a: &[&str]) -> String {
    match f {
        "div" => {
            let (mut n, mut dv) = (limbs(a[0]), limbs(a[1]));
            ruint::algorithms::div(&mut n, &mut dv);
            format!("{} {}", out_limbs(&n), out_limbs(&dv))
        }
        "div_nxm" => {
            let (mut n, mut dv) = (limbs(a[0]), limbs(a[1]));
            d::div_nxm(&mut n, &mut dv);
            format!("{} {}", out_limbs(&n), out_limbs(&dv))
        }
        "div_nxm_normalized" => {
            let (mut n, dv) = (limbs(a[0]), limbs(a[1]));
            d::div_nxm_normalized(&mut n, &dv);
            out_limbs(&n)
        }
        "div_nx1" => {
            let mut n = limbs(a[0]);
            let r = d::div_nx1(&mut n, z64(a[1]));
            lz(&n, r.into())
        }
        "div_nx1_normalized" => {
            let mut n = limbs(a[0]);
            let r = d::div_nx1_normalized(&mut n, z64(a[1]));
            lz(&n, r.into())
        }
        "div_nx2" => {
            let mut n = limbs(a[0]);
            let r = d::div_nx2(&mut n, z128(a[1]));
            lz(&n, r)
        }
        "div_nx2_normalized" => {
            let mut n = limbs(a[0]);
            let r = d::div_nx2_normalized(&mut n, z128(a[1]));
            lz(&n, r)
        }
        "div_2x1" => {
            let (q, r) = d::div_2x1(z128(a[0]), z64(a[1]), z64(a[2]));
            format!("{} {}", out_z(q.into()), out_z(r.into()))
        }
        "div_3x2" => {
            let (q, r) = d::div_3x2(z128(a[0]), z64(a[1]), z128(a[2]), z64(a[3]));
            format!("{} {}", out_z(q.into()), out_z(r))
        }
        "reciprocal" => out_z(d::reciprocal(z64(a[0])).into()),
        "reciprocal_2" => out_z(d::reciprocal_2(z128(a[0])).into()),
        "div_2x1_ref" => {
            let (q, r) = d::div_2x1_ref(z128(a[0]), z64(a[1]));
            format!("{} {}", out_z(q.into()), out_z(r.into()))
        }
        "div_3x2_ref" => out_z(d::div_3x2_ref(z128(a[0]), z64(a[1]), z128(a[2])).into()),
        "reciprocal_ref" => out_z(d::reciprocal_ref(z64(a[0])).into()),
        // SEARCH AID, not a verdict: scan `count` divisors of table row `row` (pseudo-random and near both
        // row ends) for one whose reciprocal differs from floor((2^128 - 1) / d) - 2^64; the divisors
        // found are fed back as ordinary `reciprocal` cases, whose verdict comes from the Coq model.
        "recip_scan" => {
            let (row, count, mut x) = (z64(a[0]), z64(a[1]), z64(a[2]) | 1);
            let lo = (256 + row) << 55;
            let mut found: Vec<String> = Vec::new();
            for k in 0..count {
                x ^= x << 13;
                x ^= x >> 7;
                x ^= x << 17;
                let off = match k % 4 {
                    0 => x >> 9,                       // anywhere in the row
                    1 => x >> 17,                      // the low 1/256 of the row
                    2 => ((1u64 << 55) - 1) - (x >> 17), // the high 1/256 of the row
                    _ => x >> 13,
                };
                let dd = lo + (off & ((1u64 << 55) - 1));
                let exact = (u128::MAX / u128::from(dd)) as u64;
                if d::reciprocal(dd) != exact {
                    found.push(format!("{dd:x}"));
                    if found.len() >= 24 {
                        break;
                    }
                }
            }
            format!("S:{}", found.join(","))
        }
        _ => format!("X unknown-fn {f}"),
    }
}

fn main() {
    serve(|f, _bits, a| run(f, a));
}
