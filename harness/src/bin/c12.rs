// C12: gcd / lcm / gcd_extended through Uint and ruint::algorithms, and every public
// LehmerMatrix entry point.
use ruint::algorithms::{self, LehmerMatrix};
use ruint::Uint;
use vharness::*;

fn out_mat(m: &LehmerMatrix) -> String {
    format!(
        "{} {} {} {} {}",
        out_z(m.0 as u128),
        out_z(m.1 as u128),
        out_z(m.2 as u128),
        out_z(m.3 as u128),
        out_bool(m.4)
    )
}

fn mat(a: &[&str], i: usize) -> LehmerMatrix {
    LehmerMatrix(z64(a[i]), z64(a[i + 1]), z64(a[i + 2]), z64(a[i + 3]), boolean(a[i + 4]))
}

fn out_ext<const BITS: usize, const LIMBS: usize>(
    r: (Uint<BITS, LIMBS>, Uint<BITS, LIMBS>, Uint<BITS, LIMBS>, bool),
) -> String {
    format!("{} {} {} {}", out_uint(&r.0), out_uint(&r.1), out_uint(&r.2), out_bool(r.3))
}

fn run<const BITS: usize, const LIMBS: usize>(f: &str, a: &[&str]) -> String {
    let u = |i: usize| uint::<BITS, LIMBS>(a[i]);
    match f {
        "gcd" => out_uint(&u(0).gcd(u(1))),
        "lcm" => out_opt(u(0).lcm(u(1))),
        "gcd_extended" => out_ext(u(0).gcd_extended(u(1))),
        "alg_gcd" => out_uint(&algorithms::gcd(u(0), u(1))),
        "alg_gcd_extended" => out_ext(algorithms::gcd_extended(u(0), u(1))),
        "alg_inv_mod" => out_opt(algorithms::inv_mod(u(0), u(1))),
        "m_identity" => out_mat(&LehmerMatrix::IDENTITY),
        "m_from" => {
            let (x, y) = (u(0), u(1));
            let m = LehmerMatrix::from(x, y);
            let (mut c, mut d) = (x, y);
            m.apply(&mut c, &mut d);
            format!("{} {} {}", out_mat(&m), out_uint(&c), out_uint(&d))
        }
        "m_apply" => {
            let m = mat(a, 0);
            let (mut c, mut d) = (u(5), u(6));
            m.apply(&mut c, &mut d);
            format!("{} {}", out_uint(&c), out_uint(&d))
        }
        "m_apply_u128" => {
            let m = mat(a, 0);
            let (c, d) = m.apply_u128(z128(a[5]), z128(a[6]));
            format!("{} {}", out_z(c), out_z(d))
        }
        "m_compose" => out_mat(&mat(a, 0).compose(mat(a, 5))),
        "m_from_u64" => out_mat(&LehmerMatrix::from_u64(z64(a[0]), z64(a[1]))),
        "m_from_u64_prefix" => out_mat(&LehmerMatrix::from_u64_prefix(z64(a[0]), z64(a[1]))),
        "m_from_u128_prefix" => out_mat(&LehmerMatrix::from_u128_prefix(z128(a[0]), z128(a[1]))),
        _ => format!("X unknown-fn {f}"),
    }
}

fn main() {
    serve(|f, bits, a| with_bits!(bits, run(f, a)));
}
