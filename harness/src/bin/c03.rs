// C03: division / remainder through every public surface, div_ceil, (checked_)next_multiple_of.
use ruint::Uint;
use vharness::*;

fn run<const BITS: usize, const LIMBS: usize>(f: &str, a: &[&str]) -> String {
    type U<const B: usize, const L: usize> = Uint<B, L>;
    let u = |i: usize| uint::<BITS, LIMBS>(a[i]);
    match f {
        "div_rem" => {
            let (q, r) = u(0).div_rem(u(1));
            format!("{} {}", out_uint(&q), out_uint(&r))
        }
        "wrapping_div" => out_uint(&u(0).wrapping_div(u(1))),
        "wrapping_rem" => out_uint(&u(0).wrapping_rem(u(1))),
        "checked_div" => out_opt(u(0).checked_div(u(1))),
        "checked_rem" => out_opt(u(0).checked_rem(u(1))),
        "div_ceil" => out_uint(&u(0).div_ceil(u(1))),
        "checked_next_multiple_of" => out_opt(u(0).checked_next_multiple_of(u(1))),
        "next_multiple_of" => out_uint(&u(0).next_multiple_of(u(1))),
        "op_div" | "op_rem" => {
            let div = f == "op_div";
            let (x, y) = (u(1), u(2));
            let r: U<BITS, LIMBS> = match (z64(a[0]), div) {
                (0, true) => x / y,
                (1, true) => x / &y,
                (2, true) => &x / y,
                (3, true) => &x / &y,
                (4, true) => { let mut t = x; t /= y; t }
                (5, true) => { let mut t = x; t /= &y; t }
                (0, false) => x % y,
                (1, false) => x % &y,
                (2, false) => &x % y,
                (3, false) => &x % &y,
                (4, false) => { let mut t = x; t %= y; t }
                (5, false) => { let mut t = x; t %= &y; t }
                _ => return "X bad-shape".into(),
            };
            out_uint(&r)
        }
        _ => format!("X unknown-fn {f}"),
    }
}

fn main() {
    serve(|f, bits, a| with_bits!(bits, run(f, a)));
}
