// C04 part (a): operation histories over a register file of Uint<BITS, LIMBS> values.
// Case line: `history bits LL:<initial registers> L:<program>`; the program is a flat word list,
// every instruction = opcode, dst, src1, src2, src3, n, imm_1 .. imm_n.
// Result: the raw limbs of every register after the run, then the status log (one word per
// instruction). A panic of any step is the panic of the run (`P`).
use ruint::{ToUintError, Uint};
use vharness::*;

type Step<const B: usize, const L: usize> = (Option<Uint<B, L>>, u64);

fn wr<const B: usize, const L: usize>(v: Uint<B, L>) -> Step<B, L> {
    (Some(v), 0)
}
fn wrf<const B: usize, const L: usize>(p: (Uint<B, L>, bool)) -> Step<B, L> {
    (Some(p.0), u64::from(p.1))
}
fn wro<const B: usize, const L: usize>(o: Option<Uint<B, L>>) -> Step<B, L> {
    match o {
        Some(v) => (Some(v), 1),
        None => (None, 0),
    }
}
fn wr_res<const B: usize, const L: usize>(r: Result<Uint<B, L>, ToUintError<Uint<B, L>>>) -> Step<B, L> {
    match r {
        Ok(n) => (Some(n), 0),
        Err(ToUintError::ValueTooLarge(_, w)) => (Some(w), 1),
        Err(ToUintError::ValueNegative(_, w)) => (Some(w), 2),
        Err(ToUintError::NotANumber(_)) => (None, 3),
    }
}
fn wr_any<const B: usize, const L: usize, E>(r: Result<Uint<B, L>, E>) -> Step<B, L> {
    match r {
        Ok(n) => (Some(n), 0),
        Err(_) => (None, 1),
    }
}
fn bytes_of(imm: &[u64]) -> Vec<u8> {
    imm.iter().map(|&w| u8::try_from(w).expect("not a byte")).collect()
}
fn f32_of(w: u64) -> f32 {
    f32::from_bits(u32::try_from(w).expect("not an f32 pattern"))
}

#[allow(clippy::too_many_lines)]
fn exec<const BITS: usize, const LIMBS: usize>(
    op: u64,
    a: Uint<BITS, LIMBS>,
    b: Uint<BITS, LIMBS>,
    c: Uint<BITS, LIMBS>,
    imm: &[u64],
) -> Step<BITS, LIMBS> {
    type U<const B: usize, const L: usize> = Uint<B, L>;
    let i1 = imm.first().copied().unwrap_or(0);
    let i2 = imm.get(1).copied().unwrap_or(0);
    let s = i1 as usize;
    let wide = u128::from(i1) | (u128::from(i2) << 64);
    let tail = if imm.is_empty() { &imm[..] } else { &imm[1..] };
    match op {
        1 => wrf(a.overflowing_add(b)),
        2 => wrf(a.overflowing_sub(b)),
        3 => wrf(a.overflowing_neg()),
        4 => wro(a.checked_add(b)),
        5 => wro(a.checked_sub(b)),
        6 => wro(a.checked_neg()),
        7 => wr(a.saturating_add(b)),
        8 => wr(a.saturating_sub(b)),
        9 => wr(a.wrapping_add(b)),
        10 => wr(a.wrapping_sub(b)),
        11 => wr(a.wrapping_neg()),
        12 => wr(a.abs_diff(b)),
        20 => wrf(a.overflowing_shl(s)),
        21 => wrf(a.overflowing_shr(s)),
        22 => wro(a.checked_shl(s)),
        23 => wro(a.checked_shr(s)),
        24 => wr(a.saturating_shl(s)),
        25 => wr(a.wrapping_shl(s)),
        26 => wr(a.wrapping_shr(s)),
        27 => wr(a.arithmetic_shr(s)),
        28 => wr(a.rotate_left(s)),
        29 => wr(a.rotate_right(s)),
        30 => wr(a << b),
        31 => wr(a >> b),
        40 => wr(a & b),
        41 => wr(a | b),
        42 => wr(a ^ b),
        43 => wr(!a),
        44 => {
            let mut t = a;
            t.set_bit(s, i2 != 0);
            wr(t)
        }
        45 => wr(a.reverse_bits()),
        46 => wr(a.next_power_of_two()),
        47 => wro(a.checked_next_power_of_two()),
        50 => wr_res(U::<BITS, LIMBS>::try_from(i1)),
        51 => wr(U::<BITS, LIMBS>::from(i1)),
        52 => wr(U::<BITS, LIMBS>::wrapping_from(i1)),
        53 => wr(U::<BITS, LIMBS>::saturating_from(i1)),
        54 => wr_res(U::<BITS, LIMBS>::try_from(wide)),
        55 => wr(U::<BITS, LIMBS>::from(wide)),
        56 => wr(U::<BITS, LIMBS>::wrapping_from(wide)),
        57 => wr(U::<BITS, LIMBS>::saturating_from(wide)),
        58 => wr(U::<BITS, LIMBS>::from_limbs_slice(imm)),
        59 => wro(U::<BITS, LIMBS>::checked_from_limbs_slice(imm)),
        60 => wr(U::<BITS, LIMBS>::wrapping_from_limbs_slice(imm)),
        61 => wrf(U::<BITS, LIMBS>::overflowing_from_limbs_slice(imm)),
        62 => wr(U::<BITS, LIMBS>::saturating_from_limbs_slice(imm)),
        63 => {
            let arr: [u64; LIMBS] = imm.to_vec().try_into().expect("wrong limb count");
            wr(U::<BITS, LIMBS>::from_limbs(arr))
        }
        70 => wro(U::<BITS, LIMBS>::try_from_be_slice(&bytes_of(imm))),
        71 => wro(U::<BITS, LIMBS>::try_from_le_slice(&bytes_of(imm))),
        72 => wr(U::<BITS, LIMBS>::from_be_slice(&bytes_of(imm))),
        73 => wr(U::<BITS, LIMBS>::from_le_slice(&bytes_of(imm))),
        74 => wr(U::<BITS, LIMBS>::from_le_slice(&a.to_le_bytes_vec())),
        75 => wr(U::<BITS, LIMBS>::from_be_slice(&a.to_be_bytes_vec())),
        76 => wr(U::<BITS, LIMBS>::from_le_slice(&a.to_le_bytes_trimmed_vec())),
        77 => wr(U::<BITS, LIMBS>::from_be_slice(&a.to_be_bytes_trimmed_vec())),
        80 => wr_any(U::<BITS, LIMBS>::from_base_be(i1, tail.iter().copied())),
        81 => wr_any(U::<BITS, LIMBS>::from_base_le(i1, tail.iter().copied())),
        82 => {
            let text: String = tail
                .iter()
                .map(|&w| char::from_u32(u32::try_from(w).expect("not a char")).expect("not a char"))
                .collect();
            wr_any(U::<BITS, LIMBS>::from_str_radix(&text, i1))
        }
        83 => wr(U::<BITS, LIMBS>::from_base_be(i1, a.to_base_be(i1)).unwrap()),
        90 => wr_res(U::<BITS, LIMBS>::try_from(f64::from_bits(i1))),
        91 => wr(U::<BITS, LIMBS>::wrapping_from(f64::from_bits(i1))),
        92 => wr(U::<BITS, LIMBS>::saturating_from(f64::from_bits(i1))),
        93 => wr_res(U::<BITS, LIMBS>::try_from(f32_of(i1))),
        94 => wr(U::<BITS, LIMBS>::wrapping_from(f32_of(i1))),
        95 => wr(U::<BITS, LIMBS>::saturating_from(f32_of(i1))),
        100 => wr(U::<BITS, LIMBS>::ZERO),
        101 => wr(U::<BITS, LIMBS>::ONE),
        102 => wr(U::<BITS, LIMBS>::MIN),
        103 => wr(U::<BITS, LIMBS>::MAX),
        104 => wr(a),
        110 => wr(a.wrapping_mul(b)),
        111 => wr(a.wrapping_div(b)),
        112 => wr(a.wrapping_rem(b)),
        113 => wr(a.wrapping_pow(b)),
        114 => wr(a.gcd(b)),
        115 => wr(a.add_mod(b, c)),
        116 => wr(a.mul_mod(b, c)),
        117 => wr(a.pow_mod(b, c)),
        118 => wr(a.root(s)),
        119 => wr(a.mul_redc(b, c, i1)),
        120 => wro(a.inv_ring()),
        121 => wro(a.checked_mul(b)),
        122 => wr(a.saturating_mul(b)),
        123 => wrf(a.overflowing_mul(b)),
        124 => wr(a.div_ceil(b)),
        125 => wro(a.checked_div(b)),
        126 => wro(a.checked_rem(b)),
        127 => wr(a.next_multiple_of(b)),
        128 => wro(a.checked_next_multiple_of(b)),
        129 => wro(a.inv_mod(b)),
        130 => wro(a.lcm(b)),
        131 => {
            // dst = gcd; status = 1 when a cofactor has a bit above BITS
            let (g, x, y, _sign) = a.gcd_extended(b);
            let excess = |v: &U<BITS, LIMBS>| v.as_limbs().last().map_or(0, |t| t & !U::<BITS, LIMBS>::MASK);
            (Some(g), u64::from(excess(&x) != 0 || excess(&y) != 0))
        }
        132 => wr(a.reduce_mod(b)),
        133 => wr(a.square_redc(c, i1)),
        134 => wro(a.checked_pow(b)),
        135 => wr(a.saturating_pow(b)),
        136 => wrf(a.overflowing_pow(b)),
        _ => panic!("unknown opcode"),
    }
}

fn history<const BITS: usize, const LIMBS: usize>(regs0: &str, prog: &str) -> String {
    let mut regs: Vec<Uint<BITS, LIMBS>> = limbs_list(regs0)
        .into_iter()
        .map(|v| Uint::from_limbs(v.try_into().expect("wrong limb count")))
        .collect();
    let p = limbs(prog);
    let mut log: Vec<u64> = Vec::new();
    let mut pc = 0usize;
    while pc < p.len() {
        assert!(pc + 6 <= p.len(), "truncated instruction");
        let (op, dst, s1, s2, s3, n) = (p[pc], p[pc + 1], p[pc + 2], p[pc + 3], p[pc + 4], p[pc + 5]);
        let n = usize::try_from(n).unwrap();
        assert!(n <= p.len() - (pc + 6), "truncated immediate");
        let imm = &p[pc + 6..pc + 6 + n];
        pc += 6 + n;
        let idx = |i: u64| -> usize {
            let i = usize::try_from(i).unwrap();
            assert!(i < regs.len(), "register index out of range");
            i
        };
        let (d, a, b, c) = (idx(dst), regs[idx(s1)], regs[idx(s2)], regs[idx(s3)]);
        let (v, st) = exec::<BITS, LIMBS>(op, a, b, c, imm);
        if let Some(v) = v {
            regs[d] = v;
        }
        log.push(st);
    }
    let mut out: Vec<String> = regs.iter().map(|r| out_uint(r)).collect();
    out.push(out_limbs(&log));
    out.join(" ")
}

fn run<const BITS: usize, const LIMBS: usize>(f: &str, a: &[&str]) -> String {
    match f {
        "history" => history::<BITS, LIMBS>(a[0], a[1]),
        _ => format!("X unknown-fn {f}"),
    }
}

fn main() {
    serve(|f, bits, a| with_bits!(bits, run(f, a)));
}
