// C20: every alternative surface of an operation (operator impl shapes, the Bits wrapper,
// num-traits, num-integer, subtle, zeroize, Sum/Product) next to the inherent method.
// Result line: <facade tokens> E:0 <inherent tokens>; a side that panicked prints E:1.
// A trailing `LL:` argument (the observed inherent result, appended by vlib/p_c20.py:prepare)
// is for the Coq model only and is never read here.
use ruint::{Bits, Uint};
use std::panic::{catch_unwind, AssertUnwindSafe};
use vharness::*;

macro_rules! with_bytes {
    ($bits:expr, $f:ident $args:tt) => {
        with_bytes!(@m $bits, $f $args;
            0 0 0, 1 1 1, 2 1 1, 3 1 1, 5 1 1, 7 1 1, 8 1 1, 9 1 2, 16 1 2, 31 1 4, 33 1 5,
            60 1 8, 63 1 8, 64 1 8, 65 2 9, 66 2 9, 96 2 12, 127 2 16, 128 2 16, 129 3 17,
            130 3 17, 190 3 24, 192 3 24, 250 4 32, 255 4 32, 256 4 32, 257 5 33, 320 5 40,
            384 6 48, 512 8 64, 520 9 65, 536 9 67, 1024 16 128, 1030 17 129, 2048 32 256,
            4096 64 512)
    };
    (@m $bits:expr, $f:ident $args:tt; $($b:literal $l:literal $y:literal),*) => {
        match $bits {
            $( $b => $f::<$b, $l, $y> $args, )*
            _ => format!("X unsupported-width"),
        }
    };
}

type Sd = Box<dyn FnOnce() -> String>;

fn side(f: Sd) -> String {
    match catch_unwind(AssertUnwindSafe(f)) {
        Ok(s) => s,
        Err(_) => "E:1".to_string(),
    }
}
fn both(f: Sd, i: Sd) -> String {
    let a = side(f);
    let b = side(i);
    format!("{a} E:0 {b}")
}
macro_rules! bx { ($e:expr) => { Box::new(move || $e) as Sd }; }

fn ob(b: bool) -> String { out_bool(b) }
fn oz(z: usize) -> String { out_z(z as u128) }
fn ozi(z: Option<i128>) -> String {
    match z {
        Some(v) if v >= 0 => format!("S Z:{v:x}"),
        Some(v) => format!("S Z:-{:x}", v.unsigned_abs()),
        None => "N".into(),
    }
}
fn ozu(z: Option<u128>) -> String {
    match z { Some(v) => format!("S Z:{v:x}"), None => "N".into() }
}
/// signed scalar token `Z:-5` / `Z:5`
fn zi(tok: &str) -> i128 {
    let s = tok.strip_prefix("Z:").expect("Z token");
    match s.strip_prefix('-') {
        Some(r) => (u128::from_str_radix(r, 16).expect("bad int") as i128).wrapping_neg(),
        None => {
            let v = u128::from_str_radix(s, 16).expect("bad int");
            v as i128 // u128 values above i128::MAX are only used through zu128
        }
    }
}
fn perr(e: &ruint::ParseError) -> String {
    use ruint::{BaseConvertError as B, ParseError as P};
    match e {
        P::InvalidDigit(c) => format!("E:14 Z:{:x}", *c as u32),
        P::InvalidRadix(r) => format!("E:15 Z:{r:x}"),
        P::BaseConvertError(B::Overflow) => "E:16 Z:1".into(),
        P::BaseConvertError(B::InvalidBase(b)) => format!("E:16 Z:2 Z:{b:x}"),
        P::BaseConvertError(B::InvalidDigit(d, b)) => format!("E:16 Z:3 Z:{d:x} Z:{b:x}"),
    }
}

// the six impl_bin_op! shapes: a op b, a op &b, &a op b, &a op &b, a op= b, a op= &b
macro_rules! shapes6 {
    ($shape:expr, $x:expr, $y:expr, $op:tt, $opa:tt) => {{
        let (x, y) = ($x, $y);
        match $shape {
            0 => x $op y,
            1 => x $op &y,
            2 => &x $op y,
            3 => &x $op &y,
            4 => { let mut t = x; t $opa y; t }
            5 => { let mut t = x; t $opa &y; t }
            _ => panic!("harness: bad shape"),
        }
    }};
}
// shift by a primitive: a << s, a << &s, a <<= s, a <<= &s
macro_rules! shprim {
    ($t:ty, $left:expr, $shape:expr, $x:expr, $n:expr) => {{
        let s: $t = <$t>::try_from($n).expect("harness: amount out of range for its type");
        let x = $x;
        let f: Sd = bx!(out_uint(&match ($left, $shape) {
            (true, 0) => x << s,
            (true, 1) => x << &s,
            (true, 2) => { let mut t = x; t <<= s; t }
            (true, 3) => { let mut t = x; t <<= &s; t }
            (false, 0) => x >> s,
            (false, 1) => x >> &s,
            (false, 2) => { let mut t = x; t >>= s; t }
            (false, 3) => { let mut t = x; t >>= &s; t }
            _ => panic!("harness: bad shape"),
        }));
        let i: Sd = bx!(out_uint(&if $left { x.wrapping_shl(s as usize) } else { x.wrapping_shr(s as usize) }));
        both(f, i)
    }};
}

fn arr<const N: usize>(v: &[u8]) -> [u8; N] {
    v.try_into().expect("harness: wrong array length")
}

mod m_run_op {
use super::*;
#[inline(never)]
pub fn run_op<const BITS: usize, const LIMBS: usize, const BYTES: usize>(f: &str, a: &[&str]) -> String {
    type U<const B: usize, const L: usize> = Uint<B, L>;
    type W<const B: usize, const L: usize> = Bits<B, L>;
    let u = |i: usize| uint::<BITS, LIMBS>(a[i]);
    let out_w = |w: &W<BITS, LIMBS>| out_limbs(w.as_limbs());
    let out_wopt = |o: Option<W<BITS, LIMBS>>| match o {
        Some(v) => format!("S {}", out_limbs(v.as_limbs())),
        None => "N".to_string(),
    };
    let out_pres = |r: Result<U<BITS, LIMBS>, ruint::ParseError>| match r {
        Ok(v) => out_uint(&v),
        Err(e) => perr(&e),
    };
    match f {
        // ------------------------------------------------ operators on Uint
        "op_add" | "op_sub" | "op_mul" | "op_div" | "op_rem" => {
            let (sh, x, y) = (z64(a[0]), u(1), u(2));
            let f_: Sd = match f {
                "op_add" => bx!(out_uint(&shapes6!(sh, x, y, +, +=))),
                "op_sub" => bx!(out_uint(&shapes6!(sh, x, y, -, -=))),
                "op_mul" => bx!(out_uint(&shapes6!(sh, x, y, *, *=))),
                "op_div" => bx!(out_uint(&shapes6!(sh, x, y, /, /=))),
                _ => bx!(out_uint(&shapes6!(sh, x, y, %, %=))),
            };
            let i_: Sd = match f {
                "op_add" => bx!(out_uint(&x.wrapping_add(y))),
                "op_sub" => bx!(out_uint(&x.wrapping_sub(y))),
                "op_mul" => bx!(out_uint(&x.wrapping_mul(y))),
                "op_div" => bx!(out_uint(&x.wrapping_div(y))),
                _ => bx!(out_uint(&x.wrapping_rem(y))),
            };
            both(f_, i_)
        }
        _ => run_op_2::<BITS, LIMBS, BYTES>(f, a),
    }
}
}
pub use m_run_op::run_op;
mod m_run_op_2 {
use super::*;
#[inline(never)]
pub fn run_op_2<const BITS: usize, const LIMBS: usize, const BYTES: usize>(f: &str, a: &[&str]) -> String {
    type U<const B: usize, const L: usize> = Uint<B, L>;
    type W<const B: usize, const L: usize> = Bits<B, L>;
    let u = |i: usize| uint::<BITS, LIMBS>(a[i]);
    let out_w = |w: &W<BITS, LIMBS>| out_limbs(w.as_limbs());
    let out_wopt = |o: Option<W<BITS, LIMBS>>| match o {
        Some(v) => format!("S {}", out_limbs(v.as_limbs())),
        None => "N".to_string(),
    };
    let out_pres = |r: Result<U<BITS, LIMBS>, ruint::ParseError>| match r {
        Ok(v) => out_uint(&v),
        Err(e) => perr(&e),
    };
    match f {
        "op_neg" => {
            let (sh, x) = (z64(a[0]), u(1));
            both(bx!(out_uint(&if sh == 0 { -x } else { -&x })), bx!(out_uint(&x.wrapping_neg())))
        }
        "op_not" => {
            let (sh, x) = (z64(a[0]), u(1));
            both(bx!(out_uint(&if sh == 0 { !x } else { !&x })), bx!(out_uint(&U::<BITS, LIMBS>::not(x))))
        }
        "op_bitor" | "op_bitand" | "op_bitxor" => {
            let (sh, x, y) = (z64(a[0]), u(1), u(2));
            let k = match f { "op_bitor" => 0, "op_bitand" => 1, _ => 2 };
            let f_: Sd = match k {
                0 => bx!(out_uint(&shapes6!(sh, x, y, |, |=))),
                1 => bx!(out_uint(&shapes6!(sh, x, y, &, &=))),
                _ => bx!(out_uint(&shapes6!(sh, x, y, ^, ^=))),
            };
            // reference: the limb-wise operation on the public limb arrays
            let i_: Sd = bx!({
                let (p, q) = (x.as_limbs(), y.as_limbs());
                let r: [u64; LIMBS] = core::array::from_fn(|i| match k {
                    0 => p[i] | q[i],
                    1 => p[i] & q[i],
                    _ => p[i] ^ q[i],
                });
                out_uint(&U::<BITS, LIMBS>::from_limbs(r))
            });
            both(f_, i_)
        }
        "op_shl" | "op_shr" => {
            let left = f == "op_shl";
            let (ty, sh, x, n) = (z64(a[0]), z64(a[1]), u(2), zi(a[3]));
            match ty {
                0 => shprim!(usize, left, sh, x, n),
                1 => shprim!(u8, left, sh, x, n),
                2 => shprim!(u16, left, sh, x, n),
                3 => shprim!(u32, left, sh, x, n),
                4 => shprim!(u64, left, sh, x, n),
                5 => shprim!(isize, left, sh, x, n),
                6 => shprim!(i8, left, sh, x, n),
                7 => shprim!(i16, left, sh, x, n),
                8 => shprim!(i32, left, sh, x, n),
                9 => shprim!(i64, left, sh, x, n),
                _ => "X bad-type".into(),
            }
        }
        "op_shl_uint" | "op_shr_uint" => {
            let left = f == "op_shl_uint";
            let (sh, x, k) = (z64(a[0]), u(1), u(2));
            let f_: Sd = bx!(out_uint(&match (left, sh) {
                (true, 0) => x << k,
                (true, 1) => x << &k,
                (true, 2) => { let mut t = x; t <<= k; t }
                (true, 3) => { let mut t = x; t <<= &k; t }
                (false, 0) => x >> k,
                (false, 1) => x >> &k,
                (false, 2) => { let mut t = x; t >>= k; t }
                (false, 3) => { let mut t = x; t >>= &k; t }
                _ => panic!("harness: bad shape"),
            }));
            let i_: Sd = bx!({
                let s = usize::try_from(k).unwrap_or(usize::MAX);
                out_uint(&if left { x.wrapping_shl(s) } else { x.wrapping_shr(s) })
            });
            both(f_, i_)
        }
        _ => format!("X unknown-fn {f}"),
    }
}
}
pub use m_run_op_2::run_op_2;
mod m_run_it {
use super::*;
#[inline(never)]
pub fn run_it<const BITS: usize, const LIMBS: usize, const BYTES: usize>(f: &str, a: &[&str]) -> String {
    type U<const B: usize, const L: usize> = Uint<B, L>;
    type W<const B: usize, const L: usize> = Bits<B, L>;
    let u = |i: usize| uint::<BITS, LIMBS>(a[i]);
    let out_w = |w: &W<BITS, LIMBS>| out_limbs(w.as_limbs());
    let out_wopt = |o: Option<W<BITS, LIMBS>>| match o {
        Some(v) => format!("S {}", out_limbs(v.as_limbs())),
        None => "N".to_string(),
    };
    let out_pres = |r: Result<U<BITS, LIMBS>, ruint::ParseError>| match r {
        Ok(v) => out_uint(&v),
        Err(e) => perr(&e),
    };
    match f {
        // ------------------------------------------------ Sum / Product
        "it_sum" | "it_product" => {
            let sh = z64(a[0]);
            let xs: Vec<U<BITS, LIMBS>> = limbs_list(a[1])
                .into_iter()
                .map(|v| U::from_limbs(v.try_into().expect("wrong limb count")))
                .collect();
            let ys = xs.clone();
            if f == "it_sum" {
                both(
                    bx!(out_uint(&if sh == 0 { xs.iter().copied().sum::<U<BITS, LIMBS>>() } else { xs.iter().sum() })),
                    bx!(out_uint(&ys.iter().fold(U::<BITS, LIMBS>::ZERO, |acc, x| acc.wrapping_add(*x)))),
                )
            } else {
                both(
                    bx!(out_uint(&if sh == 0 { xs.iter().copied().product::<U<BITS, LIMBS>>() } else { xs.iter().product() })),
                    bx!(out_uint(&ys.iter().fold(U::<BITS, LIMBS>::ONE, |acc, x| acc.wrapping_mul(*x)))),
                )
            }
        }
        _ => format!("X unknown-fn {f}"),
    }
}

}
pub use m_run_it::run_it;
mod m_run_bw {
use super::*;
#[inline(never)]
pub fn run_bw<const BITS: usize, const LIMBS: usize, const BYTES: usize>(f: &str, a: &[&str]) -> String {
    type U<const B: usize, const L: usize> = Uint<B, L>;
    type W<const B: usize, const L: usize> = Bits<B, L>;
    let u = |i: usize| uint::<BITS, LIMBS>(a[i]);
    let out_w = |w: &W<BITS, LIMBS>| out_limbs(w.as_limbs());
    let out_wopt = |o: Option<W<BITS, LIMBS>>| match o {
        Some(v) => format!("S {}", out_limbs(v.as_limbs())),
        None => "N".to_string(),
    };
    let out_pres = |r: Result<U<BITS, LIMBS>, ruint::ParseError>| match r {
        Ok(v) => out_uint(&v),
        Err(e) => perr(&e),
    };
    match f {
        // ------------------------------------------------ Bits wrapper
        "bw_reverse_bits" => {
            let x = u(0);
            both(bx!(out_w(&W::from(x).reverse_bits())), bx!(out_uint(&x.reverse_bits())))
        }
        "bw_not" => {
            let (sh, x) = (z64(a[0]), u(1));
            let w = W::from(x);
            both(bx!(out_w(&if sh == 0 { !w } else { !&w })), bx!(out_uint(&U::<BITS, LIMBS>::not(x))))
        }
        "bw_count" => {
            let (k, x) = (z64(a[0]), u(1));
            let w = W::from(x);
            both(
                bx!(oz(match k { 0 => w.leading_zeros(), 1 => w.leading_ones(), 2 => w.trailing_zeros(), _ => w.trailing_ones() })),
                bx!(oz(match k { 0 => x.leading_zeros(), 1 => x.leading_ones(), 2 => x.trailing_zeros(), _ => x.trailing_ones() })),
            )
        }
        "bw_bytes" => {
            let (k, x) = (z64(a[0]), u(1));
            let w = W::from(x);
            both(
                bx!(match k {
                    0 => out_bytes(&w.as_le_bytes()),
                    1 => out_bytes(&w.to_be_bytes_vec()),
                    2 => out_bytes(&w.to_le_bytes::<BYTES>()),
                    _ => out_bytes(&w.to_be_bytes::<BYTES>()),
                }),
                bx!(match k {
                    0 => out_bytes(&x.as_le_bytes()),
                    1 => out_bytes(&x.to_be_bytes_vec()),
                    2 => out_bytes(&x.to_le_bytes::<BYTES>()),
                    _ => out_bytes(&x.to_be_bytes::<BYTES>()),
                }),
            )
        }
        "bw_checked_shl" | "bw_checked_shr" => {
            let (x, n) = (u(0), zusize(a[1]));
            let w = W::from(x);
            if f == "bw_checked_shl" {
                both(bx!(out_wopt(w.checked_shl(n))), bx!(out_opt(x.checked_shl(n))))
            } else {
                both(bx!(out_wopt(w.checked_shr(n))), bx!(out_opt(x.checked_shr(n))))
            }
        }
        "bw_overflowing_shl" | "bw_overflowing_shr" => {
            let (x, n) = (u(0), zusize(a[1]));
            let w = W::from(x);
            if f == "bw_overflowing_shl" {
                both(bx!({ let (v, o) = w.overflowing_shl(n); format!("{} {}", out_w(&v), ob(o)) }), bx!(out_pair(x.overflowing_shl(n))))
            } else {
                both(bx!({ let (v, o) = w.overflowing_shr(n); format!("{} {}", out_w(&v), ob(o)) }), bx!(out_pair(x.overflowing_shr(n))))
            }
        }
        "bw_wrapping_shl" | "bw_wrapping_shr" | "bw_rotate_left" | "bw_rotate_right" => {
            let (x, n) = (u(0), zusize(a[1]));
            let w = W::from(x);
            match f {
                "bw_wrapping_shl" => both(bx!(out_w(&w.wrapping_shl(n))), bx!(out_uint(&x.wrapping_shl(n)))),
                "bw_wrapping_shr" => both(bx!(out_w(&w.wrapping_shr(n))), bx!(out_uint(&x.wrapping_shr(n)))),
                "bw_rotate_left" => both(bx!(out_w(&w.rotate_left(n))), bx!(out_uint(&x.rotate_left(n)))),
                _ => both(bx!(out_w(&w.rotate_right(n))), bx!(out_uint(&x.rotate_right(n)))),
            }
        }
        "bw_try_from_be_slice" | "bw_try_from_le_slice" => {
            let (v, v2) = (bytes(a[0]), bytes(a[0]));
            if f == "bw_try_from_be_slice" {
                both(bx!(out_wopt(W::<BITS, LIMBS>::try_from_be_slice(&v))), bx!(out_opt(U::<BITS, LIMBS>::try_from_be_slice(&v2))))
            } else {
                both(bx!(out_wopt(W::<BITS, LIMBS>::try_from_le_slice(&v))), bx!(out_opt(U::<BITS, LIMBS>::try_from_le_slice(&v2))))
            }
        }
        "bw_from_be_bytes" | "bw_from_le_bytes" => {
            let v = bytes(a[0]);
            if v.len() != BYTES {
                return "X wrong-length".into();
            }
            let (p, q): ([u8; BYTES], [u8; BYTES]) = (arr(&v), arr(&v));
            if f == "bw_from_be_bytes" {
                both(bx!(out_w(&W::<BITS, LIMBS>::from_be_bytes::<BYTES>(p))), bx!(out_uint(&U::<BITS, LIMBS>::from_be_bytes::<BYTES>(q))))
            } else {
                both(bx!(out_w(&W::<BITS, LIMBS>::from_le_bytes::<BYTES>(p))), bx!(out_uint(&U::<BITS, LIMBS>::from_le_bytes::<BYTES>(q))))
            }
        }
        _ => run_bw_2::<BITS, LIMBS, BYTES>(f, a),
    }
}
}
pub use m_run_bw::run_bw;
mod m_run_bw_2 {
use super::*;
#[inline(never)]
pub fn run_bw_2<const BITS: usize, const LIMBS: usize, const BYTES: usize>(f: &str, a: &[&str]) -> String {
    type U<const B: usize, const L: usize> = Uint<B, L>;
    type W<const B: usize, const L: usize> = Bits<B, L>;
    let u = |i: usize| uint::<BITS, LIMBS>(a[i]);
    let out_w = |w: &W<BITS, LIMBS>| out_limbs(w.as_limbs());
    let out_wopt = |o: Option<W<BITS, LIMBS>>| match o {
        Some(v) => format!("S {}", out_limbs(v.as_limbs())),
        None => "N".to_string(),
    };
    let out_pres = |r: Result<U<BITS, LIMBS>, ruint::ParseError>| match r {
        Ok(v) => out_uint(&v),
        Err(e) => perr(&e),
    };
    match f {
        "bw_from_str_radix" => {
            let radix = z64(a[0]);
            let (s, s2) = (String::from_utf8(bytes(a[1])).expect("utf8"), String::from_utf8(bytes(a[1])).expect("utf8"));
            both(
                bx!(out_pres(W::<BITS, LIMBS>::from_str_radix(&s, radix).map(W::into_inner))),
                bx!(out_pres(U::<BITS, LIMBS>::from_str_radix(&s2, radix))),
            )
        }
        _ => run_bw_2_b::<BITS, LIMBS, BYTES>(f, a),
    }
}
}
pub use m_run_bw_2::run_bw_2;
mod m_run_bw_2_b {
use super::*;
#[inline(never)]
pub fn run_bw_2_b<const BITS: usize, const LIMBS: usize, const BYTES: usize>(f: &str, a: &[&str]) -> String {
    type U<const B: usize, const L: usize> = Uint<B, L>;
    type W<const B: usize, const L: usize> = Bits<B, L>;
    let u = |i: usize| uint::<BITS, LIMBS>(a[i]);
    let out_w = |w: &W<BITS, LIMBS>| out_limbs(w.as_limbs());
    let out_wopt = |o: Option<W<BITS, LIMBS>>| match o {
        Some(v) => format!("S {}", out_limbs(v.as_limbs())),
        None => "N".to_string(),
    };
    let out_pres = |r: Result<U<BITS, LIMBS>, ruint::ParseError>| match r {
        Ok(v) => out_uint(&v),
        Err(e) => perr(&e),
    };
    match f {
        "bw_from_str" => {
            let (s, s2) = (String::from_utf8(bytes(a[0])).expect("utf8"), String::from_utf8(bytes(a[0])).expect("utf8"));
            both(
                bx!(out_pres(s.parse::<W<BITS, LIMBS>>().map(W::into_inner))),
                bx!(out_pres(s2.parse::<U<BITS, LIMBS>>())),
            )
        }
        _ => run_bw_2_c::<BITS, LIMBS, BYTES>(f, a),
    }
}
}
pub use m_run_bw_2_b::run_bw_2_b;
mod m_run_bw_2_c {
use super::*;
#[inline(never)]
pub fn run_bw_2_c<const BITS: usize, const LIMBS: usize, const BYTES: usize>(f: &str, a: &[&str]) -> String {
    type U<const B: usize, const L: usize> = Uint<B, L>;
    type W<const B: usize, const L: usize> = Bits<B, L>;
    let u = |i: usize| uint::<BITS, LIMBS>(a[i]);
    let out_w = |w: &W<BITS, LIMBS>| out_limbs(w.as_limbs());
    let out_wopt = |o: Option<W<BITS, LIMBS>>| match o {
        Some(v) => format!("S {}", out_limbs(v.as_limbs())),
        None => "N".to_string(),
    };
    let out_pres = |r: Result<U<BITS, LIMBS>, ruint::ParseError>| match r {
        Ok(v) => out_uint(&v),
        Err(e) => perr(&e),
    };
    match f {
        "bw_from_limbs" => {
            let v: [u64; LIMBS] = limbs(a[0]).try_into().expect("wrong limb count");
            both(bx!(out_w(&W::<BITS, LIMBS>::from_limbs(v))), bx!(out_uint(&U::<BITS, LIMBS>::from_limbs(v))))
        }
        "bw_ident" => {
            let (k, x) = (z64(a[0]), u(1));
            let f_: Sd = bx!({
                let mut w = W::from(x);
                match k {
                    0 => out_uint(&w.into_inner()),
                    1 => out_uint(w.as_uint()),
                    2 => out_uint(w.as_uint_mut()),
                    3 => out_uint(&<U<BITS, LIMBS> as From<W<BITS, LIMBS>>>::from(w)),
                    4 => out_limbs(w.as_limbs()),
                    5 => out_limbs(unsafe { w.as_limbs_mut() }),
                    _ => out_w(&w.clone()),
                }
            });
            both(f_, bx!(out_limbs(x.as_limbs())))
        }
        "bw_consts" => both(
            bx!(format!(
                "{} {} {} {} {}",
                oz(W::<BITS, LIMBS>::LIMBS), oz(W::<BITS, LIMBS>::BITS), oz(W::<BITS, LIMBS>::BYTES),
                out_w(&W::<BITS, LIMBS>::ZERO), out_w(&W::<BITS, LIMBS>::default())
            )),
            bx!(format!(
                "{} {} {} {} {}",
                oz(U::<BITS, LIMBS>::LIMBS), oz(U::<BITS, LIMBS>::BITS), oz(U::<BITS, LIMBS>::BYTES),
                out_uint(&U::<BITS, LIMBS>::ZERO), out_uint(&U::<BITS, LIMBS>::default())
            )),
        ),
        "bw_index" => {
            let (x, i) = (u(0), zusize(a[1]));
            both(bx!(ob(W::from(x)[i])), bx!(ob(x.bit(i))))
        }
        "bw_bitor" | "bw_bitand" | "bw_bitxor" => {
            let (sh, x, y) = (z64(a[0]), u(1), u(2));
            let (p, q) = (W::from(x), W::from(y));
            match f {
                "bw_bitor" => both(bx!(out_w(&shapes6!(sh, p, q, |, |=))), bx!(out_uint(&(x | y)))),
                "bw_bitand" => both(bx!(out_w(&shapes6!(sh, p, q, &, &=))), bx!(out_uint(&(x & y)))),
                _ => both(bx!(out_w(&shapes6!(sh, p, q, ^, ^=))), bx!(out_uint(&(x ^ y)))),
            }
        }
        "bw_shl" | "bw_shr" => {
            let left = f == "bw_shl";
            let (sh, x, n) = (z64(a[0]), u(1), zusize(a[2]));
            let w = W::from(x);
            let f_: Sd = bx!(out_w(&match (left, sh) {
                (true, 0) => { let mut t = w; t <<= n; t }
                (true, 1) => { let mut t = w; t <<= &n; t }
                (true, 2) => w << n,
                (true, 3) => &w << n,
                (true, 4) => w << &n,
                (true, 5) => &w << &n,
                (false, 0) => { let mut t = w; t >>= n; t }
                (false, 1) => { let mut t = w; t >>= &n; t }
                (false, 2) => w >> n,
                (false, 3) => &w >> n,
                (false, 4) => w >> &n,
                (false, 5) => &w >> &n,
                _ => panic!("harness: bad shape"),
            }));
            both(f_, bx!(out_uint(&if left { x.wrapping_shl(n) } else { x.wrapping_shr(n) })))
        }
        "bw_eq" => {
            let (x, y) = (u(0), u(1));
            both(bx!(ob(W::from(x) == W::from(y))), bx!(ob(x == y)))
        }
        _ => format!("X unknown-fn {f}"),
    }
}
}
pub use m_run_bw_2_c::run_bw_2_c;
mod m_run_nt {
use super::*;
#[inline(never)]
pub fn run_nt<const BITS: usize, const LIMBS: usize, const BYTES: usize>(f: &str, a: &[&str]) -> String {
    type U<const B: usize, const L: usize> = Uint<B, L>;
    type W<const B: usize, const L: usize> = Bits<B, L>;
    let u = |i: usize| uint::<BITS, LIMBS>(a[i]);
    let out_w = |w: &W<BITS, LIMBS>| out_limbs(w.as_limbs());
    let out_wopt = |o: Option<W<BITS, LIMBS>>| match o {
        Some(v) => format!("S {}", out_limbs(v.as_limbs())),
        None => "N".to_string(),
    };
    let out_pres = |r: Result<U<BITS, LIMBS>, ruint::ParseError>| match r {
        Ok(v) => out_uint(&v),
        Err(e) => perr(&e),
    };
    match f {
        // ------------------------------------------------ num-traits
        "nt_const" => {
            let k = z64(a[0]);
            both(
                bx!(out_uint(&match k {
                    0 => <U<BITS, LIMBS> as num_traits::Zero>::zero(),
                    1 => <U<BITS, LIMBS> as num_traits::One>::one(),
                    2 => <U<BITS, LIMBS> as num_traits::Bounded>::min_value(),
                    _ => <U<BITS, LIMBS> as num_traits::Bounded>::max_value(),
                })),
                bx!(out_uint(&match k {
                    0 => U::<BITS, LIMBS>::ZERO,
                    1 => U::<BITS, LIMBS>::ONE,
                    2 => U::<BITS, LIMBS>::MIN,
                    _ => U::<BITS, LIMBS>::MAX,
                })),
            )
        }
        "nt_is_zero" => {
            let x = u(0);
            both(bx!(ob(num_traits::Zero::is_zero(&x))), bx!(ob(U::<BITS, LIMBS>::is_zero(&x))))
        }
        "nt_is_one" => {
            let x = u(0);
            both(bx!(ob(num_traits::One::is_one(&x))), bx!(ob(x == U::<BITS, LIMBS>::ONE)))
        }
        "nt_from_le_bytes" | "nt_from_be_bytes" => {
            let (v, v2) = (bytes(a[0]), bytes(a[0]));
            if f == "nt_from_le_bytes" {
                both(bx!(out_uint(&<U<BITS, LIMBS> as num_traits::FromBytes>::from_le_bytes(&v[..]))), bx!(out_opt(U::<BITS, LIMBS>::try_from_le_slice(&v2))))
            } else {
                both(bx!(out_uint(&<U<BITS, LIMBS> as num_traits::FromBytes>::from_be_bytes(&v[..]))), bx!(out_opt(U::<BITS, LIMBS>::try_from_be_slice(&v2))))
            }
        }
        "nt_to_le_bytes" | "nt_to_be_bytes" => {
            let x = u(0);
            if f == "nt_to_le_bytes" {
                both(bx!(out_bytes(&num_traits::ToBytes::to_le_bytes(&x))), bx!(out_bytes(&x.to_le_bytes_vec())))
            } else {
                both(bx!(out_bytes(&num_traits::ToBytes::to_be_bytes(&x))), bx!(out_bytes(&x.to_be_bytes_vec())))
            }
        }
        _ => run_nt_b::<BITS, LIMBS, BYTES>(f, a),
    }
}
}
pub use m_run_nt::run_nt;
mod m_run_nt_b {
use super::*;
#[inline(never)]
pub fn run_nt_b<const BITS: usize, const LIMBS: usize, const BYTES: usize>(f: &str, a: &[&str]) -> String {
    type U<const B: usize, const L: usize> = Uint<B, L>;
    type W<const B: usize, const L: usize> = Bits<B, L>;
    let u = |i: usize| uint::<BITS, LIMBS>(a[i]);
    let out_w = |w: &W<BITS, LIMBS>| out_limbs(w.as_limbs());
    let out_wopt = |o: Option<W<BITS, LIMBS>>| match o {
        Some(v) => format!("S {}", out_limbs(v.as_limbs())),
        None => "N".to_string(),
    };
    let out_pres = |r: Result<U<BITS, LIMBS>, ruint::ParseError>| match r {
        Ok(v) => out_uint(&v),
        Err(e) => perr(&e),
    };
    match f {
        "nt_checked_add" | "nt_checked_sub" | "nt_checked_mul" | "nt_checked_div" | "nt_checked_rem"
        | "nt_checked_div_euclid" | "nt_checked_rem_euclid" => {
            let (x, y) = (u(0), u(1));
            match f {
                "nt_checked_add" => both(bx!(out_opt(num_traits::CheckedAdd::checked_add(&x, &y))), bx!(out_opt(U::<BITS, LIMBS>::checked_add(x, y)))),
                "nt_checked_sub" => both(bx!(out_opt(num_traits::CheckedSub::checked_sub(&x, &y))), bx!(out_opt(U::<BITS, LIMBS>::checked_sub(x, y)))),
                "nt_checked_mul" => both(bx!(out_opt(num_traits::CheckedMul::checked_mul(&x, &y))), bx!(out_opt(U::<BITS, LIMBS>::checked_mul(x, y)))),
                "nt_checked_div" => both(bx!(out_opt(num_traits::CheckedDiv::checked_div(&x, &y))), bx!(out_opt(U::<BITS, LIMBS>::checked_div(x, y)))),
                "nt_checked_rem" => both(bx!(out_opt(num_traits::CheckedRem::checked_rem(&x, &y))), bx!(out_opt(U::<BITS, LIMBS>::checked_rem(x, y)))),
                "nt_checked_div_euclid" => both(bx!(out_opt(num_traits::CheckedEuclid::checked_div_euclid(&x, &y))), bx!(out_opt(U::<BITS, LIMBS>::checked_div(x, y)))),
                _ => both(bx!(out_opt(num_traits::CheckedEuclid::checked_rem_euclid(&x, &y))), bx!(out_opt(U::<BITS, LIMBS>::checked_rem(x, y)))),
            }
        }
        _ => run_nt_c::<BITS, LIMBS, BYTES>(f, a),
    }
}
}
pub use m_run_nt_b::run_nt_b;
mod m_run_nt_c {
use super::*;
#[inline(never)]
pub fn run_nt_c<const BITS: usize, const LIMBS: usize, const BYTES: usize>(f: &str, a: &[&str]) -> String {
    type U<const B: usize, const L: usize> = Uint<B, L>;
    type W<const B: usize, const L: usize> = Bits<B, L>;
    let u = |i: usize| uint::<BITS, LIMBS>(a[i]);
    let out_w = |w: &W<BITS, LIMBS>| out_limbs(w.as_limbs());
    let out_wopt = |o: Option<W<BITS, LIMBS>>| match o {
        Some(v) => format!("S {}", out_limbs(v.as_limbs())),
        None => "N".to_string(),
    };
    let out_pres = |r: Result<U<BITS, LIMBS>, ruint::ParseError>| match r {
        Ok(v) => out_uint(&v),
        Err(e) => perr(&e),
    };
    match f {
        "nt_checked_neg" => {
            let x = u(0);
            both(bx!(out_opt(num_traits::CheckedNeg::checked_neg(&x))), bx!(out_opt(U::<BITS, LIMBS>::checked_neg(x))))
        }
        "nt_checked_shl" | "nt_checked_shr" => {
            let (x, n) = (u(0), z64(a[1]) as u32);
            if f == "nt_checked_shl" {
                both(bx!(out_opt(num_traits::CheckedShl::checked_shl(&x, n))), bx!(out_opt(U::<BITS, LIMBS>::checked_shl(x, n as usize))))
            } else {
                both(bx!(out_opt(num_traits::CheckedShr::checked_shr(&x, n))), bx!(out_opt(U::<BITS, LIMBS>::checked_shr(x, n as usize))))
            }
        }
        "nt_div_euclid" | "nt_rem_euclid" => {
            let (x, y) = (u(0), u(1));
            if f == "nt_div_euclid" {
                both(bx!(out_uint(&num_traits::Euclid::div_euclid(&x, &y))), bx!(out_uint(&U::<BITS, LIMBS>::wrapping_div(x, y))))
            } else {
                both(bx!(out_uint(&num_traits::Euclid::rem_euclid(&x, &y))), bx!(out_uint(&U::<BITS, LIMBS>::wrapping_rem(x, y))))
            }
        }
        _ => run_nt_d::<BITS, LIMBS, BYTES>(f, a),
    }
}
}
pub use m_run_nt_c::run_nt_c;
mod m_run_nt_d {
use super::*;
#[inline(never)]
pub fn run_nt_d<const BITS: usize, const LIMBS: usize, const BYTES: usize>(f: &str, a: &[&str]) -> String {
    type U<const B: usize, const L: usize> = Uint<B, L>;
    type W<const B: usize, const L: usize> = Bits<B, L>;
    let u = |i: usize| uint::<BITS, LIMBS>(a[i]);
    let out_w = |w: &W<BITS, LIMBS>| out_limbs(w.as_limbs());
    let out_wopt = |o: Option<W<BITS, LIMBS>>| match o {
        Some(v) => format!("S {}", out_limbs(v.as_limbs())),
        None => "N".to_string(),
    };
    let out_pres = |r: Result<U<BITS, LIMBS>, ruint::ParseError>| match r {
        Ok(v) => out_uint(&v),
        Err(e) => perr(&e),
    };
    match f {
        "nt_inv" => {
            let x = u(0);
            both(bx!(out_opt(num_traits::Inv::inv(x))), bx!(out_opt(x.inv_ring())))
        }
        _ => run_nt_2::<BITS, LIMBS, BYTES>(f, a),
    }
}
}
pub use m_run_nt_d::run_nt_d;
mod m_run_nt_2 {
use super::*;
#[inline(never)]
pub fn run_nt_2<const BITS: usize, const LIMBS: usize, const BYTES: usize>(f: &str, a: &[&str]) -> String {
    type U<const B: usize, const L: usize> = Uint<B, L>;
    type W<const B: usize, const L: usize> = Bits<B, L>;
    let u = |i: usize| uint::<BITS, LIMBS>(a[i]);
    let out_w = |w: &W<BITS, LIMBS>| out_limbs(w.as_limbs());
    let out_wopt = |o: Option<W<BITS, LIMBS>>| match o {
        Some(v) => format!("S {}", out_limbs(v.as_limbs())),
        None => "N".to_string(),
    };
    let out_pres = |r: Result<U<BITS, LIMBS>, ruint::ParseError>| match r {
        Ok(v) => out_uint(&v),
        Err(e) => perr(&e),
    };
    match f {
        "nt_mul_add" => {
            let (sh, x, y, z) = (z64(a[0]), u(1), u(2), u(3));
            both(
                bx!(out_uint(&if sh == 0 {
                    num_traits::MulAdd::mul_add(x, y, z)
                } else {
                    let mut t = x;
                    num_traits::MulAddAssign::mul_add_assign(&mut t, y, z);
                    t
                })),
                bx!(out_uint(&x.wrapping_mul(y).wrapping_add(z))),
            )
        }
        "nt_saturating_add" | "nt_saturating_sub" => {
            let (k, x, y) = (z64(a[0]), u(1), u(2));
            if f == "nt_saturating_add" {
                both(
                    bx!(out_uint(&if k == 0 { num_traits::Saturating::saturating_add(x, y) } else { num_traits::SaturatingAdd::saturating_add(&x, &y) })),
                    bx!(out_uint(&U::<BITS, LIMBS>::saturating_add(x, y))),
                )
            } else {
                both(
                    bx!(out_uint(&if k == 0 { num_traits::Saturating::saturating_sub(x, y) } else { num_traits::SaturatingSub::saturating_sub(&x, &y) })),
                    bx!(out_uint(&U::<BITS, LIMBS>::saturating_sub(x, y))),
                )
            }
        }
        "nt_saturating_mul" | "nt_wrapping_add" | "nt_wrapping_sub" | "nt_wrapping_mul" => {
            let (x, y) = (u(0), u(1));
            match f {
                "nt_saturating_mul" => both(bx!(out_uint(&num_traits::SaturatingMul::saturating_mul(&x, &y))), bx!(out_uint(&U::<BITS, LIMBS>::saturating_mul(x, y)))),
                "nt_wrapping_add" => both(bx!(out_uint(&num_traits::WrappingAdd::wrapping_add(&x, &y))), bx!(out_uint(&U::<BITS, LIMBS>::wrapping_add(x, y)))),
                "nt_wrapping_sub" => both(bx!(out_uint(&num_traits::WrappingSub::wrapping_sub(&x, &y))), bx!(out_uint(&U::<BITS, LIMBS>::wrapping_sub(x, y)))),
                _ => both(bx!(out_uint(&num_traits::WrappingMul::wrapping_mul(&x, &y))), bx!(out_uint(&U::<BITS, LIMBS>::wrapping_mul(x, y)))),
            }
        }
        "nt_wrapping_neg" => {
            let x = u(0);
            both(bx!(out_uint(&num_traits::WrappingNeg::wrapping_neg(&x))), bx!(out_uint(&U::<BITS, LIMBS>::wrapping_neg(x))))
        }
        "nt_wrapping_shl" | "nt_wrapping_shr" => {
            let (x, n) = (u(0), z64(a[1]) as u32);
            if f == "nt_wrapping_shl" {
                both(bx!(out_uint(&num_traits::WrappingShl::wrapping_shl(&x, n))), bx!(out_uint(&U::<BITS, LIMBS>::wrapping_shl(x, n as usize))))
            } else {
                both(bx!(out_uint(&num_traits::WrappingShr::wrapping_shr(&x, n))), bx!(out_uint(&U::<BITS, LIMBS>::wrapping_shr(x, n as usize))))
            }
        }
        _ => run_nt_2_b::<BITS, LIMBS, BYTES>(f, a),
    }
}
}
pub use m_run_nt_2::run_nt_2;
mod m_run_nt_2_b {
use super::*;
#[inline(never)]
pub fn run_nt_2_b<const BITS: usize, const LIMBS: usize, const BYTES: usize>(f: &str, a: &[&str]) -> String {
    type U<const B: usize, const L: usize> = Uint<B, L>;
    type W<const B: usize, const L: usize> = Bits<B, L>;
    let u = |i: usize| uint::<BITS, LIMBS>(a[i]);
    let out_w = |w: &W<BITS, LIMBS>| out_limbs(w.as_limbs());
    let out_wopt = |o: Option<W<BITS, LIMBS>>| match o {
        Some(v) => format!("S {}", out_limbs(v.as_limbs())),
        None => "N".to_string(),
    };
    let out_pres = |r: Result<U<BITS, LIMBS>, ruint::ParseError>| match r {
        Ok(v) => out_uint(&v),
        Err(e) => perr(&e),
    };
    match f {
        "nt_overflowing_add" | "nt_overflowing_sub" | "nt_overflowing_mul" => {
            let (x, y) = (u(0), u(1));
            match f {
                "nt_overflowing_add" => both(bx!(out_pair(num_traits::ops::overflowing::OverflowingAdd::overflowing_add(&x, &y))), bx!(out_pair(U::<BITS, LIMBS>::overflowing_add(x, y)))),
                "nt_overflowing_sub" => both(bx!(out_pair(num_traits::ops::overflowing::OverflowingSub::overflowing_sub(&x, &y))), bx!(out_pair(U::<BITS, LIMBS>::overflowing_sub(x, y)))),
                _ => both(bx!(out_pair(num_traits::ops::overflowing::OverflowingMul::overflowing_mul(&x, &y))), bx!(out_pair(U::<BITS, LIMBS>::overflowing_mul(x, y)))),
            }
        }
        _ => run_nt_2_c::<BITS, LIMBS, BYTES>(f, a),
    }
}
}
pub use m_run_nt_2_b::run_nt_2_b;
mod m_run_nt_2_c {
use super::*;
#[inline(never)]
pub fn run_nt_2_c<const BITS: usize, const LIMBS: usize, const BYTES: usize>(f: &str, a: &[&str]) -> String {
    type U<const B: usize, const L: usize> = Uint<B, L>;
    type W<const B: usize, const L: usize> = Bits<B, L>;
    let u = |i: usize| uint::<BITS, LIMBS>(a[i]);
    let out_w = |w: &W<BITS, LIMBS>| out_limbs(w.as_limbs());
    let out_wopt = |o: Option<W<BITS, LIMBS>>| match o {
        Some(v) => format!("S {}", out_limbs(v.as_limbs())),
        None => "N".to_string(),
    };
    let out_pres = |r: Result<U<BITS, LIMBS>, ruint::ParseError>| match r {
        Ok(v) => out_uint(&v),
        Err(e) => perr(&e),
    };
    match f {
        "nt_from_str_radix" => {
            let radix = z64(a[0]) as u32;
            let (s, s2) = (String::from_utf8(bytes(a[1])).expect("utf8"), String::from_utf8(bytes(a[1])).expect("utf8"));
            both(
                bx!(out_pres(<U<BITS, LIMBS> as num_traits::Num>::from_str_radix(&s, radix))),
                bx!(out_pres(U::<BITS, LIMBS>::from_str_radix(&s2, radix as u64))),
            )
        }
        _ => run_nt_2_d::<BITS, LIMBS, BYTES>(f, a),
    }
}
}
pub use m_run_nt_2_c::run_nt_2_c;
mod m_run_nt_2_d {
use super::*;
#[inline(never)]
pub fn run_nt_2_d<const BITS: usize, const LIMBS: usize, const BYTES: usize>(f: &str, a: &[&str]) -> String {
    type U<const B: usize, const L: usize> = Uint<B, L>;
    type W<const B: usize, const L: usize> = Bits<B, L>;
    let u = |i: usize| uint::<BITS, LIMBS>(a[i]);
    let out_w = |w: &W<BITS, LIMBS>| out_limbs(w.as_limbs());
    let out_wopt = |o: Option<W<BITS, LIMBS>>| match o {
        Some(v) => format!("S {}", out_limbs(v.as_limbs())),
        None => "N".to_string(),
    };
    let out_pres = |r: Result<U<BITS, LIMBS>, ruint::ParseError>| match r {
        Ok(v) => out_uint(&v),
        Err(e) => perr(&e),
    };
    match f {
        "nt_pow" => {
            let (x, e) = (u(0), u(1));
            both(bx!(out_uint(&num_traits::Pow::pow(x, e))), bx!(out_uint(&U::<BITS, LIMBS>::pow(x, e))))
        }
        _ => run_nt_3::<BITS, LIMBS, BYTES>(f, a),
    }
}
}
pub use m_run_nt_2_d::run_nt_2_d;
mod m_run_nt_3 {
use super::*;
#[inline(never)]
pub fn run_nt_3<const BITS: usize, const LIMBS: usize, const BYTES: usize>(f: &str, a: &[&str]) -> String {
    type U<const B: usize, const L: usize> = Uint<B, L>;
    type W<const B: usize, const L: usize> = Bits<B, L>;
    let u = |i: usize| uint::<BITS, LIMBS>(a[i]);
    let out_w = |w: &W<BITS, LIMBS>| out_limbs(w.as_limbs());
    let out_wopt = |o: Option<W<BITS, LIMBS>>| match o {
        Some(v) => format!("S {}", out_limbs(v.as_limbs())),
        None => "N".to_string(),
    };
    let out_pres = |r: Result<U<BITS, LIMBS>, ruint::ParseError>| match r {
        Ok(v) => out_uint(&v),
        Err(e) => perr(&e),
    };
    match f {
        "nt_to_prim" => {
            let (ty, x) = (z64(a[0]), u(1));
            use num_traits::ToPrimitive as T;
            match ty {
                10 => both(bx!(ozi(T::to_i64(&x).map(i128::from))), bx!(ozi(i64::try_from(&x).ok().map(i128::from)))),
                4 => both(bx!(ozu(T::to_u64(&x).map(u128::from))), bx!(ozu(u64::try_from(&x).ok().map(u128::from)))),
                11 => both(bx!(ozi(T::to_i128(&x))), bx!(ozi(i128::try_from(&x).ok()))),
                5 => both(bx!(ozu(T::to_u128(&x))), bx!(ozu(u128::try_from(&x).ok()))),
                _ => "X bad-type".into(),
            }
        }
        "nt_from_prim" => {
            let ty = z64(a[0]);
            use num_traits::FromPrimitive as F;
            match ty {
                10 => { let n = zi(a[1]) as i64; both(bx!(out_opt(<U<BITS, LIMBS> as F>::from_i64(n))), bx!(out_opt(U::<BITS, LIMBS>::try_from(n).ok()))) }
                4 => { let n = z128(a[1]) as u64; both(bx!(out_opt(<U<BITS, LIMBS> as F>::from_u64(n))), bx!(out_opt(U::<BITS, LIMBS>::try_from(n).ok()))) }
                11 => { let n = zi(a[1]); both(bx!(out_opt(<U<BITS, LIMBS> as F>::from_i128(n))), bx!(out_opt(U::<BITS, LIMBS>::try_from(n).ok()))) }
                5 => { let n = z128(a[1]); both(bx!(out_opt(<U<BITS, LIMBS> as F>::from_u128(n))), bx!(out_opt(U::<BITS, LIMBS>::try_from(n).ok()))) }
                _ => "X bad-type".into(),
            }
        }
        "nt_numcast" => {
            let ty = z64(a[0]);
            macro_rules! nc { ($t:ty, $v:expr) => {{
                let n: $t = <$t>::try_from($v).expect("harness: value out of range for its type");
                both(bx!(out_opt(<U<BITS, LIMBS> as num_traits::NumCast>::from(n))), bx!(out_opt(U::<BITS, LIMBS>::try_from(n).ok())))
            }}; }
            match ty {
                1 => nc!(u8, zi(a[1])),
                2 => nc!(u16, zi(a[1])),
                3 => nc!(u32, zi(a[1])),
                4 => nc!(u64, zi(a[1])),
                5 => nc!(u128, z128(a[1])),
                6 => nc!(usize, zi(a[1])),
                7 => nc!(i8, zi(a[1])),
                8 => nc!(i16, zi(a[1])),
                9 => nc!(i32, zi(a[1])),
                10 => nc!(i64, zi(a[1])),
                11 => nc!(i128, zi(a[1])),
                12 => nc!(isize, zi(a[1])),
                _ => "X bad-type".into(),
            }
        }
        _ => run_nt_3_b::<BITS, LIMBS, BYTES>(f, a),
    }
}
}
pub use m_run_nt_3::run_nt_3;
mod m_run_nt_3_b {
use super::*;
#[inline(never)]
pub fn run_nt_3_b<const BITS: usize, const LIMBS: usize, const BYTES: usize>(f: &str, a: &[&str]) -> String {
    type U<const B: usize, const L: usize> = Uint<B, L>;
    type W<const B: usize, const L: usize> = Bits<B, L>;
    let u = |i: usize| uint::<BITS, LIMBS>(a[i]);
    let out_w = |w: &W<BITS, LIMBS>| out_limbs(w.as_limbs());
    let out_wopt = |o: Option<W<BITS, LIMBS>>| match o {
        Some(v) => format!("S {}", out_limbs(v.as_limbs())),
        None => "N".to_string(),
    };
    let out_pres = |r: Result<U<BITS, LIMBS>, ruint::ParseError>| match r {
        Ok(v) => out_uint(&v),
        Err(e) => perr(&e),
    };
    match f {
        "nt_count" => {
            let (k, x) = (z64(a[0]), u(1));
            use num_traits::PrimInt as P;
            both(
                bx!(oz(match k {
                    0 => P::count_ones(x), 1 => P::count_zeros(x), 2 => P::leading_zeros(x),
                    3 => P::leading_ones(x), 4 => P::trailing_zeros(x), _ => P::trailing_ones(x),
                } as usize)),
                bx!(oz(match k {
                    0 => U::<BITS, LIMBS>::count_ones(&x), 1 => U::<BITS, LIMBS>::count_zeros(&x),
                    2 => U::<BITS, LIMBS>::leading_zeros(&x), 3 => U::<BITS, LIMBS>::leading_ones(&x),
                    4 => U::<BITS, LIMBS>::trailing_zeros(&x), _ => U::<BITS, LIMBS>::trailing_ones(&x),
                })),
            )
        }
        "nt_rotate_left" | "nt_rotate_right" | "nt_signed_shl" | "nt_signed_shr" | "nt_unsigned_shl" | "nt_unsigned_shr" => {
            let (x, n) = (u(0), z64(a[1]) as u32);
            use num_traits::PrimInt as P;
            match f {
                "nt_rotate_left" => both(bx!(out_uint(&P::rotate_left(x, n))), bx!(out_uint(&U::<BITS, LIMBS>::rotate_left(x, n as usize)))),
                "nt_rotate_right" => both(bx!(out_uint(&P::rotate_right(x, n))), bx!(out_uint(&U::<BITS, LIMBS>::rotate_right(x, n as usize)))),
                "nt_signed_shl" => both(bx!(out_uint(&P::signed_shl(x, n))), bx!(out_uint(&U::<BITS, LIMBS>::wrapping_shl(x, n as usize)))),
                "nt_signed_shr" => both(bx!(out_uint(&P::signed_shr(x, n))), bx!(out_uint(&U::<BITS, LIMBS>::arithmetic_shr(x, n as usize)))),
                "nt_unsigned_shl" => both(bx!(out_uint(&P::unsigned_shl(x, n))), bx!(out_uint(&U::<BITS, LIMBS>::wrapping_shl(x, n as usize)))),
                _ => both(bx!(out_uint(&P::unsigned_shr(x, n))), bx!(out_uint(&U::<BITS, LIMBS>::wrapping_shr(x, n as usize)))),
            }
        }
        _ => run_nt_3_c::<BITS, LIMBS, BYTES>(f, a),
    }
}
}
pub use m_run_nt_3_b::run_nt_3_b;
mod m_run_nt_3_c {
use super::*;
#[inline(never)]
pub fn run_nt_3_c<const BITS: usize, const LIMBS: usize, const BYTES: usize>(f: &str, a: &[&str]) -> String {
    type U<const B: usize, const L: usize> = Uint<B, L>;
    type W<const B: usize, const L: usize> = Bits<B, L>;
    let u = |i: usize| uint::<BITS, LIMBS>(a[i]);
    let out_w = |w: &W<BITS, LIMBS>| out_limbs(w.as_limbs());
    let out_wopt = |o: Option<W<BITS, LIMBS>>| match o {
        Some(v) => format!("S {}", out_limbs(v.as_limbs())),
        None => "N".to_string(),
    };
    let out_pres = |r: Result<U<BITS, LIMBS>, ruint::ParseError>| match r {
        Ok(v) => out_uint(&v),
        Err(e) => perr(&e),
    };
    match f {
        "nt_swap_bytes" | "nt_to_be" | "nt_from_be" | "nt_to_le" | "nt_from_le" => {
            let x = u(0);
            use num_traits::PrimInt as P;
            // byte swap through the inherent codecs: big-endian bytes read back as little-endian
            let swap: Sd = bx!(out_opt(U::<BITS, LIMBS>::try_from_le_slice(&x.to_be_bytes_vec())));
            match f {
                "nt_swap_bytes" => both(bx!(out_uint(&P::swap_bytes(x))), swap),
                "nt_to_be" => both(bx!(out_uint(&P::to_be(x))), swap),
                "nt_from_be" => both(bx!(out_uint(&<U<BITS, LIMBS> as P>::from_be(x))), swap),
                "nt_to_le" => both(bx!(out_uint(&P::to_le(x))), bx!(out_opt(Some(x)))),
                _ => both(bx!(out_uint(&<U<BITS, LIMBS> as P>::from_le(x))), bx!(out_opt(Some(x)))),
            }
        }
        "nt_reverse_bits" => {
            let x = u(0);
            both(bx!(out_uint(&num_traits::PrimInt::reverse_bits(x))), bx!(out_uint(&U::<BITS, LIMBS>::reverse_bits(x))))
        }
        _ => run_nt_3_d::<BITS, LIMBS, BYTES>(f, a),
    }
}
}
pub use m_run_nt_3_c::run_nt_3_c;
mod m_run_nt_3_d {
use super::*;
#[inline(never)]
pub fn run_nt_3_d<const BITS: usize, const LIMBS: usize, const BYTES: usize>(f: &str, a: &[&str]) -> String {
    type U<const B: usize, const L: usize> = Uint<B, L>;
    type W<const B: usize, const L: usize> = Bits<B, L>;
    let u = |i: usize| uint::<BITS, LIMBS>(a[i]);
    let out_w = |w: &W<BITS, LIMBS>| out_limbs(w.as_limbs());
    let out_wopt = |o: Option<W<BITS, LIMBS>>| match o {
        Some(v) => format!("S {}", out_limbs(v.as_limbs())),
        None => "N".to_string(),
    };
    let out_pres = |r: Result<U<BITS, LIMBS>, ruint::ParseError>| match r {
        Ok(v) => out_uint(&v),
        Err(e) => perr(&e),
    };
    match f {
        "nt_pow_u32" => {
            let (x, n) = (u(0), z64(a[1]) as u32);
            both(bx!(out_uint(&num_traits::PrimInt::pow(x, n))), bx!(out_uint(&U::<BITS, LIMBS>::pow(x, U::<BITS, LIMBS>::from(n)))))
        }
        _ => format!("X unknown-fn {f}"),
    }
}
}
pub use m_run_nt_3_d::run_nt_3_d;
mod m_run_ni {
use super::*;
#[inline(never)]
pub fn run_ni<const BITS: usize, const LIMBS: usize, const BYTES: usize>(f: &str, a: &[&str]) -> String {
    type U<const B: usize, const L: usize> = Uint<B, L>;
    type W<const B: usize, const L: usize> = Bits<B, L>;
    let u = |i: usize| uint::<BITS, LIMBS>(a[i]);
    let out_w = |w: &W<BITS, LIMBS>| out_limbs(w.as_limbs());
    let out_wopt = |o: Option<W<BITS, LIMBS>>| match o {
        Some(v) => format!("S {}", out_limbs(v.as_limbs())),
        None => "N".to_string(),
    };
    let out_pres = |r: Result<U<BITS, LIMBS>, ruint::ParseError>| match r {
        Ok(v) => out_uint(&v),
        Err(e) => perr(&e),
    };
    match f {
        // ------------------------------------------------ num-integer
        "ni_div_floor" | "ni_mod_floor" | "ni_gcd" | "ni_lcm" | "ni_div_ceil" => {
            let (x, y) = (u(0), u(1));
            use num_integer::Integer as I;
            match f {
                "ni_div_floor" => both(bx!(out_uint(&I::div_floor(&x, &y))), bx!(out_uint(&U::<BITS, LIMBS>::wrapping_div(x, y)))),
                "ni_mod_floor" => both(bx!(out_uint(&I::mod_floor(&x, &y))), bx!(out_uint(&U::<BITS, LIMBS>::wrapping_rem(x, y)))),
                "ni_gcd" => both(bx!(out_uint(&I::gcd(&x, &y))), bx!(out_uint(&U::<BITS, LIMBS>::gcd(x, y)))),
                "ni_lcm" => both(bx!(out_uint(&I::lcm(&x, &y))), bx!(out_opt(U::<BITS, LIMBS>::lcm(x, y)))),
                _ => both(bx!(out_uint(&I::div_ceil(&x, &y))), bx!(out_uint(&U::<BITS, LIMBS>::div_ceil(x, y)))),
            }
        }
        _ => run_ni_b::<BITS, LIMBS, BYTES>(f, a),
    }
}
}
pub use m_run_ni::run_ni;
mod m_run_ni_b {
use super::*;
#[inline(never)]
pub fn run_ni_b<const BITS: usize, const LIMBS: usize, const BYTES: usize>(f: &str, a: &[&str]) -> String {
    type U<const B: usize, const L: usize> = Uint<B, L>;
    type W<const B: usize, const L: usize> = Bits<B, L>;
    let u = |i: usize| uint::<BITS, LIMBS>(a[i]);
    let out_w = |w: &W<BITS, LIMBS>| out_limbs(w.as_limbs());
    let out_wopt = |o: Option<W<BITS, LIMBS>>| match o {
        Some(v) => format!("S {}", out_limbs(v.as_limbs())),
        None => "N".to_string(),
    };
    let out_pres = |r: Result<U<BITS, LIMBS>, ruint::ParseError>| match r {
        Ok(v) => out_uint(&v),
        Err(e) => perr(&e),
    };
    match f {
        "ni_div_rem" | "ni_div_mod_floor" => {
            let (x, y) = (u(0), u(1));
            use num_integer::Integer as I;
            let pr = |p: (U<BITS, LIMBS>, U<BITS, LIMBS>)| format!("{} {}", out_uint(&p.0), out_uint(&p.1));
            if f == "ni_div_rem" {
                both(bx!(pr(I::div_rem(&x, &y))), bx!(pr(U::<BITS, LIMBS>::div_rem(x, y))))
            } else {
                both(bx!(pr(I::div_mod_floor(&x, &y))), bx!(pr(U::<BITS, LIMBS>::div_rem(x, y))))
            }
        }
        _ => run_ni_c::<BITS, LIMBS, BYTES>(f, a),
    }
}
}
pub use m_run_ni_b::run_ni_b;
mod m_run_ni_c {
use super::*;
#[inline(never)]
pub fn run_ni_c<const BITS: usize, const LIMBS: usize, const BYTES: usize>(f: &str, a: &[&str]) -> String {
    type U<const B: usize, const L: usize> = Uint<B, L>;
    type W<const B: usize, const L: usize> = Bits<B, L>;
    let u = |i: usize| uint::<BITS, LIMBS>(a[i]);
    let out_w = |w: &W<BITS, LIMBS>| out_limbs(w.as_limbs());
    let out_wopt = |o: Option<W<BITS, LIMBS>>| match o {
        Some(v) => format!("S {}", out_limbs(v.as_limbs())),
        None => "N".to_string(),
    };
    let out_pres = |r: Result<U<BITS, LIMBS>, ruint::ParseError>| match r {
        Ok(v) => out_uint(&v),
        Err(e) => perr(&e),
    };
    match f {
        "ni_extended_gcd" => {
            let (x, y) = (u(0), u(1));
            both(
                bx!({ let e = num_integer::Integer::extended_gcd(&x, &y); format!("{} {} {}", out_uint(&e.gcd), out_uint(&e.x), out_uint(&e.y)) }),
                bx!({ let (g, p, q, _sign) = U::<BITS, LIMBS>::gcd_extended(x, y); format!("{} {} {}", out_uint(&g), out_uint(&p), out_uint(&q)) }),
            )
        }
        _ => run_ni_d::<BITS, LIMBS, BYTES>(f, a),
    }
}
}
pub use m_run_ni_c::run_ni_c;
mod m_run_ni_d {
use super::*;
#[inline(never)]
pub fn run_ni_d<const BITS: usize, const LIMBS: usize, const BYTES: usize>(f: &str, a: &[&str]) -> String {
    type U<const B: usize, const L: usize> = Uint<B, L>;
    type W<const B: usize, const L: usize> = Bits<B, L>;
    let u = |i: usize| uint::<BITS, LIMBS>(a[i]);
    let out_w = |w: &W<BITS, LIMBS>| out_limbs(w.as_limbs());
    let out_wopt = |o: Option<W<BITS, LIMBS>>| match o {
        Some(v) => format!("S {}", out_limbs(v.as_limbs())),
        None => "N".to_string(),
    };
    let out_pres = |r: Result<U<BITS, LIMBS>, ruint::ParseError>| match r {
        Ok(v) => out_uint(&v),
        Err(e) => perr(&e),
    };
    match f {
        "ni_is_multiple_of" => {
            let (x, y) = (u(0), u(1));
            both(
                bx!(ob(num_integer::Integer::is_multiple_of(&x, &y))),
                bx!(ob(match x.checked_rem(y) { Some(r) => r.is_zero(), None => x.is_zero() })),
            )
        }
        "ni_is_even" | "ni_is_odd" => {
            let x = u(0);
            if f == "ni_is_even" {
                both(bx!(ob(num_integer::Integer::is_even(&x))), bx!(ob(!x.bit(0))))
            } else {
                both(bx!(ob(num_integer::Integer::is_odd(&x))), bx!(ob(x.bit(0))))
            }
        }
        "ni_inc" | "ni_dec" => {
            let x = u(0);
            if f == "ni_inc" {
                both(bx!({ let mut t = x; num_integer::Integer::inc(&mut t); out_uint(&t) }), bx!(out_uint(&x.wrapping_add(U::<BITS, LIMBS>::ONE))))
            } else {
                both(bx!({ let mut t = x; num_integer::Integer::dec(&mut t); out_uint(&t) }), bx!(out_uint(&x.wrapping_sub(U::<BITS, LIMBS>::ONE))))
            }
        }
        _ => format!("X unknown-fn {f}"),
    }
}
}
pub use m_run_ni_d::run_ni_d;
mod m_run_ct {
use super::*;
#[inline(never)]
pub fn run_ct<const BITS: usize, const LIMBS: usize, const BYTES: usize>(f: &str, a: &[&str]) -> String {
    type U<const B: usize, const L: usize> = Uint<B, L>;
    type W<const B: usize, const L: usize> = Bits<B, L>;
    let u = |i: usize| uint::<BITS, LIMBS>(a[i]);
    let out_w = |w: &W<BITS, LIMBS>| out_limbs(w.as_limbs());
    let out_wopt = |o: Option<W<BITS, LIMBS>>| match o {
        Some(v) => format!("S {}", out_limbs(v.as_limbs())),
        None => "N".to_string(),
    };
    let out_pres = |r: Result<U<BITS, LIMBS>, ruint::ParseError>| match r {
        Ok(v) => out_uint(&v),
        Err(e) => perr(&e),
    };
    match f {
        // ------------------------------------------------ subtle
        "ct_bit" => {
            let (x, i) = (u(0), zusize(a[1]));
            both(bx!(ob(bool::from(x.bit_ct(i)))), bx!(ob(x.bit(i))))
        }
        "ct_select" => {
            let (sh, x, y, c) = (z64(a[0]), u(1), u(2), boolean(a[3]));
            use subtle::ConditionallySelectable as S;
            let ch = subtle::Choice::from(u8::from(c));
            both(
                bx!(out_uint(&if sh == 0 { <U<BITS, LIMBS> as S>::conditional_select(&x, &y, ch) } else { let mut t = x; S::conditional_assign(&mut t, &y, ch); t })),
                bx!(out_uint(&if c { y } else { x })),
            )
        }
        "ct_eq" | "ct_gt" | "ct_lt" => {
            let (x, y) = (u(0), u(1));
            match f {
                "ct_eq" => both(bx!(ob(bool::from(subtle::ConstantTimeEq::ct_eq(&x, &y)))), bx!(ob(x == y))),
                "ct_gt" => both(bx!(ob(bool::from(subtle::ConstantTimeGreater::ct_gt(&x, &y)))), bx!(ob(x > y))),
                _ => both(bx!(ob(bool::from(subtle::ConstantTimeLess::ct_lt(&x, &y)))), bx!(ob(x < y))),
            }
        }
        "ct_negate" => {
            let (x, c) = (u(0), boolean(a[1]));
            let ch = subtle::Choice::from(u8::from(c));
            both(
                bx!({ let mut t = x; subtle::ConditionallyNegatable::conditional_negate(&mut t, ch); out_uint(&t) }),
                bx!(out_uint(&if c { x.wrapping_neg() } else { x })),
            )
        }
        _ => format!("X unknown-fn {f}"),
    }
}

}
pub use m_run_ct::run_ct;
mod m_run_zz {
use super::*;
#[inline(never)]
pub fn run_zz<const BITS: usize, const LIMBS: usize, const BYTES: usize>(f: &str, a: &[&str]) -> String {
    type U<const B: usize, const L: usize> = Uint<B, L>;
    type W<const B: usize, const L: usize> = Bits<B, L>;
    let u = |i: usize| uint::<BITS, LIMBS>(a[i]);
    let out_w = |w: &W<BITS, LIMBS>| out_limbs(w.as_limbs());
    let out_wopt = |o: Option<W<BITS, LIMBS>>| match o {
        Some(v) => format!("S {}", out_limbs(v.as_limbs())),
        None => "N".to_string(),
    };
    let out_pres = |r: Result<U<BITS, LIMBS>, ruint::ParseError>| match r {
        Ok(v) => out_uint(&v),
        Err(e) => perr(&e),
    };
    match f {
        // ------------------------------------------------ zeroize
        "zz_zeroize" => {
            let (k, x) = (z64(a[0]), u(1));
            both(
                bx!(if k == 0 {
                    let mut t = x;
                    zeroize::Zeroize::zeroize(&mut t);
                    out_uint(&t)
                } else {
                    let mut t = W::from(x);
                    zeroize::Zeroize::zeroize(&mut t);
                    out_w(&t)
                }),
                bx!(out_uint(&U::<BITS, LIMBS>::ZERO)),
            )
        }
        _ => format!("X unknown-fn {f}"),
    }
}
}
pub use m_run_zz::run_zz;

fn run<const BITS: usize, const LIMBS: usize, const BYTES: usize>(f: &str, a: &[&str]) -> String {
    match &f[..3] {
        "op_" => run_op::<BITS, LIMBS, BYTES>(f, a),
        "it_" => run_it::<BITS, LIMBS, BYTES>(f, a),
        "bw_" => run_bw::<BITS, LIMBS, BYTES>(f, a),
        "nt_" => run_nt::<BITS, LIMBS, BYTES>(f, a),
        "ni_" => run_ni::<BITS, LIMBS, BYTES>(f, a),
        "ct_" => run_ct::<BITS, LIMBS, BYTES>(f, a),
        "zz_" => run_zz::<BITS, LIMBS, BYTES>(f, a),
        _ => format!("X unknown-fn {f}"),
    }
}

fn main() {
    serve(|f, bits, a| with_bytes!(bits, run(f, a)));
}
