// C09: radix conversion (digit iterators, from_base_*), parsing (from_str_radix, FromStr) and
// formatting (Display, Debug, LowerHex, UpperHex, Octal, Binary) through the public API.
use core::fmt;
use core::str::FromStr;
use ruint::{BaseConvertError, ParseError, Uint};
use vharness::*;

trait Fm: fmt::Display + fmt::Debug + fmt::LowerHex + fmt::UpperHex + fmt::Octal + fmt::Binary {}
impl<T: fmt::Display + fmt::Debug + fmt::LowerHex + fmt::UpperHex + fmt::Octal + fmt::Binary> Fm
    for T
{
}

// Format specs must be literals: the grid is enumerated by nested macros.
// Order of the pieces: [[fill]align][+][#][0][width]type
macro_rules! f_w {
    ($v:expr, $w:expr; $($pre:literal),*; $t:literal) => {
        match $w {
            None => format!(concat!("{:", $($pre,)* $t, "}"), $v),
            Some(w) => format!(concat!("{:", $($pre,)* "w$", $t, "}"), $v, w = w),
        }
    };
}
macro_rules! by_t {
    ($v:expr, $w:expr, $t:expr; $($pre:literal),*) => {
        match $t {
            0 => f_w!($v, $w; $($pre),*; ""),
            1 => f_w!($v, $w; $($pre),*; "?"),
            2 => f_w!($v, $w; $($pre),*; "x"),
            3 => f_w!($v, $w; $($pre),*; "X"),
            4 => f_w!($v, $w; $($pre),*; "o"),
            5 => f_w!($v, $w; $($pre),*; "b"),
            _ => return None,
        }
    };
}
macro_rules! by_z {
    ($v:expr, $w:expr, $t:expr, $z:expr; $($pre:literal),*) => {
        if $z { by_t!($v, $w, $t; $($pre,)* "0") } else { by_t!($v, $w, $t; $($pre),*) }
    };
}
macro_rules! by_a {
    ($v:expr, $w:expr, $t:expr, $z:expr, $a:expr; $($pre:literal),*) => {
        if $a { by_z!($v, $w, $t, $z; $($pre,)* "#") } else { by_z!($v, $w, $t, $z; $($pre),*) }
    };
}
macro_rules! by_p {
    ($v:expr, $w:expr, $t:expr, $z:expr, $a:expr, $p:expr; $($pre:literal),*) => {
        if $p { by_a!($v, $w, $t, $z, $a; $($pre,)* "+") } else { by_a!($v, $w, $t, $z, $a; $($pre),*) }
    };
}

#[inline(never)]
fn format_grid(
    v: &dyn Fm, t: u64, plus: bool, alt: bool, zero: bool, fa: u64, w: Option<usize>,
) -> Option<String> {
    Some(match fa {
        0 => by_p!(v, w, t, zero, alt, plus;),
        1 => by_p!(v, w, t, zero, alt, plus; "<"),
        2 => by_p!(v, w, t, zero, alt, plus; "^"),
        3 => by_p!(v, w, t, zero, alt, plus; ">"),
        4 => by_p!(v, w, t, zero, alt, plus; "*<"),
        5 => by_p!(v, w, t, zero, alt, plus; "*^"),
        6 => by_p!(v, w, t, zero, alt, plus; "*>"),
        7 => by_p!(v, w, t, zero, alt, plus; "é^"),
        8 => by_p!(v, w, t, zero, alt, plus; "0<"),
        _ => return None,
    })
}

fn fmt_args(v: &dyn Fm, a: &[&str]) -> String {
    let w = if boolean(a[5]) { Some(zusize(a[6])) } else { None };
    match format_grid(v, z64(a[0]), boolean(a[1]), boolean(a[2]), boolean(a[3]), z64(a[4]), w) {
        Some(s) => out_bytes(s.as_bytes()),
        None => "X bad-format-id".into(),
    }
}

fn out_bce(e: BaseConvertError) -> String {
    match e {
        BaseConvertError::Overflow => "E:1".into(),
        BaseConvertError::InvalidBase(b) => format!("E:2 Z:{b:x}"),
        BaseConvertError::InvalidDigit(d, b) => format!("E:3 Z:{d:x} Z:{b:x}"),
    }
}
fn out_bres<const BITS: usize, const LIMBS: usize>(
    r: Result<Uint<BITS, LIMBS>, BaseConvertError>,
) -> String {
    match r {
        Ok(v) => out_uint(&v),
        Err(e) => out_bce(e),
    }
}
fn out_pres<const BITS: usize, const LIMBS: usize>(
    r: Result<Uint<BITS, LIMBS>, ParseError>,
) -> String {
    match r {
        Ok(v) => out_uint(&v),
        Err(ParseError::InvalidDigit(c)) => format!("E:4 Z:{:x}", c as u32),
        Err(ParseError::InvalidRadix(r)) => format!("E:5 Z:{r:x}"),
        Err(ParseError::BaseConvertError(e)) => format!("E:6 {}", out_bce(e)),
    }
}

fn run<const BITS: usize, const LIMBS: usize>(f: &str, a: &[&str]) -> String {
    type U<const B: usize, const L: usize> = Uint<B, L>;
    let u = |i: usize| uint::<BITS, LIMBS>(a[i]);
    match f {
        "to_base_le" => out_limbs(&u(0).to_base_le(z64(a[1])).collect::<Vec<u64>>()),
        "to_base_be" => out_limbs(&u(0).to_base_be(z64(a[1])).collect::<Vec<u64>>()),
        "from_base_le" => out_bres(U::<BITS, LIMBS>::from_base_le(z64(a[0]), limbs(a[1]))),
        "from_base_be" => out_bres(U::<BITS, LIMBS>::from_base_be(z64(a[0]), limbs(a[1]))),
        "roundtrip_le" => {
            let b = z64(a[1]);
            out_bres(U::<BITS, LIMBS>::from_base_le(b, u(0).to_base_le(b)))
        }
        "roundtrip_be" => {
            let b = z64(a[1]);
            out_bres(U::<BITS, LIMBS>::from_base_be(b, u(0).to_base_be(b)))
        }
        "from_str_radix" => match String::from_utf8(bytes(a[1])) {
            Ok(s) => out_pres(U::<BITS, LIMBS>::from_str_radix(&s, z64(a[0]))),
            Err(_) => "X bad-utf8".into(),
        },
        "from_str" => match String::from_utf8(bytes(a[0])) {
            Ok(s) => out_pres(U::<BITS, LIMBS>::from_str(&s)),
            Err(_) => "X bad-utf8".into(),
        },
        "fmt" => fmt_args(&u(7), a),
        "fmt_ref" => {
            if BITS > 128 {
                return "X fmt_ref-needs-bits<=128".into();
            }
            let l = limbs(a[7]);
            let v: u128 = l.iter().rev().fold(0u128, |acc, &x| (acc << 64) | u128::from(x));
            fmt_args(&v, a)
        }
        _ => format!("X unknown-fn {f}"),
    }
}

fn main() {
    serve(|f, bits, a| with_bits!(bits, run(f, a)));
}
