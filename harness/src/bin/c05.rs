// C05: shifts and rotations through every public surface of src/bits.rs.
use ruint::Uint;
use vharness::*;

// one amount type: the four operator shapes, both directions
macro_rules! prim {
    ($t:ty, $left:expr, $shape:expr, $x:expr, $s:expr) => {{
        let s: $t = match <$t>::try_from($s) {
            Ok(v) => v,
            Err(_) => return "X amount-out-of-range".into(),
        };
        let x = $x;
        match ($left, $shape) {
            (true, 0) => x << s,
            (true, 1) => x << &s,
            (true, 2) => { let mut t = x; t <<= s; t }
            (true, 3) => { let mut t = x; t <<= &s; t }
            (false, 0) => x >> s,
            (false, 1) => x >> &s,
            (false, 2) => { let mut t = x; t >>= s; t }
            (false, 3) => { let mut t = x; t >>= &s; t }
            _ => return "X bad-shape".into(),
        }
    }};
}

fn run<const BITS: usize, const LIMBS: usize>(f: &str, a: &[&str]) -> String {
    type U<const B: usize, const L: usize> = Uint<B, L>;
    let u = |i: usize| uint::<BITS, LIMBS>(a[i]);
    match f {
        "overflowing_shl" => out_pair(u(0).overflowing_shl(zusize(a[1]))),
        "checked_shl" => out_opt(u(0).checked_shl(zusize(a[1]))),
        "saturating_shl" => out_uint(&u(0).saturating_shl(zusize(a[1]))),
        "wrapping_shl" => out_uint(&u(0).wrapping_shl(zusize(a[1]))),
        "overflowing_shr" => out_pair(u(0).overflowing_shr(zusize(a[1]))),
        "checked_shr" => out_opt(u(0).checked_shr(zusize(a[1]))),
        "wrapping_shr" => out_uint(&u(0).wrapping_shr(zusize(a[1]))),
        "arithmetic_shr" => out_uint(&u(0).arithmetic_shr(zusize(a[1]))),
        "rotate_left" => out_uint(&u(0).rotate_left(zusize(a[1]))),
        "rotate_right" => out_uint(&u(0).rotate_right(zusize(a[1]))),
        "op_shl" | "op_shr" => {
            let left = f == "op_shl";
            let (ty, shape, x, s) = (z64(a[0]), z64(a[1]), u(2), z64(a[3]));
            let r: U<BITS, LIMBS> = match ty {
                0 => prim!(usize, left, shape, x, s),
                1 => prim!(u8, left, shape, x, s),
                2 => prim!(u16, left, shape, x, s),
                3 => prim!(u32, left, shape, x, s),
                4 => prim!(u64, left, shape, x, s),
                5 => prim!(isize, left, shape, x, s),
                6 => prim!(i8, left, shape, x, s),
                7 => prim!(i16, left, shape, x, s),
                8 => prim!(i32, left, shape, x, s),
                9 => prim!(i64, left, shape, x, s),
                _ => return "X bad-type".into(),
            };
            out_uint(&r)
        }
        "shl_uint" => out_uint(&(u(0) << u(1))),
        "shr_uint" => out_uint(&(u(0) >> u(1))),
        "op_shl_uint" | "op_shr_uint" => {
            let left = f == "op_shl_uint";
            let (x, k) = (u(1), u(2));
            let r: U<BITS, LIMBS> = match (left, z64(a[0])) {
                (true, 0) => x << k,
                (true, 1) => x << &k,
                (true, 2) => { let mut t = x; t <<= k; t }
                (true, 3) => { let mut t = x; t <<= &k; t }
                (false, 0) => x >> k,
                (false, 1) => x >> &k,
                (false, 2) => { let mut t = x; t >>= k; t }
                (false, 3) => { let mut t = x; t >>= &k; t }
                _ => return "X bad-shape".into(),
            };
            out_uint(&r)
        }
        _ => format!("X unknown-fn {f}"),
    }
}

fn main() {
    serve(|f, bits, a| with_bits!(bits, run(f, a)));
}
