// C15: limb-slice kernels in ruint::algorithms.
use core::cmp::Ordering;
use ruint::algorithms as alg;
use vharness::*;

fn run(f: &str, a: &[&str]) -> String {
    match f {
        "addmul" => {
            let mut lhs = limbs(a[0]);
            let o = alg::addmul(&mut lhs, &limbs(a[1]), &limbs(a[2]));
            format!("{} {}", out_limbs(&lhs), out_bool(o))
        }
        "addmul_n" => {
            let mut lhs = limbs(a[0]);
            alg::addmul_n(&mut lhs, &limbs(a[1]), &limbs(a[2]));
            out_limbs(&lhs)
        }
        "mul_nx1" => {
            let mut lhs = limbs(a[0]);
            let c = alg::mul_nx1(&mut lhs, z64(a[1]));
            format!("{} {}", out_limbs(&lhs), out_z(c.into()))
        }
        "addmul_nx1" => {
            let mut lhs = limbs(a[0]);
            let c = alg::addmul_nx1(&mut lhs, &limbs(a[1]), z64(a[2]));
            format!("{} {}", out_limbs(&lhs), out_z(c.into()))
        }
        "submul_nx1" => {
            let mut lhs = limbs(a[0]);
            let c = alg::submul_nx1(&mut lhs, &limbs(a[1]), z64(a[2]));
            format!("{} {}", out_limbs(&lhs), out_z(c.into()))
        }
        "add_nx1" => {
            let mut lhs = limbs(a[0]);
            let c = alg::add_nx1(&mut lhs, z64(a[1]));
            format!("{} {}", out_limbs(&lhs), out_z(c.into()))
        }
        "adc_n" => {
            let mut lhs = limbs(a[0]);
            let c = alg::adc_n(&mut lhs, &limbs(a[1]), z64(a[2]));
            format!("{} {}", out_limbs(&lhs), out_z(c.into()))
        }
        "sbb_n" => {
            let mut lhs = limbs(a[0]);
            let c = alg::sbb_n(&mut lhs, &limbs(a[1]), z64(a[2]));
            format!("{} {}", out_limbs(&lhs), out_z(c.into()))
        }
        "shift_left_small" => {
            let mut l = limbs(a[0]);
            let c = alg::shift_left_small(&mut l, zusize(a[1]));
            format!("{} {}", out_limbs(&l), out_z(c.into()))
        }
        "shift_right_small" => {
            let mut l = limbs(a[0]);
            let c = alg::shift_right_small(&mut l, zusize(a[1]));
            format!("{} {}", out_limbs(&l), out_z(c.into()))
        }
        "cmp" => {
            let c = alg::cmp(&limbs(a[0]), &limbs(a[1]));
            out_z(match c { Ordering::Less => 0, Ordering::Equal => 1, Ordering::Greater => 2 })
        }
        "adc" => {
            let (l, h) = alg::adc(z64(a[0]), z64(a[1]), z64(a[2]));
            format!("{} {}", out_z(l.into()), out_z(h.into()))
        }
        "sbb" => {
            let (l, h) = alg::sbb(z64(a[0]), z64(a[1]), z64(a[2]));
            format!("{} {}", out_z(l.into()), out_z(h.into()))
        }
        "carrying_add" => {
            let (r, c) = alg::carrying_add(z64(a[0]), z64(a[1]), boolean(a[2]));
            format!("{} {}", out_z(r.into()), out_bool(c))
        }
        "borrowing_sub" => {
            let (r, c) = alg::borrowing_sub(z64(a[0]), z64(a[1]), boolean(a[2]));
            format!("{} {}", out_z(r.into()), out_bool(c))
        }
        _ => format!("X unknown-fn {f}"),
    }
}

fn main() {
    serve(|f, _bits, a| run(f, a));
}
