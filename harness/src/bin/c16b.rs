// C16/C17 group B: SCALE (plain + compact), SSZ, borsh, DER integrations of ruint,
// called through the third-party crates' public traits.  One bin serves both properties.
//
// Result conventions: decoders print `L:value Z:consumed` on Ok and `E:code [payload]` on Err.
//   SCALE error codes (parity's Error is an opaque message; classified by message family):
//     1 not enough input, 2 "out of range" (compact prefix / mode), 3 "larger than fits the Uint"
//   SSZ: 1 InvalidByteLength (payload Z:len Z:expected), 2 BytesInvalid
//   borsh: 1 UnexpectedEof, 2 InvalidData
//   DER (der::ErrorKind): 1 Incomplete, 2 TagUnknown, 3 TagNumberInvalid, 4 TagUnexpected,
//     5 IndefiniteLength, 6 Length, 7 Overflow, 8 Noncanonical, 9 Value, 10 TrailingData,
//     11 Overlength
//   99 = anything else (the model never predicts it).
use parity_scale_codec as psc;
use ruint::support::scale::{CompactRefUint, CompactUint};
use ruint::{Bits, Uint};
use vharness::*;

fn scale_err(e: &psc::Error) -> String {
    let s = format!("{e}");
    let code = if s.contains("Not enough data") {
        1
    } else if s.contains("out of range") {
        2
    } else if s.contains("larger than fits") {
        3
    } else {
        99
    };
    format!("E:{code:x}")
}

fn der_err(e: &der::Error) -> String {
    use der::ErrorKind as K;
    let code = match e.kind() {
        K::Incomplete { .. } => 1,
        K::TagUnknown { .. } => 2,
        K::TagNumberInvalid => 3,
        K::TagUnexpected { .. } => 4,
        K::IndefiniteLength => 5,
        K::Length { .. } => 6,
        K::Overflow => 7,
        K::Noncanonical { .. } => 8,
        K::Value { .. } => 9,
        K::TrailingData { .. } => 10,
        K::Overlength => 11,
        _ => 99,
    };
    format!("E:{code:x}")
}

fn borsh_err(e: &borsh::io::Error) -> String {
    use borsh::io::ErrorKind as K;
    let code = match e.kind() {
        K::UnexpectedEof => 1,
        K::InvalidData => 2,
        _ => 99,
    };
    format!("E:{code:x}")
}

fn ssz_err(e: &ssz::DecodeError) -> String {
    match e {
        ssz::DecodeError::InvalidByteLength { len, expected } => {
            format!("E:1 {} {}", out_z(*len as u128), out_z(*expected as u128))
        }
        ssz::DecodeError::BytesInvalid(_) => "E:2".into(),
        _ => "E:63".into(),
    }
}

fn ok_dec<const BITS: usize, const LIMBS: usize>(v: &Uint<BITS, LIMBS>, used: usize) -> String {
    format!("{} {}", out_uint(v), out_z(used as u128))
}

/// `ours` then `S theirs` when the codec crate has the same format for the primitive, else `N`
fn out_vs(ours: &[u8], theirs: Option<Vec<u8>>) -> String {
    match theirs {
        Some(t) => format!("{} S {}", out_bytes(ours), out_bytes(&t)),
        None => format!("{} N", out_bytes(ours)),
    }
}

fn scale_decode_slice<const BITS: usize, const LIMBS: usize>(b: &[u8]) -> String {
    let mut inp = b;
    match <Uint<BITS, LIMBS> as psc::Decode>::decode(&mut inp) {
        Ok(v) => ok_dec(&v, b.len() - inp.len()),
        Err(e) => scale_err(&e),
    }
}

fn compact_decode_slice<const BITS: usize, const LIMBS: usize>(b: &[u8]) -> String {
    let mut inp = b;
    match <CompactUint<BITS, LIMBS> as psc::Decode>::decode(&mut inp) {
        Ok(v) => ok_dec(&v.0, b.len() - inp.len()),
        Err(e) => scale_err(&e),
    }
}

fn ssz_decode_slice<const BITS: usize, const LIMBS: usize>(b: &[u8]) -> String {
    match <Uint<BITS, LIMBS> as ssz::Decode>::from_ssz_bytes(b) {
        Ok(v) => ok_dec(&v, b.len()),
        Err(e) => ssz_err(&e),
    }
}

fn borsh_de_slice<const BITS: usize, const LIMBS: usize>(shape: u64, b: &[u8]) -> String {
    let mut inp = b;
    let r = if shape == 0 {
        <Uint<BITS, LIMBS> as borsh::BorshDeserialize>::deserialize_reader(&mut inp)
    } else {
        <Bits<BITS, LIMBS> as borsh::BorshDeserialize>::deserialize_reader(&mut inp)
            .map(|x| x.into_inner())
    };
    match r {
        Ok(v) => ok_dec(&v, b.len() - inp.len()),
        Err(e) => borsh_err(&e),
    }
}

fn der_decode_slice<const BITS: usize, const LIMBS: usize>(b: &[u8]) -> String {
    match <Uint<BITS, LIMBS> as der::Decode>::from_der(b) {
        Ok(v) => ok_dec(&v, b.len()),
        Err(e) => der_err(&e),
    }
}

fn borsh_bytes<const BITS: usize, const LIMBS: usize>(shape: u64, x: &Uint<BITS, LIMBS>) -> Vec<u8> {
    if shape == 0 {
        borsh::to_vec(x).expect("borsh to_vec")
    } else {
        borsh::to_vec(&Bits::<BITS, LIMBS>::from(*x)).expect("borsh to_vec")
    }
}

fn run<const BITS: usize, const LIMBS: usize>(f: &str, a: &[&str]) -> String {
    type U<const B: usize, const L: usize> = Uint<B, L>;
    let u = |i: usize| uint::<BITS, LIMBS>(a[i]);
    match f {
        // ------------------------------------------------ SCALE, plain
        "scale_encode" => {
            let x = u(0);
            let e = psc::Encode::encode(&x);
            // encoded_size must agree with the bytes
            if psc::Encode::encoded_size(&x) != e.len() {
                return "X encoded_size".into();
            }
            out_bytes(&e)
        }
        "scale_size_hint" => out_z(psc::Encode::size_hint(&u(0)) as u128),
        "scale_max_encoded_len" => {
            let _ = u(0);
            out_z(<U<BITS, LIMBS> as psc::MaxEncodedLen>::max_encoded_len() as u128)
        }
        "scale_roundtrip" => scale_decode_slice::<BITS, LIMBS>(&psc::Encode::encode(&u(0))),
        "scale_decode" => scale_decode_slice::<BITS, LIMBS>(&bytes(a[0])),
        // ------------------------------------------------ SCALE, compact
        "scale_compact_encode" => {
            let x = u(0);
            let direct = psc::Encode::encode(&CompactRefUint(&x));
            // the path taken by #[codec(compact)]: HasCompact::Type as EncodeAsRef
            type Ty<const B: usize, const L: usize> = <U<B, L> as psc::HasCompact>::Type;
            let via = psc::Encode::encode(
                &<<Ty<BITS, LIMBS> as psc::EncodeAsRef<'_, U<BITS, LIMBS>>>::RefType>::from(&x),
            );
            if direct != via {
                return "X hascompact".into();
            }
            out_bytes(&direct)
        }
        "scale_compact_size_hint" => {
            let x = u(0);
            out_z(psc::Encode::size_hint(&CompactRefUint(&x)) as u128)
        }
        "scale_compact_roundtrip" => {
            let x = u(0);
            let e = psc::Encode::encode(&CompactRefUint(&x));
            let mut inp = &e[..];
            type Ty<const B: usize, const L: usize> = <U<B, L> as psc::HasCompact>::Type;
            match <Ty<BITS, LIMBS> as psc::Decode>::decode(&mut inp) {
                Ok(v) => {
                    let v: U<BITS, LIMBS> = v.into();
                    ok_dec(&v, e.len() - inp.len())
                }
                Err(e) => scale_err(&e),
            }
        }
        "scale_compact_decode" => compact_decode_slice::<BITS, LIMBS>(&bytes(a[0])),
        "scale_compact_prim" => {
            let w = z64(a[0]);
            let x = u(1);
            let ours = psc::Encode::encode(&CompactRefUint(&x));
            let theirs = match w {
                64 => u64::try_from(x).ok().map(|v| psc::Encode::encode(&psc::Compact(v))),
                128 => u128::try_from(x).ok().map(|v| psc::Encode::encode(&psc::Compact(v))),
                _ => return "X bad-w".into(),
            };
            out_vs(&ours, theirs)
        }
        // ------------------------------------------------ SSZ
        "ssz_encode" => {
            let x = u(0);
            let e = ssz::Encode::as_ssz_bytes(&x);
            let mut buf = vec![0xa5u8];
            ssz::Encode::ssz_append(&x, &mut buf);
            if buf[0] != 0xa5 || buf[1..] != e[..] {
                return "X ssz_append".into();
            }
            out_bytes(&e)
        }
        "ssz_len" => {
            let x = u(0);
            format!(
                "{} {} {} {}",
                out_z(ssz::Encode::ssz_bytes_len(&x) as u128),
                out_z(<U<BITS, LIMBS> as ssz::Encode>::ssz_fixed_len() as u128),
                out_z(<U<BITS, LIMBS> as ssz::Decode>::ssz_fixed_len() as u128),
                out_bool(
                    <U<BITS, LIMBS> as ssz::Encode>::is_ssz_fixed_len()
                        && <U<BITS, LIMBS> as ssz::Decode>::is_ssz_fixed_len()
                )
            )
        }
        "ssz_roundtrip" => ssz_decode_slice::<BITS, LIMBS>(&ssz::Encode::as_ssz_bytes(&u(0))),
        "ssz_decode" => ssz_decode_slice::<BITS, LIMBS>(&bytes(a[0])),
        "ssz_prim" => {
            let w = z64(a[0]);
            let x = u(1);
            let ours = ssz::Encode::as_ssz_bytes(&x);
            let theirs = match w {
                64 if BITS == 64 => Some(ssz::Encode::as_ssz_bytes(&x.to::<u64>())),
                128 if BITS == 128 => Some(ssz::Encode::as_ssz_bytes(&x.to::<u128>())),
                64 | 128 => None,
                _ => return "X bad-w".into(),
            };
            out_vs(&ours, theirs)
        }
        // ------------------------------------------------ borsh (shape 0: Uint, 1: Bits)
        "borsh_ser" => out_bytes(&borsh_bytes(z64(a[0]), &u(1))),
        "borsh_roundtrip" => {
            let s = z64(a[0]);
            borsh_de_slice::<BITS, LIMBS>(s, &borsh_bytes(s, &u(1)))
        }
        "borsh_de" => borsh_de_slice::<BITS, LIMBS>(z64(a[0]), &bytes(a[1])),
        "borsh_prim" => {
            let w = z64(a[0]);
            let x = u(1);
            let ours = borsh_bytes(0, &x);
            let theirs = match w {
                64 if BITS == 64 => Some(borsh::to_vec(&x.to::<u64>()).unwrap()),
                128 if BITS == 128 => Some(borsh::to_vec(&x.to::<u128>()).unwrap()),
                64 | 128 => None,
                _ => return "X bad-w".into(),
            };
            out_vs(&ours, theirs)
        }
        // ------------------------------------------------ DER
        "der_encode" => match der::Encode::to_der(&u(0)) {
            Ok(v) => out_bytes(&v),
            Err(e) => der_err(&e),
        },
        "der_value_len" => {
            let x = u(0);
            let vl = match der::EncodeValue::value_len(&x) {
                Ok(l) => l,
                Err(e) => return der_err(&e),
            };
            let el = match der::Encode::encoded_len(&x) {
                Ok(l) => l,
                Err(e) => return der_err(&e),
            };
            format!("{} {}", out_z(u32::from(vl) as u128), out_z(u32::from(el) as u128))
        }
        "der_roundtrip" => match der::Encode::to_der(&u(0)) {
            Ok(v) => der_decode_slice::<BITS, LIMBS>(&v),
            Err(e) => der_err(&e),
        },
        "der_decode" => der_decode_slice::<BITS, LIMBS>(&bytes(a[0])),
        "der_prim" => {
            let w = z64(a[0]);
            let x = u(1);
            let ours = match der::Encode::to_der(&x) {
                Ok(v) => v,
                Err(e) => return der_err(&e),
            };
            let theirs = match w {
                64 => u64::try_from(x).ok().map(|v| der::Encode::to_der(&v).unwrap()),
                128 => u128::try_from(x).ok().map(|v| der::Encode::to_der(&v).unwrap()),
                _ => return "X bad-w".into(),
            };
            out_vs(&ours, theirs)
        }
        // DER object conversions: Int / DerUint / Any (payload bytes of the object)
        "der_to_int" => {
            let x = u(0);
            let o = der::asn1::Int::from(&x);
            let o2: der::asn1::Int = x.into();
            if o != o2 {
                return "X forward_ref".into();
            }
            out_bytes(o.as_bytes())
        }
        "der_to_uint" => {
            let x = u(0);
            let o = der::asn1::Uint::from(&x);
            out_bytes(o.as_bytes())
        }
        "der_to_any" => {
            let x = u(0);
            let o = der::asn1::Any::from(&x);
            if der::Tagged::tag(&o) != der::Tag::Integer {
                return "X tag".into();
            }
            out_bytes(o.value())
        }
        "der_from_int" => {
            let b = bytes(a[0]);
            let r = match der::asn1::IntRef::new(&b) {
                Ok(i) => i,
                Err(e) => return format!("X intref {e}"),
            };
            let o = der::asn1::Int::new(&b).unwrap();
            let r1 = U::<BITS, LIMBS>::try_from(r);
            let r2 = U::<BITS, LIMBS>::try_from(&o);
            let r3 = U::<BITS, LIMBS>::try_from(o);
            if r1 != r2 || r1 != r3 {
                return "X int-forms".into();
            }
            match r1 {
                Ok(v) => out_uint(&v),
                Err(e) => der_err(&e),
            }
        }
        "der_from_uint" => {
            let b = bytes(a[0]);
            let r = match der::asn1::UintRef::new(&b) {
                Ok(i) => i,
                Err(e) => return format!("X uintref {e}"),
            };
            let o = der::asn1::Uint::new(&b).unwrap();
            let r1 = U::<BITS, LIMBS>::try_from(r);
            let r2 = U::<BITS, LIMBS>::try_from(&o);
            let r3 = U::<BITS, LIMBS>::try_from(o);
            if r1 != r2 || r1 != r3 {
                return "X uint-forms".into();
            }
            match r1 {
                Ok(v) => out_uint(&v),
                Err(e) => der_err(&e),
            }
        }
        "der_from_any" => {
            // an ANY holding an INTEGER whose content octets are the given bytes
            let b = bytes(a[0]);
            let o = match der::asn1::Any::new(der::Tag::Integer, b.clone()) {
                Ok(o) => o,
                Err(e) => return format!("X any {e}"),
            };
            let r = der::asn1::AnyRef::new(der::Tag::Integer, &b).unwrap();
            let r1 = U::<BITS, LIMBS>::try_from(r);
            let r2 = U::<BITS, LIMBS>::try_from(&o);
            let r3 = U::<BITS, LIMBS>::try_from(o);
            if r1 != r2 || r1 != r3 {
                return "X any-forms".into();
            }
            match r1 {
                Ok(v) => out_uint(&v),
                Err(e) => der_err(&e),
            }
        }
        _ => format!("X unknown-fn {f}"),
    }
}

fn main() {
    serve(|f, bits, a| with_bits!(bits, run(f, a)));
}
