// C13: pow family, log family, root through the public API.
// `est_*` pseudo-functions reproduce, with the crate's public functions only, the
// floating-point estimate that `log` / `root` compute internally (libm is not modelled; the
// estimate is an input of the Coq model).  A trailing `LL:` token on a case line (the
// estimate, appended by vlib/p_c13.py:prepare) is ignored by the real entry points.
use ruint::Uint;
use vharness::*;

fn out_est<const BITS: usize, const LIMBS: usize>(o: Option<Uint<BITS, LIMBS>>) -> String {
    match o {
        Some(v) => format!("LL:{};", &out_uint(&v)[2..]),
        None => "LL:".to_string(),
    }
}
fn out_optz(o: Option<usize>) -> String {
    match o {
        Some(k) => format!("S {}", out_z(k as u128)),
        None => "N".to_string(),
    }
}
// src/log.rs: `let result = self.approx_log2() / base.approx_log2();
//              assert!(result.is_normal()); result.try_into().unwrap()`
fn est_log<const BITS: usize, const LIMBS: usize>(
    x: Uint<BITS, LIMBS>,
    base: Uint<BITS, LIMBS>,
) -> Option<Uint<BITS, LIMBS>> {
    let result = x.approx_log2() / base.approx_log2();
    if !result.is_normal() {
        return None;
    }
    Uint::<BITS, LIMBS>::try_from(result).ok()
}

fn run<const BITS: usize, const LIMBS: usize>(f: &str, a: &[&str]) -> String {
    let u = |i: usize| uint::<BITS, LIMBS>(a[i]);
    match f {
        "pow" => out_uint(&u(0).pow(u(1))),
        "wrapping_pow" => out_uint(&u(0).wrapping_pow(u(1))),
        "overflowing_pow" => out_pair(u(0).overflowing_pow(u(1))),
        "checked_pow" => out_opt(u(0).checked_pow(u(1))),
        "saturating_pow" => out_uint(&u(0).saturating_pow(u(1))),
        "log" => out_z(u(0).log(u(1)) as u128),
        "checked_log" => out_optz(u(0).checked_log(u(1))),
        "log2" => out_z(u(0).log2() as u128),
        "checked_log2" => out_optz(u(0).checked_log2()),
        "log10" => out_z(u(0).log10() as u128),
        "checked_log10" => out_optz(u(0).checked_log10()),
        "root" => out_uint(&u(0).root(zusize(a[1]))),
        // ---- estimates (never compared with anything: they become model inputs) ----
        "est_log" => out_est(est_log(u(0), u(1))),
        "est_log10" => match Uint::<BITS, LIMBS>::try_from(10_u64) {
            Ok(base) => out_est(est_log(u(0), base)),
            Err(_) => "LL:".to_string(),
        },
        // src/root.rs: `Self::approx_pow2(self.approx_log2() / degree as f64).unwrap()`
        "est_root" => {
            let degree = zusize(a[1]);
            out_est(Uint::<BITS, LIMBS>::approx_pow2(u(0).approx_log2() / degree as f64))
        }
        _ => format!("X unknown-fn {f}"),
    }
}

fn main() {
    serve(|f, bits, a| with_bits!(bits, run(f, a)));
}
