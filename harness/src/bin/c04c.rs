// C04 part (c): rejecting constructors, constants and the random / arbitrary generators
// (features `generators`: rand 0.8, rand 0.9, arbitrary, proptest, quickcheck).
use ruint::{Bits, Uint};
use vharness::*;

/// A deterministic source: yields the little-endian bytes of the given words, then zeros.
struct WordSrc {
    words: Vec<u64>,
    pos: usize, // byte position
}
impl WordSrc {
    fn new(words: Vec<u64>) -> Self {
        Self { words, pos: 0 }
    }
    fn byte(&mut self) -> u8 {
        let w = self.words.get(self.pos / 8).copied().unwrap_or(0);
        let b = (w >> (8 * (self.pos % 8))) as u8;
        self.pos += 1;
        b
    }
    fn fill(&mut self, dest: &mut [u8]) {
        for d in dest {
            *d = self.byte();
        }
    }
}
impl rand_08::RngCore for WordSrc {
    fn next_u32(&mut self) -> u32 {
        let mut b = [0u8; 4];
        self.fill(&mut b);
        u32::from_le_bytes(b)
    }
    fn next_u64(&mut self) -> u64 {
        let mut b = [0u8; 8];
        self.fill(&mut b);
        u64::from_le_bytes(b)
    }
    fn fill_bytes(&mut self, dest: &mut [u8]) {
        self.fill(dest)
    }
    fn try_fill_bytes(&mut self, dest: &mut [u8]) -> Result<(), rand_08::Error> {
        self.fill(dest);
        Ok(())
    }
}
impl rand_09::RngCore for WordSrc {
    fn next_u32(&mut self) -> u32 {
        let mut b = [0u8; 4];
        self.fill(&mut b);
        u32::from_le_bytes(b)
    }
    fn next_u64(&mut self) -> u64 {
        let mut b = [0u8; 8];
        self.fill(&mut b);
        u64::from_le_bytes(b)
    }
    fn fill_bytes(&mut self, dest: &mut [u8]) {
        self.fill(dest)
    }
}

fn arr<const LIMBS: usize>(tok: &str) -> [u64; LIMBS] {
    limbs(tok).try_into().expect("wrong limb count")
}

fn pt_runner(seed: u64) -> proptest::test_runner::TestRunner {
    use proptest::test_runner::{Config, RngAlgorithm, TestRng, TestRunner};
    let mut s = [0u8; 32];
    s[..8].copy_from_slice(&seed.to_le_bytes());
    TestRunner::new_with_rng(Config::default(), TestRng::from_seed(RngAlgorithm::ChaCha, &s))
}

fn excess<const BITS: usize, const LIMBS: usize>(u: &Uint<BITS, LIMBS>) -> u64 {
    match u.as_limbs().last() {
        Some(top) => top & !Uint::<BITS, LIMBS>::MASK,
        None => 0,
    }
}

fn run<const BITS: usize, const LIMBS: usize>(f: &str, a: &[&str]) -> String {
    type U<const B: usize, const L: usize> = Uint<B, L>;
    match f {
        "from_limbs" => out_uint(&U::<BITS, LIMBS>::from_limbs(arr(a[0]))),
        "bits_from_limbs" => out_uint(&Bits::<BITS, LIMBS>::from_limbs(arr(a[0])).into_inner()),
        "from_limbs_slice" => out_uint(&U::<BITS, LIMBS>::from_limbs_slice(&limbs(a[0]))),
        "checked_from_limbs_slice" => out_opt(U::<BITS, LIMBS>::checked_from_limbs_slice(&limbs(a[0]))),
        "wrapping_from_limbs_slice" => out_uint(&U::<BITS, LIMBS>::wrapping_from_limbs_slice(&limbs(a[0]))),
        "overflowing_from_limbs_slice" => out_pair(U::<BITS, LIMBS>::overflowing_from_limbs_slice(&limbs(a[0]))),
        "saturating_from_limbs_slice" => out_uint(&U::<BITS, LIMBS>::saturating_from_limbs_slice(&limbs(a[0]))),
        "constant" => {
            let v: U<BITS, LIMBS> = match z64(a[0]) {
                0 => U::ZERO,
                1 => U::ONE,
                2 => U::MIN,
                3 => U::MAX,
                4 => Default::default(),
                5 => Bits::<BITS, LIMBS>::ZERO.into_inner(),
                6 => Bits::<BITS, LIMBS>::default().into(),
                7 => <U<BITS, LIMBS> as From<Bits<BITS, LIMBS>>>::from(Bits::from(U::<BITS, LIMBS>::MAX)),
                _ => return "X bad-constant".into(),
            };
            out_uint(&v)
        }
        "rand08" => {
            use rand_08::distributions::{Distribution, Standard};
            use rand_08::Rng;
            let mut src = WordSrc::new(limbs(a[1]));
            let v: U<BITS, LIMBS> = match z64(a[0]) {
                0 => Standard.sample(&mut src),
                1 => src.gen(),
                _ => return "X bad-shape".into(),
            };
            out_uint(&v)
        }
        "rand09" => {
            use rand_09::distr::{Distribution, StandardUniform};
            use rand_09::Rng;
            let mut src = WordSrc::new(limbs(a[2]));
            let v: U<BITS, LIMBS> = match z64(a[0]) {
                0 => U::random_with(&mut src),
                1 => {
                    let mut t = uint::<BITS, LIMBS>(a[1]);
                    t.randomize_with(&mut src);
                    t
                }
                2 => StandardUniform.sample(&mut src),
                3 => src.random(),
                _ => return "X bad-shape".into(),
            };
            out_uint(&v)
        }
        "arbitrary" => {
            use arbitrary::{Arbitrary, Unstructured};
            let data = bytes(a[0]);
            let mut u = Unstructured::new(&data);
            match U::<BITS, LIMBS>::arbitrary(&mut u) {
                Ok(v) => out_uint(&v),
                Err(_) => "E:1".into(),
            }
        }
        // the source array / words drawn by the seeded third-party generator (used by the
        // generator script to complete the case line)
        "proptest_src" | "proptest" => {
            use proptest::arbitrary::any;
            use proptest::strategy::{Strategy, ValueTree};
            let seed = z64(a[0]);
            let src: [u64; LIMBS] = any::<[u64; LIMBS]>().new_tree(&mut pt_runner(seed)).unwrap().current();
            if f == "proptest_src" {
                return out_limbs(&src);
            }
            let v: U<BITS, LIMBS> = any::<U<BITS, LIMBS>>().new_tree(&mut pt_runner(seed)).unwrap().current();
            format!("{} {}", out_limbs(&src), out_uint(&v))
        }
        "quickcheck_src" | "quickcheck" => {
            use quickcheck::{Arbitrary, Gen};
            let (seed, size) = (z64(a[0]), zusize(a[1]));
            let mut g = Gen::from_size_and_seed(size, seed);
            let src: Vec<u64> = (0..LIMBS).map(|_| u64::arbitrary(&mut g)).collect();
            if f == "quickcheck_src" {
                return out_limbs(&src);
            }
            let mut g = Gen::from_size_and_seed(size, seed);
            let v = U::<BITS, LIMBS>::arbitrary(&mut g);
            format!("{} {}", out_limbs(&src), out_uint(&v))
        }
        // the one libm call of approx_pow2, through the same public expression as src/pow.rs:
        // `(fract.exp2() * EXP2_63) as u64`
        "approx_pow2_obs" => {
            let exp = f64::from_bits(z64(a[0]));
            let bits = (exp.fract().exp2() * 9_223_372_036_854_775_808_f64) as u64;
            out_z(bits.into())
        }
        "approx_pow2" => out_opt(Uint::<BITS, LIMBS>::approx_pow2(f64::from_bits(z64(a[0])))),
        "thread_random" => {
            let (which, count) = (z64(a[0]), z64(a[1]));
            let mut acc = 0u64;
            for i in 0..count {
                let v: U<BITS, LIMBS> = match which {
                    0 => U::random(),
                    1 => {
                        let mut t = U::<BITS, LIMBS>::MAX;
                        t.randomize();
                        t
                    }
                    2 => {
                        use rand_08::Rng;
                        rand_08::thread_rng().gen()
                    }
                    3 => {
                        use rand_09::Rng;
                        rand_09::rng().random()
                    }
                    4 => {
                        use quickcheck::{Arbitrary, Gen};
                        U::arbitrary(&mut Gen::new(1 + i as usize))
                    }
                    5 => {
                        use proptest::arbitrary::any;
                        use proptest::strategy::{Strategy, ValueTree};
                        let mut runner = proptest::test_runner::TestRunner::default();
                        let mut tree = any::<U<BITS, LIMBS>>().new_tree(&mut runner).unwrap();
                        // walk a few shrinking steps as well
                        for k in 0..8 {
                            acc |= excess(&tree.current());
                            if !(if k % 3 == 2 { tree.complicate() } else { tree.simplify() }) {
                                break;
                            }
                        }
                        tree.current()
                    }
                    _ => return "X bad-source".into(),
                };
                acc |= excess(&v);
            }
            out_z(acc as u128)
        }
        _ => format!("X unknown-fn {f}"),
    }
}

fn main() {
    serve(|f, bits, a| with_bits!(bits, run(f, a)));
}
