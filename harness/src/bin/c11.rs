// C11: Montgomery multiplication / squaring: Uint::{mul_redc, square_redc} at every harness
// width and ruint::algorithms::{mul_redc, square_redc}::<N> for N = 0..=16 (bits = 64 * N).
use ruint::algorithms;
use vharness::*;

fn run<const BITS: usize, const LIMBS: usize>(f: &str, a: &[&str]) -> String {
    let u = |i: usize| uint::<BITS, LIMBS>(a[i]);
    match f {
        "mul_redc" => out_uint(&u(0).mul_redc(u(1), u(2), z64(a[3]))),
        "square_redc" => out_uint(&u(0).square_redc(u(1), z64(a[2]))),
        _ => format!("X unknown-fn {f}"),
    }
}

fn alg<const N: usize>(f: &str, a: &[&str]) -> String {
    let arr = |i: usize| -> [u64; N] { limbs(a[i]).try_into().expect("wrong limb count") };
    match f {
        "alg_mul_redc" => out_limbs(&algorithms::mul_redc::<N>(arr(0), arr(1), arr(2), z64(a[3]))),
        "alg_square_redc" => out_limbs(&algorithms::square_redc::<N>(arr(0), arr(1), z64(a[2]))),
        _ => format!("X unknown-fn {f}"),
    }
}

macro_rules! with_n {
    ($n:expr, $f:ident $args:tt; $($k:literal),*) => {
        match $n {
            $( $k => $f::<$k> $args, )*
            _ => format!("X unsupported-N"),
        }
    };
}

fn main() {
    serve(|f, bits, a| {
        if f.starts_with("alg_") {
            if bits % 64 != 0 {
                return "X bits-not-64N".into();
            }
            with_n!(bits / 64, alg(f, a); 0, 1, 2, 3, 4, 5, 6, 7, 8, 9, 10, 11, 12, 13, 14, 15, 16)
        } else {
            with_bits!(bits, run(f, a))
        }
    });
}
