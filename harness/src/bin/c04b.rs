// C04 part (b): ==, !=, <, <=, >, >=, cmp, partial_cmp, min, max, clamp, Hash, is_zero.
use ruint::Uint;
use std::cmp::Ordering;
use std::collections::hash_map::DefaultHasher;
use std::hash::{Hash, Hasher};
use vharness::*;

fn h<T: Hash>(t: &T) -> u128 {
    let mut s = DefaultHasher::new();
    t.hash(&mut s);
    s.finish() as u128
}
fn ord(o: Ordering) -> u128 {
    match o {
        Ordering::Less => 0,
        Ordering::Equal => 1,
        Ordering::Greater => 2,
    }
}

fn run<const BITS: usize, const LIMBS: usize>(f: &str, a: &[&str]) -> String {
    let u = |i: usize| uint::<BITS, LIMBS>(a[i]);
    match f {
        "cmp_ops" => {
            let (x, y) = (u(0), u(1));
            let arr: [u64; LIMBS] = *x.as_limbs();
            [
                out_bool(x == y),
                out_bool(x != y),
                out_bool(x < y),
                out_bool(x <= y),
                out_bool(x > y),
                out_bool(x >= y),
                out_z(ord(Ord::cmp(&x, &y))),
                out_z(PartialOrd::partial_cmp(&x, &y).map_or(3, ord)),
                out_uint(&Ord::min(x, y)),
                out_uint(&Ord::max(x, y)),
                out_z(h(&x)),
                out_z(h(&y)),
                out_z(h(&arr)),
                out_bool(x.is_zero()),
            ]
            .join(" ")
        }
        "clamp" => out_uint(&Ord::clamp(u(0), u(1), u(2))),
        _ => format!("X unknown-fn {f}"),
    }
}

fn main() {
    serve(|f, bits, a| with_bits!(bits, run(f, a)));
}
