// C08: byte encodings and decodings through the public API of src/bytes.rs.
use ruint::Uint;
use vharness::*;

/// Width dispatch with the byte length: (BITS, LIMBS, BYTES) triples, BYTES listed literally.
/// W1 = BYTES + 1 and W2 = BYTES - 1 (2 when BYTES = 0) are the "wrong N" instantiations.
macro_rules! with_bytes {
    ($bits:expr, $f:ident $args:tt) => {
        with_bytes!(@m $bits, $f $args;
            0 0 0, 1 1 1, 2 1 1, 3 1 1, 5 1 1, 7 1 1, 8 1 1, 9 1 2, 16 1 2, 31 1 4, 33 1 5,
            60 1 8, 63 1 8, 64 1 8, 65 2 9, 66 2 9, 96 2 12, 127 2 16, 128 2 16, 129 3 17,
            130 3 17, 190 3 24, 192 3 24, 250 4 32, 255 4 32, 256 4 32, 257 5 33, 320 5 40,
            384 6 48, 512 8 64, 520 9 65, 536 9 67, 1024 16 128, 1030 17 129, 2048 32 256,
            4096 64 512)
    };
    (@m $bits:expr, $f:ident $args:tt; $($b:literal $l:literal $y:literal),*) => {
        match $bits {
            $( $b => $f::<$b, $l, $y, { $y + 1 }, { if $y > 0 { $y - 1 } else { 2 } }> $args, )*
            _ => format!("X unsupported-width"),
        }
    };
}

fn arr<const N: usize>(v: &[u8]) -> [u8; N] {
    v.try_into().expect("harness: wrong array length")
}

fn out_copy(n: usize, buf: &[u8]) -> String {
    format!("{} {}", out_z(n as u128), out_bytes(buf))
}
fn out_ccopy(r: Option<usize>, buf: &[u8]) -> String {
    match r {
        Some(n) => format!("S {} {}", out_z(n as u128), out_bytes(buf)),
        None => format!("N {}", out_bytes(buf)),
    }
}

fn run<const BITS: usize, const LIMBS: usize, const BYTES: usize, const W1: usize, const W2: usize>(
    f: &str,
    a: &[&str],
) -> String {
    type U<const B: usize, const L: usize> = Uint<B, L>;
    let u = |i: usize| uint::<BITS, LIMBS>(a[i]);
    match f {
        "nbytes" => format!(
            "{} {}",
            out_z(ruint::nbytes(BITS) as u128),
            out_z(U::<BITS, LIMBS>::BYTES as u128)
        ),
        "as_le_slice" => out_bytes(u(0).as_le_slice()),
        "as_le_bytes" => out_bytes(&u(0).as_le_bytes()),
        "as_le_bytes_trimmed" => out_bytes(&u(0).as_le_bytes_trimmed()),
        "to_le_bytes" | "to_be_bytes" => {
            let n = zusize(a[0]);
            let x = u(1);
            let le = f == "to_le_bytes";
            if n == BYTES {
                out_bytes(&if le { x.to_le_bytes::<BYTES>() } else { x.to_be_bytes::<BYTES>() })
            } else if n == W1 {
                out_bytes(&if le { x.to_le_bytes::<W1>() } else { x.to_be_bytes::<W1>() })
            } else if n == W2 {
                out_bytes(&if le { x.to_le_bytes::<W2>() } else { x.to_be_bytes::<W2>() })
            } else {
                "X unsupported-N".into()
            }
        }
        "to_le_bytes_vec" => out_bytes(&u(0).to_le_bytes_vec()),
        "to_le_bytes_trimmed_vec" => out_bytes(&u(0).to_le_bytes_trimmed_vec()),
        "to_be_bytes_vec" => out_bytes(&u(0).to_be_bytes_vec()),
        "to_be_bytes_trimmed_vec" => out_bytes(&u(0).to_be_bytes_trimmed_vec()),
        "copy_le_bytes_to" => {
            let mut buf = bytes(a[1]);
            let n = u(0).copy_le_bytes_to(&mut buf);
            out_copy(n, &buf)
        }
        "copy_be_bytes_to" => {
            let mut buf = bytes(a[1]);
            let n = u(0).copy_be_bytes_to(&mut buf);
            out_copy(n, &buf)
        }
        "checked_copy_le_bytes_to" => {
            let mut buf = bytes(a[1]);
            let r = u(0).checked_copy_le_bytes_to(&mut buf);
            out_ccopy(r, &buf)
        }
        "checked_copy_be_bytes_to" => {
            let mut buf = bytes(a[1]);
            let r = u(0).checked_copy_be_bytes_to(&mut buf);
            out_ccopy(r, &buf)
        }
        "from_be_bytes" | "from_le_bytes" => {
            let v = bytes(a[0]);
            let be = f == "from_be_bytes";
            let r: U<BITS, LIMBS> = if v.len() == BYTES {
                if be { U::from_be_bytes::<BYTES>(arr(&v)) } else { U::from_le_bytes::<BYTES>(arr(&v)) }
            } else if v.len() == W1 {
                if be { U::from_be_bytes::<W1>(arr(&v)) } else { U::from_le_bytes::<W1>(arr(&v)) }
            } else if v.len() == W2 {
                if be { U::from_be_bytes::<W2>(arr(&v)) } else { U::from_le_bytes::<W2>(arr(&v)) }
            } else {
                return "X unsupported-N".into();
            };
            out_uint(&r)
        }
        "from_be_slice" => out_uint(&U::<BITS, LIMBS>::from_be_slice(&bytes(a[0]))),
        "from_le_slice" => out_uint(&U::<BITS, LIMBS>::from_le_slice(&bytes(a[0]))),
        "try_from_be_slice" => out_opt(U::<BITS, LIMBS>::try_from_be_slice(&bytes(a[0]))),
        "try_from_le_slice" => out_opt(U::<BITS, LIMBS>::try_from_le_slice(&bytes(a[0]))),
        "roundtrip" => {
            let x = u(1);
            let r: Option<U<BITS, LIMBS>> = match z64(a[0]) {
                0 => U::try_from_le_slice(&x.as_le_bytes()),
                1 => U::try_from_le_slice(&x.as_le_bytes_trimmed()),
                2 => U::try_from_be_slice(&x.to_be_bytes_vec()),
                3 => U::try_from_be_slice(&x.to_be_bytes_trimmed_vec()),
                4 => Some(U::from_le_bytes::<BYTES>(x.to_le_bytes::<BYTES>())),
                5 => Some(U::from_be_bytes::<BYTES>(x.to_be_bytes::<BYTES>())),
                _ => return "X bad-shape".into(),
            };
            out_opt(r)
        }
        _ => format!("X unknown-fn {f}"),
    }
}

fn main() {
    serve(|f, bits, a| with_bytes!(bits, run(f, a)));
}
