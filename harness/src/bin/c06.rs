// C06: bitwise logic, bit access and bit counting through every public surface.
use ruint::Uint;
use vharness::*;

fn bitop<const BITS: usize, const LIMBS: usize>(
    op: u8,
    shape: u64,
    x: Uint<BITS, LIMBS>,
    y: Uint<BITS, LIMBS>,
) -> Option<Uint<BITS, LIMBS>> {
    Some(match (op, shape) {
        (0, 0) => x & y,
        (0, 1) => x & &y,
        (0, 2) => &x & y,
        (0, 3) => &x & &y,
        (0, 4) => { let mut t = x; t &= y; t }
        (0, 5) => { let mut t = x; t &= &y; t }
        (1, 0) => x | y,
        (1, 1) => x | &y,
        (1, 2) => &x | y,
        (1, 3) => &x | &y,
        (1, 4) => { let mut t = x; t |= y; t }
        (1, 5) => { let mut t = x; t |= &y; t }
        (2, 0) => x ^ y,
        (2, 1) => x ^ &y,
        (2, 2) => &x ^ y,
        (2, 3) => &x ^ &y,
        (2, 4) => { let mut t = x; t ^= y; t }
        (2, 5) => { let mut t = x; t ^= &y; t }
        _ => return None,
    })
}

fn run<const BITS: usize, const LIMBS: usize>(f: &str, a: &[&str]) -> String {
    let u = |i: usize| uint::<BITS, LIMBS>(a[i]);
    let cnt = |n: usize| out_z(n as u128);
    match f {
        "op_not" => {
            let x = u(1);
            let r = match z64(a[0]) {
                0 => Uint::not(x),
                1 => !x,
                2 => !&x,
                _ => return "X bad-shape".into(),
            };
            out_uint(&r)
        }
        "op_and" | "op_or" | "op_xor" => {
            let op = match f { "op_and" => 0, "op_or" => 1, _ => 2 };
            match bitop(op, z64(a[0]), u(1), u(2)) {
                Some(r) => out_uint(&r),
                None => "X bad-shape".into(),
            }
        }
        "bit" => out_bool(u(0).bit(zusize(a[1]))),
        "set_bit" => {
            let mut x = u(0);
            x.set_bit(zusize(a[1]), boolean(a[2]));
            out_uint(&x)
        }
        "byte" => out_z(u(0).byte(zusize(a[1])) as u128),
        "checked_byte" => match u(0).checked_byte(zusize(a[1])) {
            Some(b) => format!("S {}", out_z(b as u128)),
            None => "N".into(),
        },
        "reverse_bits" => out_uint(&u(0).reverse_bits()),
        "leading_zeros" => cnt(u(0).leading_zeros()),
        "leading_ones" => cnt(u(0).leading_ones()),
        "trailing_zeros" => cnt(u(0).trailing_zeros()),
        "trailing_ones" => cnt(u(0).trailing_ones()),
        "count_ones" => cnt(u(0).count_ones()),
        "count_zeros" => cnt(u(0).count_zeros()),
        "bit_len" => cnt(u(0).bit_len()),
        "byte_len" => cnt(u(0).byte_len()),
        "most_significant_bits" => {
            let (b, e) = u(0).most_significant_bits();
            format!("{} {}", out_z(b as u128), cnt(e))
        }
        "is_power_of_two" => out_bool(u(0).is_power_of_two()),
        "checked_next_power_of_two" => out_opt(u(0).checked_next_power_of_two()),
        "next_power_of_two" => out_uint(&u(0).next_power_of_two()),
        _ => format!("X unknown-fn {f}"),
    }
}

fn main() {
    serve(|f, bits, a| with_bits!(bits, run(f, a)));
}
