//! Shared plumbing of the correspondence harness: token parsing/printing,
//! panic capture and width dispatch. Nothing here encodes expected results.
use ruint::Uint;
use std::io::{BufRead, Write};
use std::panic::{catch_unwind, AssertUnwindSafe};

pub const WIDTHS: &[usize] = &[
    0, 1, 2, 3, 4, 5, 7, 8, 9, 16, 31, 33, 60, 63, 64, 65, 66, 96, 127, 128, 129, 130, 190, 192, 250,
    255, 256, 257, 320, 384, 512, 520, 536, 1024, 1030, 2048, 4096,
];

/// Expands `$f::<BITS, LIMBS>($($arg),*)` for the runtime width `$bits`.
#[macro_export]
macro_rules! with_bits {
    ($bits:expr, $f:ident $args:tt) => {
        $crate::with_bits!(@m $bits, $f $args;
            0 0, 1 1, 2 1, 3 1, 4 1, 5 1, 7 1, 8 1, 9 1, 16 1, 31 1, 33 1, 60 1, 63 1, 64 1, 65 2,
            66 2, 96 2, 127 2, 128 2, 129 3, 130 3, 190 3, 192 3, 250 4, 255 4, 256 4, 257 5,
            320 5, 384 6, 512 8, 520 9, 536 9, 1024 16, 1030 17, 2048 32, 4096 64)
    };
    (@m $bits:expr, $f:ident $args:tt; $($b:literal $l:literal),*) => {
        match $bits {
            $( $b => $f::<$b, $l> $args, )*
            _ => format!("X unsupported-width"),
        }
    };
}

pub fn hex_u64(s: &str) -> u64 {
    u64::from_str_radix(s, 16).expect("bad u64")
}
pub fn hex_u128(s: &str) -> u128 {
    u128::from_str_radix(s, 16).expect("bad u128")
}
fn strip<'a>(tok: &'a str, tag: &str) -> &'a str {
    tok.strip_prefix(tag).unwrap_or_else(|| panic!("expected {tag} token, got {tok}"))
}
/// `L:a,b,c` -> limbs
pub fn limbs(tok: &str) -> Vec<u64> {
    let s = strip(tok, "L:");
    if s.is_empty() {
        return vec![];
    }
    s.split(',').map(hex_u64).collect()
}
/// `LL:a,b;c,d;` -> list of limb lists, each item terminated by `;` (`LL:` = no items)
pub fn limbs_list(tok: &str) -> Vec<Vec<u64>> {
    let s = strip(tok, "LL:");
    if s.is_empty() {
        return vec![];
    }
    s[..s.len() - 1]
        .split(';')
        .map(|p| if p.is_empty() { vec![] } else { p.split(',').map(hex_u64).collect() })
        .collect()
}
pub fn z64(tok: &str) -> u64 {
    hex_u64(strip(tok, "Z:"))
}
pub fn z128(tok: &str) -> u128 {
    hex_u128(strip(tok, "Z:"))
}
pub fn zusize(tok: &str) -> usize {
    z64(tok) as usize
}
pub fn boolean(tok: &str) -> bool {
    strip(tok, "B:") == "1"
}
/// `Y:0a0b` -> bytes
pub fn bytes(tok: &str) -> Vec<u8> {
    let s = strip(tok, "Y:");
    (0..s.len() / 2).map(|i| u8::from_str_radix(&s[2 * i..2 * i + 2], 16).unwrap()).collect()
}
/// Harness-side construction of an argument value. Arguments are always canonical
/// (the generator guarantees it); `from_limbs` would panic otherwise.
pub fn uint<const BITS: usize, const LIMBS: usize>(tok: &str) -> Uint<BITS, LIMBS> {
    let v = limbs(tok);
    let arr: [u64; LIMBS] = v.try_into().expect("wrong limb count");
    Uint::from_limbs(arr)
}

pub fn out_limbs(l: &[u64]) -> String {
    let v: Vec<String> = l.iter().map(|x| format!("{x:x}")).collect();
    format!("L:{}", v.join(","))
}
pub fn out_uint<const BITS: usize, const LIMBS: usize>(u: &Uint<BITS, LIMBS>) -> String {
    out_limbs(u.as_limbs())
}
pub fn out_bool(b: bool) -> String {
    format!("B:{}", u8::from(b))
}
pub fn out_z(z: u128) -> String {
    format!("Z:{z:x}")
}
pub fn out_bytes(b: &[u8]) -> String {
    let v: Vec<String> = b.iter().map(|x| format!("{x:02x}")).collect();
    format!("Y:{}", v.join(""))
}
pub fn out_opt<const BITS: usize, const LIMBS: usize>(o: Option<Uint<BITS, LIMBS>>) -> String {
    match o {
        Some(v) => format!("S {}", out_uint(&v)),
        None => "N".to_string(),
    }
}
pub fn out_pair<const BITS: usize, const LIMBS: usize>(p: (Uint<BITS, LIMBS>, bool)) -> String {
    format!("{} {}", out_uint(&p.0), out_bool(p.1))
}

/// Reads case lines `fn bits tok*` from stdin, writes one result line per case:
/// the tokens returned by `f`, `P` when the call panicked, `X ...` for harness errors.
pub fn serve(f: impl Fn(&str, usize, &[&str]) -> String) {
    std::panic::set_hook(Box::new(|_| {}));
    let stdin = std::io::stdin();
    let stdout = std::io::stdout();
    let mut out = std::io::BufWriter::new(stdout.lock());
    for line in stdin.lock().lines() {
        let line = line.unwrap();
        let parts: Vec<&str> = line.split_whitespace().collect();
        if parts.len() < 2 {
            writeln!(out, "X malformed").unwrap();
            continue;
        }
        let bits: usize = parts[1].parse().unwrap();
        if parts[0] == "__hooks" {
            // coverage counters of this process (ruint built with --cfg recmo_uint_verif)
            writeln!(out, "{}", hooks_line()).unwrap();
            continue;
        }
        let r = catch_unwind(AssertUnwindSafe(|| f(parts[0], bits, &parts[2..])));
        match r {
            Ok(s) => writeln!(out, "{s}").unwrap(),
            Err(_) => writeln!(out, "P").unwrap(),
        }
    }
    out.flush().unwrap();
}

/// Counters of `ruint::verif_hooks` (all zero when the crate was built without the guard).
pub fn hooks_line() -> String {
    #[cfg(recmo_uint_verif)]
    {
        out_limbs(&ruint::verif_hooks::snapshot())
    }
    #[cfg(not(recmo_uint_verif))]
    {
        "L:".to_string()
    }
}
