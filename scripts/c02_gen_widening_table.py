# generates the widening_mul dispatch table of harness/src/bin/c02.rs
W = [0,1,2,3,5,7,8,9,16,31,33,60,63,64,65,66,96,127,128,129,130,190,192,250,255,256,257,320,384,512,520,536,1024,1030,2048,4096]
G = [0,1,7,63,64,65,128,129,192,256]
R = [0,1,64,65,129]
nl = lambda b: (b+63)//64
pairs = sorted(set([(a,b) for a in W for b in R] + [(a,b) for a in G for b in G]))
rows = [(a,nl(a),b,nl(b),a+b,nl(a+b)) for a,b in pairs]
# wrong BITS_RES (LIMBS_RES = nlimbs(BITS_RES) so that the type is well-formed): first assert_eq! fires
bad = [(64,64,127),(64,64,129),(1,1,1),(0,0,1),(65,63,129),(128,128,255),(7,7,15),(0,64,0),(256,256,511),(63,1,65)]
rows += [(a,nl(a),b,nl(b),r,nl(r)) for a,b,r in bad]
out=[]
line=""
for r in rows:
    s="%d %d %d %d %d %d, " % r
    if len(line)+len(s) > 96:
        out.append(line.rstrip()); line=""
    line+=s
out.append(line.rstrip().rstrip(","))
print("\n".join("            "+l for l in out))
import sys
print(len(rows), file=sys.stderr)
