#!/bin/bash
# M3: break the crate in a private copy and check that ./check C18 notices.
cd /tmp/w_c18
cp harness/Cargo.toml harness/Cargo.toml.orig
sed -i 's#path = "/repo"#path = "/tmp/w_c18/repo_mut"#' harness/Cargo.toml
apply() {
  rm -rf repo_mut; cp -a /repo repo_mut; rm -rf repo_mut/target
  case $1 in
    A) (cd repo_mut && git show 6262944 -- src/from.rs | patch -R -p1 -s) ;;
    B) sed -i 's/if value < 0.5 {/if value <= 0.5 {/' repo_mut/src/from.rs ;;
    C) sed -i 's/if value >= modulus {/if value > modulus {/' repo_mut/src/from.rs ;;
    D) sed -i 's/(hi << leading_zeros) | (lo >> (64 - leading_zeros))/hi << leading_zeros/' repo_mut/src/bits.rs ;;
    E) python3 - <<'PY'
p='/tmp/w_c18/repo_mut/src/from.rs'
s=open(p).read()
i=s.index('for f32 {\n    /// Approximate single precision float.')
j=s.index('(bits as Self) * (exponent as Self).exp2()', i)
s=s[:j]+'((bits as f64) as Self) * (exponent as Self).exp2()'+s[j+len('(bits as Self) * (exponent as Self).exp2()'):]
open(p,'w').write(s)
PY
    ;;
    F) python3 - <<'PY'
p='/tmp/w_c18/repo_mut/src/from.rs'
s=open(p).read()
i=s.index('if value < 0.0 {')
j=s.index('.wrapping_neg();', i)
s=s[:j]+';'+s[j+len('.wrapping_neg();'):]
open(p,'w').write(s)
PY
    ;;
    G) sed -i 's/let half = 1_u64 << (shift - 1);/let half = (1_u64 << (shift - 1)) - 1;/' repo_mut/src/from.rs ;;
  esac
  (cd repo_mut && git diff --stat | tail -1)
}
for m in "$@"; do
  echo "== mutant $m"; apply $m
  ./check C18 --no-proof 2>&1 | grep -E "VIOLATION|exit=" | head -3
done
mv harness/Cargo.toml.orig harness/Cargo.toml
rm -rf repo_mut
echo done-mutants
