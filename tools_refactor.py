#!/usr/bin/env python3
"""tools_refactor.py <rid> <check ids...>: apply the behaviour-preserving patch /tmp/mut_out/<rid>/patch.diff in the
scratch worktree /tmp/mut_<rid> (following /repo HEAD), run the listed checks in a private copy of /verif whose
harness points at that worktree, and report any alarm (there must be none)."""
import json, os, subprocess, sys
rid = sys.argv[1]; checks = sys.argv[2:]
W = "/tmp/mut_%s" % rid; V = "/tmp/w_ref_%s" % rid
def sh(cmd, cwd=None, timeout=7200):
    p = subprocess.run(cmd, shell=True, cwd=cwd, stdout=subprocess.PIPE, stderr=subprocess.STDOUT, text=True, timeout=timeout)
    return p.returncode, p.stdout
if not os.path.isdir(W):
    sh("git -C /repo worktree add --detach %s HEAD -q" % W)
sh("git reset -q --hard && git clean -fdq", W)
head = sh("git -C /repo rev-parse HEAD")[1].strip()
sh("git checkout -q --detach %s" % head, W)
rc, out = sh("git apply /tmp/mut_out/%s/patch.diff" % rid, W)
if rc != 0:
    rc, out = sh("git apply --3way /tmp/mut_out/%s/patch.diff && git reset -q" % rid, W)
res = {"patch_applies": rc == 0, "apply_log": out[-500:], "checks": {}}
rc, out = sh("cargo build --offline 2>&1 | tail -1", W)
res["builds"] = "Finished" in out
sh("mkdir -p %s && rsync -a --delete --exclude replays --exclude evidence /verif/ %s/" % (V, V))
ct = open(V + "/harness/Cargo.toml").read().replace('path = "/repo"', 'path = "%s"' % W)
open(V + "/harness/Cargo.toml", "w").write(ct)
for cid in checks:
    rc, out = sh("./check %s 2>&1 | tail -3" % cid, V)
    res["checks"][cid] = out.strip().splitlines()[-2:]
    json.dump(res, open("/tmp/mut_out/res_ref_%s.json" % rid, "w"), indent=1)
sh("git reset -q --hard && git clean -fdq", W)
import shutil
shutil.rmtree(V, ignore_errors=True)
print(json.dumps(res, indent=1))
