#!/usr/bin/env python3
"""tools_sweep.py [--n N] [--workers K] [--seed S] [--files f1,f2,...] [--out DIR]

Mutation-adequacy sweep of the correspondence checks (development tool, not a registered check).
Generates syntactic mutants (operator, constant and method swaps) of the source files the
properties are anchored in, applies each one in a scratch worktree of /repo (never in /repo
itself), and runs the checks of the properties anchored in that file from a private copy of
/verif whose harness points at the worktree (./check <id> --no-proof: the proofs are about the
model and do not change; the verdict comes from the correspondence run). A mutant no check
notices is run through the pinned test suite; if the suite passes too it is written to
<out>/survivors.jsonl for triage (equivalent mutant, code outside every property, or a gap in a
generator). Everything lives under <out> (default /tmp/sweep) and is removed by --clean."""
import argparse, json, os, random, re, shutil, subprocess, sys, threading, time

VERIF = os.path.dirname(os.path.abspath(__file__))


def sh(cmd, cwd=None, timeout=3000):
    try:
        p = subprocess.run(cmd, shell=True, cwd=cwd, stdout=subprocess.PIPE, stderr=subprocess.STDOUT,
                           text=True, timeout=timeout)
        return p.returncode, p.stdout
    except subprocess.TimeoutExpired:
        return 124, "timeout"


def file_props():
    fp = {}
    props = [json.loads(l) for l in open(os.path.join(VERIF, "properties.jsonl"))]
    props.sort(key=lambda p: len(p["anchors"]["files"]))
    for p in props:
        for f in p["anchors"]["files"]:
            fp.setdefault(f, []).append(p["id"])
    return fp


OPS = [
    (r" <= ", [" < "]), (r" < ", [" <= "]), (r" >= ", [" > "]), (r" > ", [" >= "]),
    (r" == ", [" != "]), (r" != ", [" == "]),
    (r" \+ ", [" - "]), (r" - ", [" + "]), (r" \* ", [" + "]),
    (r" << ", [" >> "]), (r" >> ", [" << "]),
    (r" & ", [" | "]), (r" \| ", [" & "]), (r" \^ ", [" | "]),
    (r" && ", [" || "]), (r" \|\| ", [" && "]),
    (r" \+= ", [" -= "]), (r" -= ", [" += "]), (r" \|= ", [" &= "]), (r" &= ", [" |= "]),
    (r"\b64\b", ["63", "65"]), (r"\b63\b", ["64", "62"]), (r"\b1\b", ["0", "2"]), (r"\b0\b", ["1"]),
    (r"\b8\b", ["7"]), (r"\b128\b", ["127"]), (r"\b127\b", ["128"]),
    (r"wrapping_add", ["wrapping_sub"]), (r"wrapping_sub", ["wrapping_add"]),
    (r"overflowing_add", ["overflowing_sub"]), (r"overflowing_sub", ["overflowing_add"]),
    (r"leading_zeros", ["trailing_zeros"]), (r"trailing_zeros", ["leading_zeros"]),
    (r"\.min\(", [".max("]), (r"\.max\(", [".min("]),
    (r"\btrue\b", ["false"]), (r"\bfalse\b", ["true"]),
    (r"if !", ["if "]), (r"\.rev\(\)", [""]),
    (r"Self::MASK", ["u64::MAX"]), (r"Self::BITS", ["(Self::BITS + 1)"]), (r"\bBITS\b", ["(BITS + 1)"]),
    (r"Self::LIMBS", ["(Self::LIMBS - 1)"]), (r"\bLIMBS\b", ["(LIMBS - 1)"]),
    (r"\.is_zero\(\)", [".is_zero() == false"]), (r"Some\(", ["None.or(Some("]),
]


def code_lines(path):
    """Indices of lines that are live code (no comments, attributes, tests, debug assertions)."""
    out = []
    txt = open(path).read().split("\n")
    in_test = False
    for i, ln in enumerate(txt):
        s = ln.strip()
        if s.startswith("#[cfg(test)]"):
            in_test = True
        if in_test:
            continue
        if not s or s.startswith("//") or s.startswith("#[") or s.startswith("#![") or s.startswith("use "):
            continue
        if "debug_assert" in s or "assume!" in s or s.startswith("pub use") or s.startswith("mod "):
            continue
        if "verif_hooks" in s or "cfg(" in s:
            continue
        if re.match(r"^\d[\d, ]*,?$", s):      # numeric table rows: one mutant class is enough (C14 tie)
            continue
        out.append(i)
    return txt, out


def mutants_for(repo, rel, rng):
    path = os.path.join(repo, rel)
    txt, idx = code_lines(path)
    ms = []
    for i in idx:
        ln = txt[i]
        code = ln.split("//")[0]
        for pat, reps in OPS:
            for m in re.finditer(pat, code):
                for r in reps:
                    new = ln[:m.start()] + r + ln[m.end():]
                    if r.startswith("None.or("):
                        continue
                    ms.append({"file": rel, "line": i + 1, "old": ln, "new": new, "op": pat + "->" + r})
    return ms


class Worker(threading.Thread):
    def __init__(self, k, q, out, lock, fp):
        super().__init__()
        self.k, self.q, self.out, self.lock, self.fp = k, q, out, lock, fp
        self.W = os.path.join(out, "repo_%d" % k)
        self.V = os.path.join(out, "verif_%d" % k)

    def setup(self):
        if not os.path.isdir(self.W):
            sh("git -C /repo worktree add --detach %s HEAD -q" % self.W)
        sh("git reset -q --hard && git clean -fdq -e target", self.W)
        sh("mkdir -p %s && rsync -a --delete --exclude replays --exclude evidence --exclude .git %s/ %s/" % (self.V, VERIF, self.V))
        ct = open(self.V + "/harness/Cargo.toml").read().replace('path = "/repo"', 'path = "%s"' % self.W)
        open(self.V + "/harness/Cargo.toml", "w").write(ct)

    def run(self):
        self.setup()
        while True:
            with self.lock:
                if not self.q:
                    return
                m = self.q.pop()
            res = self.one(m)
            with self.lock:
                with open(os.path.join(self.out, "results.jsonl"), "a") as f:
                    f.write(json.dumps(res) + "\n")
                if res["status"] == "survived":
                    with open(os.path.join(self.out, "survivors.jsonl"), "a") as f:
                        f.write(json.dumps(res) + "\n")
                print("[w%d] %s:%d %s -> %s %s" % (self.k, m["file"], m["line"], m["op"], res["status"], res.get("caught_by", "")), flush=True)

    def one(self, m):
        t0 = time.time()
        path = os.path.join(self.W, m["file"])
        orig = open(path).read()
        lines = orig.split("\n")
        assert lines[m["line"] - 1] == m["old"]
        lines[m["line"] - 1] = m["new"]
        open(path, "w").write("\n".join(lines))
        res = dict(m)
        try:
            feats = ""
            if "/support/" in m["file"]:
                feats = ' --features "serde rlp alloy-rlp fastrlp fastrlp-04 parity-scale-codec ssz borsh der num-bigint primitive-types bytemuck postgres ark-ff ark-ff-04 num-traits num-integer subtle zeroize rand rand-09 arbitrary proptest quickcheck"'
            rc, out = sh("cargo build --offline%s 2>&1 | tail -3" % feats, self.W, 900)
            if "Finished" not in out:
                res["status"] = "no-compile"
                return res
            res["checks"] = {}
            for pid in self.fp.get(m["file"], []):
                rc, out = sh("./check %s --no-proof 2>&1 | tail -3" % pid, self.V, 2400)
                viol = [l for l in out.splitlines() if l.startswith("VIOLATION")]
                res["checks"][pid] = (viol[0] if viol else "pass")
                if viol:
                    res["status"] = "caught"
                    res["caught_by"] = pid
                    res["nfi"] = viol[0].endswith("no-failing-input-found")
                    mm = re.search(r"replay=(\S+)", viol[0])
                    if mm and os.path.exists(mm.group(1)):
                        try:
                            res["replay_case"] = json.load(open(mm.group(1))).get("case")
                        except Exception:
                            pass
                    return res
            rc, out = sh("cargo test --workspace --no-fail-fast --offline 2>&1 | grep 'test result'", self.W, 1800)
            ls = out.strip().splitlines()
            suite_ok = len(ls) >= 4 and all(" ok." in l and " 0 failed" in l for l in ls)
            res["suite_passes"] = suite_ok
            res["status"] = "survived" if suite_ok else "killed-by-suite-only"
            return res
        finally:
            open(path, "w").write(orig)
            res["wall_s"] = round(time.time() - t0, 1)


def main():
    ap = argparse.ArgumentParser()
    ap.add_argument("--n", type=int, default=100)
    ap.add_argument("--workers", type=int, default=4)
    ap.add_argument("--seed", type=int, default=1)
    ap.add_argument("--files", default="")
    ap.add_argument("--out", default="/tmp/sweep")
    ap.add_argument("--clean", action="store_true")
    a = ap.parse_args()
    if a.clean:
        for k in range(32):
            W = os.path.join(a.out, "repo_%d" % k)
            if os.path.isdir(W):
                sh("git -C /repo worktree remove --force %s" % W)
            shutil.rmtree(os.path.join(a.out, "verif_%d" % k), ignore_errors=True)
        sh("git -C /repo worktree prune")
        return
    os.makedirs(a.out, exist_ok=True)
    fp = file_props()
    files = [f for f in a.files.split(",") if f] or sorted(fp)
    rng = random.Random(a.seed)
    allm = []
    for f in files:
        ms = mutants_for("/repo", f, rng)
        rng.shuffle(ms)
        # stratify: at most ~sqrt-proportional share per file
        allm.append(ms)
    done = set()
    rp = os.path.join(a.out, "results.jsonl")
    if os.path.exists(rp):
        for l in open(rp):
            r = json.loads(l)
            done.add((r["file"], r["line"], r["op"]))
    # round-robin over files so that every file is sampled
    q = []
    while len(q) < a.n and any(allm):
        for ms in allm:
            if ms and len(q) < a.n:
                m = ms.pop()
                if (m["file"], m["line"], m["op"]) not in done:
                    q.append(m)
    q.reverse()
    print("queue: %d mutants over %d files" % (len(q), len(files)), flush=True)
    lock = threading.Lock()
    ws = [Worker(k, q, a.out, lock, fp) for k in range(a.workers)]
    for w in ws:
        w.start()
    for w in ws:
        w.join()
    rs = [json.loads(l) for l in open(rp)] if os.path.exists(rp) else []
    st = {}
    for r in rs:
        st[r["status"]] = st.get(r["status"], 0) + 1
    print(json.dumps(st))


if __name__ == "__main__":
    main()
