#!/bin/sh
# Offline build of the framework: the whole Coq development (full .vo) and the harness bins.
set -e
cd "$(dirname "$0")"
export CARGO_NET_OFFLINE=true
python3 tools_rs2v.py >/dev/null   # coq/Gen/Scalar.v from /repo's current source text
sh coq/mkproject.sh
# -k: one file that does not compile must not block the others (each check builds its own target)
if ! ( cd coq && timeout 7200 make -j16 -k >../_build_coq.log 2>&1 ); then
  # damaged build products (an interrupted or copied half-finished build): rebuild from the sources once
  echo "setup: Coq build failed; cleaning compiled files and rebuilding once"; tail -5 _build_coq.log
  find coq \( -name '*.vo' -o -name '*.vok' -o -name '*.vos' -o -name '*.glob' -o -name '.*.aux' \) -delete
  rm -f coq/Makefile coq/Makefile.conf coq/.Makefile.d coq/_CoqProject
  sh coq/mkproject.sh
  ( cd coq && timeout 7200 make -j16 -k >../_build_coq.log 2>&1 ) || { echo "setup: some Coq files did not compile (the checks that need them will say so)"; grep -B2 -A8 "^Error" _build_coq.log | head -40; }
fi
mkdir -p _build
[ -f harness/Cargo.lock ] || cp /repo/Cargo.lock harness/Cargo.lock
python3 tools_build_harness.py || echo "setup: some harness bins did not build (the checks that need them will say so)"
echo setup-ok
