#!/bin/sh
# Offline build of the framework: the whole Coq development (full .vo) and the harness bins.
set -e
cd "$(dirname "$0")"
export CARGO_NET_OFFLINE=true
sh coq/mkproject.sh
# -k: one file that does not compile must not block the others (each check builds its own target)
( cd coq && timeout 7200 make -j16 -k >/dev/null 2>&1 || echo "setup: some Coq files did not compile (the checks that need them will say so)" )
mkdir -p _build
[ -f harness/Cargo.lock ] || cp /repo/Cargo.lock harness/Cargo.lock
( cd harness && CARGO_TARGET_DIR=/verif/_build/target RUSTFLAGS="--cfg recmo_uint_verif -Awarnings" cargo build --offline --bins >/dev/null 2>&1 || true )
( cd harness && CARGO_TARGET_DIR=/verif/_build/target RUSTFLAGS="--cfg recmo_uint_verif -Awarnings" cargo build --offline --release --bins >/dev/null 2>&1 || true )
echo setup-ok
